(* Property C10 -- Per request id the caller-side wire carries one well-formed response.
   This file contains only statements, each closed by [exact].

   Grammar (Spec/WireOk.v, written from the property text): per request id the frames written
   back are  Res[last] | Res[more] Cont[more]* Cont[last] | a proper prefix of those + one Err
   | one Err;  [wire_prefix_ok l] = l is a prefix of an accepted word (a response may simply
   stop when the deadline passes or the connection is lost).

   Server side: Model/RespWire.v, an interleaving model of inbound.go / reqres.go /
   fragmenting_writer.go / mex.go / connection.go for one connection with any number of
   concurrent request ids (reader, one handler goroutine per call, expiry goroutines,
   deadline, cancel frames, close, connection failure).
   Relay side: Model/RelayItems.v (the model of C09); [wire_of k id (sent st)] are the frames
   the relay enqueued on connection k for id, oldest first. *)
From Coq Require Import ZArith List Bool.
From Verif Require Import Gen.GenConsts Spec.WireOk Proofs.WireOkP Model.RespWire Proofs.RespWireP Model.RelayCalm
  Model.RelayItems Proofs.RelaySilentP Proofs.RelayWireP.
Import ListNotations.
Local Open Scope Z_scope.

(* ---------------------------------------------------------------- server *)

(* For every run (all interleavings) and every id requested at most once whose handler calls
   SendSystemError at most once and never after completing the response (hypotheses on the
   labels only): the frames enqueued for the id are a prefix of an accepted word, nothing
   follows a terminal frame, there is at most one terminal frame, nothing is sent for an id
   never requested, and an id that was requested but not admitted gets nothing or one Err. *)
Theorem C10_server_grammar : forall prop ls st,
  RespWire.run prop ls = Some st ->
  forall id, (req_count id ls <= 1)%nat -> handler_ok id false ls = true ->
    wire_prefix_ok (proj id (RespWire.sent st)) = true /\
    (forall l1 k l2, proj id (RespWire.sent st) = l1 ++ k :: l2 -> terminal k = true -> l2 = []) /\
    (length (filter terminal (proj id (RespWire.sent st))) <= 1)%nat /\
    (req_count id ls = O -> proj id (RespWire.sent st) = []) /\
    (get id (calls st) = None -> proj id (RespWire.sent st) = [] \/ proj id (RespWire.sent st) = [Err]).
Proof. exact respwire_grammar_labels. Qed.
Print Assumptions C10_server_grammar.

(* The same with the exact (semantic) handler condition: the handler never got past the error
   check of SendSystemError after doneSending had run. *)
Theorem C10_server_grammar_sem : forall prop ls st,
  RespWire.run prop ls = Some st ->
  forall id, (count_req id (requested st) <= 1)%nat -> ~ In id (misused st) ->
    wire_prefix_ok (proj id (RespWire.sent st)) = true /\
    (forall l1 k l2, proj id (RespWire.sent st) = l1 ++ k :: l2 -> terminal k = true -> l2 = []) /\
    (length (filter terminal (proj id (RespWire.sent st))) <= 1)%nat /\
    (count_req id (requested st) = O -> proj id (RespWire.sent st) = []) /\
    (get id (calls st) = None -> proj id (RespWire.sent st) = [] \/ proj id (RespWire.sent st) = [Err]).
Proof. exact respwire_grammar. Qed.
Print Assumptions C10_server_grammar_sem.

(* [wire_prefix_ok] is exactly the prefix closure of the accepted words *)
Theorem C10_prefix_closure : forall l,
  wire_prefix_ok l = true <-> exists s, wire_ok (l ++ s) = true.
Proof. exact wire_prefix_ok_spec. Qed.
Print Assumptions C10_prefix_closure.

(* Outside the property's quantifier (handler or caller misuse) the hypotheses are needed: a
   handler that sends a system error after completing the response, a duplicate in-flight id. *)
Theorem C10_syserr_after_response_refuted :
  exists st, RespWire.run false misuse_labels = Some st /\ (count_req 7 (requested st) <= 1)%nat /\
             In 7 (misused st) /\ proj 7 (RespWire.sent st) = [Res false; Err] /\
             wire_prefix_ok (proj 7 (RespWire.sent st)) = false.
Proof. exact respwire_syserr_after_response_refuted. Qed.
Print Assumptions C10_syserr_after_response_refuted.

Theorem C10_duplicate_id_refuted :
  exists st, RespWire.run false dup_labels = Some st /\ count_req 7 (requested st) = 2%nat /\
             ~ In 7 (misused st) /\ proj 7 (RespWire.sent st) = [Err; Res false] /\
             wire_prefix_ok (proj 7 (RespWire.sent st)) = false /\
             cst st = CStartClose /\ stopped st = true.
Proof. exact respwire_duplicate_id_refuted. Qed.
Print Assumptions C10_duplicate_id_refuted.

(* ---------------------------------------------------------------- relay *)

(* FULL STATEMENT (false on this tree): for every fresh-id run of the relay whose destinations
   send well-formed responses, and every (k, id):  wire_prefix_ok (wire_of k id (sent st)) = true.
   REFUTED: Relayer.Receive looks the originating item up for a non-final response frame, the
   timeout of that item then entombs it and enqueues the error frame, Receive still enqueues the
   response frame: Err is followed by Res.  Known finding relay:response-frame-after-timeout-error. *)
Theorem C10_relay_grammar_refuted :
  exists ls st, run_fresh wit_cf init ls = Some st /\
    wire_of 0 7 (RelayItems.sent st) = [Err; Res true] /\ wire_prefix_ok (wire_of 0 7 (RelayItems.sent st)) = false.
Proof. exact relay_grammar_refuted_lemma. Qed.
Print Assumptions C10_relay_grammar_refuted.

(* PROVED PART, for ALL interleavings of fresh-id runs:
   (1) nothing is ever enqueued towards a caller for an id it did not request on that connection;
   (2) once the originating item of a request is a tombstone or gone and no goroutine is still
       committed to an enqueue for it ([settled]), nothing is enqueued for that id ever again:
       late frames of the destination are discarded (the tombstone mechanism).
   MISSING with respect to the full statement: that the frames enqueued BEFORE that point form a
   prefix of an accepted word when the destination's own frames do and no two goroutines
   overlap on the call.  That clause is not proved for the relay; it is checked on the
   implementation by the frame-grammar oracle of engines relaywire / respwire and by the
   model/implementation comparison of the per-connection frame logs (engine relaysched). *)
Theorem C10_relay_grammar_partial :
  (forall cf ls st k id, run_fresh cf init ls = Some st ->
     ~ In (k, id) (seen st) -> wire_of k id (RelayItems.sent st) = []) /\
  (forall cf ls0 st k id, run_fresh cf init ls0 = Some st -> settled st k id ->
     forall ls st', run_fresh cf st ls = Some st' ->
       wire_of k id (RelayItems.sent st') = wire_of k id (RelayItems.sent st)).
Proof. exact (conj relay_never_requested relay_late_frames_discarded). Qed.
Print Assumptions C10_relay_grammar_partial.

(* The timeout of the originating item (relayTimer -> timeoutRelayItem on a live item): what is
   left to do is exactly one timeout error frame for the id, Failed("timeout"), End and the
   decrement; the item is a tombstone (or gone) from then on, so that by (2) every later frame
   of that call is discarded once the error frame has been handed to the connection. *)
Theorem C10_relay_timeout : forall cf st k id it room st1 pushed,
  lookup key_eqb (k, 0, id) (items st) = Some it -> it_tomb it = false ->
  exec cf st (IEntomb (k, 0, id) (FromTimeout true)) room = (st1, pushed) ->
  pushed = [ISendErr k id c_ErrCodeTimeout; ICb (it_call it) (CbFailed reason_timeout); ICb (it_call it) CbEnd; IDec k] /\
  forall it', lookup key_eqb (k, 0, id) (items st1) = Some it' -> it_tomb it' = true.
Proof. exact relay_timeout_step. Qed.
Print Assumptions C10_relay_timeout.

(* Non-vacuity, server: a three-fragment response that satisfies the hypotheses. *)
Example C10_example :
  let ls := [RdCallReq1 5 false; RdCallReq2 true false; RdCallReq3 false; HStart 5 true; HResp 5;
             HArgWriter 5 1; HClose 5 false; HArgWriter 5 2; HFlush 5 false; HFlushSel 5 true;
             HNewFrag 5; HClose 5 false; HArgWriter 5 3; HFlush 5 true; HFlushSel 5 true;
             HNewFrag 5; HClose 5 false; HFlushSel 5 true; HDone 5] in
  req_count 5 ls = 1%nat /\ handler_ok 5 false ls = true /\
  exists st, RespWire.run true ls = Some st /\ proj 5 (RespWire.sent st) = [Res true; Cont true; Cont false]
             /\ wire_ok (proj 5 (RespWire.sent st)) = true.
Proof. cbn zeta. split; [reflexivity|]. split; [reflexivity|]. eexists. split; [vm_compute; reflexivity|]. split; vm_compute; reflexivity. Qed.

(* Non-vacuity, relay: the complete relayed call of C09_example leaves request (0,7) settled,
   with an accepted word on the caller's connection. *)
Example C10_relay_example :
  exists st, run_fresh wit_cf init calm_example = Some st /\
    threads st = [] /\ lookup key_eqb (0, 0, 7) (items st) = None /\ In (0, 7) (seen st) /\
    wire_of 0 7 (RelayItems.sent st) = [Res true; Cont false] /\ wire_ok (wire_of 0 7 (RelayItems.sent st)) = true.
Proof. eexists. split; [vm_compute; reflexivity|]. vm_compute. repeat split; try reflexivity. left. reflexivity. Qed.

(* ================================================================ strengthened statement (S09)

   THE GRAMMAR CLAUSE FOR THE RELAY, proved for every fresh-id schedule WITHOUT OVERLAP
   ([no_overlap], Model/RelayCalm.v: no goroutine acts on a call -- Get / Entomb / Delete
   hitting a live item of it, or the firing of one of its timers -- while another goroutine
   holds it, i.e. between that goroutine's lookup and the end of its frame handling), under the
   two hypotheses on the destination the clause needs:
     [dest_ok ls]   per connection and message id, the response-direction frames the destination
                    delivers are a prefix of an accepted word of Spec/WireOk.v;
     [causal cf ls] a destination does not send response frames for a message id the relay has
                    not yet allocated on that connection (without it the relay forwards the
                    tail of an earlier stream under a fresh id: found by search, see report).
   Conclusion, for every caller connection k and request id: the frames enqueued for (k, id) are
   a PREFIX OF AN ACCEPTED WORD, nothing follows a terminal frame, at most one terminal frame.
   MISSING with respect to the full statement: exactly the schedules with an overlap -- the class
   of the known finding relay:response-frame-after-timeout-error (C10_relay_grammar_refuted). *)
From Verif Require Import Model.RelayCalm Proofs.RelayCalmP Proofs.RelayGrammarP.

Theorem C10_relay_grammar_calm : forall cf ls st k id, run_fresh cf init ls = Some st ->
  no_overlap cf ls -> causal cf ls -> dest_ok ls ->
  wire_prefix_ok (wire_of k id (RelayItems.sent st)) = true /\
  (forall l1 x l2, wire_of k id (RelayItems.sent st) = l1 ++ x :: l2 -> terminal x = true -> l2 = []) /\
  (length (filter terminal (wire_of k id (RelayItems.sent st))) <= 1)%nat.
Proof. exact relay_grammar_calm. Qed.
Print Assumptions C10_relay_grammar_calm.

(* [calm] (the hypothesis of C09_silent_after_end_calm) implies [no_overlap]: one excluded class *)
Theorem C10_calm_no_overlap : forall cf ls, calm cf ls -> no_overlap cf ls.
Proof. exact calm_no_overlap. Qed.
Print Assumptions C10_calm_no_overlap.

(* Non-vacuity: the complete relayed call satisfies the three hypotheses; the refuting run of
   C10_relay_grammar_refuted is excluded by [no_overlap] only. *)
Example C10_calm_example : no_overlap wit_cf calm_example /\ causal wit_cf calm_example /\ dest_ok calm_example.
Proof. exact calm_example_hyps. Qed.
Example C10_refuting_run_overlaps : sched wit_cf no_overlap_step init [] wit_wire = false.
Proof. exact wit_wire_overlap. Qed.
