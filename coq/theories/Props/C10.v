(* Property C10 -- Per request id the caller-side wire carries one well-formed response.
   This file contains only statements, each closed by [exact].

   Grammar (Spec/WireOk.v, written from the property text): per request id the frames written
   back are  Res[last] | Res[more] Cont[more]* Cont[last] | a proper prefix of those + one Err
   | one Err;  [wire_prefix_ok l] = l is a prefix of an accepted word (a response may simply
   stop when the deadline passes or the connection is lost).

   Server side: Model/RespWire.v, an interleaving model of inbound.go / reqres.go /
   fragmenting_writer.go / mex.go / connection.go for one connection with any number of
   concurrent request ids (reader, one handler goroutine per call, expiry goroutines,
   deadline, cancel frames, close, connection failure).
   Relay side: Model/RelayItems.v (the model of C09); [wire_of k id (sent st)] are the frames
   the relay enqueued on connection k for id, oldest first. *)
From Coq Require Import ZArith List Bool.
From Verif Require Import Gen.GenConsts Spec.WireOk Proofs.WireOkP Model.RespWire Proofs.RespWireP Model.RelayCalm
  Model.RelayItems Proofs.RelaySilentP Proofs.RelayWireP.
Import ListNotations.
Local Open Scope Z_scope.

(* ---------------------------------------------------------------- server *)

(* For every run (all interleavings) and every id requested at most once whose handler calls
   SendSystemError at most once and never after completing the response (hypotheses on the
   labels only): the frames enqueued for the id are a prefix of an accepted word, nothing
   follows a terminal frame, there is at most one terminal frame, nothing is sent for an id
   never requested, and an id that was requested but not admitted gets nothing or one Err. *)
Theorem C10_server_grammar : forall prop ls st,
  RespWire.run prop ls = Some st ->
  forall id, (req_count id ls <= 1)%nat -> handler_ok id false ls = true ->
    wire_prefix_ok (proj id (RespWire.sent st)) = true /\
    (forall l1 k l2, proj id (RespWire.sent st) = l1 ++ k :: l2 -> terminal k = true -> l2 = []) /\
    (length (filter terminal (proj id (RespWire.sent st))) <= 1)%nat /\
    (req_count id ls = O -> proj id (RespWire.sent st) = []) /\
    (get id (calls st) = None -> proj id (RespWire.sent st) = [] \/ proj id (RespWire.sent st) = [Err]).
Proof. exact respwire_grammar_labels. Qed.
Print Assumptions C10_server_grammar.

(* The same with the exact (semantic) handler condition: the handler never got past the error
   check of SendSystemError after doneSending had run. *)
Theorem C10_server_grammar_sem : forall prop ls st,
  RespWire.run prop ls = Some st ->
  forall id, (count_req id (requested st) <= 1)%nat -> ~ In id (misused st) ->
    wire_prefix_ok (proj id (RespWire.sent st)) = true /\
    (forall l1 k l2, proj id (RespWire.sent st) = l1 ++ k :: l2 -> terminal k = true -> l2 = []) /\
    (length (filter terminal (proj id (RespWire.sent st))) <= 1)%nat /\
    (count_req id (requested st) = O -> proj id (RespWire.sent st) = []) /\
    (get id (calls st) = None -> proj id (RespWire.sent st) = [] \/ proj id (RespWire.sent st) = [Err]).
Proof. exact respwire_grammar. Qed.
Print Assumptions C10_server_grammar_sem.

(* [wire_prefix_ok] is exactly the prefix closure of the accepted words *)
Theorem C10_prefix_closure : forall l,
  wire_prefix_ok l = true <-> exists s, wire_ok (l ++ s) = true.
Proof. exact wire_prefix_ok_spec. Qed.
Print Assumptions C10_prefix_closure.

(* Outside the property's quantifier (handler or caller misuse) the hypotheses are needed: a
   handler that sends a system error after completing the response, a duplicate in-flight id. *)
Theorem C10_syserr_after_response_refuted :
  exists st, RespWire.run false misuse_labels = Some st /\ (count_req 7 (requested st) <= 1)%nat /\
             In 7 (misused st) /\ proj 7 (RespWire.sent st) = [Res false; Err] /\
             wire_prefix_ok (proj 7 (RespWire.sent st)) = false.
Proof. exact respwire_syserr_after_response_refuted. Qed.
Print Assumptions C10_syserr_after_response_refuted.

Theorem C10_duplicate_id_refuted :
  exists st, RespWire.run false dup_labels = Some st /\ count_req 7 (requested st) = 2%nat /\
             ~ In 7 (misused st) /\ proj 7 (RespWire.sent st) = [Err; Res false] /\
             wire_prefix_ok (proj 7 (RespWire.sent st)) = false /\
             cst st = CStartClose /\ stopped st = true.
Proof. exact respwire_duplicate_id_refuted. Qed.
Print Assumptions C10_duplicate_id_refuted.

(* ---------------------------------------------------------------- relay *)

(* FULL STATEMENT (false on this tree): for every fresh-id run of the relay whose destinations
   send well-formed responses, and every (k, id):  wire_prefix_ok (wire_of k id (sent st)) = true.
   REFUTED: Relayer.Receive looks the originating item up for a non-final response frame, the
   timeout of that item then entombs it and enqueues the error frame, Receive still enqueues the
   response frame: Err is followed by Res.  Known finding relay:response-frame-after-timeout-error. *)
Theorem C10_relay_grammar_refuted :
  exists ls st, run_fresh wit_cf init ls = Some st /\
    wire_of 0 7 (RelayItems.sent st) = [Err; Res true] /\ wire_prefix_ok (wire_of 0 7 (RelayItems.sent st)) = false.
Proof. exact relay_grammar_refuted_lemma. Qed.
Print Assumptions C10_relay_grammar_refuted.

(* PROVED PART, for ALL interleavings of fresh-id runs:
   (1) nothing is ever enqueued towards a caller for an id it did not request on that connection;
   (2) once the originating item of a request is a tombstone or gone and no goroutine is still
       committed to an enqueue for it ([settled]), nothing is enqueued for that id ever again:
       late frames of the destination are discarded (the tombstone mechanism).
   MISSING with respect to the full statement: that the frames enqueued BEFORE that point form a
   prefix of an accepted word when the destination's own frames do and no two goroutines
   overlap on the call.  That clause is not proved for the relay; it is checked on the
   implementation by the frame-grammar oracle of engines relaywire / respwire and by the
   model/implementation comparison of the per-connection frame logs (engine relaysched). *)
Theorem C10_relay_grammar_partial :
  (forall cf ls st k id, run_fresh cf init ls = Some st ->
     ~ In (k, id) (seen st) -> wire_of k id (RelayItems.sent st) = []) /\
  (forall cf ls0 st k id, run_fresh cf init ls0 = Some st -> settled st k id ->
     forall ls st', run_fresh cf st ls = Some st' ->
       wire_of k id (RelayItems.sent st') = wire_of k id (RelayItems.sent st)).
Proof. exact (conj relay_never_requested relay_late_frames_discarded). Qed.
Print Assumptions C10_relay_grammar_partial.

(* The timeout of the originating item (relayTimer -> timeoutRelayItem on a live item): what is
   left to do is exactly one timeout error frame for the id, Failed("timeout"), End and the
   decrement; the item is a tombstone (or gone) from then on, so that by (2) every later frame
   of that call is discarded once the error frame has been handed to the connection. *)
Theorem C10_relay_timeout : forall cf st k id it room st1 pushed,
  lookup key_eqb (k, 0, id) (items st) = Some it -> it_tomb it = false ->
  exec cf st (IEntomb (k, 0, id) (FromTimeout true)) room = (st1, pushed) ->
  pushed = [ISendErr k id c_ErrCodeTimeout; ICb (it_call it) (CbFailed reason_timeout); ICb (it_call it) CbEnd; IDec k] /\
  forall it', lookup key_eqb (k, 0, id) (items st1) = Some it' -> it_tomb it' = true.
Proof. exact relay_timeout_step. Qed.
Print Assumptions C10_relay_timeout.

(* Non-vacuity, server: a three-fragment response that satisfies the hypotheses. *)
Example C10_example :
  let ls := [RdCallReq1 5 false; RdCallReq2 true false; RdCallReq3 false; HStart 5 true; HResp 5;
             HArgWriter 5 1; HClose 5 false; HArgWriter 5 2; HFlush 5 false; HFlushSel 5 true;
             HNewFrag 5; HClose 5 false; HArgWriter 5 3; HFlush 5 true; HFlushSel 5 true;
             HNewFrag 5; HClose 5 false; HFlushSel 5 true; HDone 5] in
  req_count 5 ls = 1%nat /\ handler_ok 5 false ls = true /\
  exists st, RespWire.run true ls = Some st /\ proj 5 (RespWire.sent st) = [Res true; Cont true; Cont false]
             /\ wire_ok (proj 5 (RespWire.sent st)) = true.
Proof. cbn zeta. split; [reflexivity|]. split; [reflexivity|]. eexists. split; [vm_compute; reflexivity|]. split; vm_compute; reflexivity. Qed.

(* Non-vacuity, relay: the complete relayed call of C09_example leaves request (0,7) settled,
   with an accepted word on the caller's connection. *)
Example C10_relay_example :
  exists st, run_fresh wit_cf init calm_example = Some st /\
    threads st = [] /\ lookup key_eqb (0, 0, 7) (items st) = None /\ In (0, 7) (seen st) /\
    wire_of 0 7 (RelayItems.sent st) = [Res true; Cont false] /\ wire_ok (wire_of 0 7 (RelayItems.sent st)) = true.
Proof. eexists. split; [vm_compute; reflexivity|]. vm_compute. repeat split; try reflexivity. left. reflexivity. Qed.

(* ================================================================ strengthened statement (S09)

   THE GRAMMAR CLAUSE FOR THE RELAY, proved for every fresh-id schedule WITHOUT OVERLAP
   ([no_overlap], Model/RelayCalm.v: no goroutine acts on a call -- Get / Entomb / Delete
   hitting a live item of it, or the firing of one of its timers -- while another goroutine
   holds it, i.e. between that goroutine's lookup and the end of its frame handling), under the
   two hypotheses on the destination the clause needs:
     [dest_ok ls]   per connection and message id, the response-direction frames the destination
                    delivers are a prefix of an accepted word of Spec/WireOk.v;
     [causal cf ls] a destination does not send response frames for a message id the relay has
                    not yet allocated on that connection (without it the relay forwards the
                    tail of an earlier stream under a fresh id: found by search, see report).
   Conclusion, for every caller connection k and request id: the frames enqueued for (k, id) are
   a PREFIX OF AN ACCEPTED WORD, nothing follows a terminal frame, at most one terminal frame.
   MISSING with respect to the full statement: exactly the schedules with an overlap -- the class
   of the known finding relay:response-frame-after-timeout-error (C10_relay_grammar_refuted). *)
From Verif Require Import Model.RelayCalm Proofs.RelayCalmP Proofs.RelayGrammarP.

Theorem C10_relay_grammar_calm : forall cf ls st k id, run_fresh cf init ls = Some st ->
  no_overlap cf ls -> causal cf ls -> dest_ok ls ->
  wire_prefix_ok (wire_of k id (RelayItems.sent st)) = true /\
  (forall l1 x l2, wire_of k id (RelayItems.sent st) = l1 ++ x :: l2 -> terminal x = true -> l2 = []) /\
  (length (filter terminal (wire_of k id (RelayItems.sent st))) <= 1)%nat.
Proof. exact relay_grammar_calm. Qed.
Print Assumptions C10_relay_grammar_calm.

(* [calm] (the hypothesis of C09_silent_after_end_calm) implies [no_overlap]: one excluded class *)
Theorem C10_calm_no_overlap : forall cf ls, calm cf ls -> no_overlap cf ls.
Proof. exact calm_no_overlap. Qed.
Print Assumptions C10_calm_no_overlap.

(* Non-vacuity: the complete relayed call satisfies the three hypotheses; the refuting run of
   C10_relay_grammar_refuted is excluded by [no_overlap] only. *)
Example C10_calm_example : no_overlap wit_cf calm_example /\ causal wit_cf calm_example /\ dest_ok calm_example.
Proof. exact calm_example_hyps. Qed.
Example C10_refuting_run_overlaps : sched wit_cf no_overlap_step init [] wit_wire = false.
Proof. exact wit_wire_overlap. Qed.

(* ================================================================ strengthened statement (T10)
   "A SECOND RESPONDER FOR THE SAME REQUEST ID".

   (1) What the response object alone guarantees, for ANY handler behaviour -- any number of
       handlers handed the same call, any order of arg writers / Flush / Close / SendSystemError
       (no hypothesis on the handler labels at all): per id requested at most once the frames are
           w ++ [Err; ...; Err]      with w a prefix of an accepted word,
       the tail is empty unless a SendSystemError got past its guard after doneSending had run,
       and nothing but error frames ever follows a terminal frame.  It does NOT guarantee the
       grammar: InboundCallResponse.SendSystemError is guarded by response.err only, so a second
       responder that rejects the call adds an error frame behind a complete response
       (C10_two_responders_refuted; robustness gap, see DESIGN.md C10).
   (2) Therefore the grammar rests on "exactly one responder per call, which completes the
       response or sends one system error".  The dispatch decisions are REGENERATED from the Go
       source on every run (Gen/GenDispatch.v: inbound.go dispatchInbound, handlers.go
       userHandlerWithSkip.Handle / channelHandler.Handle / handlerMap.Handle, channel.go
       NewChannel's choice of the root handler; relay.go handleLocalCallReq -- result constant and
       responder per branch --, handleCallReq and getDestination) as TRACES of responder
       invocations, proved equal to the hand model of Model/Dispatch.v, which never names two
       responders.  An edit that drops a `return` after a handler invocation, swaps
       _relayNoRelease / _relayShouldRelease in a branch, or sends an error frame and carries on
       changes the generated trace and these proofs stop compiling. *)
From Verif Require Import Gen.GenDispatch Gen.GenRelayAdmit Model.Dispatch Proofs.DispatchP Proofs.RespWireAnyP.

Theorem C10_server_any_handler : forall prop ls st,
  RespWire.run prop ls = Some st ->
  forall id, (count_req id (requested st) <= 1)%nat ->
    (exists w n, proj id (RespWire.sent st) = w ++ repeat Err n /\ wire_prefix_ok w = true /\
                 (~ In id (misused st) -> n = O)) /\
    (forall l1 k l2, proj id (RespWire.sent st) = l1 ++ k :: l2 -> terminal k = true ->
                     forall x, In x l2 -> x = Err).
Proof. exact respwire_any_handler. Qed.
Print Assumptions C10_server_any_handler.

(* two responders, each inside the quantifier when alone (one completes the response, one
   sends one system error), handed the same call one after the other *)
Theorem C10_two_responders_refuted :
  handler_ok 7 false two_complete = true /\ handler_ok 7 false two_reject = true /\
  (exists st, RespWire.run false (two_admit ++ two_complete ++ two_reject) = Some st /\
              proj 7 (RespWire.sent st) = [Res false; Err] /\ wire_prefix_ok (proj 7 (RespWire.sent st)) = false) /\
  (exists st, RespWire.run false (two_admit ++ two_reject ++ two_reject) = Some st /\
              proj 7 (RespWire.sent st) = [Err; Err] /\ wire_prefix_ok (proj 7 (RespWire.sent st)) = false) /\
  (exists st, RespWire.run false (two_admit ++ two_reject ++ [HResp 7; HArgWriter 7 1; HArgWriter 7 2; HArgWriter 7 3]) = Some st /\
              proj 7 (RespWire.sent st) = [Err] /\
              (exists c, get 7 (calls st) = Some c /\ g_rets c = [0; 1; 1; 1])).
Proof. exact two_responders_refuted. Qed.
Print Assumptions C10_two_responders_refuted.

(* server dispatch: the generated traces expand to the hand model; exactly one responder for
   every option combination (root handler chosen by NewChannel from Handler /
   SkipHandlerMethods), service, method; with SkipHandlerMethods the skipped methods go to the
   native handlers ONLY and every other method to the alternate handler ONLY *)
Theorem C10_dispatch_tie : forall e,
  gx_leaves e = dp_leaves e /\ (exists lf, gx_leaves e = [lf]) /\
  known_markers (dispatchTail (d_is_tchannel e) (d_has_internal e) []) [1; 2] = true /\
  known_markers (skipDispatch (d_skipped e) []) [3; 4] = true /\
  known_markers (channelDispatch []) [5] = true /\
  known_markers (handlerMapDispatch (d_registered e) []) [6; 7] = true.
Proof. exact (fun e => conj (dispatch_tie e) (conj (dispatch_gen_single e) (dispatch_markers_known e))). Qed.
Print Assumptions C10_dispatch_tie.

Theorem C10_root_handler_tie : forall has_skip has_handler,
  chanRootKind has_skip has_handler = dp_root_code (dp_root_of has_skip has_handler).
Proof. exact chan_root_tie. Qed.

Theorem C10_skip_dispatch : forall e, d_root e = DpSkip -> d_is_tchannel e && d_has_internal e = false ->
  gx_leaves e = if d_skipped e then (if d_registered e then [DpMethod] else [DpNoHandler]) else [DpUserHandler].
Proof. exact dispatch_skip_spec. Qed.
Print Assumptions C10_skip_dispatch.

(* the grammar under dispatch: the handler API calls made on the call are those of the
   responders the (generated) dispatch names, each of which alone obeys the discipline *)
Theorem C10_server_grammar_dispatch : forall prop ls st e beh id,
  RespWire.run prop ls = Some st -> (req_count id ls <= 1)%nat ->
  dp_hlabels id ls = concat (map beh (gx_leaves e)) ->
  (forall lf, handler_ok id false (beh lf) = true) ->
    wire_prefix_ok (proj id (RespWire.sent st)) = true /\
    (forall l1 k l2, proj id (RespWire.sent st) = l1 ++ k :: l2 -> terminal k = true -> l2 = []) /\
    (length (filter terminal (proj id (RespWire.sent st))) <= 1)%nat.
Proof. exact respwire_grammar_dispatch. Qed.
Print Assumptions C10_server_grammar_dispatch.

(* relay: for every combination of what handleCallReq's callees return, the generated traces
   (handleLocalCallReq's result AND responders, the first statement and the admission part of
   handleCallReq, getDestination with the results tied for C03) expand to the hand model, which
   names at most one responder: an error frame is never followed by relaying, a call to a
   service of RelayLocalHandlers is answered by the relay channel itself -- one error frame
   when its request is fragmented -- and is "handled", i.e. not relayed *)
Theorem C10_relay_dispatch_tie : forall e,
  gx_relay e = rl_responders e /\ (length (gx_relay e) <= 1)%nat /\
  known_markers (gx_relay_trace e) relay_markers = true.
Proof. exact (fun e => conj (relay_tie e) (conj (relay_gen_at_most_one e) (relay_markers_known e))). Qed.
Print Assumptions C10_relay_dispatch_tie.

Theorem C10_relay_local_handled : forall e,
  relayLocalHandled (r_is_local e) (r_fragmented e) = r_is_local e /\
  (r_is_local e = true -> gx_relay e = if r_fragmented e then [RlErrFragmented] else [RlLocal]).
Proof. exact relay_local_spec. Qed.
Print Assumptions C10_relay_local_handled.

(* Non-vacuity: Handler + SkipHandlerMethods, a skipped registered method: one native responder;
   a fragmented call to a local service of the relay: one error frame, no relaying *)
Example C10_dispatch_example :
  gx_leaves {| d_root := dp_root_of true true; d_is_tchannel := false; d_has_internal := false;
               d_skipped := true; d_registered := true |} = [DpMethod] /\
  gx_relay {| r_is_local := true; r_fragmented := true; r_start_err := false; r_drop := false;
              r_is_protocol := false; r_can_handle := true; r_found := false; r_tomb := false;
              r_dest_ok := true; r_conn_ok := true; r_remote_can := true; r_appends := false;
              r_sent := true |} = [RlErrFragmented].
Proof. split; reflexivity. Qed.

(* ================================================================ A10: the repaired SendSystemError
   InboundCallResponse.SendSystemError now queues the error frame BEFORE doneSending shuts the
   exchange down (Model/RespWire.v HSysErr: conn_send_syserr, then done_sending + commit); every
   theorem above is proved over the repaired model, no statement changed.  New:

   (1) without a connection failure ([stopped] = false: no protocol error, no network error), a
       dispatched call whose exchange is still registered keeps the connection Active or
       draining (StartClose): InboundClosed / Closed are reached only after its removal; *)
From Verif Require Import Proofs.RespWireDrainP.

Theorem C10_drain_state : forall prop ls st id c,
  RespWire.run prop ls = Some st -> stopped st = false ->
  get id (calls st) = Some c -> in_ex c = true -> h_pc c <> PAdmit -> h_pc c <> PDead ->
  cst st = CActive \/ cst st = CStartClose.
Proof. exact respwire_drain_state. Qed.
Print Assumptions C10_drain_state.

(* (2) so a handler's SendSystemError on such a call (response not failed, send buffer not full)
       is enabled, queues exactly the frame (id, Err) and returns nil -- also when the call is
       the last exchange of a draining connection, where the old order closed the connection
       first and the frame was refused; *)
Theorem C10_syserr_step : forall prop ls st id c,
  RespWire.run prop ls = Some st -> stopped st = false ->
  get id (calls st) = Some c -> h_pc c = PIdle -> in_ex c = true -> w_err c = false ->
  exists st' c', RespWire.step st (HSysErr id false) = Some st' /\
    RespWire.sent st' = RespWire.sent st ++ [(id, Err)] /\
    get id (calls st') = Some c' /\ g_rets c' = g_rets c ++ [0] /\ g_dones c' = true.
Proof. exact respwire_syserr_step. Qed.
Print Assumptions C10_syserr_step.

(* (3) and, inside C10's quantifier, whatever happens afterwards (ls2: the removal closes the
       connection, the peer cuts it, deadlines, other calls): the frames of the id are those
       sent before the call followed by EXACTLY ONE error frame -- an accepted word whose only
       terminal frame is that error frame.  There is no "or the connection closed first"
       alternative. *)
Theorem C10_syserr_delivered : forall prop ls1 st1 id c ls2 st,
  RespWire.run prop ls1 = Some st1 -> stopped st1 = false ->
  get id (calls st1) = Some c -> h_pc c = PIdle -> in_ex c = true -> w_err c = false ->
  RespWire.run prop (ls1 ++ HSysErr id false :: ls2) = Some st ->
  (req_count id (ls1 ++ HSysErr id false :: ls2) <= 1)%nat ->
  handler_ok id false (ls1 ++ HSysErr id false :: ls2) = true ->
    proj id (RespWire.sent st) = proj id (RespWire.sent st1) ++ [Err] /\
    wire_ok (proj id (RespWire.sent st)) = true /\
    filter terminal (proj id (RespWire.sent st)) = [Err].
Proof. exact respwire_syserr_delivered. Qed.
Print Assumptions C10_syserr_delivered.

(* Non-vacuity, and the case the repair is about: call 7 is the only exchange of a connection
   that is draining after Close; its handler sends a system error: one error frame, result nil,
   and the removal of the exchange closes the connection. *)
Example C10_drain_last_example :
  exists st1 c st,
    RespWire.run false drain_last_labels = Some st1 /\ cst st1 = CStartClose /\ stopped st1 = false /\
    get 7 (calls st1) = Some c /\ h_pc c = PIdle /\ in_ex c = true /\ w_err c = false /\
    inbound_count (calls st1) = 1 /\
    (req_count 7 (drain_last_labels ++ [HSysErr 7 false]) <= 1)%nat /\
    handler_ok 7 false (drain_last_labels ++ [HSysErr 7 false]) = true /\
    RespWire.run false (drain_last_labels ++ [HSysErr 7 false]) = Some st /\
    proj 7 (RespWire.sent st) = [Err] /\ cst st = CClosed /\
    (exists c', get 7 (calls st) = Some c' /\ g_rets c' = [0]).
Proof. exact respwire_drain_last_example. Qed.

(* ================================================================ strengthened statement (U10)
   "HELPER LAYERS ABOVE THE ARG WRITERS THAT CAN COMPLETE A RESPONSE ON AN ERROR PATH".

   Close() of the last arg writer is not a resource release: it flushes the final fragment
   without the more-fragments flag and runs doneSending; SendSystemError is guarded by
   response.err only (C10_two_responders_refuted).  So the grammar rests on every layer between
   the handler and the arg writers keeping this contract: a failure reported to the caller (who
   answers it with a system error) has NOT closed the last arg writer.

   (1) The layers of the library -- arguments.go ArgWriteHelper.write (behind Write / WriteJSON)
       and ArgReadHelper.read, handlers.go ErrorHandlerFunc.Handle, raw/handler.go WriteResponse,
       json/handler.go handler.Handle (its writing tail), thrift/server.go Server.handle (after the
       arg3 writer was obtained) -- are REGENERATED from the Go source on every run as traces of the
       calls they make on the writer / the response (Gen/GenArgHelper.v; go2v Target.CallTrace
       threads the trace statement by statement, so a call moved to another path changes the trace
       even when the returned value does not) and proved equal to the hand models of
       Model/ArgHelper.v for every combination of the callees' results. *)
From Verif Require Import Model.ArgHelper Gen.GenArgHelper Proofs.ArgHelperP.

Theorem C10_arg_helper_tie :
  (forall werr ferr cerr tr, argWriteHelperWrite werr ferr cerr tr = helper_write werr ferr cerr tr) /\
  (forall rerr ferr eerr cerr tr, argReadHelperRead rerr ferr eerr cerr tr = helper_read rerr ferr eerr cerr tr) /\
  (forall herr tr, errorHandlerFuncHandle herr tr = efh_handle herr tr) /\
  (forall has_sys is_err serr aerr e2 e3 tr,
     rawWriteResponse has_sys is_err serr aerr e2 e3 tr = raw_write_response has_sys is_err serr aerr e2 e3 tr) /\
  (forall e2 e3 tr, jsonHandleWriteTail e2 e3 tr = json_write_tail e2 e3 tr) /\
  (forall serr cerr tr, thriftHandleWriteTail serr cerr tr = thrift_write_tail serr cerr tr).
Proof.
  exact (conj arg_write_helper_tie (conj arg_read_helper_tie (conj error_handler_func_tie
        (conj raw_write_response_tie (conj json_write_tail_tie thrift_write_tail_tie))))).
Qed.
Print Assumptions C10_arg_helper_tie.

(*     and, for what the six traces do not see (closures such as the f() of WriteJSON, the callers
       raw.Wrap / json.Register / thrift Server.Handle, the http response writer, the parts of a
       function outside a translated region): the number of Close / SendSystemError / Flush calls
       in each of the 22 functions of these layers is regenerated and equal to the expected table. *)
From Verif Require Import Gen.GenHelperCensus.
Theorem C10_helper_census : helper_census = helper_census_expected.
Proof. exact helper_census_ok. Qed.
Print Assumptions C10_helper_census.

(* (2) The contract, stated on the generated functions (markers: 1 = f(), 2 = writer.Close()):
       ArgWriteHelper.write closes its writer exactly when neither the sticky error nor f() failed,
       at most once, after f(); a closed writer means the result is Close's own, an open writer
       means an error is reported; and it only appends to whatever happened before. *)
Theorem C10_arg_write_helper_contract : forall werr ferr cerr,
  let (t, e) := argWriteHelperWrite werr ferr cerr [] in
  has 2 t = negb (werr || ferr) /\ (occ 2 t <= 1)%nat /\
  (has 2 t = true -> t = [1; 2] /\ e = cerr) /\
  (has 2 t = false -> e = true) /\
  has 1 t = negb werr.
Proof. exact arg_write_helper_contract. Qed.
Print Assumptions C10_arg_write_helper_contract.

Theorem C10_arg_write_helper_appends : forall werr ferr cerr tr,
  fst (argWriteHelperWrite werr ferr cerr tr) = tr ++ fst (argWriteHelperWrite werr ferr cerr []) /\
  snd (argWriteHelperWrite werr ferr cerr tr) = snd (argWriteHelperWrite werr ferr cerr []).
Proof. exact arg_write_helper_appends. Qed.

(*     ArgReadHelper.read (1 = f(), 2 = EnsureEmpty, 3 = reader.Close()): each step only after the
       previous one succeeded.  ErrorHandlerFunc (1 = the function, 2 = SendSystemError): one
       system error exactly when the function returned an error.  thrift Server.handle
       (1 = resp.Write, 2 = SendSystemError, 3 = writer.Close()): never both a system error and a
       closed writer.  raw.WriteResponse (9 = SendSystemError, 8 = SetApplicationError, 2 / 3 =
       helper writes): a system error excludes every arg write, arg3 only after arg2 succeeded. *)
Theorem C10_helper_layers_contract :
  (forall rerr ferr eerr cerr,
     let (t, e) := argReadHelperRead rerr ferr eerr cerr [] in
     has 3 t = negb (rerr || ferr || eerr) /\ (has 3 t = true -> t = [1; 2; 3] /\ e = cerr) /\
     (has 3 t = false -> e = true)) /\
  (forall herr, occ 1 (errorHandlerFuncHandle herr []) = 1%nat /\
                occ 2 (errorHandlerFuncHandle herr []) = (if herr then 1 else 0)%nat) /\
  (forall serr cerr,
     let (t, e) := thriftHandleWriteTail serr cerr [] in
     has 2 t = serr /\ has 3 t = negb serr /\ (occ 2 t <= 1)%nat /\ (occ 3 t <= 1)%nat /\
     (serr = true -> e = true)) /\
  (forall has_sys is_err serr aerr e2 e3,
     let (t, e) := rawWriteResponse has_sys is_err serr aerr e2 e3 [] in
     (has 9 t = true -> has 2 t = false /\ has 3 t = false /\ has 8 t = false) /\
     has 9 t = has_sys /\
     (has 3 t = true -> has 2 t = true /\ e2 = false /\ e = e3) /\
     (has_sys = false -> has 3 t = false -> e = true)) /\
  (forall e2 e3,
     let (t, e) := jsonHandleWriteTail e2 e3 [] in
     has 3 t = negb e2 /\ (has 3 t = true -> e = e3) /\ (has 3 t = false -> e = true)).
Proof.
  exact (conj arg_read_helper_contract (conj error_handler_func_contract (conj thrift_write_tail_contract
        (conj raw_write_response_contract json_write_tail_contract)))).
Qed.
Print Assumptions C10_helper_layers_contract.

(* (3) The server model has the helper as a handler action: [HHelperWrite id ok fullfrag] = the
       tail of ArgWriteHelper.write after f() returned.  Its decision is the generated function's;
       with a successful f() it IS the Close step; with a failed f() it changes nothing but the
       recorded result.  Every theorem above (grammar, any-handler, dispatch, drain) is proved over
       the model with this action, statements unchanged. *)
Theorem C10_helper_step :
  (forall ok, helper_closes ok = existsb (Z.eqb 2) (fst (argWriteHelperWrite false (negb ok) false []))) /\
  (forall st id ff, RespWire.step st (HHelperWrite id true ff) = RespWire.step st (HClose id ff)) /\
  (forall prop ls st id c ff,
     RespWire.run prop ls = Some st -> get id (calls st) = Some c -> h_pc c = PIdle ->
     exists st', RespWire.run prop (ls ++ [HHelperWrite id false ff]) = Some st' /\
       RespWire.sent st' = RespWire.sent st /\ cst st' = cst st /\ stopped st' = stopped st /\
       get id (calls st') = Some (ret c 1) /\
       g_rets (ret c 1) = g_rets c ++ [1] /\ h_pc (ret c 1) = h_pc c /\ w_err (ret c 1) = w_err c /\
       w_state (ret c 1) = w_state c /\ f_state (ret c 1) = f_state c /\ f_err (ret c 1) = f_err c /\
       f_cur (ret c 1) = f_cur c /\ g_dones (ret c 1) = g_dones c /\ in_ex (ret c 1) = in_ex c).
Proof. exact (conj helper_closes_gen (conj helper_ok_is_close helper_fail_untouched)). Qed.
Print Assumptions C10_helper_step.

(*     "A handler error is reported as an error frame, not as an empty success": the helper write
       of a dispatched call (exchange registered, response not failed, no connection failure)
       fails above the transport -- a value that cannot be encoded --, the handler answers with
       one system error: for EVERY continuation of the run the caller gets the frames sent before
       followed by exactly one error frame. *)
Theorem C10_helper_fail_syserr_delivered : forall prop ls1 st1 id c ff ls2 st,
  RespWire.run prop ls1 = Some st1 -> stopped st1 = false ->
  get id (calls st1) = Some c -> h_pc c = PIdle -> in_ex c = true -> w_err c = false ->
  RespWire.run prop (ls1 ++ HHelperWrite id false ff :: HSysErr id false :: ls2) = Some st ->
  (req_count id (ls1 ++ HHelperWrite id false ff :: HSysErr id false :: ls2) <= 1)%nat ->
  handler_ok id false (ls1 ++ HHelperWrite id false ff :: HSysErr id false :: ls2) = true ->
    proj id (RespWire.sent st) = proj id (RespWire.sent st1) ++ [Err] /\
    wire_ok (proj id (RespWire.sent st)) = true /\
    filter terminal (proj id (RespWire.sent st)) = [Err].
Proof. exact helper_fail_syserr_delivered. Qed.
Print Assumptions C10_helper_fail_syserr_delivered.

(*     The contract is necessary (and the example is the non-vacuity witness of the theorem
       above): call 7, arg2 written with the helper, the helper write of arg3 fails in f().  As
       the helper is, the system error is the only frame; the labels of a helper that closes its
       writer on that path too (Close, its flush, doneSending) complete an EMPTY response and the
       same system error follows: [Res[last]; Err]. *)
Theorem C10_helper_close_on_error_refuted :
  (handler_ok 7 false (helper_prelude ++ helper_as_is) = true /\
   exists st, RespWire.run false (helper_prelude ++ helper_as_is) = Some st /\ proj 7 (RespWire.sent st) = [Err] /\
              wire_ok (proj 7 (RespWire.sent st)) = true /\
              exists c, get 7 (calls st) = Some c /\ g_rets c = [0; 0; 0; 0; 0; 1; 0]) /\
  (handler_ok 7 false (helper_prelude ++ helper_closing_on_error) = false /\
   exists st, RespWire.run false (helper_prelude ++ helper_closing_on_error) = Some st /\
              proj 7 (RespWire.sent st) = [Res false; Err] /\ wire_prefix_ok (proj 7 (RespWire.sent st)) = false /\
              In 7 (misused st)).
Proof. exact helper_close_on_error_refuted. Qed.
Print Assumptions C10_helper_close_on_error_refuted.

(* (4) THE QUANTIFIER WIDENED TO HANDLERS WRITTEN WITH THE HELPERS.  [handler_ok] forbids every
       SendSystemError after doneSending.  An ErrorHandlerFunc that answers through the helpers
       leaves that class exactly when the helper's Close of arg3 FAILS at the transport (deadline,
       cancel, connection failure during the final flush): Close has run doneSending, the helper
       returns Close's error, the library calls SendSystemError after HDone.  [helper_ok id]
       (Proofs/RespWireHelperP.v): at most one SendSystemError, and after HDone only when the final
       flush of that Close did not enqueue its fragment (the handler action of the call right before
       HDone is not [HFlushSel id true]).  It contains [handler_ok], and for every run and every
       call that keeps it the full grammar conclusion holds: every failing flush marks the response
       as failed and response.err is never cleared, so that SendSystemError is refused. *)
From Verif Require Import Proofs.RespWireHelperP.

Theorem C10_helper_ok_contains_handler_ok : forall id ls,
  handler_ok id false ls = true -> helper_ok id TOpen false ls = true.
Proof. exact (fun id ls => handler_ok_helper_ok id ls false). Qed.

Theorem C10_server_grammar_helper : forall prop ls st,
  RespWire.run prop ls = Some st ->
  forall id, (req_count id ls <= 1)%nat -> helper_ok id TOpen false ls = true ->
    wire_prefix_ok (proj id (RespWire.sent st)) = true /\
    (forall l1 k l2, proj id (RespWire.sent st) = l1 ++ k :: l2 -> terminal k = true -> l2 = []) /\
    (length (filter terminal (proj id (RespWire.sent st))) <= 1)%nat /\
    (req_count id ls = O -> proj id (RespWire.sent st) = []) /\
    (get id (calls st) = None -> proj id (RespWire.sent st) = [] \/ proj id (RespWire.sent st) = [Err]).
Proof. exact respwire_grammar_helper. Qed.
Print Assumptions C10_server_grammar_helper.

Theorem C10_helper_ok_not_misused : forall prop ls st id,
  RespWire.run prop ls = Some st -> helper_ok id TOpen false ls = true -> ~ In id (misused st).
Proof. exact helper_ok_not_misused. Qed.
Print Assumptions C10_helper_ok_not_misused.

(* Non-vacuity and tightness: the deadline passes before / during the helper's Close of arg3, the
   handler sends its system error after the failed Close (outside handler_ok, inside helper_ok;
   nothing is sent); a system error after a Close that did enqueue the final fragment is outside. *)
Example C10_helper_ok_examples :
  (handler_ok 7 false close_fails_early = false /\ helper_ok 7 TOpen false close_fails_early = true /\
   exists st, RespWire.run false close_fails_early = Some st /\ proj 7 (RespWire.sent st) = [] /\ misused st = [] /\
              exists c, get 7 (calls st) = Some c /\ g_rets c = [0; 0; 0; 0; 0; 1; 1]) /\
  (handler_ok 7 false close_fails_at_select = false /\ helper_ok 7 TOpen false close_fails_at_select = true /\
   exists st, RespWire.run false close_fails_at_select = Some st /\ proj 7 (RespWire.sent st) = [] /\ misused st = [] /\
              exists c, get 7 (calls st) = Some c /\ g_rets c = [0; 0; 0; 0; 0; 1; 1]) /\
  helper_ok 7 TOpen false misuse_labels = false.
Proof. exact helper_ok_examples. Qed.

(* ================================================================ strengthening V10

   (A) THE RELAY TIMER PROTOCOL IS REGENERATED.  The relay decides the race between a call's
   timeout and the frame that finishes it with one bit, the result of relayTimer.Stop.  Until now
   relay_timer_pool.go was modelled by hand only (timer_stop / timer_release / timer_new /
   ITimerRun of Model/RelayItems.v).  Gen/GenC10Timer.v holds Stop, OnTimer, Release, Start, the
   recycled branch of the pool's Get, verifyNotReleased and markTimerInactive regenerated from the
   source as functions of the three flags (active, stopped, released), the trigger parameters and
   the answers of the runtime timer (Stop() / Reset() = "was pending"); a Go panic is None.
   Model/C10Timer.v is the single-timer hand model; Proofs/C10TimerP.v.

   (B) EVERY REFUSING BRANCH OF handleCallReq RETURNS.  Gen/GenC10Admit.v holds the whole function
   as a trace of responder actions (1 error frame "closed channel", 2 mex.shutdown, 3 dispatch to a
   handler goroutine, 4 protocol error) plus its result; Model/C10Admit.v; Proofs/C10AdmitP.v. *)
From Verif Require Import Gen.GenC10Timer Model.C10Timer Proofs.C10TimerP Gen.GenC10Admit Model.C10Admit Proofs.C10AdmitP.

(* ---- (A) *)

(* regenerated = hand model, for all values of the flags and of the runtime timer's answers *)
Theorem C10_timer_generated :
  (forall t, match tstep_stop t with
             | GoPanic c => c = panic_released /\ gen_stop t = None
             | GoOk (t', b) => exists io, gen_stop t = Some (b, (flags_of t', io))
             end) /\
  (forall t, match tstep_ontimer t with
             | GoPanic c => c = panic_released /\ gen_ontimer t = None
             | GoOk (t', (k, o)) =>
                 exists io, gen_ontimer t = Some ((flags_of t', io), (false, (key_id k, o))) /\ k = tm_key t
             end) /\
  (forall t, match tstep_release t with
             | GoPanic c => gen_release t = None /\
                            (c = panic_released /\ c10TimerVerifyNotReleased (tm_released t) = None \/
                             c = panic_release_active /\ c10TimerVerifyNotReleased (tm_released t) = Some tt)
             | GoOk t' => exists io, gen_release t = Some (flags_of t', io)
             end) /\
  (forall t recycled k orig,
             match tstep_start t recycled k orig with
             | GoPanic _ => gen_start t recycled k orig = None
             | GoOk t' => gen_start t recycled k orig = Some (flags_of t', (key_id k, orig)) /\ tm_key t' = k /\ tm_orig t' = orig
             end).
Proof. exact (conj gen_stop_tie (conj gen_ontimer_tie (conj gen_release_tie gen_start_tie))). Qed.
Print Assumptions C10_timer_generated.

(* the relay model performs exactly these steps on the timer it looks up *)
Theorem C10_timer_model_steps :
  (forall st tm t, lookup Z.eqb tm (timers st) = Some t ->
     match tstep_stop t with
     | GoPanic c => timer_stop st tm = (set_panic st c, false)
     | GoOk (t', b) =>
         snd (timer_stop st tm) = b /\
         lookup Z.eqb tm (timers (fst (timer_stop st tm))) = Some t' /\
         (forall tm', tm' <> tm -> lookup Z.eqb tm' (timers (fst (timer_stop st tm))) = lookup Z.eqb tm' (timers st)) /\
         panicked (fst (timer_stop st tm)) = panicked st /\ items (fst (timer_stop st tm)) = items st /\
         threads (fst (timer_stop st tm)) = threads st /\ RelayItems.sent (fst (timer_stop st tm)) = RelayItems.sent st
     end) /\
  (forall cf st tm t room, lookup Z.eqb tm (timers st) = Some t ->
     exec cf st (ITimerRun tm) room =
     match tstep_ontimer t with
     | GoPanic c => (set_panic st c, [])
     | GoOk (t', (k, o)) => (set_timers st (insert Z.eqb tm t' (timers st)), [IEntomb k (FromTimeout o)])
     end) /\
  (forall st tm t, lookup Z.eqb tm (timers st) = Some t ->
     timer_release st tm =
     match tstep_release t with
     | GoPanic c => set_panic st c
     | GoOk t' => set_timers st (insert Z.eqb tm t' (timers st))
     end) /\
  (forall st k orig, exists t', tstep_start fresh_timer false k orig = GoOk t' /\
     timer_new st k orig = (set_next_tm (set_timers st (insert Z.eqb (next_tm st) t' (timers st))) (next_tm st + 1), next_tm st)) /\
  (forall t k orig, tm_active t = false -> tm_armed t = false ->
     tstep_start t true k orig = tstep_start fresh_timer false k orig).
Proof. exact (conj model_stop_step (conj model_ontimer_step (conj model_release_step (conj model_start_step start_recycled_same)))). Qed.
Print Assumptions C10_timer_model_steps.

(* THE CONTRACT OF Stop, about the regenerated code: Stop panics exactly on a released timer;
   otherwise it returns true IFF the timer had already been stopped or this call prevented the
   callback (the runtime timer was still pending); a true result leaves the timer stopped (and
   inactive when this call stopped it), a false result changes no flag. *)
Theorem C10_timer_stop_contract : forall a s r id o pending,
  (r = true -> c10TimerStop a s r id o pending = None) /\
  (r = false -> exists a' s' io,
     c10TimerStop a s r id o pending = Some (s || pending, ((a', s', r), io)) /\
     (s || pending = true -> s' = true) /\
     (s = false -> pending = true -> a' = false) /\
     (s || pending = false -> a' = a /\ s' = s)).
Proof. exact gen_stop_contract. Qed.
Print Assumptions C10_timer_stop_contract.

(* ... the callback marks the timer inactive before it calls the timeout handler with the
   parameters it read before; Start makes every timer (also a recycled, formerly stopped one)
   active and not stopped; Release refuses active and released timers *)
Theorem C10_timer_other_contracts :
  (forall a s id o, exists io, c10TimerOnTimer a s false id o = Some (((false, s, false), io), (false, (id, o)))) /\
  (forall s id0 o0 id o,
     c10TimerStart false s (c10TimerPoolGet true true) id0 o0 id o false = Some ((true, false, false), (id, o)) /\
     c10TimerStart false s false id0 o0 id o false = Some ((true, false, false), (id, o))) /\
  (forall a s r id o, c10TimerRelease a s r id o = if r || a then None else Some ((false, s, true), (id, o))).
Proof. exact (conj gen_ontimer_contract (conj gen_start_contract gen_release_contract)). Qed.
Print Assumptions C10_timer_other_contracts.

(* THE FIRED TIMER WINS.  In every reachable state of a fresh-id run: once the runtime has started
   OnTimer for the timer of a live item -- before AND after the callback marked the timer inactive,
   until the timeout handler has executed its Entomb -- a lookup that stops the timer answers
   stopped = false and changes nothing; a frame that finishes the call is then swallowed (nothing
   enqueued, no callback).  With C10_relay_timeout: the caller gets the timeout error frame only. *)
Theorem C10_fired_timer_wins : forall cf ls st, run_fresh cf init ls = Some st ->
  forall t it code, lookup key_eqb t (items st) = Some it ->
    In (TT (it_tm it), code) (threads st) -> timeout_pending code (it_tm it) t ->
    items_get st t true = (st, Some (it, false)).
Proof. exact fired_timer_wins. Qed.
Print Assumptions C10_fired_timer_wins.

Theorem C10_finishing_frame_swallowed :
  (forall cf st r rk it room, fin_of (r_f r) = true ->
     exec cf st (IRcvChk r rk (Some (it, false))) room = (st, after_sent r)) /\
  (forall cf st k f ft own it room, fin_of f = true ->
     exec cf st (INcChk k f ft own (Some (it, false))) room = (st, [])).
Proof. exact (conj finishing_frame_swallowed finishing_frame_swallowed_noncall). Qed.
Print Assumptions C10_finishing_frame_swallowed.

(* Non-vacuity: the request is relayed, the originating timer fires, its callback marks the timer
   inactive, the destination's final response is looked up in that window: stopped = false although
   the timer is inactive; the run ends with exactly the timeout error frame on the caller's wire. *)
Example C10_fired_timer_example :
  exists st it x, run_fresh c10t_cf init c10t_run = Some st /\
    lookup key_eqb (0, 0, 7) (items st) = Some it /\ it_tomb it = false /\
    lookup Z.eqb (it_tm it) (timers st) = Some x /\ tm_active x = false /\ tm_stopped x = false /\
    In (TT (it_tm it), [IEntomb (0, 0, 7) (FromTimeout true)]) (threads st) /\
    items_get st (0, 0, 7) true = (st, Some (it, false)) /\
    exists st', run_fresh c10t_cf st c10t_rest = Some st' /\ threads st' = [] /\
      wire_of 0 7 (RelayItems.sent st') = [Err].
Proof.
  eexists. eexists. eexists. split; [vm_compute; reflexivity|]. split; [vm_compute; reflexivity|].
  split; [reflexivity|]. split; [vm_compute; reflexivity|]. split; [reflexivity|]. split; [reflexivity|].
  split; [vm_compute; right; left; reflexivity|]. split; [vm_compute; reflexivity|].
  eexists. split; [vm_compute; reflexivity|]. split; vm_compute; reflexivity.
Qed.

(* ---- (B) *)

Theorem C10_call_req_generated : forall st1 p m st2 tr,
  c10HandleCallReq st1 p m st2 tr = admit_model st1 p m st2 tr.
Proof. exact gen_admit_tie. Qed.
Print Assumptions C10_call_req_generated.

(* About the regenerated function: on every path at most one responder action (error frame,
   protocol error, dispatch to a handler); the dispatch is the ONLY action of the one path on which
   both state reads saw an active connection and parsing and registration succeeded; a path that
   releases the frame (result true: every refusing path) never dispatches; mex.shutdown only right
   after the declining error frame. *)
Theorem C10_call_req_one_responder : forall st1 p m st2 tr0 tr r,
  c10HandleCallReq st1 p m st2 tr0 = Some (tr, r) ->
  exists w, tr = tr0 ++ w /\
    (length (filter is_responder w) <= 1)%nat /\
    (In 3 w -> w = [3] /\ r = false /\ st1 = c_connectionActive /\ p = true /\ m = true /\ st2 = c_connectionActive) /\
    (In 2 w -> w = [1; 2] /\ r = true) /\
    (r = true -> ~ In 3 w).
Proof. exact gen_admit_one_responder. Qed.
Print Assumptions C10_call_req_one_responder.

(* the reader of the server model takes exactly the branches the regenerated function names *)
Theorem C10_reader_follows_generated :
  (forall st id full, rd_pc st = RIdle ->
     RespWire.step st (RdCallReq1 id full) =
     match c10HandleCallReq (cstate_go (cst st)) true true c_connectionActive [] with
     | Some ([3], false) => Some (set_rd (add_requested st id) (RChecked id))
     | Some ([1], true) => Some (fst (conn_send_syserr (add_requested st id) id full))
     | _ => None
     end) /\
  (forall st id ok full, rd_pc st = RChecked id ->
     RespWire.step st (RdCallReq2 ok full) =
     match c10HandleCallReq c_connectionActive ok (negb (mex_refuses st id)) c_connectionActive [] with
     | Some ([], true) => Some (set_rd st RIdle)
     | Some ([4], true) => Some (set_rd (fst (conn_send_syserr st id full)) RProto1)
     | Some ([3], false) => Some (set_rd (set_calls st (put id new_call (calls st))) (RAdded id))
     | _ => None
     end) /\
  (forall st id full, rd_pc st = RAdded id ->
     RespWire.step st (RdCallReq3 full) =
     with_call st id (fun c =>
       match c10HandleCallReq c_connectionActive true true (cstate_go (cst st)) [] with
       | Some ([3], false) => Some (set_rd (commit st id (upd_pc c PNotStarted) false) RIdle)
       | Some ([1; 2], true) =>
           let st1 := fst (conn_send_syserr st id full) in
           let '(c1, chk) := shut_call c in
           Some (set_rd (commit st1 id (upd_pc c1 PDead) chk) RIdle)
       | _ => None
       end)).
Proof. exact (conj reader_req1_generated (conj reader_req2_generated reader_req3_generated)). Qed.
Print Assumptions C10_reader_follows_generated.

(* The call declined by the re-check (Close raced with its admission, the connection is draining
   because other calls are in flight) has no handler -- its program counter is PDead, at which no
   handler action is enabled -- and, inside the quantifier, its frames are for ever exactly the one
   error frame of the decline, whatever the rest of the run does. *)
Theorem C10_declined_call_dead :
  (forall st id full st', rd_pc st = RAdded id -> cst st <> CActive ->
     RespWire.step st (RdCallReq3 full) = Some st' ->
     exists c', get id (calls st') = Some c' /\ h_pc c' = PDead) /\
  (forall st id c l, get id (calls st) = Some c -> h_pc c = PDead ->
     handler_label_of id l = true -> RespWire.step st l = None).
Proof. exact (conj decline_step_dead dead_call_no_handler_step). Qed.
Print Assumptions C10_declined_call_dead.

Theorem C10_declined_exactly_one_err : forall prop ls1 st1 id ls2 st,
  RespWire.run prop ls1 = Some st1 -> rd_pc st1 = RAdded id ->
  cst st1 = CStartClose \/ cst st1 = CInboundClosed ->
  RespWire.run prop (ls1 ++ RdCallReq3 false :: ls2) = Some st ->
  (req_count id (ls1 ++ RdCallReq3 false :: ls2) <= 1)%nat ->
  handler_ok id false (ls1 ++ RdCallReq3 false :: ls2) = true ->
    proj id (RespWire.sent st) = proj id (RespWire.sent st1) ++ [Err] /\
    filter terminal (proj id (RespWire.sent st)) = [Err].
Proof. exact declined_exactly_one_err. Qed.
Print Assumptions C10_declined_exactly_one_err.

(* Non-vacuity: call 5 is in flight (its handler runs), call 7 is registered, Close lands, the
   re-check declines 7, call 5 then answers with a system error: one error frame each. *)
Example C10_declined_example :
  let ls1 := [RdCallReq1 5 false; RdCallReq2 true false; RdCallReq3 false; HStart 5 true;
              RdCallReq1 7 false; RdCallReq2 true false; CClose] in
  let ls2 := [HResp 5; HSysErr 5 false] in
  exists st1 st, RespWire.run false ls1 = Some st1 /\ rd_pc st1 = RAdded 7 /\ cst st1 = CStartClose /\
    RespWire.run false (ls1 ++ RdCallReq3 false :: ls2) = Some st /\
    (req_count 7 (ls1 ++ RdCallReq3 false :: ls2) <= 1)%nat /\
    handler_ok 7 false (ls1 ++ RdCallReq3 false :: ls2) = true /\
    proj 7 (RespWire.sent st) = [Err] /\ proj 5 (RespWire.sent st) = [Err] /\ cst st = CClosed.
Proof.
  cbn zeta. eexists. eexists. split; [vm_compute; reflexivity|]. split; [reflexivity|]. split; [reflexivity|].
  split; [vm_compute; reflexivity|]. split; [vm_compute; apply le_n|]. split; [vm_compute; reflexivity|].
  split; [vm_compute; reflexivity|]. split; vm_compute; reflexivity.
Qed.
