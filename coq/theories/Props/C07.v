(* Property C07 -- Graceful close drains in-flight calls, rejects new ones, then terminates.
   This file contains only statements, each closed by [exact].

   Three interleaving systems (Model/ConnClose.v: one connection; Model/ChanClose.v: the channel
   over its connections; Model/ListenerClose.v: the tnet listener wrapper).  [Reach step init s]
   = s is reached by SOME finite interleaving of thread starts (any number of closers, failers,
   call requests with any ids, callers, exchange removals/expiries, relayed calls, ...) and atomic
   thread steps: the theorems quantify over all of them.

   The models describe the REPAIRED code (three fix: commits): Channel.Close only raises the state;
   handleCallReq's re-check branch answers with the declined error; connectionCloseStateChange
   applies its update whenever it raises the state. *)
From Coq Require Import ZArith List Bool.
From Verif Require Import Base.Wrap Gen.GenConsts Model.CloseKernel Model.ConnClose Model.ChanClose
  Model.ListenerClose Proofs.ConnCloseP Proofs.ChanCloseP Proofs.ListenerCloseP.
Import ListNotations.
Local Open Scope Z_scope.

(* ---- (e) states only move forward --------------------------------------------------- *)

(* Connection: between any two points of any run the state (generated numeric order
   Active=1 < StartClose=2 < InboundClosed=3 < Closed=4) does not decrease and stays in range. *)
Theorem C07_conn_monotone : forall relay ls1 ls2 s1 s2,
  run ConnClose.step (ConnClose.init relay) ls1 = Some s1 -> run ConnClose.step s1 ls2 = Some s2 ->
  st (sh s1) <= st (sh s2) /\ c_connectionActive <= st (sh s1) /\ st (sh s2) <= c_connectionClosed.
Proof. exact conn_monotone. Qed.
Print Assumptions C07_conn_monotone.

(* Channel: same for Client=1 < Listening=2 < StartClose=3 < InboundClosed=4 < Closed=5, under any
   interleaving of any number of Close calls, callbacks, new connections and connection moves. *)
Theorem C07_chan_monotone : forall ls1 ls2 s1 s2,
  run cstep cinit ls1 = Some s1 -> run cstep s1 ls2 = Some s2 ->
  chst (csh s1) <= chst (csh s2) /\ c_ChannelClient <= chst (csh s1) /\ chst (csh s2) <= c_ChannelClosed.
Proof. exact chan_monotone. Qed.
Print Assumptions C07_chan_monotone.

(* ---- (d) closed is signalled exactly once ------------------------------------------- *)

Theorem C07_conn_signal_once : forall relay s, Reach ConnClose.step (ConnClose.init relay) s ->
  0 <= g_stop_closes (sh s) <= 1 /\
  (st (sh s) <> sCl -> g_stop_closes (sh s) = 0 /\ owed s = 0) /\
  (st (sh s) = sCl -> g_stop_closes (sh s) + owed s = 1) /\
  (st (sh s) = sCl -> (forall n p, nth_error (thr s) n = Some p -> is_pce9 p = false) -> g_stop_closes (sh s) = 1).
Proof. exact conn_signal_once. Qed.
Print Assumptions C07_conn_signal_once.

Theorem C07_chan_signal_once : forall s, Reach cstep cinit s ->
  0 <= g_closed (csh s) <= 1 /\
  (chst (csh s) <> hCl -> g_closed (csh s) = 0 /\ cowed s = 0) /\
  (chst (csh s) = hCl -> g_closed (csh s) + cowed s = 1) /\
  (chst (csh s) = hCl -> (forall n p, nth_error (cthr s) n = Some p -> cowing p = false) -> g_closed (csh s) = 1).
Proof. exact chan_signal_once. Qed.
Print Assumptions C07_chan_signal_once.

(* ---- (a) accepted calls keep the connection / channel open --------------------------- *)

(* Without a connection failure: a dispatched inbound call whose exchange is still registered
   keeps the connection <= StartClose, a begun outbound call keeps it <= InboundClosed, the relay
   pending counter is exactly the number of admitted unfinished relayed calls and keeps the
   connection <= StartClose while non-zero. *)
Theorem C07_drain : forall relay s, Reach ConnClose.step (ConnClose.init relay) s -> stopped (sh s) = false ->
  ((exists id, In (id, true) (inb (sh s))) -> st (sh s) <= sSC) /\
  ((exists id, In (id, true) (outb (sh s))) -> st (sh s) <= sIC) /\
  pending (sh s) = zlen (g_live (sh s)) /\
  (g_live (sh s) <> [] -> st (sh s) <= sSC).
Proof. exact conn_drain. Qed.
Print Assumptions C07_drain.

(* The channel never reports more progress than its slowest tracked connection. *)
Theorem C07_chan_drain : forall s, Reach cstep cinit s ->
  (hIC <= chst (csh s) -> forall c, In c (conns (csh s)) -> kIC <= cstate (csh s) c) /\
  (chst (csh s) = hCl -> forall c, In c (conns (csh s)) -> cstate (csh s) c = kCl).
Proof. exact chan_drain. Qed.
Print Assumptions C07_chan_drain.

(* ---- (b) calls arriving after Close are declined, never served, never dropped ---------- *)

(* Every finished handler of a call req [id] that did not dispatch the call queued exactly one
   error frame, (id, Declined) -- or (id, Protocol) on the duplicate-id path --, or queued none
   and the connection is Closed; a dispatched call produced no error frame. *)
Theorem C07_refuse : forall relay s n o id, Reach ConnClose.step (ConnClose.init relay) s ->
  nth_error (thr s) n = Some (PDone o id) ->
  ((o = oRefused1 \/ o = oRefused2 \/ o = oRelRefused) -> answered (sh s) n id eDeclined) /\
  (o = oProto -> answered (sh s) n id eProtocol) /\
  (o = oDispatched -> replies_of n (sh s) = []).
Proof. exact conn_refuse. Qed.
Print Assumptions C07_refuse.

(* Once the state is not Active both state tests of handleCallReq and the relay admission take
   the refusing branch, whose next step is the SendSystemError of ErrChannelClosed. *)
Theorem C07_refuse_steps : forall s n id, st s <> sA ->
  tstep s n (PR1 id) = Some (s, PRRef id) /\
  tstep s n (PR3 id) = Some (s, PR4 id) /\
  tstep s n (PRel1 id false) = Some (s, PRelRef id) /\
  tstep s n (PRRef id) = Some (send_err s n id eDeclined, PDone oRefused1 id) /\
  tstep s n (PR4 id) = Some (send_err s n id eDeclined, PR5 id) /\
  tstep s n (PRelRef id) = Some (send_err s n id eDeclined, PDone oRelRefused id).
Proof. exact conn_refuse_steps. Qed.
Print Assumptions C07_refuse_steps.

(* A handleCallReq thread can only finish dispatched / refused (first check) / refused (re-check) /
   protocol error: there is no path on which the request is dropped without one of these. *)
Theorem C07_reader_outcomes : forall id,
  reader_pc id (start_pc (TReader id)) = true /\
  (forall s n p s' p', reader_pc id p = true -> tstep s n p = Some (s', p') -> reader_pc id p' = true) /\
  (forall o i, reader_pc id (PDone o i) = true ->
     i = id /\ (o = oDispatched \/ o = oRefused1 \/ o = oRefused2 \/ o = oProto)).
Proof. exact conn_reader_outcomes. Qed.
Print Assumptions C07_reader_outcomes.

(* ---- (c) new outbound calls / connections fail locally -------------------------------- *)

Theorem C07_outbound_local :
  (forall s n, st s <> sA -> tstep s n PC1 = Some (s, PDone oCClosed1 0)) /\
  (forall s n id, st s <> sA -> tstep s n (PC3 id) = Some (s, PC4 id)) /\
  (forall s n id, exists s', tstep s n (PC4 id) = Some (s', if has_key id (outb s) then PCE0 (KDone oCClosed2 id) else PDone oCClosed2 id)
                   /\ has_key id (outb s') = false /\ st s' = st s /\ inb s' = inb s) /\
  (forall relay s, Reach ConnClose.step (ConnClose.init relay) s -> forall id,
     (In (id, false) (outb (sh s)) -> exists n, nth_error (thr s) n = Some (PC3 id) \/ nth_error (thr s) n = Some (PC4 id)) /\
     (In (id, false) (inb (sh s)) -> exists n, nth_error (thr s) n = Some (PR3 id) \/ nth_error (thr s) n = Some (PR4 id)
                                             \/ nth_error (thr s) n = Some (PR5 id))).
Proof. exact conn_outbound_local. Qed.
Print Assumptions C07_outbound_local.

Theorem C07_connect_local : forall s arg, hSC <= chst s ->
  ctstep s PConn arg = Some (s, CDone oConnErr) /\
  (forall c, ctstep s (PAd1 c) arg = Some (s, PAd2 c)).
Proof. exact chan_connect_local. Qed.
Print Assumptions C07_connect_local.

(* ---- (d) nothing in flight => Closed -------------------------------------------------- *)

Theorem C07_conn_reaches_closed : forall relay s, Reach ConnClose.step (ConnClose.init relay) s ->
  st (sh s) <> sA ->
  (forall n p, nth_error (thr s) n = Some p -> exists o id, p = PDone o id) ->
  inb (sh s) = [] -> outb (sh s) = [] -> pending (sh s) = 0 ->
  st (sh s) = sCl /\ g_stop_closes (sh s) = 1.
Proof. exact conn_reaches_closed. Qed.
Print Assumptions C07_conn_reaches_closed.

Theorem C07_chan_reaches_closed : forall s, Reach cstep cinit s ->
  hSC <= chst (csh s) ->
  (forall c, In c (conns (csh s)) -> cstate (csh s) c = kCl) ->
  g_owed (csh s) = [] ->
  (forall n p, nth_error (cthr s) n = Some p -> exists o, p = CDone o) ->
  chst (csh s) = hCl /\ g_closed (csh s) = 1.
Proof. exact chan_reaches_closed. Qed.
Print Assumptions C07_chan_reaches_closed.

(* ---- listener: no accept after Close returned ------------------------------------------ *)

Theorem C07_listener : forall s, Reach lstep linit s ->
  (exists n, nth_error (lthr s) n = Some (LKDone true)) ->
  (forall n p, nth_error (lthr s) n = Some p -> can_yield p = false) /\
  refs s = Z.of_nat (count_if in_accept (lthr s)).
Proof. exact listener_no_accept_after_close. Qed.
Print Assumptions C07_listener.

(* ---- non-vacuity ---------------------------------------------------------------------- *)

(* call 5 is dispatched; call 9 passes the first state check and is parked before newExchange;
   Close runs (state StartClose, held by call 5); call 9 continues: registered, re-check fails,
   declined reply (9, 4); call 7 arrives: declined at the first check (7, 4); call 5 finishes:
   the connection reaches Closed (4), stopCh closed once.
   Output tail: 2 replies (9,4) (7,4); outcomes dispatched 5 / refused-at-re-check 9 / close ok /
   refused 7 / removed 5. *)
Example C07_example_conn :
  let out := run_connclose [0; 11;  0;3;5;0;  1;0;0;0;  0;3;9;0;  1;1;4;0;  0;1;0;0;  1;2;0;0;  1;1;0;0;
                            0;3;7;0;  1;3;0;0;  0;5;5;0;  1;4;0;0] in
  skipn 70 out = [0; 4; 0; 0; 0; 1; 0;   2; 9; 4; 7; 4;   5; 10; 5; 12; 9; 50; 0; 11; 7; 40; 5].
Proof. vm_compute. reflexivity. Qed.

(* listen; one connection is added; Close (state StartClose=3), its loop closes connection 0 and
   the callback sees StartClose; the connection reaches Closed; its callback removes it and moves
   the channel to Closed (5) with exactly one signal; all threads done. *)
Example C07_example_chan :
  run_chanclose [16; 0;0;0; 1;0;0; 6;0;0; 8;0;0; 3;0;0; 6;1;2; 8;0;0; 7;1;0; 4;0;0; 6;2;0; 6;1;0; 2;0;4; 4;0;0; 8;0;0; 6;3;0; 8;0;0]
  = [0;  2; 1; 0;  1;  3; 1; 0;  1; 0; 0;  3; 1; 0;  0;  5; 0; 1;   4; 4; 1; 3; 3].
Proof. vm_compute. reflexivity. Qed.

(* the hypotheses of the reaches-closed theorems are met by reachable states *)
Example C07_example_reach :
  exists s, Reach cstep cinit s /\ chst (csh s) = hCl /\ g_closed (csh s) = 1 /\ g_owed (csh s) = [] /\ conns (csh s) = [].
Proof.
  eexists. split.
  - exists ([LListen; LNewConn; LRunC 0 0; LClose; LRunC 1 0; LRunC 1 0; LCallback 0] ++ repeat (LRunC 2 2) 4
            ++ [LRunC 1 0; LConnMove 0 4; LCallback 0; LRunC 3 0; LRunC 3 0; LRunC 3 0; LRunC 3 0; LRunC 3 4; LRunC 3 0; LRunC 3 0]).
    vm_compute. reflexivity.
  - vm_compute. repeat split.
Qed.

(* ==== the pinned tree: the three repaired defects, as refuted clauses ======================= *)
From Verif Require Import Model.ClosePinned Proofs.ClosePinnedP.

(* Model/ClosePinned.v parameterises the step functions by a flag: [step_v false] / [cstep_v false]
   are the repaired models all theorems above are about; [.. true] has (a) Channel.Close assigning
   StartClose unconditionally, (b) handleCallReq's re-check branch shutting the exchange down without
   an error frame, (c) connectionCloseStateChange applying its update only while the channel state
   still equals the value read before the scan. *)
Theorem C07_pinned_flag_false_is_repaired :
  (forall s ls, run (step_v false) s ls = run ConnClose.step s ls) /\
  (forall s ls, run (cstep_v false) s ls = run cstep s ls) /\
  (forall relay s, Reach (step_v false) (ConnClose.init relay) s <-> Reach ConnClose.step (ConnClose.init relay) s) /\
  (forall s, Reach (cstep_v false) cinit s <-> Reach cstep cinit s).
Proof. exact pinned_false_is_repaired. Qed.
Print Assumptions C07_pinned_flag_false_is_repaired.

(* (a) C07_chan_monotone fails on the pinned tree.  Schedule: listen; one connection; Close; the
   connection drains its inbound side; its callback moves the channel to InboundClosed (4); a
   second Close puts it back to StartClose (3). *)
Theorem C07_chan_monotone_pinned_refuted : exists ls1 ls2 s1 s2,
  run (cstep_v true) cinit ls1 = Some s1 /\ run (cstep_v true) s1 ls2 = Some s2 /\
  ~ (chst (csh s1) <= chst (csh s2)) /\ chst (csh s1) = hIC /\ chst (csh s2) = hSC.
Proof. exact chan_monotone_pinned_refuted_ex. Qed.
Print Assumptions C07_chan_monotone_pinned_refuted.

(* (b) C07_refuse fails on the pinned tree: a handleCallReq thread finishes "refused at the
   re-check" although no error frame at all was queued and the connection is still open
   (StartClose, held by another call).  Schedule: call 7 dispatched; frame 5 passes the first
   check and registers; Close; frame 5 fails the re-check. *)
Theorem C07_refuse_pinned_refuted : exists relay s n id,
  Reach (step_v true) (ConnClose.init relay) s /\
  nth_error (thr s) n = Some (PDone oRefused2 id) /\
  ~ answered (sh s) n id eDeclined /\
  g_replies (sh s) = [] /\ st (sh s) = sSC.
Proof. exact refuse_pinned_refuted_ex. Qed.
Print Assumptions C07_refuse_pinned_refuted.

(* (c) C07_chan_reaches_closed fails on the pinned tree: every hypothesis holds (Close issued, no
   tracked connection, every state change had its callback, no thread mid-step) and the channel
   is stuck in InboundClosed with ch.closed never closed.  Schedule: callback A (connection at
   InboundClosed) and callback B (connection Closed and removed) both read chState = StartClose;
   A applies InboundClosed first; B's update to Closed is dropped because state <> chState. *)
Theorem C07_chan_reaches_closed_pinned_refuted : exists s,
  Reach (cstep_v true) cinit s /\
  hSC <= chst (csh s) /\
  (forall c, In c (conns (csh s)) -> cstate (csh s) c = kCl) /\
  g_owed (csh s) = [] /\
  (forall n p, nth_error (cthr s) n = Some p -> exists o, p = CDone o) /\
  ~ (chst (csh s) = hCl /\ g_closed (csh s) = 1) /\
  chst (csh s) = hIC /\ conns (csh s) = [] /\ g_closed (csh s) = 0.
Proof. exact chan_reaches_closed_pinned_refuted_ex. Qed.
Print Assumptions C07_chan_reaches_closed_pinned_refuted.

(* the same three schedules on the repaired model: state kept / declined reply queued / Closed *)
Example C07_example_witnesses_repaired :
  (exists s, run (cstep_v false) cinit (pinned_mono_prefix ++ pinned_mono_suffix) = Some s /\ chst (csh s) = hIC) /\
  (exists s, run (step_v false) (ConnClose.init false) (pinned_refuse_witness ++ [LRun 1]) = Some s /\
             nth_error (thr s) 1 = Some (PDone oRefused2 5) /\ g_replies (sh s) = [(1%nat, 5, eDeclined)]) /\
  (exists s, run (cstep_v false) cinit pinned_stuck_witness = Some s /\ chst (csh s) = hCl).
Proof. exact (conj chan_monotone_witness_repaired (conj refuse_witness_repaired stuck_witness_repaired)). Qed.

(* ==== the admission and close decisions are the ones regenerated from the source ============ *)
From Coq Require Import Permutation.
From Verif Require Import Gen.GenClose Proofs.CloseGenP.

(* Gen/GenClose.v is produced by go2v on every run from relay.go (canClose, canHandleNewCall),
   inbound.go (handleCallReq: state switch, re-check), outbound.go (beginCall: state switch,
   re-check) and channel.go (getMinConnectionState, connectionCloseStateChange, Close).  The steps
   of the hand models that take these decisions are equal to the generated definitions:
   1 = the call proceeds, 0 = the refusing branch (which go2v only accepts when it contains the
   SendSystemError(ErrChannelClosed) resp. mex.shutdown() statements). *)
Theorem C07_decisions_generated :
  (forall s n k moved,
     tstep s n (PCE3 k) = Some (s, if relayCanClose (has_relay s) (pending s) then PCE4 k else resume k) /\
     tstep s n (PCE6 moved k) = Some (s, if relayCanClose (has_relay s) (pending s) then PCE7 moved k else resume k)) /\
  (forall s n id remote,
     tstep s n (PRel1 id remote) =
       if relayCanHandle (st s)
       then Some (set_pending s (relayPendingAfter true (pending s)) (g_live s ++ [n]), PRelLive id)
       else Some (set_pending s (relayPendingAfter false (pending s)) (g_live s),
                  if remote then PDone oRelRemote id else PRelRef id)) /\
  (forall s n id, sA <= st s <= sCl ->
     exists d, callReqStateSwitch (st s) = Some d /\
               tstep s n (PR1 id) = Some (s, if d =? 1 then PR2 id else PRRef id)) /\
  (forall c, ~ (sA <= c <= sCl) -> callReqStateSwitch c = None) /\
  (forall s n id,
     tstep s n (PR3 id) = if callReqRecheck (st s) =? 1
                          then Some (set_inb s (set_flag id (inb s)), PDone oDispatched id)
                          else Some (s, PR4 id)) /\
  (forall s n id,
     tstep s n PC1 = Some (s, if beginCallStateSwitch (st s) =? 1 then PC2 else PDone oCClosed1 0) /\
     (sA <= st s <= sCl -> beginCallStateSwitch (st s) <> 2) /\
     tstep s n (PC3 id) = if beginCallRecheck (st s) =? 1
                          then Some (set_outb s (set_flag id (outb s)), PDone oBegun id)
                          else Some (s, PC4 id)) /\
  (forall s l, Permutation l (conns s) ->
     fold_left (fun m c => minStateStep m (cstate s c)) l minStateInit = minstate s) /\
  (forall m c, update_to m c = chanUpdateTo m c) /\
  (forall s c cs u arg,
     ctstep s (PCb5 c cs u) arg =
       Some (set_chst s (chanApplyUpdate (chst s) u),
             if chst s <? u then (if u =? hCl then PCb6 else CDone oCbDone) else CDone oCbDone)) /\
  (forall s arg, chst s <> hCl ->
     ctstep s PCl1 arg =
       match conns s with
       | [] => Some (set_chst (set_chst s (chanCloseState (chst s))) hCl, PCl2 [] true)
       | _ => Some (set_chst s (chanCloseState (chst s)), PCl2 (conns s) false)
       end).
Proof. exact close_generated. Qed.
Print Assumptions C07_decisions_generated.

(* ==== the listener correspondence engine stays inside the model's reachable states ========= *)
From Verif Require Import Proofs.ListenerRunP.

(* Every operation of a listenerclose script (an Accept / Close call in a new goroutine, the
   return of a parked Accept) followed by the settling of the waiting Close calls is a sequence
   of steps of the listener system: the states compared with the real tnet wrapper are states
   C07_listener quantifies over; and after settling no Close call waits although refs = 0. *)
Theorem C07_listener_entry_reachable : forall s op a,
  Reach lstep linit s -> Reach lstep linit (lsettle (fst (lop s op a))).
Proof. exact listener_entry_reachable. Qed.
Print Assumptions C07_listener_entry_reachable.

Theorem C07_listener_settled : forall s j p,
  nth_error (lthr (lsettle s)) j = Some p -> refs (lsettle s) = 0 -> p <> LK2.
Proof. exact listener_settled. Qed.
Print Assumptions C07_listener_settled.

(* two Accept calls park; Close: underlying closed, blocked (refs = 2); a third Accept fails at
   once; the first parked Accept still returns a connection (refs = 1, Close still blocked); the
   second returns an error: refs = 0 and Close returns nil.
   observation per op: code refs closed #parked #acc-conn #acc-err #close-blocked #close-nil #close-err *)
Example C07_example_listener :
  run_listenerclose [6; 0;0; 0;0; 3;0; 0;0; 1;0; 2;1]
  = [0;1;0;1;0;0;0;0;0;  0;2;0;2;0;0;0;0;0;  0;2;1;2;0;0;1;0;0;  0;2;1;2;0;1;1;0;0;
     0;1;1;1;1;1;1;0;0;  0;0;1;0;1;2;0;1;0].
Proof. vm_compute. reflexivity. Qed.

(* ==== second strengthening: error results, pings, forced Close races, relay pending ========= *)
From Verif Require Import Model.CloseRace Model.ClosePinned2 Proofs.ConnCloseXP Proofs.CloseRaceP
  Proofs.ClosePinned2P Gen.GenClose2 Proofs.CloseGen2P.

(* Model/ConnClose.v now has two more thread kinds: TFinInErr id code -- the handler of a call
   answers with a SYSTEM ERROR (InboundCallResponse.SendSystemError: the error frame is queued,
   then doneSending removes the exchange) -- and TPing id -- a ping req from the peer (answered
   unless the connection is Closed).  Every theorem above is stated over Reach ConnClose.step and
   therefore quantifies over all interleavings with any number of such threads too.  The model
   describes the REPAIRED code (two more fix: commits). *)

(* (a) for ERROR results: a finished handler thread that answered call [id] with system error
   [code] (one byte) queued exactly one error frame (id, code), or none and the connection is
   Closed. *)
Theorem C07_error_result : forall relay s n id code, Reach ConnClose.step (ConnClose.init relay) s ->
  code_ok code = true ->
  nth_error (thr s) n = Some (PDone (oErrBase + code) id) -> answered (sh s) n id code.
Proof. exact conn_error_result. Qed.
Print Assumptions C07_error_result.

(* ... and without a connection failure the second alternative is excluded for an accepted
   call: when the handler of a dispatched call whose exchange is still registered is about to
   send, the connection is at most in StartClose, its step queues exactly the frame (id, code),
   and the exchange is still registered afterwards -- the removal that may close the connection
   follows the frame. *)
Theorem C07_error_result_queued : forall relay s n id code, Reach ConnClose.step (ConnClose.init relay) s ->
  stopped (sh s) = false -> code_ok code = true ->
  nth_error (thr s) n = Some (PErr id code) -> In (id, true) (inb (sh s)) ->
  st (sh s) <= sSC /\
  exists s', ConnClose.step s (LRun n) = Some s' /\
    nth_error (thr s') n = Some (PErrRm id code) /\
    replies_of n (sh s') = [(n, id, code)] /\
    In (id, true) (inb (sh s')) /\ st (sh s') = st (sh s).
Proof. exact conn_error_queued. Qed.
Print Assumptions C07_error_result_queued.

(* the handler thread can only finish with the outcome "answered with code", and its first step
   is the send *)
Theorem C07_error_outcomes : forall id code,
  err_pc id code (start_pc (TFinInErr id code)) = true /\
  (forall s n p s' p', err_pc id code p = true -> tstep s n p = Some (s', p') -> err_pc id code p' = true) /\
  (forall s n s' p', tstep s n (PErr id code) = Some (s', p') -> s' = send_err s n id code /\ p' = PErrRm id code).
Proof. exact conn_err_outcomes. Qed.
Print Assumptions C07_error_outcomes.

(* Pings.  On a connection that is not Closed -- also while it drains -- a ping req is answered
   in two steps that change no shared variable (state, exchanges, stoppedExchanges: the calls
   being drained are untouched); only a Closed connection takes the protocol-error path. *)
Theorem C07_ping_steps : forall s n id,
  (st s <> sCl -> tstep s n (PPing id) = Some (s, PPong id)) /\
  (st s = sCl -> tstep s n (PPing id) = Some (s, PProtoSend id)) /\
  tstep s n (PPong id) = Some (s, PDone oPong id).
Proof. exact conn_ping_steps. Qed.
Print Assumptions C07_ping_steps.

(* while an accepted call holds the connection open (no connection failure) a ping is answered *)
Theorem C07_ping_drain : forall relay s n id idc, Reach ConnClose.step (ConnClose.init relay) s ->
  stopped (sh s) = false -> nth_error (thr s) n = Some (PPing id) -> In (idc, true) (inb (sh s)) ->
  exists s', ConnClose.step s (LRun n) = Some s' /\ sh s' = sh s /\ nth_error (thr s') n = Some (PPong id).
Proof. exact conn_ping_drain. Qed.
Print Assumptions C07_ping_drain.

Theorem C07_ping_outcomes : forall id,
  ping_pc id (start_pc (TPing id)) = true /\
  (forall s n p s' p', ping_pc id p = true -> tstep s n p = Some (s', p') -> ping_pc id p' = true) /\
  (forall o i, ping_pc id (PDone o i) = true -> i = id /\ (o = oPong \/ o = oProto)).
Proof. exact conn_ping_outcomes. Qed.
Print Assumptions C07_ping_outcomes.

(* The forced Close races of engine closerace (Model/CloseRace.v): on the whole domain of the
   engine -- ten scenario kinds (V07: 6 .. 9 = a beginCall parked between its state check and its
   registration, or between its registration and its re-check, while Close lands with an outbound /
   an inbound / no call in flight: it fails locally with the closed-connection error, outcome 22,
   and leaves no exchange), 0..3 other calls in flight, every one-byte error code, every
   position of the target in the completion order -- the model's observable EQUALS the
   specification written from the statement (a raced request is answered with exactly one
   declined frame while the connection is open; an accepted call's result, response or error,
   reaches the peer; a ping on a draining connection is answered; then Closed, signalled once),
   and the scenario only visits reachable states of the connection system. *)
Theorem C07_closerace_spec : forall kind k code pos rest,
  0 <= kind <= 9 -> 0 <= k <= 3 -> 0 <= code <= 255 -> 0 <= pos <= k ->
  run_closerace (kind :: k :: code :: pos :: rest) = spec_closerace kind k code.
Proof. exact closerace_spec. Qed.
Print Assumptions C07_closerace_spec.

Theorem C07_closerace_reachable : forall kind k code pos,
  Reach ConnClose.step (ConnClose.init false) (race_state kind k code pos).
Proof. exact closerace_reachable. Qed.
Print Assumptions C07_closerace_reachable.

(* ---- the code before the two fix: commits, as refuted clauses ------------------------------- *)
Theorem C07_pinned2_flag_false_is_repaired :
  (forall s ls, run (step_p false) s ls = run ConnClose.step s ls) /\
  (forall relay s, Reach (step_p false) (ConnClose.init relay) s <-> Reach ConnClose.step (ConnClose.init relay) s).
Proof. exact pinned2_false_is_repaired. Qed.
Print Assumptions C07_pinned2_flag_false_is_repaired.

(* (d) handlePingReq refusing every state but Active: with no connection failure in the schedule
   (call 5 dispatched; Close; ping req 9) the ping ends in protocolError -- stoppedExchanges set,
   both exchange sets shut down under the accepted call 5, a Protocol error frame queued. *)
Theorem C07_ping_drain_pinned_refuted : exists s,
  Reach (step_p true) (ConnClose.init false) s /\
  thr s = [PDone oDispatched 5; PDone oCloseOk 0; PDone oProto 9] /\
  In (5, true) (inb (sh s)) /\ st (sh s) = sSC /\
  stopped (sh s) = true /\ inb_shut (sh s) = true /\ outb_shut (sh s) = true /\
  g_replies (sh s) = [(2%nat, 9, eProtocol)].
Proof. exact ping_drain_pinned_refuted. Qed.
Print Assumptions C07_ping_drain_pinned_refuted.

(* (e) InboundCallResponse.SendSystemError shutting the exchange down BEFORE sending: after the
   handler's removal (thread 2) has run to its end the connection is Closed, with no connection
   failure, and the SendSystemError issued next queues nothing whatever the code. *)
Theorem C07_error_result_pinned_order_refuted : exists s,
  Reach ConnClose.step (ConnClose.init false) s /\
  thr s = [PDone oDispatched 5; PDone oCloseOk 0; PDone oRemoved 5] /\
  st (sh s) = sCl /\ stopped (sh s) = false /\ g_replies (sh s) = [] /\
  forall n code, send_err (sh s) n 5 code = sh s.
Proof. exact error_result_pinned_order_refuted. Qed.
Print Assumptions C07_error_result_pinned_order_refuted.

(* the same two histories on the repaired model: ping res, nothing else changed / exactly one
   error frame (5, Busy), then Closed and signalled once *)
Example C07_example_witnesses2_repaired :
  (exists s, run ConnClose.step (ConnClose.init false) (ping_witness 2) = Some s /\
     thr s = [PDone oDispatched 5; PDone oCloseOk 0; PDone oPong 9] /\
     In (5, true) (inb (sh s)) /\ st (sh s) = sSC /\ stopped (sh s) = false /\ inb_shut (sh s) = false /\
     g_replies (sh s) = []) /\
  (exists s, run ConnClose.step (ConnClose.init false) err_sent_first = Some s /\
     thr s = [PDone oDispatched 5; PDone oCloseOk 0; PDone (oErrBase + 3) 5] /\
     st (sh s) = sCl /\ g_replies (sh s) = [(2%nat, 5, 3)] /\ g_stop_closes (sh s) = 1).
Proof. exact (conj ping_witness_repaired error_witness_repaired). Qed.

(* ---- statement ties regenerated from inbound.go, connection.go and relay.go ------------------ *)
(* Gen/GenClose2.v: (1) InboundCallResponse.SendSystemError is accepted only with the send before
   doneSending() (marker lets) and is the model's PErr step; (2) the state test of handlePingReq is
   the model's PPing step; (3) the three functions that END a relay item (timeoutRelayItem,
   failRelayItem, finishRelayItem) and the no-destination branch of Relayer.handleCallReq give
   back the unit of Relayer.pending exactly when they took the item -- on the originating and on
   the forwarding side alike -- which is the model's single decrement step PRelLive; C07_drain's
   "pending = number of admitted unfinished relayed calls" rests on it. *)
Theorem C07_decisions2_generated :
  (forall s n id code, code_ok code = true ->
     handlerErrOrder = 1 /\
     tstep s n (PErr id code) = Some (send_err s n id code, if handlerErrOrder =? 1 then PErrRm id code else PDone 0 0)) /\
  (forall s n id,
     tstep s n (PPing id) = Some (s, if pingReqAnswer (st s) =? 1 then PPong id else PProtoSend id)) /\
  (pingReqAnswer sA = 1 /\ pingReqAnswer sSC = 1 /\ pingReqAnswer sIC = 1 /\ pingReqAnswer sCl = 0) /\
  (forall s n id orig slow,
     let done p := Some (set_pending s p (deln n (g_live s)), PCE0 (KDone oRelDone id)) in
     tstep s n (PRelLive id) = done (relayTimeoutPending true orig (pending s)) /\
     tstep s n (PRelLive id) = done (relayFinishPending true orig (pending s)) /\
     tstep s n (PRelLive id) = done (relayFailPending true true true orig slow (pending s)) /\
     tstep s n (PRelLive id) = done (relayNoDestPending true (pending s))) /\
  (forall orig p, relayTimeoutPending false orig p = p /\ relayFinishPending false orig p = p) /\
  (forall found stopped ok orig slow p, found && stopped && ok = false ->
     relayFailPending found stopped ok orig slow p = p) /\
  (forall p, relayNoDestPending false p = p).
Proof. exact close2_generated. Qed.
Print Assumptions C07_decisions2_generated.

(* non-vacuity: kind 0 with nothing else in flight -- request 200 registered, Close, re-check:
   declined frame (200, 4), then its own removal closes the connection, signalled once;
   kind 2: the last call in flight answers with system error 3 while the connection drains *)
Example C07_example_closerace :
  run_closerace [0; 0; 0; 0; 1] = [4; 1; 1; 200; 4; 0] /\
  run_closerace [2; 1; 3; 1; 0] = [4; 1; 1; 200; 3; 0] /\
  run_closerace [3; 2; 0; 0; 1] = [4; 1; 0; 1].
Proof. vm_compute. repeat split. Qed.

(* ==== third strengthening: Serve / ListenAndServe, the order inside the close callback ========= *)
From Verif Require Import Gen.GenClose3 Proofs.ChanServeP Proofs.CloseGen3P.

(* Channel.Serve and Channel.ListenAndServe are threads of the channel model (labels LServe /
   LListenServe start one at ANY point of a run, any number of times; PSrv is the single Lock
   region of Serve, PLs1 the unlocked test of ListenAndServe that precedes it).  Every theorem
   above that is stated over [run cstep] / [Reach cstep cinit] -- C07_chan_monotone,
   C07_chan_signal_once, C07_chan_drain, C07_chan_reaches_closed -- therefore holds for every
   interleaving WITH Serve calls: before Close, after Close, between the locked region of Close and
   its loop, between the state read and the update of a callback, repeated. *)

(* What one Serve does: it succeeds exactly on a channel in state Client whose listener is not set
   (-> Listening, listener set); with the listener set it fails with errAlreadyListening and
   changes nothing; in every other state it fails with errInvalidStateForOp and leaves the state
   alone (the listener stays set, as in the code).  Connections and the closed signal are untouched. *)
Theorem C07_chan_serve_step : forall s arg,
  exists s' o, ctstep s PSrv arg = Some (s', CDone o) /\
    conns s' = conns s /\ cstates s' = cstates s /\ g_closed s' = g_closed s /\ g_owed s' = g_owed s /\
    ((o = oSrvOk /\ chst s = hClient /\ lis s = false /\ chst s' = hListening /\ lis s' = true) \/
     (o = oSrvInvalid /\ chst s <> hClient /\ lis s = false /\ chst s' = chst s /\ lis s' = true) \/
     (o = oSrvAlready /\ lis s = true /\ s' = s)).
Proof. exact chan_serve_step. Qed.
Print Assumptions C07_chan_serve_step.

Theorem C07_chan_listen_serve_step : forall s arg,
  ctstep s PLs1 arg = Some (s, if lis s then CDone oSrvAlready else PSrv).
Proof. exact chan_listen_serve_step. Qed.
Print Assumptions C07_chan_listen_serve_step.

(* (b) at channel level: once the state has reached StartClose, then along EVERY continuation of
   the run (Serve, ListenAndServe, further Close calls, connection events, callbacks) it stays at
   or beyond StartClose; every connection whose handshake completes is refused (not tracked, then
   closed: no call on it is served), Connect fails locally, and every Serve fails without
   touching the state or the connections. *)
Theorem C07_chan_no_service_after_close : forall ls1 ls2 s1 s2,
  run cstep cinit ls1 = Some s1 -> hSC <= chst (csh s1) -> run cstep s1 ls2 = Some s2 ->
  hSC <= chst (csh s2) /\
  (forall c arg, ctstep (csh s2) (PAd1 c) arg = Some (csh s2, PAd2 c)) /\
  (forall arg, ctstep (csh s2) PConn arg = Some (csh s2, CDone oConnErr)) /\
  (forall arg, exists s' o, ctstep (csh s2) PSrv arg = Some (s', CDone o) /\
                            (o = oSrvAlready \/ o = oSrvInvalid) /\ chst s' = chst (csh s2) /\ conns s' = conns (csh s2)).
Proof. exact chan_no_service_after_close. Qed.
Print Assumptions C07_chan_no_service_after_close.

(* At most one Serve call ever returns nil (one accept loop), and a listening channel has its
   listener set (so Close finds it). *)
Theorem C07_chan_serve_once : forall s, Reach cstep cinit s ->
  0 <= srv_count s <= 1 /\
  (srv_count s = 1 -> lis (csh s) = true) /\
  (chst (csh s) = hListening -> lis (csh s) = true).
Proof. exact chan_serve_once. Qed.
Print Assumptions C07_chan_serve_once.

(* Gen/GenClose3.v (regenerated from channel.go on every run): the Lock region of Serve with its
   two assignments, the listener test of ListenAndServe, removeClosedConn, the part of
   connectionCloseStateChange between the schedule points enter and afterRead -- accepted by go2v
   only with ch.removeClosedConn(c) BEFORE chState := ch.State(), the generated state test being the
   model's PCb3, which the model runs after PCb1 / PCb2 -- and the len(conns) == 0 decision of
   Channel.Close are the steps PSrv, PLs1, PCb1, PCb2, PCb3 and PCl1 of the model. *)
Theorem C07_decisions3_generated :
  (forall s arg,
     ctstep s PSrv arg =
       let '(e, l, st) := chanServe (lis s) (chst s) in
       Some (set_chst (set_lis s l) st, CDone (srv_outcome e))) /\
  (forall l st,
     chanServe l st = if l then (1, true, st)
                      else if st =? c_ChannelClient then (0, true, c_ChannelListening) else (2, true, st)) /\
  (forall s arg,
     ctstep s PLs1 arg = Some (s, if chanListenTest (lis s) =? 1 then CDone oSrvAlready else PSrv)) /\
  (forall s c arg,
     ctstep s (PCb1 c) arg = Some (s, if chanRemoveTest (cstate s c) =? 1 then PCb2 c else PCb3 c) /\
     chanRemoveDeletes = 1 /\
     ctstep s (PCb2 c) arg = Some (set_conns s (remn c (conns s)), PCb3 c)) /\
  (forall s c arg,
     ctstep s (PCb3 c) arg =
       Some (s, if chanCallbackRead (chst s) =? 0 then CDone oCbDone else PCb4 c (chanCallbackRead (chst s)))) /\
  (forall s arg, chst s <> hCl ->
     ctstep s PCl1 arg =
       let '(st, cc) := chanCloseEmpty (zlen (conns s)) (chanCloseState (chst s)) in
       Some (set_chst s st, PCl2 (if cc then [] else conns s) cc)).
Proof. exact close3_generated. Qed.
Print Assumptions C07_decisions3_generated.

(* non-vacuity.  (1) a client channel: connection 0 is added (op 1, thread 0); Close (thread 1)
   parks after its locked region: StartClose (3), one connection tracked; ListenAndServe (op 10,
   thread 2) and Serve (op 9, thread 3) are both refused and the state stays 3; outcomes at the end:
   added (4), Close still before its loop (-1), errInvalidStateForOp (10) -- which set the
   listener --, errAlreadyListening (9).
   (2) the forced schedule of the engine: listen; connection 0 added; it closes on its own (2 0 4);
   its callback (thread 1) runs to chan.removeClosedConn.beforeLock (class 5): Listening (2), one
   connection tracked; Close (thread 2) runs to its end: StartClose (3), the closed connection
   still tracked; the callback resumes: removes it, reads StartClose, finds no connection left and
   closes the channel: Closed (5), nothing tracked, one signal. *)
Example C07_example_serve :
  run_chanclose [10; 1;0;0; 6;0;0; 3;0;0; 6;1;2; 8;0;0; 10;0;0; 6;2;0; 9;0;0; 6;3;0; 8;0;0]
    = [0;  1;  3; 1; 0;  0;  0;  3; 1; 0;   4; 4; -1; 10; 9] /\
  run_chanclose [14; 0;0;0; 1;0;0; 6;0;0; 2;0;4; 4;0;0; 6;1;32; 8;0;0; 3;0;0; 6;2;2; 7;2;0; 6;2;0; 8;0;0; 6;1;0; 8;0;0]
    = [0;  5;  2; 1; 0;  1; 1; 0;  3; 1; 0;  0;  5; 0; 1;   3; 4; 3; 1].
Proof. vm_compute. split; reflexivity. Qed.

Example C07_example_no_service :
  exists ls1 s1, run cstep cinit ls1 = Some s1 /\ chst (csh s1) = hIC /\ conns (csh s1) = [0%nat] /\ lis (csh s1) = false.
Proof.
  exists [LNewConn; LRunC 0 0; LClose; LRunC 1 0; LRunC 1 0; LRunC 1 0; LConnMove 0 3; LCallback 0;
          LRunC 2 0; LRunC 2 0; LRunC 2 0; LRunC 2 3; LRunC 2 0].
  eexists. split; [vm_compute; reflexivity|]. vm_compute. repeat split.
Qed.

(* ---- the two wrong variants of channel.go this pass is about, as refuted clauses -------------- *)
From Verif Require Import Model.ClosePinned3 Proofs.ClosePinned3P.

(* Model/ClosePinned3.v: [vstep serve_late read_first]; both flags false = the channel model
   (same runs as [cstep], thread by thread). *)
Theorem C07_pinned3_flags_false_is_model :
  (forall ls, run (vstep false false) vinit ls = vembed_opt (run cstep cinit ls)) /\
  (forall s, Reach cstep cinit s -> Reach (vstep false false) vinit (vembed s)).
Proof. exact pinned3_false_is_model. Qed.
Print Assumptions C07_pinned3_flags_false_is_model.

(* serve_late (Serve refuses only a Closed channel): a client channel with an outbound call in
   flight is closed (InboundClosed); Serve returns nil and the state is Listening again -- (e) is
   false --, and the next connection that completes its handshake is tracked -- (b) is false. *)
Theorem C07_chan_monotone_serve_late_refuted : exists s1 s2,
  run (vstep true false) vinit serve_late_prefix = Some s1 /\
  run (vstep true false) s1 serve_late_suffix = Some s2 /\
  chst (vsh s1) = hIC /\ chst (vsh s2) = hListening /\ ~ (chst (vsh s1) <= chst (vsh s2)) /\
  nth_error (vthr s2) 3 = Some (VN (CDone oSrvOk)) /\
  nth_error (vthr s2) 4 = Some (VN (CDone oAdded)) /\ conns (vsh s2) = [0%nat; 1%nat].
Proof. exact chan_monotone_serve_late_refuted. Qed.
Print Assumptions C07_chan_monotone_serve_late_refuted.

(* read_first (the callback reads the channel state before it removes the closed connection): the
   connection closes on its own, Close lands between the callback's read and its removal: every
   hypothesis of C07_chan_reaches_closed holds in the final state, the channel is stuck in
   StartClose with no connection and no signal -- (d) is false. *)
Theorem C07_chan_reaches_closed_read_first_refuted : exists s,
  Reach (vstep false true) vinit s /\
  hSC <= chst (vsh s) /\
  (forall c, In c (conns (vsh s)) -> cstate (vsh s) c = kCl) /\
  g_owed (vsh s) = [] /\
  (forall n p, nth_error (vthr s) n = Some p -> exists o, p = VN (CDone o)) /\
  ~ (chst (vsh s) = hCl /\ g_closed (vsh s) = 1) /\
  chst (vsh s) = hSC /\ conns (vsh s) = [] /\ g_closed (vsh s) = 0.
Proof. exact chan_reaches_closed_read_first_refuted. Qed.
Print Assumptions C07_chan_reaches_closed_read_first_refuted.

(* the same two schedules on the model itself: Serve is refused and the connection is not tracked;
   the callback closes the channel *)
Example C07_example_witnesses3_model :
  (exists s2,
     run (vstep false false) vinit (serve_late_prefix ++ serve_late_suffix) = Some s2 /\
     chst (vsh s2) = hIC /\ nth_error (vthr s2) 3 = Some (VN (CDone oSrvInvalid)) /\
     nth_error (vthr s2) 4 = Some (VN (PAd2 1)) /\ conns (vsh s2) = [0%nat]) /\
  (exists s,
     run (vstep false false) vinit (read_first_witness ++ [LRunC 1 0; LRunC 1 4; LRunC 1 0; LRunC 1 0]) = Some s /\
     chst (vsh s) = hCl /\ g_closed (vsh s) = 1 /\ conns (vsh s) = []).
Proof. exact (conj serve_late_witness_model read_first_witness_model). Qed.

(* ==== fourth strengthening (V07): the optional components a closing channel stops ============== *)
From Verif Require Import Gen.GenC07Stop Model.C07CloseStop Proofs.C07CloseStopP Proofs.C07CloseStopGenP.

(* Model/C07CloseStop.v: the channel system [cstep] extended with the idle sweeper (started flag,
   ghost count of close(is.stopCh)), a ghost count of ch.mutable.l.Close() and a ghost count of
   PANICS inside Channel.Close (close of a closed channel).  [xinit interval]: IdleCheckInterval.
   Under EVERY interleaving of any number of Close calls (before, while and after the channel
   drains) with connection moves, callbacks, new connections and Serve calls: no Close panics, no
   thread ends with the panic outcome, and the run projects onto a run of the channel system, so
   all C07_chan_* theorems hold of the channel with its optional components. *)
Theorem C07_close_stop_no_panic : forall interval s, Reach xstep (xinit interval) s ->
  x_panics s = 0 /\ Reach cstep cinit (xb s) /\
  (forall n o, nth_error (cthr (xb s)) n = Some (CDone o) -> o <> oClosePanic).
Proof. exact c07stop_no_panic. Qed.
Print Assumptions C07_close_stop_no_panic.

(* The sweeper's stop action runs AT MOST ONCE and exactly when it should: the poller is running
   iff it is configured and no Close has passed its locked region (state below StartClose); from
   then on it is stopped and its stopCh has been closed exactly once. *)
Theorem C07_close_stop_once : forall interval s, Reach xstep (xinit interval) s ->
  sw_started (xw s) = (0 <? interval) && negb (hSC <=? chst (csh (xb s))) /\
  sw_closes (xw s) = (if (0 <? interval) && (hSC <=? chst (csh (xb s))) then 1 else 0) /\
  0 <= sw_closes (xw s) <= 1.
Proof. exact c07stop_once. Qed.
Print Assumptions C07_close_stop_once.

(* The locked region of Channel.Close, as one step of ANY variant: listener closes, sweeper, state
   and the rest of the call are what [close_region] (tied to the source below) says; where Stop
   panics the state is NOT raised and no connection is closed by that call. *)
Theorem C07_close_stop_region_step : forall keep s tid arg,
  nth_error (cthr (xb s)) tid = Some PCl1 ->
  let sh := csh (xb s) in
  let '(lcl, stops, st', cc) := close_region (lis sh) (zlen (conns sh)) (chst sh) in
  match (if stops =? 0 then Some (xw s) else sweep_stop_v keep (xw s)) with
  | None => exists s', xstep_v keep s (LRunC tid arg) = Some s' /\ x_panics s' = x_panics s + 1 /\
                       csh (xb s') = sh /\ nth_error (cthr (xb s')) tid = Some (CDone oClosePanic)
  | Some w' => exists s', xstep_v keep s (LRunC tid arg) = Some s' /\ x_panics s' = x_panics s /\
                       xw s' = w' /\ x_lcloses s' = x_lcloses s + lcl /\ chst (csh (xb s')) = st' /\
                       nth_error (cthr (xb s')) tid = Some (PCl2 (if (stops =? 0) || cc then [] else conns sh) cc)
  end.
Proof. exact c07stop_region_step. Qed.
Print Assumptions C07_close_stop_region_step.

(* The wrong variant (idleSweep.Stop does not clear is.started), as a refuted clause: one
   connection, Close (StartClose), a second Close while the channel drains -- panic; the channel
   stays in StartClose and the second Close never closes the connections. *)
Theorem C07_close_stop_keep_started_refuted : exists s,
  run (xstep_v true) (xinit 1) keep_started_witness = Some s /\
  x_panics s = 1 /\ chst (csh (xb s)) = hSC /\ conns (csh (xb s)) = [0%nat] /\
  nth_error (cthr (xb s)) 2 = Some (CDone oClosePanic).
Proof. exact c07stop_keep_started_refuted. Qed.
Print Assumptions C07_close_stop_keep_started_refuted.

(* the same schedule on the model (no panic, stopCh closed once, the second Close goes on to close
   the connections), and on the wrong variant with the DEFAULT options (invisible) *)
Example C07_example_keep_started_model :
  (exists s, run xstep (xinit 1) keep_started_witness = Some s /\ x_panics s = 0 /\ sw_closes (xw s) = 1 /\
             nth_error (cthr (xb s)) 2 = Some (PCl2 [0%nat] false)) /\
  (exists s, run (xstep_v true) (xinit 0) keep_started_witness = Some s /\ x_panics s = 0 /\ sw_closes (xw s) = 0).
Proof. exact keep_started_witness_model. Qed.

(* Engine c07closecfg, component observable (started, #close(stopCh), #panics at every observation):
   the model's output EQUALS the specification written from the statement ("the sweeper runs until
   the first Close, is stopped exactly once, no Close panics") on EVERY input: any interval, any
   number of connections, any script of Close batches / connection moves / observations. *)
Theorem C07_closestop_spec : forall c, run_c07closestop c = spec_c07closestop c.
Proof. exact c07closestop_spec. Qed.
Print Assumptions C07_closestop_spec.

Theorem C07_closecfg_reachable : forall interval listening nconns,
  Reach xstep (xinit interval) (xstart interval listening nconns).
Proof. exact c07closecfg_reachable. Qed.
Print Assumptions C07_closecfg_reachable.

(* Connection.stopHealthCheck (Model/C07CloseStop.v part 2): any number of calls, from outside and
   from the health-check goroutine itself, in any interleaving.  Health checks off: nothing behind
   the first guard is touched; the goroutine never waits for its own exit; close(healthCheckDone)
   at most once; a waiting caller has cancelled the context. *)
Theorem C07_health_stop_safe : forall on s, Reach hstep (hinit on) s ->
  (on = false -> forall n p, nth_error (hthr s) n = Some p -> p = HDone \/ p = HS1) /\
  (forall n p, nth_error (hthr s) n = Some p -> p <> HGs3 /\ p <> HGs4) /\
  0 <= h_exits (hsh s) <= 1 /\
  (forall n, nth_error (hthr s) n = Some HS4 -> h_cancelled (hsh s) = true).
Proof. exact c07hc_safe. Qed.
Print Assumptions C07_health_stop_safe.

(* ... and every call returns: no reachable state with an unfinished thread is stuck. *)
Theorem C07_health_stop_progress : forall on s, Reach hstep (hinit on) s ->
  (exists n p, nth_error (hthr s) n = Some p /\ p <> HDone) ->
  exists l s', hstep s l = Some s'.
Proof. exact c07hc_progress. Qed.
Print Assumptions C07_health_stop_progress.

Example C07_example_health_stop :
  exists s, run hstep (hinit true)
              [LHStop; LHRun 1 0; LHRun 0 1; LHRun 0 0; LHStop; LHRun 1 0; LHRun 2 0; LHRun 2 0;
               LHRun 0 0; LHRun 0 0; LHRun 0 0] = Some s /\
            hthr s = [HDone; HDone; HDone] /\ h_exits (hsh s) = 1 /\ h_cancelled (hsh s) = true.
Proof. exact c07hc_example. Qed.

(* TIE (Gen/GenC07Stop.v, regenerated from idle_sweep.go, health.go, channel.go, inbound.go,
   outbound.go on every run): idleSweep.start and Stop, the two guards of stopHealthCheck, the locked
   region of Channel.Close (early return before anything is stopped, l.Close() only with a listener,
   Stop() exactly once and inside the closure, the state only raised) and the two admission
   re-checks selected by their POSITION after the registration are the model's functions / steps. *)
Theorem C07_decisions4_generated :
  (forall w iv,
     sweep_start iv w =
       if c07SweepStartGuard (sw_started w) iv =? 1
       then (let '(st', cl') := c07SweepStartSets (sw_started w) (sw_closes w) in mkSw st' cl')
       else w) /\
  (forall w, 0 <= sw_closes w <= 1 ->
     sweep_stop w =
       (let '(st', cl') := c07SweepStop (sw_started w) (sw_closes w) in
        if 2 <=? cl' then None else Some (mkSw st' cl'))) /\
  (forall e, hc_guard1 e = c07StopHealthGuard e) /\
  (forall c, hc_guard2 c = c07StopHealthRest c) /\
  (forall has_l n cur, close_region has_l n cur = c07CloseRegion has_l n cur) /\
  (forall s n id,
     tstep s n (PR3 id) = (if c07CallReqRecheckAt (st s) =? 1
                           then Some (set_inb s (set_flag id (inb s)), PDone oDispatched id)
                           else Some (s, PR4 id)) /\
     tstep s n (PC3 id) = (if c07BeginCallRecheckAt (st s) =? 1
                           then Some (set_outb s (set_flag id (outb s)), PDone oBegun id)
                           else Some (s, PC4 id))).
Proof. exact c07stop_generated. Qed.
Print Assumptions C07_decisions4_generated.

(* non-vacuity of the closerace kinds added in this pass: a beginCall parked between its state
   check and its registration while Close lands on an idle connection (Closed), on a connection
   with one outbound call in flight (InboundClosed), with two inbound calls in flight (StartClose) *)
Example C07_example_closerace_outbound :
  run_closerace [6; 0; 0; 0; 1] = [4; 1; 0; 0; 22; 0] /\
  run_closerace [6; 1; 0; 0; 0] = [4; 1; 0; 0; 22; 0] /\
  run_closerace [7; 2; 0; 0; 1] = [4; 1; 0; 0; 22; 0] /\
  run_closerace [8; 0; 0; 0; 1] = [4; 1; 0; 0; 22; 0] /\
  run_closerace [9; 1; 0; 0; 0] = [4; 1; 0; 0; 22; 0].
Proof. vm_compute. repeat split. Qed.
