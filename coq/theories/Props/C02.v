(* Property C02 -- Checksums follow the protocol and expose any corruption. *)
From Coq Require Import ZArith List Bool.
From Verif Require Import Base.Wrap Base.Bytes Gen.GenConsts Gen.GenFrame Model.Crc Model.Frag
  Spec.FragSpec Spec.FragOk Proofs.FragWP Proofs.CkP Proofs.CrcP.
Import ListNotations.
Local Open Scope Z_scope.

(* (a) every fragment the writer emits -- for any three arguments, any write sizes and
   flushes, any capacities -- carries the checksum, computed from scratch by the
   table-free CRC definition, of ALL argument bytes of the message up to and including
   that fragment, and a constant type byte *)
Theorem C02_running : forall (capf : bool -> Z) kind a1 a2 a3 k f,
  3 <= capf true -> 5 <= capf false -> kind = 1 \/ kind = 3 ->
  exists codes st,
    w_run capf (script3 a1 a2 a3) (w_init (mkCk kind 0)) [] = Some (codes, st) /\
    (nth_error (ws_out st) k = Some f ->
       f_ck f = be 4 (crc32_update (if kind =? 1 then poly_ieee else poly_castagnoli) 0 (data_upto k (ws_out st)))
       /\ f_ctype f = kind).
Proof.
  intros capf kind a1 a2 a3 k f H1 H2 Hk.
  destruct (writer_correct capf (mkCk kind 0) a1 a2 a3 H1 H2) as [codes [st [R [_ [_ [_ [_ [_ C]]]]]]]].
  exists codes, st. split; [exact R|]. intros Hn.
  destruct (ck_chain_closed _ _ _ _ C Hn) as [A B]. rewrite A, B. split; [apply ck_sum_crc; exact Hk|reflexivity].
Qed.

(* pooled checksum objects: New() starts from the initial state whatever was released *)
Theorem C02_pool_reset : forall t c, ck_new t = Some c -> ck_val c = 0.
Proof.
  intros t c. unfold ck_new. destruct ((t <? 0) || (t >=? c_checksumCount)); [discriminate|].
  destruct (t =? c_ChecksumTypeCrc32); [intros H; inversion H; reflexivity|].
  destruct (t =? c_ChecksumTypeCrc32C); intros H; inversion H; reflexivity.
Qed.

(* a checksum type byte outside the known range never reaches the pool lookup: the fragment
   parser rejects it (all 256 byte values) *)
Theorem C02_type_range : forall t, 0 <= t < 256 -> (ck_new t = None <-> c_checksumCount <= t).
Proof.
  intros t Ht. unfold ck_new, c_checksumCount.
  destruct (t <? 0) eqn:A; [apply Z.ltb_lt in A; exfalso; destruct Ht; apply (Z.lt_irrefl 0); eapply Z.le_lt_trans; eassumption|].
  destruct (t >=? 4) eqn:B; cbn [orb].
  - split; [intros _; apply Z.geb_le in B; exact B|reflexivity].
  - split; [|intros H; apply Z.geb_le in H; congruence].
    destruct (t =? c_ChecksumTypeCrc32); [discriminate|]. destruct (t =? c_ChecksumTypeCrc32C); discriminate.
Qed.

(* (b) detection.  one_byte_diff d d' = the byte strings agree except at exactly one position
   where two different bytes stand.  rs_with_in st fs = reader state st about to receive fs. *)

(* the CRC itself: a single altered byte always changes the CRC, for both polynomials, any
   initial value, any position, any surrounding bytes *)
Theorem C02_crc_detects_one_byte : forall P c pre x y post,
  P = poly_ieee \/ P = poly_castagnoli -> 0 <= x < 256 -> 0 <= y < 256 -> x <> y ->
  crc32_update P c (pre ++ x :: post) <> crc32_update P c (pre ++ y :: post).
Proof. exact crc_detect_one_byte. Qed.

(* an argument byte of a fragment altered in transit (checksum field intact, crc32/crc32c):
   wherever the reader would have accepted the fragment, it now fails AT THAT FRAGMENT with
   errMismatchedChecksums, and the error is sticky (the message is never reported complete) *)
Theorem C02_detect_data : forall st f f' rest rest' st1,
  r_recv (rs_with_in st (f :: rest)) = Some (0, st1) ->
  f_ctype f = c_ChecksumTypeCrc32 \/ f_ctype f = c_ChecksumTypeCrc32C ->
  f_ctype f' = f_ctype f -> f_ck f' = f_ck f ->
  one_byte_diff (concat (f_chunks f)) (concat (f_chunks f')) ->
  exists st2, r_recv (rs_with_in st (f' :: rest')) = Some (8, st2) /\ rs_err st2 = 8.
Proof. exact r_recv_detect_data. Qed.

(* a checksum byte altered in transit (any change of the checksum field, data intact) *)
Theorem C02_detect_cksum : forall st f f' rest rest' st1,
  r_recv (rs_with_in st (f :: rest)) = Some (0, st1) ->
  f_ctype f' = f_ctype f -> f_chunks f' = f_chunks f -> f_ck f' <> f_ck f ->
  exists st2, r_recv (rs_with_in st (f' :: rest')) = Some (8, st2) /\ rs_err st2 = 8.
Proof. exact r_recv_detect_ck. Qed.

(* the checksum type changing mid-message fails the read at that fragment *)
Theorem C02_type_change : forall st c f rest, rs_err st = 0 -> rs_ck st = Some c ->
  ck_typecode c <> f_ctype f ->
  exists st2, r_recv (rs_with_in st (f :: rest)) = Some (7, st2) /\ rs_err st2 = 7.
Proof. exact recv_type_change. Qed.

Print Assumptions C02_running.
Print Assumptions C02_crc_detects_one_byte.
Print Assumptions C02_detect_data.
Print Assumptions C02_detect_cksum.
Print Assumptions C02_type_change.
Print Assumptions C02_pool_reset.

(* the standard check values of the two polynomials ("123456789") *)
Example C02_crc_check_values :
  crc32_update poly_ieee 0 [49;50;51;52;53;54;55;56;57] = 3421780262 /\      (* 0xCBF43926 *)
  crc32_update poly_castagnoli 0 [49;50;51;52;53;54;55;56;57] = 3808858755.  (* 0xE3069283 *)
Proof. vm_compute. split; reflexivity. Qed.

(* ------------------------------------------------------------------------------------------
   Pooled checksum objects reused across messages: the running CRC is private to one message
   between ChecksumType.New() and Release().  (Model/CkOwn.v, Proofs/CkOwnP.v)               *)
From Verif Require Import Gen.GenCkSites Model.CkOwn Proofs.CkOwnP.

(* The table of EVERY operation on a pooled checksum in the non-test source of the package
   -- New, Release, Add, Sum, Reset, pool Get/Put, noReleaseChecksum wraps, stores into struct
   fields, hand-overs as arguments; each with its enclosing function, receiver expression and
   the conditions guarding it -- regenerated by go2v on this run (Gen/GenCkSites.ck_sites), is
   the model's table: of the tree as pinned (finishRelayItem releases the relay's mutated
   checksum), or of the tree without that Release.  A Release added to failRelayItem or
   timeoutRelayItem, a Release moved out of its `if`, a dropped noReleaseChecksum wrap, a new
   user of item.mutatedChecksum ... make both alternatives false. *)
Theorem C02_ck_sites_generated :
  map snd (ck_site_table true) = ck_sites \/ map snd (ck_site_table false) = ck_sites.
Proof. exact ck_table_generated. Qed.

(* every New/Add/Sum/Release event of the life-cycle model happens at a row of that table whose
   kind is the event's operation *)
Theorem C02_ck_model_sites_in_table : forall fr strict ls s es s',
  ck_run_lc fr strict s ls = Some (es, s') -> forallb (ck_ev_site_ok fr) es = true.
Proof. exact ck_run_sites. Qed.

(* OWNERSHIP DISCIPLINE.  For every interleaving [ls] of any number of request writers,
   response writers, readers and mutated relay items -- whichever pooled object each New()
   draws, errors / failRelayItem / timeouts at any point, any number of frames of a relayed
   call in flight -- the trace [es] of pooled-checksum operations satisfies [ck_ok]: an object
   is acquired only while nobody holds it; Add, Sum and Release happen only through the life
   cycle that holds it, at a site of that life cycle; after its Release nobody holds it (no
   use after release, no second release, no running CRC shared by two messages).
   fr = false: the tree without the Release in finishRelayItem -- unconditional.
   fr = true (the pinned tree): under [strict] -- finishRelayItem does not run while a frame
   of the call is between the relay's item lookup and the end of its checksum update. *)
Theorem C02_ck_discipline : forall fr strict ls es s,
  (fr = false \/ strict = true) ->
  ck_run_lc fr strict ck_init ls = Some (es, s) -> ck_ok fr es = true.
Proof. exact ck_discipline. Qed.

(* ... and the pinned tree without that restriction REFUTES the discipline (a genuine defect,
   known finding c02:relay-checksum-released-under-inflight-frame, reproduced on the
   implementation by engine ckown, scenario "overlap"): the origin connection's reader is still
   feeding the item's checksum when the destination connection's reader finishes the call and
   releases it -- event 2 of the trace is an Add on an object nobody holds. *)
Theorem C02_ck_discipline_refuted_by_overlap :
  exists ls es s, ck_run_lc true false ck_init ls = Some (es, s) /\ ck_run true [] 0 es = inr (2, 3).
Proof. exact ck_discipline_refuted_by_overlap. Qed.

(* released exactly once: in every run a completed life cycle (writer: last fragment finished;
   reader: doneReading; relay item: finished, on a tree that releases there) has exactly one
   Release event and every other life cycle none *)
Theorem C02_ck_released_once : forall fr strict ls es s k,
  ck_run_lc fr strict ck_init ls = Some (es, s) ->
  ck_rel_count k es = if o_phase (cs_own s k) =? 4 then 1 else 0.
Proof. exact ck_released_once. Qed.

Print Assumptions C02_ck_sites_generated.
Print Assumptions C02_ck_model_sites_in_table.
Print Assumptions C02_ck_discipline.
Print Assumptions C02_ck_discipline_refuted_by_overlap.
Print Assumptions C02_ck_released_once.

(* non-vacuity: a run with all four kinds of life cycle, pool reuse, a send failure in the
   middle of a re-fragmented request followed by further Add/Sum of the fragmenting writer,
   a continuation frame and the finish of the item is accepted by the strict model of both
   variants, satisfies the discipline, and exercises every New/Add/Sum/Release row of the
   table outside checksum.go *)
Example C02_ck_sample : forall fr,
  match ck_run_lc fr true ck_init (ck_sample_run fr) with
  | Some (es, _) =>
      ck_ok fr es = true /\
      forallb (fun row => (row <=? 7) || existsb (fun e => ce_site e =? row) es) (ck_op_rows fr) = true
  | None => False
  end.
Proof. exact ck_sample_ok. Qed.

(* the reviewer's change in the model: a Release at the failure inside fragmentingSend, then the
   fragmenting writer goes on -- the discipline checker rejects the trace at the Release (a site
   foreign to the item's life cycle), and without that check at the next Add *)
Example C02_ck_release_on_fail_rejected :
  ck_run true [] 0 [mkCkev K_it_new 0 1 1; mkCkev K_wr_add 1 1 1; mkCkev K_wr_rel 3 1 1; mkCkev K_wr_add 1 1 1] = inr (2, 7)
  /\ ck_run true [] 0 [mkCkev K_it_new 0 1 1; mkCkev K_it_rel 3 1 1; mkCkev K_wr_add 1 1 1] = inr (2, 3).
Proof. vm_compute. split; reflexivity. Qed.

(* ------------------------------------------------------------------------------------------
   The checksum type of a message is fixed by its first fragment.  (Gen/GenC02TypeCk.v,
   Proofs/C02TypeCkP.v)                                                                       *)
From Verif Require Import Base.Wire Gen.GenC02TypeCk Model.FragWire Proofs.C02TypeCkP.

(* TIE.  The reader step of the model (r_recv, Model/Frag.v) IS the step whose decision between
   the receipt of a fragment and the chunk loop is the definition c02ReaderTypeCk that go2v
   regenerates on this run from fragmenting_reader.go recvAndParseNextFragment -- every statement
   between `r.curFragment, r.err = r.receiver.recvNextFragment(initial)` and
   `r.hasMoreFragments = ...`: the receiver-error return, `r.checksum = <type byte of this
   fragment>.New()` when there is no checksum yet (the first fragment), and otherwise
   `r.checksum.TypeCode() != r.curFragment.checksumType => errMismatchedChecksumTypes`.
   (c02_r_recv: Proofs/C02TypeCkP.v.)  A further conjunct or disjunct in that comparison, another
   operand, a checksum re-created mid-message, a dropped return, a statement inserted in between:
   the definition changes or is not generated, and this obligation fails. *)
Theorem C02_reader_typecheck_generated : forall st, r_recv st = c02_r_recv st.
Proof. exact c02_r_recv_generated. Qed.

(* The generated decision itself, ALL 256 values of the type byte, each base type b (none,
   crc32, crc32c: the types whose checksum object reports its own type code): on a non-initial
   fragment no checksum is created (-1) and the step returns errMismatchedChecksumTypes (7)
   exactly when the type byte is not b.  (Finite sweep by computation on the generated term,
   lifted with forallb_forall: independent of the shape of the Go expression.) *)
Theorem C02_typecheck_all_bytes : forall b t, In b c02_base_types -> 0 <= t < 256 ->
  c02ReaderTypeCk 0 true b t = (-1, if t =? b then 0 else 7).
Proof. exact c02_typeck_later_all_bytes. Qed.

(* ... and on the first fragment the checksum is created for that fragment's own type byte *)
Theorem C02_typecheck_first_fragment : forall x t, 0 <= x < 256 -> 0 <= t < 256 ->
  c02ReaderTypeCk 0 false x t = (t, 0).
Proof. exact c02_typeck_first_all_bytes. Qed.

(* the re-typed fragment: the generated decision says 7 and the model step fails with
   errMismatchedChecksumTypes, sticky, whatever checksum bytes and chunks the fragment carries *)
Theorem C02_retyped_fragment_fails : forall st c f rest t,
  rs_err st = 0 -> rs_ck st = Some c -> c02_base (ck_typecode c) -> 0 <= t < 256 ->
  f_ctype f = t -> t <> ck_typecode c ->
  snd (c02ReaderTypeCk 0 true (ck_typecode c) t) = 7 /\
  exists st2, r_recv (rs_with_in st (f :: rest)) = Some (7, st2) /\ rs_err st2 = 7.
Proof. exact c02_retyped_fragment_fails. Qed.

(* NEVER COMPLETE.  A message f0 :: pre ++ f :: post whose first fragment has a base type and in
   which a later fragment f of the same message (f0 and all of pre announce more fragments)
   carries ANY other type byte -- with any checksum bytes, any chunks, anything after it: for
   EVERY script of reader operations (BeginArgument, Read of any size, Close, ArgReadHelper.Read,
   in any order, also after errors) that does not panic, the reader does not reach
   fragmentingReadComplete, doneReading is not called, and the reader has taken at most the
   fragments up to and including f: the read has failed by the end of that fragment. *)
Theorem C02_type_change_never_complete : forall f0 pre f post ops obs st,
  c02_base (f_ctype f0) -> f_more f0 = true -> Forall (fun g => f_more g = true) pre ->
  f_ctype f <> f_ctype f0 ->
  r_run_lin ops (r_init (f0 :: pre ++ f :: post)) = Some (obs, st) ->
  rs_state st <> c_fragmentingReadComplete /\ rs_fin st = false /\ rs_got st <= 2 + zlen pre.
Proof. exact c02_type_change_never_complete. Qed.

Print Assumptions C02_reader_typecheck_generated.
Print Assumptions C02_typecheck_all_bytes.
Print Assumptions C02_typecheck_first_fragment.
Print Assumptions C02_retyped_fragment_fails.
Print Assumptions C02_type_change_never_complete.

(* non-vacuity: a three-fragment crc32 message read with ArgReadHelper completes; the same
   message with the type byte of its last fragment replaced by 2 (Farmhash; same four checksum
   bytes, which still equal the running CRC) fails with code 7 when that fragment arrives *)
Example C02_type_change_sample :
  (exists obs st, r_run_lin c02_ex_ops (r_init (c02_ex_msg 1)) = Some (obs, st) /\
     rs_state st = c_fragmentingReadComplete /\ rs_fin st = true /\ rs_err st = 0) /\
  (exists obs st, r_run_lin c02_ex_ops (r_init (c02_ex_msg 2)) = Some (obs, st) /\
     rs_state st <> c_fragmentingReadComplete /\ rs_fin st = false /\ rs_err st = 7 /\ rs_got st = 3).
Proof. exact (conj c02_ex_conforming_completes c02_ex_retyped_fails). Qed.
