(* Property C02 -- Checksums follow the protocol and expose any corruption. *)
From Coq Require Import ZArith List Bool.
From Verif Require Import Base.Wrap Base.Bytes Gen.GenConsts Gen.GenFrame Model.Crc Model.Frag
  Spec.FragSpec Spec.FragOk Proofs.FragWP Proofs.CkP Proofs.CrcP.
Import ListNotations.
Local Open Scope Z_scope.

(* (a) every fragment the writer emits -- for any three arguments, any write sizes and
   flushes, any capacities -- carries the checksum, computed from scratch by the
   table-free CRC definition, of ALL argument bytes of the message up to and including
   that fragment, and a constant type byte *)
Theorem C02_running : forall (capf : bool -> Z) kind a1 a2 a3 k f,
  3 <= capf true -> 5 <= capf false -> kind = 1 \/ kind = 3 ->
  exists codes st,
    w_run capf (script3 a1 a2 a3) (w_init (mkCk kind 0)) [] = Some (codes, st) /\
    (nth_error (ws_out st) k = Some f ->
       f_ck f = be 4 (crc32_update (if kind =? 1 then poly_ieee else poly_castagnoli) 0 (data_upto k (ws_out st)))
       /\ f_ctype f = kind).
Proof.
  intros capf kind a1 a2 a3 k f H1 H2 Hk.
  destruct (writer_correct capf (mkCk kind 0) a1 a2 a3 H1 H2) as [codes [st [R [_ [_ [_ [_ [_ C]]]]]]]].
  exists codes, st. split; [exact R|]. intros Hn.
  destruct (ck_chain_closed _ _ _ _ C Hn) as [A B]. rewrite A, B. split; [apply ck_sum_crc; exact Hk|reflexivity].
Qed.

(* pooled checksum objects: New() starts from the initial state whatever was released *)
Theorem C02_pool_reset : forall t c, ck_new t = Some c -> ck_val c = 0.
Proof.
  intros t c. unfold ck_new. destruct ((t <? 0) || (t >=? c_checksumCount)); [discriminate|].
  destruct (t =? c_ChecksumTypeCrc32); [intros H; inversion H; reflexivity|].
  destruct (t =? c_ChecksumTypeCrc32C); intros H; inversion H; reflexivity.
Qed.

(* a checksum type byte outside the known range never reaches the pool lookup: the fragment
   parser rejects it (all 256 byte values) *)
Theorem C02_type_range : forall t, 0 <= t < 256 -> (ck_new t = None <-> c_checksumCount <= t).
Proof.
  intros t Ht. unfold ck_new, c_checksumCount.
  destruct (t <? 0) eqn:A; [apply Z.ltb_lt in A; exfalso; destruct Ht; apply (Z.lt_irrefl 0); eapply Z.le_lt_trans; eassumption|].
  destruct (t >=? 4) eqn:B; cbn [orb].
  - split; [intros _; apply Z.geb_le in B; exact B|reflexivity].
  - split; [|intros H; apply Z.geb_le in H; congruence].
    destruct (t =? c_ChecksumTypeCrc32); [discriminate|]. destruct (t =? c_ChecksumTypeCrc32C); discriminate.
Qed.

(* (b) detection.  one_byte_diff d d' = the byte strings agree except at exactly one position
   where two different bytes stand.  rs_with_in st fs = reader state st about to receive fs. *)

(* the CRC itself: a single altered byte always changes the CRC, for both polynomials, any
   initial value, any position, any surrounding bytes *)
Theorem C02_crc_detects_one_byte : forall P c pre x y post,
  P = poly_ieee \/ P = poly_castagnoli -> 0 <= x < 256 -> 0 <= y < 256 -> x <> y ->
  crc32_update P c (pre ++ x :: post) <> crc32_update P c (pre ++ y :: post).
Proof. exact crc_detect_one_byte. Qed.

(* an argument byte of a fragment altered in transit (checksum field intact, crc32/crc32c):
   wherever the reader would have accepted the fragment, it now fails AT THAT FRAGMENT with
   errMismatchedChecksums, and the error is sticky (the message is never reported complete) *)
Theorem C02_detect_data : forall st f f' rest rest' st1,
  r_recv (rs_with_in st (f :: rest)) = Some (0, st1) ->
  f_ctype f = c_ChecksumTypeCrc32 \/ f_ctype f = c_ChecksumTypeCrc32C ->
  f_ctype f' = f_ctype f -> f_ck f' = f_ck f ->
  one_byte_diff (concat (f_chunks f)) (concat (f_chunks f')) ->
  exists st2, r_recv (rs_with_in st (f' :: rest')) = Some (8, st2) /\ rs_err st2 = 8.
Proof. exact r_recv_detect_data. Qed.

(* a checksum byte altered in transit (any change of the checksum field, data intact) *)
Theorem C02_detect_cksum : forall st f f' rest rest' st1,
  r_recv (rs_with_in st (f :: rest)) = Some (0, st1) ->
  f_ctype f' = f_ctype f -> f_chunks f' = f_chunks f -> f_ck f' <> f_ck f ->
  exists st2, r_recv (rs_with_in st (f' :: rest')) = Some (8, st2) /\ rs_err st2 = 8.
Proof. exact r_recv_detect_ck. Qed.

(* the checksum type changing mid-message fails the read at that fragment *)
Theorem C02_type_change : forall st c f rest, rs_err st = 0 -> rs_ck st = Some c ->
  ck_typecode c <> f_ctype f ->
  exists st2, r_recv (rs_with_in st (f :: rest)) = Some (7, st2) /\ rs_err st2 = 7.
Proof. exact recv_type_change. Qed.

Print Assumptions C02_running.
Print Assumptions C02_crc_detects_one_byte.
Print Assumptions C02_detect_data.
Print Assumptions C02_detect_cksum.
Print Assumptions C02_type_change.
Print Assumptions C02_pool_reset.

(* the standard check values of the two polynomials ("123456789") *)
Example C02_crc_check_values :
  crc32_update poly_ieee 0 [49;50;51;52;53;54;55;56;57] = 3421780262 /\      (* 0xCBF43926 *)
  crc32_update poly_castagnoli 0 [49;50;51;52;53;54;55;56;57] = 3808858755.  (* 0xE3069283 *)
Proof. vm_compute. split; reflexivity. Qed.
