(* Property C11 -- After any history a channel returns to a clean quiescent state.
   "Once all calls have completed, failed or timed out and the relay tombstone period has
    passed, a channel holds no message exchanges, no relay items or tombstones and no fully
    closed connections, whatever faults, cancellations and malformed traffic occurred; and
    after every channel is closed no goroutine started by the library remains."
   This file contains only statements, each closed by [exact]. *)
From Coq Require Import ZArith List Bool.
From Verif Require Import Base.Wire Gen.GenConsts Gen.GenSites
  Model.MexDrain Model.RelayDrain Model.ConnBook Model.Goroutines
  Proofs.MexDrainP Proofs.RelayDrainP Proofs.ConnBookP Proofs.GoroutinesP.
Import ListNotations.
Local Open Scope Z_scope.

(* ---- no message exchanges ------------------------------------------------------------
   For every sequence of atomic steps of an exchange set (new exchanges with arbitrary, possibly
   reused ids; shutdown split into its CAS and its removal; expiry at any time, also after
   shutdown or repeatedly; ping removal; stopExchanges; lookups): once every exchange object
   has finished shutting down, exchanges and expiredExchanges are both empty. *)
Theorem C11_mex_empty : forall ls s,
  mrun ms_init ls = Some s -> mex_finished s = true ->
  ms_exch s = [] /\ ms_expired s = [].
Proof. exact mex_drained. Qed.
Print Assumptions C11_mex_empty.

(* KNOWN FINDING c11:inbound-expired-record-kept.  The full clause -- "once all calls have
   completed, failed or TIMED OUT the set is empty" -- would be
     forall ls s, mrun ms_init ls = Some s ->
       (forall h, 0 <= h < Z.of_nat (length (ms_objs s)) -> call_over ls h) ->
       ms_exch s = [] /\ ms_expired s = []
   where call_over also accepts a call whose watcher expired it.  It is false for the code as
   it is (witness: a new inbound exchange 5 whose watcher runs expireExchange and whose
   exchange is never shut down: Blackhole, or a handler returning without a response).
   C11_mex_empty above is the proved part: it needs every exchange to have shut down. *)
Theorem C11_mex_empty_after_timeouts_refuted :
  exists ls s, mrun ms_init ls = Some s /\
    (forall h, 0 <= h < Z.of_nat (length (ms_objs s)) -> call_over ls h) /\
    ms_expired s <> [].
Proof. exact mex_drained_after_timeouts_refuted. Qed.
Print Assumptions C11_mex_empty_after_timeouts_refuted.

Theorem C11_mex_empty_after_timeouts_partial : forall ls s,
  mrun ms_init ls = Some s ->
  (forall o, In o (ms_objs s) -> mo_pc o = 2) ->     (* missing: calls that only timed out *)
  ms_exch s = [] /\ ms_expired s = [].
Proof. exact mex_drained_prop. Qed.
Print Assumptions C11_mex_empty_after_timeouts_partial.

(* At every moment every id recorded in exchanges or expiredExchanges belongs to an exchange
   object that has not yet finished shutting down (nothing is recorded for a finished call). *)
Theorem C11_mex_entries_owned : forall ls s id,
  mrun ms_init ls = Some s ->
  (has_key id (ms_exch s) = true \/ has id (ms_expired s) = true) ->
  exists o, In o (ms_objs s) /\ mo_id o = id /\ mo_pc o <> 2.
Proof. exact mex_entries_have_owner. Qed.
Print Assumptions C11_mex_entries_owned.

(* Every step that removes an entry from exchanges is followed by a re-evaluation of the
   connection close state (onRemoved = Connection.checkExchanges). *)
Theorem C11_mex_removal_rechecks : forall s l s' id,
  mstep s l = Some s' ->
  has_key id (ms_exch s) = true -> has_key id (ms_exch s') = false ->
  ms_rechecks s < ms_rechecks s'.
Proof. exact step_removal_rechecks. Qed.
Print Assumptions C11_mex_removal_rechecks.

(* ---- no relay items or tombstones ----------------------------------------------------
   For every maxTombs and every sequence of atomic steps of a relay item map (add, frames that
   stop the timer and then finish or fail the item, failRelayItem, timers firing, tombstone GC
   callbacks, in any interleaving): when no timer is armed any more and no handler, timer
   callback or GC callback is pending, the map is empty and the tombstone counter is 0. *)
Theorem C11_relay_empty : forall mt ls s,
  rrun (rs_init mt) ls = Some s -> relay_quiet s = true ->
  rs_items s = [] /\ rs_tombs s = 0.
Proof. exact relay_drained_full. Qed.
Print Assumptions C11_relay_empty.

(* ---- no fully closed connections -----------------------------------------------------
   For every history of connection creations, Channel.addConnection, Peer.addConnection (its
   unlocked check and its locked check-and-append as separate steps), state changes and
   close-state callbacks: a connection in state Closed with no close-state callback pending is
   neither in the channel's connection map nor in any peer's connection list. *)
Theorem C11_conns : forall ls s c,
  crun cb_init ls = Some s ->
  closed_conn s c = true -> has c (cb_cbs s) = false ->
  holds_conn s c = false.
Proof. exact closed_conns_dropped. Qed.
Print Assumptions C11_conns.

(* Peers list active connections only (once the callbacks have run). *)
Theorem C11_peers_hold_active_only : forall ls s c st p,
  crun cb_init ls = Some s ->
  zget c (cb_cstate s) = Some st -> st <> c_connectionActive -> has c (cb_cbs s) = false ->
  ~ In (p, c) (cb_peers s).
Proof. exact inactive_conns_left_peers. Qed.
Print Assumptions C11_peers_hold_active_only.

(* ---- no goroutine remains ------------------------------------------------------------
   The ledger covers the `go` statements of package tchannel as regenerated from the source on
   this run (a new go statement without a ledger entry breaks this theorem), and has no stale
   go entry. *)
Theorem C11_ledger_covers : forall site,
  In site go_sites ->
  exists e, In e ledger /\ g_is_go e = true /\ g_fn e = fst site /\ g_text e = snd site.
Proof. exact ledger_covers_every_go_statement. Qed.
Print Assumptions C11_ledger_covers.

Theorem C11_ledger_current : forall e,
  In e ledger -> g_is_go e = true ->
  exists site, In site go_sites /\ g_fn e = fst site /\ g_text e = snd site.
Proof. exact ledger_has_no_stale_go_entry. Qed.
Print Assumptions C11_ledger_current.

(* For every history of one connection (closes, peer closing, write faults, read deadlines,
   read/write errors, health failures, calls starting and ending, relay calls, protocol and
   connection errors, writes blocking and returning): if the connection is Closed, its writer
   is not held inside a Write, and none of its goroutines has an exit step left, then reader,
   writer and health checker have exited and the library has closed the socket. *)
(* full statement (false, see the refutation below): the same without [t_wr c <> 3] *)
Theorem C11_conn_goroutines_partial : forall health ls c,
  trun true (tconn_init health) ls = Some c ->
  t_state c = c_connectionClosed -> tconn_settled c = true ->
  t_wr c <> 3 ->          (* missing: a frame writer held inside Write by a peer that does not read *)
  tconn_exited c = true /\ t_sock c = true.
Proof. exact conn_goroutines_exit. Qed.
Print Assumptions C11_conn_goroutines_partial.

(* KNOWN FINDING c11:stalled-writer-outlives-close: no write deadline is ever set, so a writer
   blocked in Write never notices that the connection was closed. *)
Theorem C11_conn_goroutines_stalled_writer_refuted :
  exists ls c, trun true (tconn_init false) ls = Some c /\
    t_state c = c_connectionClosed /\ tconn_settled c = true /\ t_wr c = 3 /\ t_rd c = 0 /\ t_sock c = false.
Proof. exact conn_goroutines_exit_stalled_writer_refuted. Qed.
Print Assumptions C11_conn_goroutines_stalled_writer_refuted.

(* The same statement is FALSE for the writer as it was before the repair (fixw = false):
   witness write fault, write error, deferred <-stopCh. *)
Theorem C11_conn_goroutines_unrepaired_refuted :
  exists ls c, trun false (tconn_init false) ls = Some c /\
    t_state c = c_connectionClosed /\ tconn_settled c = true /\ t_rd c = 0 /\ t_sock c = false.
Proof. exact conn_goroutines_exit_unrepaired_refuted. Qed.
Print Assumptions C11_conn_goroutines_unrepaired_refuted.

(* For every history of a channel (listening or not, with or without idle sweep; any number
   of connections, calls and inbound handshakes, any interleaving of their steps): when the
   channel and all its connections are Closed and no writer is held inside a Write, every call
   context is done and its handler has returned, every init deadline has passed, and no
   goroutine has an exit step left, then every
   goroutine of every ledger entry has exited and every socket was closed by the library. *)
(* full statement: the same with world_quiescent not asking that no writer is held inside a
   Write; false by C11_conn_goroutines_stalled_writer_refuted *)
Theorem C11_goroutines_partial : forall listening sweep ls w,
  wrun true (world_init listening sweep) ls = Some w ->
  world_quiescent w = true -> world_settled w = true ->
  (forall e, In e ledger -> kind_exited (g_kind e) w = true) /\
  forallb t_sock (w_conns w) = true.
Proof. exact world_goroutines_exit. Qed.
Print Assumptions C11_goroutines_partial.

(* ---- non-vacuity: the hypotheses are met by concrete non-trivial histories ------------- *)

(* id 5 expires while its handler runs, the peer reuses id 5, both exchanges shut down *)
Example C11_mex_example :
  let ls := [MNew 5; MExpire 0; MNew 5; MForward 5; MShutCas 0; MShutRemove 0; MShutCas 1; MShutRemove 1] in
  match mrun ms_init ls with
  | Some s => mex_finished s = true /\ length (ms_objs s) = 2%nat /\ ms_exch s = [] /\ ms_expired s = []
  | None => False
  end.
Proof. vm_compute. repeat split. Qed.

(* item 7 times out and is garbage collected; item 8 finishes; item 9 is failed while a
   finishing frame holds it *)
Example C11_relay_example :
  let ls := [RAdd 7; RAdd 8; RAdd 9; RFireStart 7; RGetStop 8; RFireEntomb 7; RFinishHeld 8;
             RGetStop 9; RFailStop 9; RFailHeld 9; RFinishHeld 9; RGc 7; RGc 9] in
  match rrun (rs_init 30000) ls with
  | Some s => relay_quiet s = true /\ rs_items s = [] /\ rs_pending s = 0 /\ rs_panic s = false
  | None => False
  end.
Proof. vm_compute. repeat split. Qed.

(* Peer.addConnection interrupted between its two steps by the connection closing *)
Example C11_conns_example :
  let ls := [CNew 1 10 11; CChanAdd 1; CPeerCheck 10 1; CPeerAppend 10 1; CPeerCheck 11 1;
             CSetState 1 4; CCallback 1; CPeerAppend 11 1] in
  match crun cb_init ls with
  | Some s => closed_conn s 1 = true /\ has 1 (cb_cbs s) = false /\ holds_conn s 1 = false /\ cb_out s = [0; 1; 1; 1; 1]
  | None => False
  end.
Proof. vm_compute. repeat split. Qed.

(* a listening channel with idle sweep, one health-checked connection with an inbound call,
   one handshake; Close; the call ends; everything exits *)
Example C11_goroutines_example :
  let ls := [WNewHand; WHandFinished 0; WHandExit 0; WNewConn true; WNewCall true; WConn 0 (TExAdd true);
             WChClose; WConn 0 TClose; WCallCtxDone 0; WCallHandlerReturn 0; WCallWatchExit 0;
             WConn 0 (TExDone true); WConn 0 TWriterStop; WConn 0 TReadErr; WConn 0 THealthExit;
             WChState 5; WAcceptExit; WSweepExit; WHandDeadline 0] in
  match wrun true (world_init true true) ls with
  | Some w => world_quiescent w = true /\ world_settled w = true
  | None => False
  end.
Proof. vm_compute. repeat split. Qed.
