(* Property C11 -- After any history a channel returns to a clean quiescent state.
   "Once all calls have completed, failed or timed out and the relay tombstone period has
    passed, a channel holds no message exchanges, no relay items or tombstones and no fully
    closed connections, whatever faults, cancellations and malformed traffic occurred; and
    after every channel is closed no goroutine started by the library remains."
   This file contains only statements, each closed by [exact]. *)
From Coq Require Import ZArith List Bool.
From Verif Require Import Base.Wire Gen.GenConsts Gen.GenSites
  Model.MexDrain Model.RelayDrain Model.ConnBook Model.Goroutines
  Proofs.MexDrainP Proofs.RelayDrainP Proofs.ConnBookP Proofs.GoroutinesP.
Import ListNotations.
Local Open Scope Z_scope.

(* ---- no message exchanges ------------------------------------------------------------
   For every sequence of atomic steps of an exchange set (new exchanges with arbitrary, possibly
   reused ids; shutdown split into its CAS and its removal; expiry at any time, also after
   shutdown or repeatedly; ping removal; stopExchanges; lookups): once every exchange object
   has finished shutting down, exchanges and expiredExchanges are both empty. *)
Theorem C11_mex_empty : forall ls s,
  mrun ms_init ls = Some s -> mex_finished s = true ->
  ms_exch s = [] /\ ms_expired s = [].
Proof. exact mex_drained. Qed.
Print Assumptions C11_mex_empty.

(* KNOWN FINDING c11:inbound-expired-record-kept.  The full clause -- "once all calls have
   completed, failed or TIMED OUT the set is empty" -- would be
     forall ls s, mrun ms_init ls = Some s ->
       (forall h, 0 <= h < Z.of_nat (length (ms_objs s)) -> call_over ls h) ->
       ms_exch s = [] /\ ms_expired s = []
   where call_over also accepts a call whose watcher expired it.  It is false for the code as
   it is (witness: a new inbound exchange 5 whose watcher runs expireExchange and whose
   exchange is never shut down: Blackhole, or a handler returning without a response).
   C11_mex_empty above is the proved part: it needs every exchange to have shut down. *)
Theorem C11_mex_empty_after_timeouts_refuted :
  exists ls s, mrun ms_init ls = Some s /\
    (forall h, 0 <= h < Z.of_nat (length (ms_objs s)) -> call_over ls h) /\
    ms_expired s <> [].
Proof. exact mex_drained_after_timeouts_refuted. Qed.
Print Assumptions C11_mex_empty_after_timeouts_refuted.

Theorem C11_mex_empty_after_timeouts_partial : forall ls s,
  mrun ms_init ls = Some s ->
  (forall o, In o (ms_objs s) -> mo_pc o = 2) ->     (* missing: calls that only timed out *)
  ms_exch s = [] /\ ms_expired s = [].
Proof. exact mex_drained_prop. Qed.
Print Assumptions C11_mex_empty_after_timeouts_partial.

(* At every moment every id recorded in exchanges or expiredExchanges belongs to an exchange
   object that has not yet finished shutting down (nothing is recorded for a finished call). *)
Theorem C11_mex_entries_owned : forall ls s id,
  mrun ms_init ls = Some s ->
  (has_key id (ms_exch s) = true \/ has id (ms_expired s) = true) ->
  exists o, In o (ms_objs s) /\ mo_id o = id /\ mo_pc o <> 2.
Proof. exact mex_entries_have_owner. Qed.
Print Assumptions C11_mex_entries_owned.

(* Every step that removes an entry from exchanges is followed by a re-evaluation of the
   connection close state (onRemoved = Connection.checkExchanges). *)
Theorem C11_mex_removal_rechecks : forall s l s' id,
  mstep s l = Some s' ->
  has_key id (ms_exch s) = true -> has_key id (ms_exch s') = false ->
  ms_rechecks s < ms_rechecks s'.
Proof. exact step_removal_rechecks. Qed.
Print Assumptions C11_mex_removal_rechecks.

(* ---- no relay items or tombstones ----------------------------------------------------
   For every maxTombs and every sequence of atomic steps of a relay item map (add, frames that
   stop the timer and then finish or fail the item, failRelayItem, timers firing, tombstone GC
   callbacks, in any interleaving): when no timer is armed any more and no handler, timer
   callback or GC callback is pending, the map is empty and the tombstone counter is 0. *)
Theorem C11_relay_empty : forall mt ls s,
  rrun (rs_init mt) ls = Some s -> relay_quiet s = true ->
  rs_items s = [] /\ rs_tombs s = 0.
Proof. exact relay_drained_full. Qed.
Print Assumptions C11_relay_empty.

(* ---- no fully closed connections -----------------------------------------------------
   For every history of connection creations, Channel.addConnection, Peer.addConnection (its
   unlocked check and its locked check-and-append as separate steps), state changes and
   close-state callbacks: a connection in state Closed with no close-state callback pending is
   neither in the channel's connection map nor in any peer's connection list. *)
Theorem C11_conns : forall ls s c,
  crun cb_init ls = Some s ->
  closed_conn s c = true -> has c (cb_cbs s) = false ->
  holds_conn s c = false.
Proof. exact closed_conns_dropped. Qed.
Print Assumptions C11_conns.

(* Peers list active connections only (once the callbacks have run). *)
Theorem C11_peers_hold_active_only : forall ls s c st p,
  crun cb_init ls = Some s ->
  zget c (cb_cstate s) = Some st -> st <> c_connectionActive -> has c (cb_cbs s) = false ->
  ~ In (p, c) (cb_peers s).
Proof. exact inactive_conns_left_peers. Qed.
Print Assumptions C11_peers_hold_active_only.

(* ---- no goroutine remains ------------------------------------------------------------
   The ledger covers the `go` statements of package tchannel as regenerated from the source on
   this run (a new go statement without a ledger entry breaks this theorem), and has no stale
   go entry. *)
Theorem C11_ledger_covers : forall site,
  In site go_sites ->
  exists e, In e ledger /\ g_is_go e = true /\ g_fn e = fst site /\ g_text e = snd site.
Proof. exact ledger_covers_every_go_statement. Qed.
Print Assumptions C11_ledger_covers.

Theorem C11_ledger_current : forall e,
  In e ledger -> g_is_go e = true ->
  exists site, In site go_sites /\ g_fn e = fst site /\ g_text e = snd site.
Proof. exact ledger_has_no_stale_go_entry. Qed.
Print Assumptions C11_ledger_current.

(* For every history of one connection (closes, peer closing, write faults, read deadlines,
   read/write errors, health failures, calls starting and ending, relay calls, protocol and
   connection errors, writes blocking and returning): if the connection is Closed, its writer
   is not held inside a Write, and none of its goroutines has an exit step left, then reader,
   writer and health checker have exited and the library has closed the socket. *)
(* full statement (false, see the refutation below): the same without [t_wr c <> 3] *)
Theorem C11_conn_goroutines_partial : forall health ls c,
  trun true (tconn_init health) ls = Some c ->
  t_state c = c_connectionClosed -> tconn_settled c = true ->
  t_wr c <> 3 ->          (* missing: a frame writer held inside Write by a peer that does not read *)
  tconn_exited c = true /\ t_sock c = true.
Proof. exact conn_goroutines_exit. Qed.
Print Assumptions C11_conn_goroutines_partial.

(* KNOWN FINDING c11:stalled-writer-outlives-close: no write deadline is ever set, so a writer
   blocked in Write never notices that the connection was closed. *)
Theorem C11_conn_goroutines_stalled_writer_refuted :
  exists ls c, trun true (tconn_init false) ls = Some c /\
    t_state c = c_connectionClosed /\ tconn_settled c = true /\ t_wr c = 3 /\ t_rd c = 0 /\ t_sock c = false.
Proof. exact conn_goroutines_exit_stalled_writer_refuted. Qed.
Print Assumptions C11_conn_goroutines_stalled_writer_refuted.

(* The same statement is FALSE for the writer as it was before the repair (fixw = false):
   witness write fault, write error, deferred <-stopCh. *)
Theorem C11_conn_goroutines_unrepaired_refuted :
  exists ls c, trun false (tconn_init false) ls = Some c /\
    t_state c = c_connectionClosed /\ tconn_settled c = true /\ t_rd c = 0 /\ t_sock c = false.
Proof. exact conn_goroutines_exit_unrepaired_refuted. Qed.
Print Assumptions C11_conn_goroutines_unrepaired_refuted.

(* For every history of a channel (listening or not, with or without idle sweep; any number
   of connections, calls and inbound handshakes, any interleaving of their steps): when the
   channel and all its connections are Closed and no writer is held inside a Write, every call
   context is done and its handler has returned, every init deadline has passed, and no
   goroutine has an exit step left, then every
   goroutine of every ledger entry has exited and every socket was closed by the library. *)
(* full statement: the same with world_quiescent not asking that no writer is held inside a
   Write; false by C11_conn_goroutines_stalled_writer_refuted *)
Theorem C11_goroutines_partial : forall listening sweep ls w,
  wrun true (world_init listening sweep) ls = Some w ->
  world_quiescent w = true -> world_settled w = true ->
  (forall e, In e ledger -> kind_exited (g_kind e) w = true) /\
  forallb t_sock (w_conns w) = true.
Proof. exact world_goroutines_exit. Qed.
Print Assumptions C11_goroutines_partial.

(* ---- non-vacuity: the hypotheses are met by concrete non-trivial histories ------------- *)

(* id 5 expires while its handler runs, the peer reuses id 5, both exchanges shut down *)
Example C11_mex_example :
  let ls := [MNew 5; MExpire 0; MNew 5; MForward 5; MShutCas 0; MShutRemove 0; MShutCas 1; MShutRemove 1] in
  match mrun ms_init ls with
  | Some s => mex_finished s = true /\ length (ms_objs s) = 2%nat /\ ms_exch s = [] /\ ms_expired s = []
  | None => False
  end.
Proof. vm_compute. repeat split. Qed.

(* item 7 times out and is garbage collected; item 8 finishes; item 9 is failed while a
   finishing frame holds it *)
Example C11_relay_example :
  let ls := [RAdd 7; RAdd 8; RAdd 9; RFireStart 7; RGetStop 8; RFireEntomb 7; RFinishHeld 8;
             RGetStop 9; RFailStop 9; RFailHeld 9; RFinishHeld 9; RGc 7; RGc 9] in
  match rrun (rs_init 30000) ls with
  | Some s => relay_quiet s = true /\ rs_items s = [] /\ rs_pending s = 0 /\ rs_panic s = false
  | None => False
  end.
Proof. vm_compute. repeat split. Qed.

(* Peer.addConnection interrupted between its two steps by the connection closing *)
Example C11_conns_example :
  let ls := [CNew 1 10 11; CChanAdd 1; CPeerCheck 10 1; CPeerAppend 10 1; CPeerCheck 11 1;
             CSetState 1 4; CCallback 1; CPeerAppend 11 1] in
  match crun cb_init ls with
  | Some s => closed_conn s 1 = true /\ has 1 (cb_cbs s) = false /\ holds_conn s 1 = false /\ cb_out s = [0; 1; 1; 1; 1]
  | None => False
  end.
Proof. vm_compute. repeat split. Qed.

(* a listening channel with idle sweep, one health-checked connection with an inbound call,
   one handshake; Close; the call ends; everything exits *)
Example C11_goroutines_example :
  let ls := [WNewHand; WHandFinished 0; WHandExit 0; WNewConn true; WNewCall true; WConn 0 (TExAdd true);
             WChClose; WConn 0 TClose; WCallCtxDone 0; WCallHandlerReturn 0; WCallWatchExit 0;
             WConn 0 (TExDone true); WConn 0 TWriterStop; WConn 0 TReadErr; WConn 0 THealthExit;
             WChState 5; WAcceptExit; WSweepExit; WHandDeadline 0] in
  match wrun true (world_init true true) ls with
  | Some w => world_quiescent w = true /\ world_settled w = true
  | None => False
  end.
Proof. vm_compute. repeat split. Qed.

(* ==== the goroutines that own a drain obligation (build-U11) ===============================
   C11_mex_empty and C11_relay_empty assume "every exchange has shut down" / "no handler still
   holds an id whose timer it stopped".  The theorems below discharge these hypotheses for the
   code paths that own them, with the paths' exits regenerated from the source on every run. *)
From Verif Require Import Gen.GenWriterExit Gen.GenRelayExit Model.CallDrain Model.RelayHold
  Proofs.CallDrainP Proofs.CallDrainGenP Proofs.RelayHoldP Proofs.RelayHoldGenP.

(* ---- no message exchanges: calls driven through the request/response writer -------------
   For every history of calls on one exchange set (any number of calls, ids reused at will; every
   call's owner calling writer operations -- ArgNWriter, continuation fragments, fragment
   hand-overs whose select takes any of its clauses --, the two atomic halves of shutdown() as
   separate steps, expiry watchers, stopExchanges and frame lookups interleaved at will): once
   every call is over for its owner (it reached its normal end, or the owner dropped it after an
   operation returned an error), every exchange object has finished shutting down and exchanges
   and expiredExchanges are empty. *)
Theorem C11_calls_drained : forall ls s,
  crun cs_init ls = Some s -> calls_over s = true ->
  mex_finished (cs_mex s) = true /\ ms_exch (cs_mex s) = [] /\ ms_expired (cs_mex s) = [].
Proof. exact calls_drained. Qed.
Print Assumptions C11_calls_drained.

(* The writer exits used by that model are those of reqres.go as regenerated on this run
   (failed, argWriter, newFragment, flushFragment with its select). *)
Theorem C11_writer_exits_generated :
  (forall werr, writerFailed werr = w_failed werr) /\
  (forall werr state_ok begin_err, writerArgWriter werr state_ok begin_err = w_arg_writer werr state_ok begin_err) /\
  (forall werr check_err msg_err buf_err,
     writerNewFragment werr check_err msg_err buf_err = w_new_fragment werr check_err msg_err buf_err) /\
  (forall werr check_err arm, writerFlushFragment werr check_err arm = w_flush_fragment werr check_err arm).
Proof. exact writer_exits_generated. Qed.
Print Assumptions C11_writer_exits_generated.

(* Every exit of the regenerated flushFragment with an error (bit 0) has called mex.shutdown()
   (bit 2), whichever select clause ran: arm 0 = the call's context is done, 1 = the exchange's
   error latch, 2 = the frame was queued -- unless the writer had failed, and shut down, before. *)
Theorem C11_flush_error_shuts_generated : forall werr check_err arm,
  0 <= arm <= 2 ->
  Z.testbit (writerFlushFragment werr check_err arm) 0 = true ->
  Z.testbit (writerFlushFragment werr check_err arm) 2 = true \/ werr = true.
Proof. exact flush_fragment_error_shuts_generated. Qed.
Print Assumptions C11_flush_error_shuts_generated.

(* ---- no relay items or tombstones: the frame paths as threads ----------------------------
   For every maxTombs and every history of one relay item map (calls admitted, timers firing,
   tombstone collections, frames of any kind entering handleNonCallReq / Receive in any
   interleaving -- each path doing after its lookup what the code does --, failRelayItem called
   from anywhere, its lookup and its Entomb as separate steps): once no timer is armed and every
   timer callback, collection and frame path has returned, the map holds no item and no
   tombstone, the tombstone counter is 0 and the pending counter is 0. *)
Theorem C11_relay_paths_drained : forall mt ls s,
  hrun (hs_init mt) ls = Some s -> hold_quiet s = true ->
  rs_items (hs_r s) = [] /\ rs_tombs (hs_r s) = 0 /\ rs_pending (hs_r s) = 0.
Proof. exact relay_paths_drained. Qed.
Print Assumptions C11_relay_paths_drained.

(* What the two frame paths do after the lookup is what relay.go does, as regenerated on this run. *)
Theorem C11_relay_exits_generated :
  (forall ok item_tomb finished stopped mt parse_ok mutated dest_sent,
     relayNonCallExit ok item_tomb finished stopped mt parse_ok mutated dest_sent =
     nc_exit ok item_tomb finished stopped mt parse_ok mutated dest_sent) /\
  (forall ok item_tomb finished stopped is_resp is_cancel dcs_ok dcs_msg queue_ok,
     relayReceiveExit ok item_tomb finished stopped is_resp is_cancel dcs_ok dcs_msg queue_ok =
     rc_exit ok item_tomb finished stopped is_resp is_cancel dcs_ok dcs_msg queue_ok).
Proof. exact relay_exits_generated. Qed.
Print Assumptions C11_relay_exits_generated.

(* A stopped timer implies that the item is finished or failed by the same goroutine: on every
   path of the regenerated handleNonCallReq / Receive whose lookup found a live item and stopped
   its timer, failRelayItem (bit 2) or finishRelayItem (bit 3) is called -- for every message
   type, for frames that parse and frames that do not, whatever the destination does. *)
Theorem C11_stopped_timer_discharged_generated :
  (forall mt parse_ok mutated dest_sent,
     let c := relayNonCallExit true false true true mt parse_ok mutated dest_sent in
     Z.testbit c 2 || Z.testbit c 3 = true) /\
  (forall is_resp is_cancel dcs_ok dcs_msg queue_ok,
     let c := relayReceiveExit true false true true is_resp is_cancel dcs_ok dcs_msg queue_ok in
     Z.testbit c 2 || Z.testbit c 3 = true).
Proof. exact stopped_timer_is_discharged_generated. Qed.
Print Assumptions C11_stopped_timer_discharged_generated.

(* call 0: its writer is blocked handing a fragment over when the deadline passes (select clause 0);
   call 1 completes; an expiry and a lookup in between *)
Example C11_calls_example :
  let ls := [CBegin 5; COp 0 (OArgWriter true 0); COp 0 (OFlush false 2); CBegin 6; COp 0 (OFlush false 0);
             CForward 5; CCas 0; CExpire 1; CRemove 0; COp 1 (OArgWriter true 0); COp 1 (OFlush false 2);
             CGiveUp 0; CFinish 1; CCas 1; CRemove 1] in
  match crun cs_init ls with
  | Some s => calls_over s = true /\ length (cs_thr s) = 2%nat /\ ms_exch (cs_mex s) = [] /\ ms_rechecks (cs_mex s) = 3
  | None => False
  end.
Proof. vm_compute. repeat split. Qed.

(* item 7: a final call res that does not parse is forwarded and the item finished; item 8: the
   destination cannot take the final frame, the path fails the item, the tombstone is collected;
   item 9: a non-final frame passes, then the timer fires *)
Example C11_relay_paths_example :
  let ls := [HAdd 7; HAdd 8; HAdd 9; HFrame 7 true; HTail 0 (TNonCall 4 false false true);
             HFrame 8 true; HTail 1 (TNonCall 4 true false false); HFailGet 1; HFrame 9 false;
             HFailEntomb 1; HTail 2 (TReceive true false true false true); HFireStart 9; HFireEntomb 9;
             HGc 8; HGc 9] in
  match hrun (hs_init 30000) ls with
  | Some s => hold_quiet s = true /\ length (hs_thr s) = 3%nat /\ rs_items (hs_r s) = [] /\ rs_pending (hs_r s) = 0
  | None => False
  end.
Proof. vm_compute. repeat split. Qed.
