(* Property C08 -- A relay is transparent to the calls it forwards.
   Statements only.  Models: Model/RelayLazy.v (newLazyCallReq, TTL/SetTTL), Model/RelayFwd.v
   (Relay / handleCallReq / handleNonCallReq / Receive / relay items of all connections /
   NextMessageID / timers), Model/RelayAppend.v (fragmentingSend on the writer of Model/Frag.v).
   Specifications: Spec/Protocol.v (layouts), Spec/RelaySpec.v (one-table transparent relay),
   Spec/FragSpec.v (what a fragment sequence denotes).
   Definitions used: max_ok maxT = 0 < maxT/ms <= 2^32-1; plain = frames of the six relayed
   types, call reqs that the lazy parser accepts and the host routes without appends, own id
   allocations; notimer = no relay-timer labels; first_ok = field limits of the protocol. *)
From Coq Require Import ZArith List Bool.
From Verif Require Import Base.Wrap Base.Bytes Gen.GenConsts Gen.GenFrame Gen.GenRelayFwd
  Model.TypedBuf Model.Messages Model.Crc Model.Frag Model.FragWire Model.Codecs
  Model.RelayLazy Model.RelayAppend Model.RelayFwd
  Spec.Protocol Spec.FragSpec Spec.FragOk Spec.RelaySpec
  Proofs.CodecP Proofs.CodecsP Proofs.FragWP Proofs.RelayFwdP Proofs.RelayInvP Proofs.RelaySimP Proofs.RelayAppendP Proofs.RelayC08P.
Import ListNotations.
Local Open Scope Z_scope.

(* ---- ttl ---- *)
(* whatever RelayMaxTimeout is configured (any int64 nanosecond value), the validated
   maximum is between 1 ms and 2^32-1 ms *)
Theorem C08_max_timeout : forall d, - 2 ^ 63 <= d < 2 ^ 63 ->
  0 < Z.quot (validateRelayMaxTimeout d) ms_ns <= 4294967295.
Proof. exact validate_max_ok. Qed.

(* the ttl (ms) of the forwarded call req is min(received ttl, floor(max/ms)): never larger
   than the original and never larger than the relay maximum *)
Theorem C08_ttl : forall maxT p, max_ok maxT -> bytes_ok p = true -> 5 <= zlen p ->
  lazy_ttl_ms (clamp_ttl maxT p) = Z.min (lazy_ttl_ms p) (Z.quot maxT ms_ns) /\
  lazy_ttl_ms (clamp_ttl maxT p) <= lazy_ttl_ms p /\
  lazy_ttl_ms (clamp_ttl maxT p) * ms_ns <= maxT.
Proof. exact ttl_clamp_bounds. Qed.

(* ---- (a) the forwarded call req frame ---- *)
(* for every call req payload (>= 5 bytes) and header: the forwarded frame has the new id and
   the same type, size and reserved byte; decoded with the message decoder of C06 it has
   the same flags, tracing span, service, transport headers, the reader is left in the same
   state (so checksum type, checksum and argument chunks are the same: parse_frag_payload
   agrees) and ttl = min(ttl, max) *)
Theorem C08_req_transparent : forall maxT newid h p,
  max_ok maxT -> bytes_ok p = true -> 5 <= zlen p ->
  let h' := set_id h newid in
  let p' := clamp_ttl maxT p in
  fh_id h' = newid /\ fh_type h' = fh_type h /\ fh_size h' = fh_size h /\ fh_res1 h' = fh_res1 h /\
  zlen p' = zlen p /\ bytes_ok p' = true /\
  (let '(fl, r0) := r_u8 (rb p) in let '(m, r1) := r_callreq r0 in
   let '(fl', r0') := r_u8 (rb p') in let '(m', r1') := r_callreq r0' in
   fl' = fl /\ r1' = r1 /\
   cq_span m' = cq_span m /\ cq_service m' = cq_service m /\ cq_headers m' = cq_headers m /\
   cq_ttl_ns m' = Z.min (cq_ttl_ns m) (Z.quot maxT ms_ns * ms_ns)) /\
  parse_frag_payload c_messageTypeCallReq p' = parse_frag_payload c_messageTypeCallReq p.
Proof. exact relay_callreq_transparent. Qed.

(* what the relay host is shown for a call req laid out as the protocol document says:
   the caller's method, arg2, arg3, arg scheme and caller name (last occurrence of the header) *)
Theorem C08_host_view : forall flags ttl tr service hdrs ct ckb a1 a2 a3,
  first_ok tr service hdrs ct ckb a1 a2 a3 ->
  let p := callreq_first flags ttl tr service hdrs ct ckb a1 a2 a3 in
  zlen p <= c_MaxFramePayloadSize ->
  exists lz, lazy_callreq p = (0, lz) /\
    lz_ctoff lz = 1 + zlen (s_callreq ttl tr service hdrs) /\ lz_ctype lz = ct /\
    lz_method lz = a1 /\ lz_arg2 p lz = a2 /\ lz_arg3 p lz = a3 /\ lz_a2frag lz = false /\
    lz_as lz = hs_as (hsel_fold hdrs (mkHsel [] [] [] [])) /\
    lz_caller lz = hs_cn (hsel_fold hdrs (mkHsel [] [] [] [])) /\
    slice p 1 (lz_ctoff lz) = s_callreq ttl tr service hdrs /\ nth 0 p 0 = flags /\
    lz_ctoff lz + 1 + zlen ckb + (2 + zlen a1) + (2 + zlen a2) + (2 + zlen a3) = zlen p.
Proof. exact lazy_callreq_layout. Qed.

(* ---- (b) every other frame: only the 4 id bytes of the wire image change ---- *)
Theorem C08_resp_transparent : forall newid h p,
  let h' := set_id h newid in
  fh_id h' = newid /\ fh_type h' = fh_type h /\ fh_size h' = fh_size h /\ fh_res1 h' = fh_res1 h /\
  frame_out h' p = firstn 4 (frame_out h p) ++ be 4 newid ++ skipn 8 (frame_out h p).
Proof. exact relay_other_transparent. Qed.

(* WANTED (full statement): for EVERY history of frames of the relayed types the relay emits
   exactly the frame sequence of the transparent one-table relay of Spec/RelaySpec.v:
     forall maxT cnt0 ls outs st, max_ok maxT -> (forall c, 0 <= cnt0 c) -> Forall plain' ls ->
       run maxT false ls (init_state cnt0) = Some (outs, st) -> (forall c, st_count st c < 2 ^ 32) ->
       exists ss, spec_run (Z.quot maxT ms_ns) ls (mkSS [] cnt0) = Some (outs, ss)
   where plain' is plain WITHOUT the clause "the lazy parser accepts the call req".
   That statement is FALSE for the code as it is (C08_order_refuted below: a protocol-valid call
   whose arg1 does not end within the first frame is dropped, known finding
   c08:arg1-not-in-first-frame-dropped).  PROVED (C08_order_partial): the statement for all
   histories -- any number of connections, calls, ids chosen by the peers, interleavings of the
   frames of different calls and connections -- whose call req frames the relay's lazy parser
   accepts (arg1 and the arg2 length inside the first frame), routed by the host without
   appends, without relay-timer events and without id wrap: every frame of a call goes to the
   call's other side with only the id (call req: id and ttl) rewritten, in the order read, until
   the frame that ends the response.  Missing besides the refuted clause: histories with
   appends (covered per call by the C08_append theorems), timer events and host errors (covered by the
   state invariants C08_remap_injective / C08_fresh_id only). *)
Theorem C08_order_partial : forall maxT cnt0 ls outs st,
  max_ok maxT -> (forall c, 0 <= cnt0 c) -> Forall plain ls ->
  run maxT false ls (init_state cnt0) = Some (outs, st) ->
  (forall c, st_count st c < 2 ^ 32) ->
  exists ss, spec_run (Z.quot maxT ms_ns) ls (mkSS [] cnt0) = Some (outs, ss).
Proof. exact relay_refines_spec. Qed.

(* the refuted clause: a first fragment that the fragment parser of C01/C03 accepts (flags =
   more fragments, ttl 1000, service "s", no headers, no checksum, one chunk holding the first
   two bytes of arg1) is rejected by the relay's lazy parser, and the relay model (as the code)
   drops the frame: nothing reaches the destination and no error frame reaches the caller,
   whereas the specification relay forwards it *)
Theorem C08_order_refuted : exists p h,
  bytes_ok p = true /\
  (exists f, parse_frag_payload c_messageTypeCallReq p = (0, f) /\ f_more f = true /\ f_chunks f = [[97; 98]]) /\
  fst (lazy_callreq p) <> 0 /\
  fh_type h = c_messageTypeCallReq /\
  (exists st', step 120000000000 false (init_state (fun _ => 1)) (LFrame 0%nat h p (HDst 1%nat [])) = Some ([], st')) /\
  (exists o ss', spec_step 120000 (mkSS [] (fun _ => 1)) (LFrame 0%nat h p (HDst 1%nat [])) = Some ([o], ss')).
Proof. exact tiny_frame_dropped. Qed.

(* ---- (c) id remapping ---- *)
(* in every state reachable by ANY history (all label kinds: any frames, host decisions,
   appends, errors, own allocations, timer expiry and tomb collection) in which no
   connection's id counter reached 2^32:
   - two relay items that forward to the same destination connection never carry the same
     destination id unless they are the same item (same source connection and source id);
   - no relayed call uses an id that the destination connection handed out for its own exchanges;
   - the item a source-side item points to is gone or points back to it *)
Theorem C08_remap_injective : forall maxT pc cnt0 ls outs st, (forall c, 0 <= cnt0 c) ->
  run maxT pc ls (init_state cnt0) = Some (outs, st) -> (forall c, st_count st c < 2 ^ 32) ->
  (forall c1 id1 it1 c2 id2 it2, st_out st c1 id1 = Some it1 -> st_out st c2 id2 = Some it2 ->
     it_dest it1 = it_dest it2 -> it_remap it1 = it_remap it2 -> c1 = c2 /\ id1 = id2) /\
  (forall d k, st_own st d k = true -> st_in st d k = None) /\
  (forall c id it, st_out st c id = Some it ->
     match st_in st (it_dest it) (it_remap it) with
     | None => True
     | Some it' => it_remap it' = id /\ it_dest it' = c
     end).
Proof. exact remap_injective. Qed.

(* Add never overwrites: the id handed out next on connection d is not in use there -- not by a
   relayed call (live or tomb), not by the connection itself, not as the target of any item *)
Theorem C08_fresh_id : forall maxT pc cnt0 ls outs st d, (forall c, 0 <= cnt0 c) ->
  run maxT pc ls (init_state cnt0) = Some (outs, st) -> (forall c, st_count st c < 2 ^ 32) ->
  st_count st d + 1 < 2 ^ 32 ->
  let k := fst (alloc_id st d) in
  k = st_count st d + 1 /\ st_in st d k = None /\ st_own st d k = false /\
  (forall c id it, st_out st c id = Some it -> it_dest it = d -> it_remap it <> k).
Proof. exact fresh_id. Qed.

(* the two items of a call are mutually inverse: in histories without timer events every
   destination-side item has its source-side item pointing back *)
Theorem C08_inverse : forall maxT pc cnt0 ls outs st, (forall c, 0 <= cnt0 c) -> Forall notimer ls ->
  run maxT pc ls (init_state cnt0) = Some (outs, st) -> (forall c, st_count st c < 2 ^ 32) ->
  forall d k it, st_in st d k = Some it ->
    exists it', st_out st (it_dest it) (it_remap it) = Some it' /\ it_remap it' = k /\ it_dest it' = d.
Proof. exact run_inverse. Qed.

(* ---- (d) arg2 append ---- *)
(* for every thrift call req first frame laid out as the protocol says (any flags, ttl,
   tracing, service, transport headers whose arg scheme is thrift, checksum type 0..3, arg1,
   arg2 = encoding of pairs h, arg3 chunk) and any appended pairs within the 16-bit limits:
   fragmentingSend succeeds; its frames keep the message header bytes; they denote exactly
   [arg1; encoding of (h ++ appended); arg3]; every frame has >= 1 chunk, fits a pooled frame
   and carries the more-fragments flag iff it is not the last new one; every checksum field
   is the running checksum; the key/value iterator over the new arg2 yields the original
   pairs followed by the appended ones *)
Theorem C08_append : forall flags ttl tr service hdrs ct ckb a1 h a3 appends ck0,
  first_ok tr service hdrs ct ckb a1 (s_theaders h) a3 ->
  let p := callreq_first flags ttl tr service hdrs ct ckb a1 (s_theaders h) a3 in
  zlen p <= c_MaxFramePayloadSize ->
  hs_as (hsel_fold hdrs (mkHsel [] [] [] [])) = c_Thrift ->
  ck_new ct = Some ck0 ->
  kvs16_ok h -> kvs16_ok appends -> zlen h + zlen appends <= 65535 ->
  exists lz fs,
    lazy_callreq p = (0, lz) /\
    append_send p lz appends ck0
      = (0, relay_frag_payloads flags (s_callreq ttl tr service hdrs) true fs, ck_end ck0 fs) /\
    denote (chunks_of fs) = [a1; s_theaders (h ++ appends); a3] /\
    frames_ok (relay_capf lz ck0) fs /\ ck_chain ck0 fs /\
    kv_iter (s_theaders (h ++ appends)) = (h ++ appends, true).
Proof. exact relay_append_correct. Qed.

(* the continuation frames of an appended call (flags, checksum type, checksum, one chunk):
   the relay overwrites only the checksum bytes, with the running checksum continued over the
   chunk, and keeps that checksum state for the next frame *)
Theorem C08_append_continue : forall flags ctb ckb d ck, zlen ckb = ck_size ck -> zlen d <= 65535 ->
  update_cont_ck (cont_payload flags ctb ckb d) ck = (cont_payload flags ctb (ck_sum (ck_add ck d)) d, ck_add ck d).
Proof. exact update_cont_layout. Qed.

(* the whole appended call as the destination receives it -- the re-fragmented first frame
   followed by ANY number of continuation chunks patched that way -- has a valid running
   checksum chain from the first frame to the last and denotes arg1, pairs ++ appended pairs,
   and the complete arg3 *)
Theorem C08_append_whole : forall flags ttl tr service hdrs ct ckb a1 h a3 appends ck0,
  first_ok tr service hdrs ct ckb a1 (s_theaders h) a3 ->
  let p := callreq_first flags ttl tr service hdrs ct ckb a1 (s_theaders h) a3 in
  zlen p <= c_MaxFramePayloadSize ->
  hs_as (hsel_fold hdrs (mkHsel [] [] [] [])) = c_Thrift ->
  ck_new ct = Some ck0 ->
  kvs16_ok h -> kvs16_ok appends -> zlen h + zlen appends <= 65535 ->
  exists lz fs,
    lazy_callreq p = (0, lz) /\
    append_send p lz appends ck0
      = (0, relay_frag_payloads flags (s_callreq ttl tr service hdrs) true fs, ck_end ck0 fs) /\
    forall conts,
      ck_chain ck0 (fs ++ patched (ck_end ck0 fs) conts) /\
      denote (chunks_of (fs ++ patched (ck_end ck0 fs) conts)) = [a1; s_theaders (h ++ appends); a3 ++ concat (map snd conts)].
Proof. exact relay_append_whole. Qed.

Print Assumptions C08_max_timeout.
Print Assumptions C08_ttl.
Print Assumptions C08_req_transparent.
Print Assumptions C08_host_view.
Print Assumptions C08_resp_transparent.
Print Assumptions C08_order_partial.
Print Assumptions C08_order_refuted.
Print Assumptions C08_remap_injective.
Print Assumptions C08_fresh_id.
Print Assumptions C08_inverse.
Print Assumptions C08_append.
Print Assumptions C08_append_continue.
Print Assumptions C08_append_whole.

(* ---- non-vacuity ---- *)
(* a concrete call req: service "svc", headers as=thrift cn=me, crc32 checksum field, method "m",
   arg2 = one pair (k,v), arg3 = [7;8;9], ttl 5000 ms *)
Definition ex_tr : list Z := repeat 1 25.
Definition ex_hdrs : kvs := [([97;115], [116;104;114;105;102;116]); ([99;110], [109;101])].
Definition ex_payload (ttl : Z) : list Z :=
  callreq_first 0 ttl ex_tr [115;118;99] ex_hdrs 1 [9;9;9;9] [109] (s_theaders [([107],[118])]) [7;8;9].
Definition ex_frame (id ttl : Z) : fheader * list Z :=
  (mkFH (16 + zlen (ex_payload ttl)) 3 0 id, ex_payload ttl).

(* two source connections (0 and 1) both use id 1 towards destination connection 2 whose
   counter is at 1; relay maximum 2 s: they get destination ids 2 and 3, ttl 5000 -> 2000;
   the final response frames come back with id 1 on the right connection and free the items *)
Example C08_example_run :
  let f := ex_frame 1 5000 in
  let res k := LFrame 2%nat (mkFH 18 4 0 k) [0; 0] HDrop in
  match run 2000000000 false
            [LFrame 0%nat (fst f) (snd f) (HDst 2%nat []); LFrame 1%nat (fst f) (snd f) (HDst 2%nat []); res 3; res 2]
            (init_state (fun c => if Nat.eqb c 2%nat then 1 else 0)) with
  | Some ([[OFrame 2%nat h1 p1]; [OFrame 2%nat h2 p2]; [OFrame 1%nat h3 _]; [OFrame 0%nat h4 _]], st) =>
      fh_id h1 = 2 /\ fh_id h2 = 3 /\ p1 = ex_payload 2000 /\ p2 = ex_payload 2000 /\
      fh_id h3 = 1 /\ fh_id h4 = 1 /\ st_out st 0%nat 1 = None /\ st_in st 2%nat 2 = None /\ st_count st 2%nat = 3
  | _ => False
  end.
Proof. vm_compute. repeat split; reflexivity. Qed.

Example C08_example_plain :
  let f := ex_frame 1 5000 in
  max_ok 2000000000 /\ plain (LFrame 0%nat (fst f) (snd f) (HDst 2%nat [])) /\ plain (LFrame 2%nat (mkFH 18 4 0 3) [0; 0] HDrop).
Proof.
  cbv zeta. split; [vm_compute; split; [reflexivity|discriminate]|]. split.
  - split; [vm_compute; reflexivity|]. split; [left; reflexivity|]. split.
    + intros _. split; [vm_compute; reflexivity|]. exists 2%nat. reflexivity.
    + intros [H|H]; vm_compute in H; discriminate.
  - split; [reflexivity|]. split; [right; right; left; reflexivity|]. split.
    + intros H; vm_compute in H; discriminate.
    + intros _ H; discriminate.
Qed.

(* the append path on that frame with one appended pair ("a","b"): one new frame whose arg2 has
   the count 2 and both pairs, arg1 and arg3 untouched *)
Example C08_example_append :
  let p := ex_payload 5000 in
  match lazy_callreq p with
  | (0, lz) =>
      match append_send p lz [([97],[98])] (mkCk 1 0) with
      | (0, [(true, pl)], _) =>
          option_map (fun f => f_chunks f) (match parse_frag_payload 3 pl with (0, f) => Some f | _ => None end)
          = Some [[109]; [0;2; 0;1;107; 0;1;118; 0;1;97; 0;1;98]; [7;8;9]]
      | _ => False
      end
  | _ => False
  end.
Proof. vm_compute. reflexivity. Qed.

(* ==== (b) continued: no response with a gap =================================================
   Frames of a call the relay has already failed / entombed.  Relayer.Receive and
   Relayer.handleNonCallReq guard forwarding with `item.tomb || (finished && !stopped)`;
   failRelayItem (send queue full, frame dropped) stops the item's timer BEFORE it entombs the
   item, so Stop() answers true again later: only the tomb test keeps the frame that finishes
   the call from being forwarded after frames of the response were dropped.
   Models: Model/RelayItems.v (interleaving model of relay.go's bookkeeping: reader goroutines,
   relay timers, send-queue attempts with/without room; shared with C09/C10), Model/RelayFwd.v
   (above).  Names of the second model are qualified. *)
From Verif Require Gen.GenRelayGate Model.RelayItems Model.RelayGap Model.RelayCalm
  Proofs.RelayGapP Proofs.RelayGateFwdP Proofs.RelayWireP.

(* the two guards, regenerated from relay.go on every run (every statement between the item
   lookup and the first statement that reports or enqueues): 0 = item not found, 1 = the frame is
   swallowed, 2 = it is forwarded.  A tombstone swallows whatever Stop() reports. *)
Theorem C08_gate_generated : forall ok tomb finished stopped,
  GenRelayGate.relayReceiveGate ok tomb finished stopped = (if negb ok then 0 else if tomb || (finished && negb stopped) then 1 else 2) /\
  GenRelayGate.relayNonCallGate ok tomb finished stopped = (if negb ok then 0 else if tomb || (finished && negb stopped) then 1 else 2).
Proof. exact RelayGapP.gates_spec. Qed.

(* ... and they ARE the decisions of the interleaving model: handleNonCallReq after its lookup
   (INcChk) and Receive after its lookup (IRcvChk), rewritten with the generated functions *)
Theorem C08_gate_model : forall cf st room,
  (forall k f ft own g, RelayItems.exec cf st (RelayItems.INcChk k f ft own g) room = RelayGapP.ncchk_generated st k f ft own g) /\
  (forall r rk g, RelayItems.exec cf st (RelayItems.IRcvChk r rk g) room = RelayGapP.rcvchk_generated st r rk g).
Proof. exact RelayGapP.gates_model. Qed.

(* ... and of the frame-level model used by the theorems above (receive / handle_other; at its
   granularity Stop() succeeds on every live item, and for a tombstone its answer is irrelevant) *)
Theorem C08_gate_model_fwd :
  (forall st d h p ft,
     receive st d h p ft =
     let outb := negb (ft =? c_requestFrame) in
     let finished := finishesCall (fh_type h) (flags_of p) in
     let o := get_items st outb d (fh_id h) in
     let gate := GenRelayGate.relayReceiveGate (RelayGateFwdP.fwd_found o) (RelayGateFwdP.fwd_tomb o) finished true in
     if gate =? 0 then (false, [], st)
     else if gate =? 1 then (true, [], st)
     else (true, [OFrame d h p], if finished then set_item st outb d (fh_id h) None else st)) /\
  (forall st c h p ft, frameTypeFor (fh_type h) = Some ft ->
     let o := get_items st (ft =? c_requestFrame) c (fh_id h) in
     let gate := GenRelayGate.relayNonCallGate (RelayGateFwdP.fwd_found o) (RelayGateFwdP.fwd_tomb o) (finishesCall (fh_type h) (flags_of p)) true in
     (gate = 0 \/ gate = 1 -> handle_other st c h p = Some ([], st)) /\
     (gate = 2 -> exists it, o = Some it /\ it_tomb it = false)) /\
  (forall finished stopped, GenRelayGate.relayReceiveGate true true finished stopped = 1 /\
                            GenRelayGate.relayNonCallGate true true finished stopped = 1).
Proof. exact RelayGateFwdP.fwd_gates_model. Qed.

(* failRelayItem, regenerated (everything after its lookup; result 0 = nothing happens, else
   1 + [1: error frame] + [2: call.Failed] + [4: call.End] + [8: decrementPending]; the Entomb
   statement binds the marker the result depends on): the item is entombed exactly when it was
   found and its timer could be stopped, and these are the model's IFailGet / IEntomb steps;
   after Entomb the item is a tombstone or gone *)
Theorem C08_fail_generated : forall cf st t reason room,
  (forall found stopped entomb_ok orig source_slow,
     GenRelayGate.relayFailItem found stopped entomb_ok orig source_slow =
     if found && stopped && entomb_ok then 9 + (if orig then 6 + (if source_slow then 0 else 1) else 0) else 0) /\
  RelayItems.exec cf st (RelayItems.IFailGet t reason) room =
    (let '(st', g) := RelayItems.items_get st t true in
     let found := match g with Some _ => true | None => false end in
     let stopped := match g with Some (_, s) => s | None => false end in
     (st', if GenRelayGate.relayFailItem found stopped true false false =? 0 then []
           else [RelayItems.IEntomb t (RelayItems.FromFail reason)])) /\
  RelayItems.exec cf st (RelayItems.IEntomb t (RelayItems.FromFail reason)) room =
    (let '(st', g) := RelayItems.items_entomb cf st t in
     (st', match g with
           | Some (it, ok) =>
               RelayGapP.fail_actions (GenRelayGate.relayFailItem true true ok (RelayItems.it_orig it) (reason =? RelayItems.reason_source_slow))
                            (RelayItems.key_conn t) (RelayItems.key_id t) (RelayItems.it_call it) reason
           | None => []
           end)) /\
  (forall st' g it, RelayItems.items_entomb cf st t = (st', g) ->
     RelayItems.lookup RelayItems.key_eqb t (RelayItems.items st') = Some it -> RelayItems.it_tomb it = true).
Proof. exact RelayGapP.fail_model. Qed.

(* NO GAP.  For every run of the interleaving model from the initial state -- any number of
   connections and calls, any interleaving of the reader goroutines (one atomic action at a
   time), relay timers firing at any moment, tomb collections, connection close/loss, send
   queues full or not at every attempt; request ids not re-used by a caller -- :
   [gap_free false cf init [] ls]: walking along the run and collecting in D the destination-side item
   key of every call of which a RESPONSE-direction frame was dropped at the caller's send queue
   (IRcvEnq without room), no later step puts a frame that FINISHES such a call (last call res /
   call res continue, or error frame) on the caller's send queue.  So a caller can never receive
   a response that ends normally but lacks frames in the middle. *)
Theorem C08_no_gap : forall cf ls st,
  RelayItems.run_fresh cf RelayItems.init ls = Some st -> RelayGapP.gap_free false cf RelayItems.init [] ls.
Proof. exact RelayGapP.relay_no_gap. Qed.

(* the same, read off the sequence of send-queue attempts of the run ([enq_trace]: per label
   the Receive it completes, if any, with room or not): attempt i drops a response frame, a
   later attempt j enqueues a response-direction frame read for the same destination-side item:
   that frame does not finish the call *)
Theorem C08_no_gap_trace : forall cf ls st, RelayItems.run_fresh cf RelayItems.init ls = Some st ->
  forall i j r1 r2, (i < j)%nat ->
    nth_error (RelayGapP.enq_trace cf RelayItems.init ls) i = Some (Some (r1, false)) -> RelayGapP.is_resp r1 = true ->
    nth_error (RelayGapP.enq_trace cf RelayItems.init ls) j = Some (Some (r2, true)) -> RelayGapP.is_resp r2 = true ->
    RelayItems.r_own r2 = RelayItems.r_own r1 -> RelayItems.fin_of (RelayItems.r_f r2) = false.
Proof. exact RelayGapP.relay_no_gap_trace. Qed.

(* NO FRAME AT ALL.  In runs in which no relay timer fires ([nofire]: no LFire label -- the ttl
   outlasts the episode) the statement holds for EVERY response-direction frame, finishing or not
   ([gap_free true]): after a response frame of a call was dropped, nothing of that response is
   put on the caller's send queue any more.  (With timers firing a non-final frame can pass in the
   window in which both timers of the call have fired but their goroutines have not run yet; the
   call then ends with the timeout error frame / the caller's deadline -- C08_no_gap.) *)
Theorem C08_no_frame_after_drop : forall cf ls st,
  RelayItems.run_fresh cf RelayItems.init ls = Some st -> Forall RelayGapP.nofire ls ->
  RelayGapP.gap_free true cf RelayItems.init [] ls.
Proof. exact RelayGapP.relay_no_frame_after_drop. Qed.

Theorem C08_no_frame_after_drop_trace : forall cf ls st,
  RelayItems.run_fresh cf RelayItems.init ls = Some st -> Forall RelayGapP.nofire ls ->
  forall i j r1 r2, (i < j)%nat ->
    nth_error (RelayGapP.enq_trace cf RelayItems.init ls) i = Some (Some (r1, false)) -> RelayGapP.is_resp r1 = true ->
    nth_error (RelayGapP.enq_trace cf RelayItems.init ls) j = Some (Some (r2, true)) -> RelayGapP.is_resp r2 = true ->
    RelayItems.r_own r2 <> RelayItems.r_own r1.
Proof. exact RelayGapP.relay_no_frame_after_drop_trace. Qed.

(* a call the relay has failed: once the originating item of request (k,id) is a tombstone or
   gone and no goroutine is still committed to an enqueue for it ([settled]), NOTHING is put on
   the caller's send queue for that id any more, whatever arrives later (statement shared with C10) *)
Theorem C08_failed_call_silent : forall cf ls0 st k id,
  RelayItems.run_fresh cf RelayItems.init ls0 = Some st -> RelayWireP.settled st k id ->
  forall ls st', RelayItems.run_fresh cf st ls = Some st' ->
    RelayCalm.wire_of k id (RelayItems.sent st') = RelayCalm.wire_of k id (RelayItems.sent st).
Proof. exact RelayWireP.relay_late_frames_discarded. Qed.

Print Assumptions C08_gate_generated.
Print Assumptions C08_gate_model.
Print Assumptions C08_gate_model_fwd.
Print Assumptions C08_fail_generated.
Print Assumptions C08_no_gap.
Print Assumptions C08_no_gap_trace.
Print Assumptions C08_no_frame_after_drop.
Print Assumptions C08_no_frame_after_drop_trace.
Print Assumptions C08_failed_call_silent.

(* non-vacuity: the schedule the harness forces (Model/RelayGap.v).  Call req 7 relayed; the
   destination answers call res (more fragments; queue has room), call res continue (more;
   queue FULL: dropped, relay-source-conn-slow), call res continue (last; queue has room again):
   only the first frame reaches the caller; one Failed, one End, no live item, two tombstones *)
Example C08_example_gap :
  RelayGap.run_relaygap [30000; 3;  4; 1; 0; 1;  20; 1; 0; 0;  20; 0; 0; 1] = [1; 0; 0; 1; 1; 0; 2].
Proof. vm_compute. reflexivity. Qed.

(* the same run as a label list of the interleaving model: it is a fresh-id run, its 25th label
   DROPS the second response frame (send-queue attempt without room), the later arrival of the
   frame that ends the response produces no send-queue attempt at all (swallowed by the
   tombstone), and the only frame ever enqueued for the caller's request is the first call res *)
Definition ex_gap_frame (mt fl : Z) : RelayItems.frame :=
  {| RelayItems.f_mt := mt; RelayItems.f_id := 1; RelayItems.f_flags := fl; RelayItems.f_code := 0; RelayItems.f_wf := true |}.
Definition ex_gap_run : list RelayItems.label :=
  [RelayItems.LArrive 0 RelayGap.gap_req RelayGap.gap_env] ++ repeat (RelayItems.LStep (RelayItems.TR 0) true) 10 ++
  [RelayItems.LArrive 1 (ex_gap_frame 4 1) RelayGap.gap_env] ++ repeat (RelayItems.LStep (RelayItems.TR 1) true) 8 ++
  [RelayItems.LArrive 1 (ex_gap_frame 20 1) RelayGap.gap_env] ++ repeat (RelayItems.LStep (RelayItems.TR 1) false) 16 ++
  [RelayItems.LArrive 1 (ex_gap_frame 20 0) RelayGap.gap_env] ++ repeat (RelayItems.LStep (RelayItems.TR 1) true) 2.

Example C08_example_gap_run :
  let cf := RelayGap.gap_cf 30000 in
  (exists st, RelayItems.run_fresh cf RelayItems.init ex_gap_run = Some st /\
              RelayCalm.wire_of 0 7 (RelayItems.sent st) = [WireOk.Res true]) /\
  Forall RelayGapP.nofire ex_gap_run /\
  map (fun o => match o with Some (r, room) => Some (RelayItems.r_own r, RelayItems.fin_of (RelayItems.r_f r), room) | None => None end)
      (filter (fun o => match o with Some _ => true | None => false end) (RelayGapP.enq_trace cf RelayItems.init ex_gap_run))
  = [Some ((0, 0, 7), false, true);     (* the call req goes to the destination *)
     Some ((1, 1, 1), false, true);     (* first response frame: enqueued for the caller *)
     Some ((1, 1, 1), false, false)].   (* second: dropped; the last frame never gets that far *)
Proof.
  cbv zeta. split; [eexists; split; vm_compute; reflexivity|]. split; [|vm_compute; reflexivity].
  unfold ex_gap_run. repeat (apply Forall_app; split); try (apply Forall_forall; intros l Hl; apply repeat_spec in Hl; subst l; exact I);
    constructor; try exact I; constructor.
Qed.

(* ================================================================================================
   Clauses (b) and (c), WHICH ID a relay error / clean-up path uses (added after seed C08-5: the
   re-fragmenting sender recorded `cr.Header.ID` -- by then rewritten to the DESTINATION id -- as
   the id to fail when a fragment cannot be queued, so the relay failed r.outbound[destinationID]:
   the caller of the appended call got no error at all, and an unrelated in-flight call of the same
   caller whose id equals that destination id was answered with relay-dest-conn-slow).

   "The caller receives exactly the response or error the destination / relay produced" and "ids
   are remapped so calls never collide" need every error frame towards the caller and every item
   failed in a relayer's table to use the id of THAT relayer's connection -- the id the frame was
   read with -- never the id the frame was rewritten to.
   Tie: go2v/relayidsites.go -> Gen/GenRelayIdSites.v (every uint32 id argument, every id store,
   every frame handed on before / after its header rewrite, every failRelayItem / SendSystemError
   call, the literal of relayFragmentSender); Model/RelayIdSites.v (id-space discipline);
   models: Model/RelayItems.v (ids are (connection, table, id) triples), Model/RelayFwd.v. *)
From Verif Require Gen.GenRelayIdSites Model.RelayIdSites Model.RelayErrId
  Proofs.RelayIdSitesP Proofs.RelayErrIdP Proofs.RelayFwdErrP.

(* the generated tables obey the id-space discipline: every id argument of every call is in the id
   space its callee expects (own id for a table / timer / SendSystemError of the relayer itself,
   the other connection's id as remapID), a header is only rewritten to the other connection's id,
   every fail site uses a table of its own relayer with an own id, every frame a Receive gets was
   rewritten first, the fragment sender is built from the own relayer, own table and own id *)
Theorem C08_id_sites_generated :
  RelayIdSites.id_discipline GenRelayIdSites.relay_id_args GenRelayIdSites.relay_id_stores GenRelayIdSites.relay_frame_args
    GenRelayIdSites.relay_fail_sites GenRelayIdSites.relay_syserr_sites GenRelayIdSites.relay_fragsender_lit
    GenRelayIdSites.relay_funcval_sites = true.
Proof. exact RelayIdSitesP.gen_id_discipline. Qed.

(* the site tables that are instructions of the model are the model's copy: the five failRelayItem
   calls, the eight SendSystemError calls, the seven fields of the fragment sender's literal *)
Theorem C08_err_sites_generated :
  GenRelayIdSites.relay_fail_sites = RelayIdSites.ri_fail_rows /\
  GenRelayIdSites.relay_syserr_sites = RelayIdSites.ri_syserr_rows /\
  GenRelayIdSites.relay_fragsender_lit = RelayIdSites.ri_lit_rows.
Proof. exact (conj RelayIdSitesP.gen_fail_sites (conj RelayIdSitesP.gen_syserr_sites RelayIdSitesP.gen_fragsender_lit)). Qed.

(* ... each with an OWN id (row by row, computed from the generated tables), and every frame that
   reaches Relayer.Receive carries the receiving relayer's id *)
Theorem C08_err_sites_own :
  forallb (fun row => let '(fn, callee, _, id, _) := row in
     RelayIdSites.idsp_eqb (RelayIdSites.adj callee (RelayIdSitesP.gen_space fn id)) RelayIdSites.SpOwn) GenRelayIdSites.relay_fail_sites = true /\
  forallb (fun row => let '(fn, rcv, id) := row in
     bytes_eqb rcv RelayIdSites.ri_rconn && RelayIdSites.idsp_eqb (RelayIdSitesP.gen_space fn id) RelayIdSites.SpOwn) GenRelayIdSites.relay_syserr_sites = true /\
  RelayIdSites.frame_space GenRelayIdSites.relay_frame_args 10 RelayIdSites.ri_fn_receive = RelayIdSites.SpOwn /\
  RelayIdSites.frame_space GenRelayIdSites.relay_frame_args 10 RelayIdSites.ri_fn_newsender = RelayIdSites.SpRemote.
Proof.
  exact (conj RelayIdSitesP.gen_fail_own (conj RelayIdSitesP.gen_syserr_own (conj RelayIdSitesP.gen_receive_own RelayIdSitesP.gen_sender_remote))).
Qed.

(* the rows as instructions of the interleaving model: an item is failed under the id the frame was
   READ with (k, table, f_id f), while the frame itself travels on under the id of the other
   connection (did / remapID) -- for the call req, every re-fragmented frame and every later frame *)
Theorem C08_fail_sites_model : forall cf st,
  (forall r rk lk, exists reason,
     RelayItems.exec cf st (RelayItems.IRcvEnq r rk lk) false =
       (st, [RelayItems.IFailGet rk reason; RelayItems.IFailGet (RelayItems.r_own r) reason])) /\
  (forall k f e c d did, RelayItems.e_mode e <? 0 = true -> exists st1,
     RelayItems.exec cf st (RelayItems.IAddOrig k f e c d did) true =
       (st1, [RelayItems.IFailGet (k, 0, RelayItems.f_id f) RelayItems.reason_arg2_modify])) /\
  (forall k f e c d did, RelayItems.e_mode e <? 0 = false -> exists st1 r,
     RelayItems.exec cf st (RelayItems.IAddOrig k f e c d did) true = (st1, [RelayItems.ICb c RelayItems.CbSent; RelayItems.IRcvGet r]) /\
     RelayItems.r_own r = (k, 0, RelayItems.f_id f) /\ RelayItems.f_id (RelayItems.r_f r) = did /\ RelayItems.r_d r = d) /\
  (forall k f ft own it stopped, RelayItems.it_tomb it || (RelayItems.fin_of f && negb stopped) = false -> exists pre r,
     RelayItems.exec cf st (RelayItems.INcChk k f ft own (Some (it, stopped))) true = (st, pre ++ [RelayItems.IRcvGet r]) /\
     RelayItems.r_own r = own /\ RelayItems.f_id (RelayItems.r_f r) = RelayItems.it_remap it /\ RelayItems.r_d r = RelayItems.it_dest it) /\
  (forall r r', In (RelayItems.IRcvGet r') (RelayItems.after_sent r) ->
     RelayItems.r_own r' = RelayItems.r_own r /\ RelayItems.f_id (RelayItems.r_f r') = RelayItems.f_id (RelayItems.r_f r) /\
     RelayItems.r_d r' = RelayItems.r_d r) /\
  (forall r reason, RelayItems.after_unsent r reason = [RelayItems.IFailGet (RelayItems.r_own r) reason]).
Proof. exact RelayIdSitesP.fail_sites_model. Qed.

(* THE THEOREM (interleaving model, every reachable state of a run with fresh request ids, all
   interleavings of readers, timers, collections, queues full or not): a reader goroutine calls
   SendSystemError only on the connection it reads from and with the id of the request-direction
   frame (call req, call req continue, cancel) it read last -- the frame it is handling.  So every
   relay-originated error of a call -- no destination, host error, connection not active,
   destination slow on the first frame, on re-fragmented frame n, on a continuation frame, item
   not found -- is queued on the call's SOURCE connection with the call's SOURCE id; while a
   response-direction frame is handled (source slow) no error frame is made at all *)
Theorem C08_relay_error_id : forall cf ls st l k k' id' code,
  RelayItems.run_fresh cf RelayItems.init ls = Some st ->
  RelayErrId.err_attempt st l = Some (RelayItems.TR k, k', id', code) ->
  exists f, RelayErrId.last_arr k ls None = Some f /\ k' = k /\ id' = RelayItems.f_id f /\
            frameTypeFor (RelayItems.f_mt f) = Some c_requestFrame.
Proof. exact RelayErrIdP.reader_error_id. Qed.

(* the item a reader fails in an OUTBOUND table (where the originating items, the ones that answer
   the caller, live): while it handles a request-direction frame it is the item filed under the id
   it read on its own connection; while it handles a response-direction frame the reason is
   relay-source-conn-slow (no error frame, by design) *)
Theorem C08_relay_fail_key : forall cf ls st l k t reason,
  RelayItems.run_fresh cf RelayItems.init ls = Some st ->
  RelayErrId.fail_attempt st l = Some (RelayItems.TR k, t, reason) -> RelayItems.key_dir t = 0 ->
  exists f, RelayErrId.last_arr k ls None = Some f /\
    (RelayErrId.dir_of f = 0 -> t = (k, 0, RelayItems.f_id f)) /\
    (RelayErrId.dir_of f = 1 -> reason = RelayItems.reason_source_slow).
Proof. exact RelayErrIdP.reader_fail_outbound. Qed.

(* a send attempt of a reader (first frame, re-fragmented frame n, continuation, response): the item
   it will fail if the frame cannot be queued is its own -- (k, table of the frame's direction, id read) *)
Theorem C08_relay_send_own : forall cf ls st k r rk lk rest,
  RelayItems.run_fresh cf RelayItems.init ls = Some st ->
  RelayItems.lookup RelayItems.tid_eqb (RelayItems.TR k) (RelayItems.threads st) = Some (RelayItems.IRcvEnq r rk lk :: rest) ->
  exists f, RelayErrId.last_arr k ls None = Some f /\ RelayItems.r_own r = RelayErrId.own_key k f /\
            RelayItems.key_dir rk = 1 - RelayErrId.dir_of f /\
            RelayItems.r_ft r = (if RelayErrId.dir_of f =? 0 then c_requestFrame else c_responseFrame).
Proof. exact RelayErrIdP.reader_send_own. Qed.

(* the timeout path: a timer goroutine sends only the timeout error, on the connection and with the
   id of the key its timer was started with, which is the id of a call req read on that connection *)
Theorem C08_relay_timeout_id : forall cf ls st l tm k' id' code,
  RelayItems.run_fresh cf RelayItems.init ls = Some st ->
  RelayErrId.err_attempt st l = Some (RelayItems.TT tm, k', id', code) ->
  code = c_ErrCodeTimeout /\ In (k', id') (RelayItems.seen st) /\
  exists x, RelayItems.lookup Z.eqb tm (RelayItems.timers st) = Some x /\ RelayItems.tm_key x = (k', 0, id').
Proof. exact RelayErrIdP.timer_error_id. Qed.

(* the destination-slow path, step by step: a request-direction frame that finds the send queue
   full fails the receiving relayer's item and the reader's own item; failRelayItem on a live
   originating item whose timer it stops hands SendSystemError the item's own connection and id *)
Theorem C08_dest_slow_path : forall cf st,
  (forall r rk lk, RelayItems.r_ft r = c_requestFrame ->
     RelayItems.exec cf st (RelayItems.IRcvEnq r rk lk) false =
       (st, [RelayItems.IFailGet rk RelayItems.reason_dest_slow; RelayItems.IFailGet (RelayItems.r_own r) RelayItems.reason_dest_slow])) /\
  (forall t reason it st1 room1 room2,
     RelayItems.items_get st t true = (st1, Some (it, true)) -> RelayItems.it_tomb it = false -> RelayItems.it_orig it = true ->
     reason <> RelayItems.reason_source_slow ->
     (RelayItems.cf_maxtombs cf <? RelayItems.tomb_count st1 (RelayItems.key_conn t) (RelayItems.key_dir t)) = false ->
     RelayItems.exec cf st (RelayItems.IFailGet t reason) room1 = (st1, [RelayItems.IEntomb t (RelayItems.FromFail reason)]) /\
     exists st2, RelayItems.exec cf st1 (RelayItems.IEntomb t (RelayItems.FromFail reason)) room2 =
       (st2, [RelayItems.ISendErr (RelayItems.key_conn t) (RelayItems.key_id t) c_ErrCodeUnexpected;
              RelayItems.ICb (RelayItems.it_call it) (RelayItems.CbFailed reason);
              RelayItems.ICb (RelayItems.it_call it) RelayItems.CbEnd; RelayItems.IDec (RelayItems.key_conn t)])).
Proof.
  exact (fun cf st => conj (RelayErrIdP.dest_slow_fails_own cf st) (fun t reason it st1 room1 room2 => RelayErrIdP.fail_own_error cf st t reason it st1 room1 room2)).
Qed.

(* the same over the frame-path model of the theorems at the top of this file: every error frame
   made while a frame read on connection c is handled carries connection c and the id of that frame
   AS READ; a timer's error carries the connection and id it was started with *)
Theorem C08_fwd_error_id : forall maxT pc st c h p hd outs st',
  step maxT pc st (LFrame c h p hd) = Some (outs, st') -> Forall (RelayFwdErrP.out_err_ok c (fh_id h)) outs.
Proof. exact RelayFwdErrP.fwd_error_id. Qed.

Theorem C08_fwd_expire_id : forall maxT pc st c outb id outs st',
  step maxT pc st (LExpire c outb id) = Some (outs, st') -> Forall (RelayFwdErrP.out_err_ok c id) outs.
Proof. exact RelayFwdErrP.fwd_expire_id. Qed.

Print Assumptions C08_id_sites_generated.
Print Assumptions C08_err_sites_generated.
Print Assumptions C08_err_sites_own.
Print Assumptions C08_fail_sites_model.
Print Assumptions C08_relay_error_id.
Print Assumptions C08_relay_fail_key.
Print Assumptions C08_relay_send_own.
Print Assumptions C08_relay_timeout_id.
Print Assumptions C08_dest_slow_path.
Print Assumptions C08_fwd_error_id.
Print Assumptions C08_fwd_expire_id.

(* non-vacuity.  The discipline checker rejects the edits of the family (Proofs/RelayIdSitesP.v:
   the sender recording the rewritten header id, an item failed under the rewritten header id,
   a timer started with the remapID, a frame handed to Receive before the rewrite). *)
Example C08_example_discipline_rejects :
  RelayIdSites.id_discipline GenRelayIdSites.relay_id_args
    (RelayIdSitesP.set_store RelayIdSites.ri_field_origid RelayIdSites.ri_txt_cr_hdr GenRelayIdSites.relay_id_stores)
    GenRelayIdSites.relay_frame_args GenRelayIdSites.relay_fail_sites GenRelayIdSites.relay_syserr_sites
    GenRelayIdSites.relay_fragsender_lit GenRelayIdSites.relay_funcval_sites = false.
Proof. exact RelayIdSitesP.discipline_rejects_sender_hdr. Qed.

(* the scenario of the engine relayslow (Model/RelayErrId.v): the caller's call 5 (V) is in flight
   to a healthy destination; its call 6 (M) goes to a stalled destination whose next id is 5 -- the
   id of V.  M is re-fragmented into 3 frames, the queue has 1 free slot: frame 1 is queued, frame
   2 is not; the error frame (code 5 = unexpected, relay-dest-conn-slow = reason 9) is made for id
   6, nothing for id 5; M is Failed and Ended once, V is untouched.  Second line: plain forwarding,
   queue already full.  Third: the second continuation frame does not fit. *)
Example C08_example_slow_dest :
  RelayErrId.run_relayslow [30000; 5; 6; 5; 3; 0; 1] = [0; 5; 1; 9; 1; 0; 0] /\
  RelayErrId.run_relayslow [30000; 5; 6; 5; 0; 0; 0] = [0; 5; 0; 9; 1; 0; 0] /\
  RelayErrId.run_relayslow [30000; 5; 6; 9; 2; 2; 3] = [0; 5; 3; 9; 1; 0; 0].
Proof. vm_compute. repeat split; reflexivity. Qed.
