(* Property C08 -- A relay is transparent to the calls it forwards.
   Statements only.  Models: Model/RelayLazy.v (newLazyCallReq, TTL/SetTTL), Model/RelayFwd.v
   (Relay / handleCallReq / handleNonCallReq / Receive / relay items of all connections /
   NextMessageID / timers), Model/RelayAppend.v (fragmentingSend on the writer of Model/Frag.v).
   Specifications: Spec/Protocol.v (layouts), Spec/RelaySpec.v (one-table transparent relay),
   Spec/FragSpec.v (what a fragment sequence denotes).
   Definitions used: max_ok maxT = 0 < maxT/ms <= 2^32-1; plain = frames of the six relayed
   types, call reqs that the lazy parser accepts and the host routes without appends, own id
   allocations; notimer = no relay-timer labels; first_ok = field limits of the protocol. *)
From Coq Require Import ZArith List Bool.
From Verif Require Import Base.Wrap Base.Bytes Gen.GenConsts Gen.GenFrame Gen.GenRelayFwd
  Model.TypedBuf Model.Messages Model.Crc Model.Frag Model.FragWire Model.Codecs
  Model.RelayLazy Model.RelayAppend Model.RelayFwd
  Spec.Protocol Spec.FragSpec Spec.FragOk Spec.RelaySpec
  Proofs.CodecP Proofs.CodecsP Proofs.FragWP Proofs.RelayFwdP Proofs.RelayInvP Proofs.RelaySimP Proofs.RelayAppendP Proofs.RelayC08P.
Import ListNotations.
Local Open Scope Z_scope.

(* ---- ttl ---- *)
(* whatever RelayMaxTimeout is configured (any int64 nanosecond value), the validated
   maximum is between 1 ms and 2^32-1 ms *)
Theorem C08_max_timeout : forall d, - 2 ^ 63 <= d < 2 ^ 63 ->
  0 < Z.quot (validateRelayMaxTimeout d) ms_ns <= 4294967295.
Proof. exact validate_max_ok. Qed.

(* the ttl (ms) of the forwarded call req is min(received ttl, floor(max/ms)): never larger
   than the original and never larger than the relay maximum *)
Theorem C08_ttl : forall maxT p, max_ok maxT -> bytes_ok p = true -> 5 <= zlen p ->
  lazy_ttl_ms (clamp_ttl maxT p) = Z.min (lazy_ttl_ms p) (Z.quot maxT ms_ns) /\
  lazy_ttl_ms (clamp_ttl maxT p) <= lazy_ttl_ms p /\
  lazy_ttl_ms (clamp_ttl maxT p) * ms_ns <= maxT.
Proof. exact ttl_clamp_bounds. Qed.

(* ---- (a) the forwarded call req frame ---- *)
(* for every call req payload (>= 5 bytes) and header: the forwarded frame has the new id and
   the same type, size and reserved byte; decoded with the message decoder of C06 it has
   the same flags, tracing span, service, transport headers, the reader is left in the same
   state (so checksum type, checksum and argument chunks are the same: parse_frag_payload
   agrees) and ttl = min(ttl, max) *)
Theorem C08_req_transparent : forall maxT newid h p,
  max_ok maxT -> bytes_ok p = true -> 5 <= zlen p ->
  let h' := set_id h newid in
  let p' := clamp_ttl maxT p in
  fh_id h' = newid /\ fh_type h' = fh_type h /\ fh_size h' = fh_size h /\ fh_res1 h' = fh_res1 h /\
  zlen p' = zlen p /\ bytes_ok p' = true /\
  (let '(fl, r0) := r_u8 (rb p) in let '(m, r1) := r_callreq r0 in
   let '(fl', r0') := r_u8 (rb p') in let '(m', r1') := r_callreq r0' in
   fl' = fl /\ r1' = r1 /\
   cq_span m' = cq_span m /\ cq_service m' = cq_service m /\ cq_headers m' = cq_headers m /\
   cq_ttl_ns m' = Z.min (cq_ttl_ns m) (Z.quot maxT ms_ns * ms_ns)) /\
  parse_frag_payload c_messageTypeCallReq p' = parse_frag_payload c_messageTypeCallReq p.
Proof. exact relay_callreq_transparent. Qed.

(* what the relay host is shown for a call req laid out as the protocol document says:
   the caller's method, arg2, arg3, arg scheme and caller name (last occurrence of the header) *)
Theorem C08_host_view : forall flags ttl tr service hdrs ct ckb a1 a2 a3,
  first_ok tr service hdrs ct ckb a1 a2 a3 ->
  let p := callreq_first flags ttl tr service hdrs ct ckb a1 a2 a3 in
  zlen p <= c_MaxFramePayloadSize ->
  exists lz, lazy_callreq p = (0, lz) /\
    lz_ctoff lz = 1 + zlen (s_callreq ttl tr service hdrs) /\ lz_ctype lz = ct /\
    lz_method lz = a1 /\ lz_arg2 p lz = a2 /\ lz_arg3 p lz = a3 /\ lz_a2frag lz = false /\
    lz_as lz = hs_as (hsel_fold hdrs (mkHsel [] [] [] [])) /\
    lz_caller lz = hs_cn (hsel_fold hdrs (mkHsel [] [] [] [])) /\
    slice p 1 (lz_ctoff lz) = s_callreq ttl tr service hdrs /\ nth 0 p 0 = flags /\
    lz_ctoff lz + 1 + zlen ckb + (2 + zlen a1) + (2 + zlen a2) + (2 + zlen a3) = zlen p.
Proof. exact lazy_callreq_layout. Qed.

(* ---- (b) every other frame: only the 4 id bytes of the wire image change ---- *)
Theorem C08_resp_transparent : forall newid h p,
  let h' := set_id h newid in
  fh_id h' = newid /\ fh_type h' = fh_type h /\ fh_size h' = fh_size h /\ fh_res1 h' = fh_res1 h /\
  frame_out h' p = firstn 4 (frame_out h p) ++ be 4 newid ++ skipn 8 (frame_out h p).
Proof. exact relay_other_transparent. Qed.

(* WANTED (full statement): for EVERY history of frames of the relayed types the relay emits
   exactly the frame sequence of the transparent one-table relay of Spec/RelaySpec.v:
     forall maxT cnt0 ls outs st, max_ok maxT -> (forall c, 0 <= cnt0 c) -> Forall plain' ls ->
       run maxT false ls (init_state cnt0) = Some (outs, st) -> (forall c, st_count st c < 2 ^ 32) ->
       exists ss, spec_run (Z.quot maxT ms_ns) ls (mkSS [] cnt0) = Some (outs, ss)
   where plain' is plain WITHOUT the clause "the lazy parser accepts the call req".
   That statement is FALSE for the code as it is (C08_order_refuted below: a protocol-valid call
   whose arg1 does not end within the first frame is dropped, known finding
   c08:arg1-not-in-first-frame-dropped).  PROVED (C08_order_partial): the statement for all
   histories -- any number of connections, calls, ids chosen by the peers, interleavings of the
   frames of different calls and connections -- whose call req frames the relay's lazy parser
   accepts (arg1 and the arg2 length inside the first frame), routed by the host without
   appends, without relay-timer events and without id wrap: every frame of a call goes to the
   call's other side with only the id (call req: id and ttl) rewritten, in the order read, until
   the frame that ends the response.  Missing besides the refuted clause: histories with
   appends (covered per call by the C08_append theorems), timer events and host errors (covered by the
   state invariants C08_remap_injective / C08_fresh_id only). *)
Theorem C08_order_partial : forall maxT cnt0 ls outs st,
  max_ok maxT -> (forall c, 0 <= cnt0 c) -> Forall plain ls ->
  run maxT false ls (init_state cnt0) = Some (outs, st) ->
  (forall c, st_count st c < 2 ^ 32) ->
  exists ss, spec_run (Z.quot maxT ms_ns) ls (mkSS [] cnt0) = Some (outs, ss).
Proof. exact relay_refines_spec. Qed.

(* the refuted clause: a first fragment that the fragment parser of C01/C03 accepts (flags =
   more fragments, ttl 1000, service "s", no headers, no checksum, one chunk holding the first
   two bytes of arg1) is rejected by the relay's lazy parser, and the relay model (as the code)
   drops the frame: nothing reaches the destination and no error frame reaches the caller,
   whereas the specification relay forwards it *)
Theorem C08_order_refuted : exists p h,
  bytes_ok p = true /\
  (exists f, parse_frag_payload c_messageTypeCallReq p = (0, f) /\ f_more f = true /\ f_chunks f = [[97; 98]]) /\
  fst (lazy_callreq p) <> 0 /\
  fh_type h = c_messageTypeCallReq /\
  (exists st', step 120000000000 false (init_state (fun _ => 1)) (LFrame 0%nat h p (HDst 1%nat [])) = Some ([], st')) /\
  (exists o ss', spec_step 120000 (mkSS [] (fun _ => 1)) (LFrame 0%nat h p (HDst 1%nat [])) = Some ([o], ss')).
Proof. exact tiny_frame_dropped. Qed.

(* ---- (c) id remapping ---- *)
(* in every state reachable by ANY history (all label kinds: any frames, host decisions,
   appends, errors, own allocations, timer expiry and tomb collection) in which no
   connection's id counter reached 2^32:
   - two relay items that forward to the same destination connection never carry the same
     destination id unless they are the same item (same source connection and source id);
   - no relayed call uses an id that the destination connection handed out for its own exchanges;
   - the item a source-side item points to is gone or points back to it *)
Theorem C08_remap_injective : forall maxT pc cnt0 ls outs st, (forall c, 0 <= cnt0 c) ->
  run maxT pc ls (init_state cnt0) = Some (outs, st) -> (forall c, st_count st c < 2 ^ 32) ->
  (forall c1 id1 it1 c2 id2 it2, st_out st c1 id1 = Some it1 -> st_out st c2 id2 = Some it2 ->
     it_dest it1 = it_dest it2 -> it_remap it1 = it_remap it2 -> c1 = c2 /\ id1 = id2) /\
  (forall d k, st_own st d k = true -> st_in st d k = None) /\
  (forall c id it, st_out st c id = Some it ->
     match st_in st (it_dest it) (it_remap it) with
     | None => True
     | Some it' => it_remap it' = id /\ it_dest it' = c
     end).
Proof. exact remap_injective. Qed.

(* Add never overwrites: the id handed out next on connection d is not in use there -- not by a
   relayed call (live or tomb), not by the connection itself, not as the target of any item *)
Theorem C08_fresh_id : forall maxT pc cnt0 ls outs st d, (forall c, 0 <= cnt0 c) ->
  run maxT pc ls (init_state cnt0) = Some (outs, st) -> (forall c, st_count st c < 2 ^ 32) ->
  st_count st d + 1 < 2 ^ 32 ->
  let k := fst (alloc_id st d) in
  k = st_count st d + 1 /\ st_in st d k = None /\ st_own st d k = false /\
  (forall c id it, st_out st c id = Some it -> it_dest it = d -> it_remap it <> k).
Proof. exact fresh_id. Qed.

(* the two items of a call are mutually inverse: in histories without timer events every
   destination-side item has its source-side item pointing back *)
Theorem C08_inverse : forall maxT pc cnt0 ls outs st, (forall c, 0 <= cnt0 c) -> Forall notimer ls ->
  run maxT pc ls (init_state cnt0) = Some (outs, st) -> (forall c, st_count st c < 2 ^ 32) ->
  forall d k it, st_in st d k = Some it ->
    exists it', st_out st (it_dest it) (it_remap it) = Some it' /\ it_remap it' = k /\ it_dest it' = d.
Proof. exact run_inverse. Qed.

(* ---- (d) arg2 append ---- *)
(* for every thrift call req first frame laid out as the protocol says (any flags, ttl,
   tracing, service, transport headers whose arg scheme is thrift, checksum type 0..3, arg1,
   arg2 = encoding of pairs h, arg3 chunk) and any appended pairs within the 16-bit limits:
   fragmentingSend succeeds; its frames keep the message header bytes; they denote exactly
   [arg1; encoding of (h ++ appended); arg3]; every frame has >= 1 chunk, fits a pooled frame
   and carries the more-fragments flag iff it is not the last new one; every checksum field
   is the running checksum; the key/value iterator over the new arg2 yields the original
   pairs followed by the appended ones *)
Theorem C08_append : forall flags ttl tr service hdrs ct ckb a1 h a3 appends ck0,
  first_ok tr service hdrs ct ckb a1 (s_theaders h) a3 ->
  let p := callreq_first flags ttl tr service hdrs ct ckb a1 (s_theaders h) a3 in
  zlen p <= c_MaxFramePayloadSize ->
  hs_as (hsel_fold hdrs (mkHsel [] [] [] [])) = c_Thrift ->
  ck_new ct = Some ck0 ->
  kvs16_ok h -> kvs16_ok appends -> zlen h + zlen appends <= 65535 ->
  exists lz fs,
    lazy_callreq p = (0, lz) /\
    append_send p lz appends ck0
      = (0, relay_frag_payloads flags (s_callreq ttl tr service hdrs) true fs, ck_end ck0 fs) /\
    denote (chunks_of fs) = [a1; s_theaders (h ++ appends); a3] /\
    frames_ok (relay_capf lz ck0) fs /\ ck_chain ck0 fs /\
    kv_iter (s_theaders (h ++ appends)) = (h ++ appends, true).
Proof. exact relay_append_correct. Qed.

(* the continuation frames of an appended call (flags, checksum type, checksum, one chunk):
   the relay overwrites only the checksum bytes, with the running checksum continued over the
   chunk, and keeps that checksum state for the next frame *)
Theorem C08_append_continue : forall flags ctb ckb d ck, zlen ckb = ck_size ck -> zlen d <= 65535 ->
  update_cont_ck (cont_payload flags ctb ckb d) ck = (cont_payload flags ctb (ck_sum (ck_add ck d)) d, ck_add ck d).
Proof. exact update_cont_layout. Qed.

(* the whole appended call as the destination receives it -- the re-fragmented first frame
   followed by ANY number of continuation chunks patched that way -- has a valid running
   checksum chain from the first frame to the last and denotes arg1, pairs ++ appended pairs,
   and the complete arg3 *)
Theorem C08_append_whole : forall flags ttl tr service hdrs ct ckb a1 h a3 appends ck0,
  first_ok tr service hdrs ct ckb a1 (s_theaders h) a3 ->
  let p := callreq_first flags ttl tr service hdrs ct ckb a1 (s_theaders h) a3 in
  zlen p <= c_MaxFramePayloadSize ->
  hs_as (hsel_fold hdrs (mkHsel [] [] [] [])) = c_Thrift ->
  ck_new ct = Some ck0 ->
  kvs16_ok h -> kvs16_ok appends -> zlen h + zlen appends <= 65535 ->
  exists lz fs,
    lazy_callreq p = (0, lz) /\
    append_send p lz appends ck0
      = (0, relay_frag_payloads flags (s_callreq ttl tr service hdrs) true fs, ck_end ck0 fs) /\
    forall conts,
      ck_chain ck0 (fs ++ patched (ck_end ck0 fs) conts) /\
      denote (chunks_of (fs ++ patched (ck_end ck0 fs) conts)) = [a1; s_theaders (h ++ appends); a3 ++ concat (map snd conts)].
Proof. exact relay_append_whole. Qed.

Print Assumptions C08_max_timeout.
Print Assumptions C08_ttl.
Print Assumptions C08_req_transparent.
Print Assumptions C08_host_view.
Print Assumptions C08_resp_transparent.
Print Assumptions C08_order_partial.
Print Assumptions C08_order_refuted.
Print Assumptions C08_remap_injective.
Print Assumptions C08_fresh_id.
Print Assumptions C08_inverse.
Print Assumptions C08_append.
Print Assumptions C08_append_continue.
Print Assumptions C08_append_whole.

(* ---- non-vacuity ---- *)
(* a concrete call req: service "svc", headers as=thrift cn=me, crc32 checksum field, method "m",
   arg2 = one pair (k,v), arg3 = [7;8;9], ttl 5000 ms *)
Definition ex_tr : list Z := repeat 1 25.
Definition ex_hdrs : kvs := [([97;115], [116;104;114;105;102;116]); ([99;110], [109;101])].
Definition ex_payload (ttl : Z) : list Z :=
  callreq_first 0 ttl ex_tr [115;118;99] ex_hdrs 1 [9;9;9;9] [109] (s_theaders [([107],[118])]) [7;8;9].
Definition ex_frame (id ttl : Z) : fheader * list Z :=
  (mkFH (16 + zlen (ex_payload ttl)) 3 0 id, ex_payload ttl).

(* two source connections (0 and 1) both use id 1 towards destination connection 2 whose
   counter is at 1; relay maximum 2 s: they get destination ids 2 and 3, ttl 5000 -> 2000;
   the final response frames come back with id 1 on the right connection and free the items *)
Example C08_example_run :
  let f := ex_frame 1 5000 in
  let res k := LFrame 2%nat (mkFH 18 4 0 k) [0; 0] HDrop in
  match run 2000000000 false
            [LFrame 0%nat (fst f) (snd f) (HDst 2%nat []); LFrame 1%nat (fst f) (snd f) (HDst 2%nat []); res 3; res 2]
            (init_state (fun c => if Nat.eqb c 2%nat then 1 else 0)) with
  | Some ([[OFrame 2%nat h1 p1]; [OFrame 2%nat h2 p2]; [OFrame 1%nat h3 _]; [OFrame 0%nat h4 _]], st) =>
      fh_id h1 = 2 /\ fh_id h2 = 3 /\ p1 = ex_payload 2000 /\ p2 = ex_payload 2000 /\
      fh_id h3 = 1 /\ fh_id h4 = 1 /\ st_out st 0%nat 1 = None /\ st_in st 2%nat 2 = None /\ st_count st 2%nat = 3
  | _ => False
  end.
Proof. vm_compute. repeat split; reflexivity. Qed.

Example C08_example_plain :
  let f := ex_frame 1 5000 in
  max_ok 2000000000 /\ plain (LFrame 0%nat (fst f) (snd f) (HDst 2%nat [])) /\ plain (LFrame 2%nat (mkFH 18 4 0 3) [0; 0] HDrop).
Proof.
  cbv zeta. split; [vm_compute; split; [reflexivity|discriminate]|]. split.
  - split; [vm_compute; reflexivity|]. split; [left; reflexivity|]. split.
    + intros _. split; [vm_compute; reflexivity|]. exists 2%nat. reflexivity.
    + intros [H|H]; vm_compute in H; discriminate.
  - split; [reflexivity|]. split; [right; right; left; reflexivity|]. split.
    + intros H; vm_compute in H; discriminate.
    + intros _ H; discriminate.
Qed.

(* the append path on that frame with one appended pair ("a","b"): one new frame whose arg2 has
   the count 2 and both pairs, arg1 and arg3 untouched *)
Example C08_example_append :
  let p := ex_payload 5000 in
  match lazy_callreq p with
  | (0, lz) =>
      match append_send p lz [([97],[98])] (mkCk 1 0) with
      | (0, [(true, pl)], _) =>
          option_map (fun f => f_chunks f) (match parse_frag_payload 3 pl with (0, f) => Some f | _ => None end)
          = Some [[109]; [0;2; 0;1;107; 0;1;118; 0;1;97; 0;1;98]; [7;8;9]]
      | _ => False
      end
  | _ => False
  end.
Proof. vm_compute. reflexivity. Qed.
