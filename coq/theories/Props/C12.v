(* Property C12 -- Pooled frame buffers have exactly one owner at a time.
   "A frame obtained from the configured frame pool is handed back at most once, and the
    library neither reads nor writes it after handing it back, under any traffic including
    timeouts, malformed or truncated messages, relay drops and connection failures; on calls
    that complete without a fault every frame is handed back."

   Statements only.  [run false (init cap) ls] = the repaired code (Model/FrameOwn.v) started
   with an empty pool history and send buffers of capacity [cap], driven through the label
   list [ls]: ANY interleaving of reader loops, writer loops, handlers, callers, relay
   forwarding, timeouts ([LCtx]), connection failures ([LErrN], [LWrite _ true], [LStop]),
   truncated ([LReadFail]), malformed ([LFetch _ false _ _], [LFetch _ _ false _], frame
   kinds other than 0) and unroutable ([LReadFwd _ None _], [LReadLeak]) frames, full send
   buffers, with unboundedly many connections, calls and frames.  [run] only admits labels
   that satisfy [app_ok] (a handler does not read request arguments after it called
   InboundCallResponse.SendSystemError).  [history s] is the chronological list of pool
   events; the three predicates are those of Spec/FrameOwnSpec.v. *)
From Coq Require Import ZArith List Bool.
From Verif Require Import Gen.GenSites Spec.FrameOwnSpec Model.FrameOwn Proofs.FrameOwnP.
From Verif Require Import Model.FrameOwnCall Proofs.FrameOwnCallP.
Import ListNotations.
Local Open Scope Z_scope.

(* no frame is handed back twice, for every schedule and every fault history *)
Theorem C12_at_most_once : forall cap ls s,
  run false (init cap) ls = Some s -> released_at_most_once (history s).
Proof. exact at_most_once_thm. Qed.
Print Assumptions C12_at_most_once.

(* after a frame was handed back no later event concerns it: no access at any of the
   modelled access sites, no hand-over to another goroutine, no second release *)
Theorem C12_no_use_after_release : forall cap ls s,
  run false (init cap) ls = Some s -> no_use_after_release (history s).
Proof. exact no_use_after_release_thm. Qed.
Print Assumptions C12_no_use_after_release.

(* only frames that came out of the pool are released or touched, and the pool never sees
   the same frame obtained twice *)
Theorem C12_only_pool_frames : forall cap ls s,
  run false (init cap) ls = Some s -> only_pool_frames (history s).
Proof. exact only_pool_frames_thm. Qed.
Print Assumptions C12_only_pool_frames.

(* Completeness.  [run_noloss] = runs none of whose steps is one of the enumerated
   frame-dropping steps [loses] (frame for an unknown or finished exchange or swallowed by
   the relay; unparsable or unexpected frame taken from an exchange; message.write failing on
   a fresh frame; control message for a full send buffer) -- timeouts, error frames,
   connection failures and full relay buffers are NOT excluded.  Then every frame ever
   obtained is released or still referenced by an exchange queue, a send queue, a reader's
   fragment or a writer's fragment ... *)
Theorem C12_no_frame_lost : forall cap ls s,
  run_noloss (init cap) ls = Some s ->
  forall t, In t (gets (history s)) -> In t (rels (history s)) \/ held s t.
Proof. exact no_loss. Qed.
Print Assumptions C12_no_frame_lost.

(* ... hence, when nothing is in flight any more, every frame has been handed back *)
Theorem C12_faultfree_all_released : forall cap ls s,
  run_noloss (init cap) ls = Some s -> quiescent s -> all_released (history s).
Proof. exact noloss_quiescent. Qed.
Print Assumptions C12_faultfree_all_released.

(* such runs are runs: the safety theorems apply to them *)
Theorem C12_noloss_is_run : forall cap ls s, run_noloss (init cap) ls = Some s -> run false (init cap) ls = Some s.
Proof. exact noloss_is_run_thm. Qed.
Print Assumptions C12_noloss_is_run.

(* Tie to the source: the model's site table is exactly the list of FramePool.Get/Release
   call sites that go2v extracted from the Go source on this run (Gen/GenSites.v), in the
   same order; a call site added, removed or moved to another function breaks this proof. *)
Theorem C12_sites_generated : map snd site_table = pool_sites.
Proof. exact site_table_is_generated. Qed.
Print Assumptions C12_sites_generated.

(* and every Get/Release event the model can produce names a site of that table *)
Theorem C12_sites_known : forall cap ls s,
  run false (init cap) ls = Some s -> Forall site_known (s_trace s).
Proof. exact sites_known_thm. Qed.
Print Assumptions C12_sites_known.

(* The pinned tree (dispatchInbound releasing its frame parameter when readMethod fails)
   refutes the first clause: call req with the more-fragments flag, then a continuation
   whose checksum does not match. *)
Theorem C12_pinned_at_most_once_refuted :
  exists s, run true (init 8) pinned_witness = Some s /\ ~ released_at_most_once (history s).
Proof. exact pinned_double_release. Qed.
Print Assumptions C12_pinned_at_most_once_refuted.

(* The application contract in [run] is necessary: without it the reader copies out of a
   released frame. *)
Theorem C12_contract_needed :
  exists s, run_any false (init 8) [LReadCallReq 1 7; LFetch 7 true true true; LRespSysErr 7; LAcc 7] = Some s /\
            ~ no_use_after_release (history s).
Proof. exact contract_needed. Qed.
Print Assumptions C12_contract_needed.

(* ---- non-vacuity ---- *)

(* a complete inbound call with a two-fragment request (handshake, call req, continuation,
   arguments read to the end, response written and sent): accepted by run_noloss, ends
   with nothing in flight in the queues, four pool frames plus two handshake frames all released *)
Definition example_call : list label :=
  [LLocal 1 0; LLocal 1 1; LReadCallReq 1 7; LFetch 7 true true true; LAcc 7;
   LReadFwd 1 (Some 7) 0; LFetch 7 true true true; LAcc 7; LCloseLast 7;
   LWNew 7 true; LWAcc 7; LWFlush 7 false; LWNew 7 true; LWAcc 7; LWFlush 7 true; LWrite 1 false; LWrite 1 false].
Example C12_example_call :
  exists s, run_noloss (init 8) example_call = Some s /\
            gets (history s) = [0; 1; 2; 3; 4; 5] /\ rels (history s) = [0; 1; 2; 3; 4; 5] /\
            x_q (s_mex s 7) = [] /\ s_send s 1 = [] /\ r_complete (s_rdr s 7) = true /\ w_complete (s_wr s 7) = true.
Proof. eexists. split; [vm_compute; reflexivity|]. repeat split. Qed.

(* a faulty run: timeout while the response is being written (the response fragment is never
   sent: code 200000 = obtained by reqResWriter.newFragment, not released), a frame for a finished
   exchange (30000: dropped), a full relay buffer (30400: released by the reader loop), a failed
   connection write (30900) and the drain that follows (30900) *)
Definition example_faults : list label :=
  [LReadCallReq 1 7; LFetch 7 true true true; LCloseLast 7; LWNew 7 true; LCtx 7; LWFlush 7 true;
   LReadFwd 1 (Some 7) 0; LRelaySend 1 2; LRelaySend 1 2; LRelaySend 1 2; LWrite 2 true; LStop 2; LDrain 2].
Example C12_example_faults :
  exists s, run false (init 2) example_faults = Some s /\ tr_okb (s_trace s) = true /\
            map (tok_code (history s)) (gets (history s)) = [31900; 200000; 30000; 30900; 30900; 30400].
Proof. eexists. split; [vm_compute; reflexivity|]. split; reflexivity. Qed.

(* every site of the table is exercised by the model *)
Definition example_sites : list label :=
  [LLocal 1 0; LLocal 1 1; LReadFail 1; LReadRel 1 false; LReadRel 1 true;
   LConnSysErr 1 true false; LConnSysErr 1 true false; LRfsFrag 2 1 false; LWrite 1 false;
   LSendMsg 1 true; LSendMsg 1 false; LWrite 1 true; LSendMsg 1 true; LStop 1; LDrain 1;
   LNewMex 9 1 2; LReadFwd 1 (Some 9) 0; LReadFwd 1 (Some 9) 1; LRecvMsg 9; LRecvMsg 9;
   LReadCallReq 1 7; LFetch 7 true true true; LCloseLast 7; LWNew 7 true].
Example C12_example_sites :
  exists s, run false (init 1) example_sites = Some s /\
    forallb (fun x => existsb (fun e => match e with EGet y _ _ | ERel y _ => y =? x | _ => false end) (s_trace s))
            (map fst site_table) = true.
Proof. eexists. split; [vm_compute; reflexivity|]. vm_compute. reflexivity. Qed.

(* ==================================================================== per completed call

   "on calls that complete without a fault every frame is handed back", stated for ONE call
   while other calls may be in any state (Model/FrameOwnCall.v):
     call_done s k     the call's argument reader reached fragmentingReadComplete, its writer
                       reqResWriterComplete without an error, and completion did not come from
                       InboundCallResponse.SendSystemError / a failed dispatch;
     call_settled s k  call_done and the call's recvCh is empty (the peer sent nothing beyond
                       the last fragment);
     call_holds s k t  frame t waits in the call's recvCh, is an unreleased fragment of its
                       reader, or the unsent fragment of its writer;
     call_toks h k     the frames history h attributes to call k (ever in its recvCh, a
                       fragment of its reader or of its writer). *)

(* On EVERY run -- any schedule, any fault history -- the reader and the writer of a call that
   completed without a fault refer to no frame. *)
Theorem C12_completed_call_reader_writer_hold_nothing : forall cap ls s k,
  run false (init cap) ls = Some s -> call_done s k ->
  forall t, ~ rdr_holds s k t /\ ~ wr_holds s k t.
Proof. exact completed_call_rw_thm. Qed.
Print Assumptions C12_completed_call_reader_writer_hold_nothing.

(* ... so a completed call whose recvCh is drained holds no frame. *)
Theorem C12_completed_call_holds_no_frame : forall cap ls s k,
  run false (init cap) ls = Some s -> call_settled s k -> forall t, ~ call_holds s k t.
Proof. exact completed_call_thm. Qed.
Print Assumptions C12_completed_call_holds_no_frame.

(* C12_faultfree_all_released per completed call, no global quiescence: on a run without
   frame-dropping steps every frame the history attributes to a settled call has been released,
   except fragments it wrote that still wait in a send queue for the connection's writer loop. *)
Theorem C12_faultfree_call_released : forall cap ls s k,
  run_noloss (init cap) ls = Some s -> call_settled s k ->
  forall t, In t (call_toks (history s) k) -> In t (rels (history s)) \/ exists c, In t (s_send s c).
Proof. exact call_frames_released. Qed.
Print Assumptions C12_faultfree_call_released.

(* the same seen from the frame: an unreleased frame that is not in a send queue is held by a
   call that has not settled *)
Theorem C12_faultfree_unreleased_has_open_call : forall cap ls s,
  run_noloss (init cap) ls = Some s ->
  forall t, In t (gets (history s)) ->
    In t (rels (history s)) \/ (exists c, In t (s_send s c)) \/
    (exists k, call_holds s k t /\ ~ call_settled s k).
Proof. exact noloss_per_call. Qed.
Print Assumptions C12_faultfree_unreleased_has_open_call.

(* Each side condition is needed (witness runs, none of whose steps is in [loses]):
   a frame the peer sent beyond the last fragment stays in recvCh of the completed call; *)
Theorem C12_call_drained_needed :
  exists s, run_noloss (init 8) extra_frame_witness = Some s /\ call_done s 9 /\
            exists t, In t (x_q (s_mex s 9)) /\ In t (gets (history s)) /\ ~ In t (rels (history s)).
Proof. exact drained_needed. Qed.
Print Assumptions C12_call_drained_needed.

(* SendSystemError after the handler began to write the response strands the response fragment; *)
Theorem C12_call_quit_needed :
  exists s, run_noloss (init 8) syserr_midwrite_witness = Some s /\
            r_complete (s_rdr s 7) = true /\ w_complete (s_wr s 7) = true /\ w_err (s_wr s 7) = false /\
            x_q (s_mex s 7) = [] /\ wr_holds s 7 1 /\ ~ In 1 (rels (history s)).
Proof. exact quit_needed. Qed.
Print Assumptions C12_call_quit_needed.

(* a deadline that passes while the last fragment is flushed strands that fragment. *)
Theorem C12_call_werr_needed :
  exists s, run_noloss (init 8) timeout_lastflush_witness = Some s /\
            r_complete (s_rdr s 7) = true /\ w_complete (s_wr s 7) = true /\ r_quit (s_rdr s 7) = false /\
            x_q (s_mex s 7) = [] /\ wr_holds s 7 1 /\ ~ In 1 (rels (history s)).
Proof. exact werr_needed. Qed.
Print Assumptions C12_call_werr_needed.

(* non-vacuity: call 7 of [example_call] completes and settles while call 8 on the same
   connection is still reading its request (the state is NOT quiescent: call 8 holds frame 6);
   the history attributes frames 2..5 to call 7, all released *)
Definition example_two_calls : list label :=
  example_call ++ [LReadCallReq 1 8; LFetch 8 true true true; LAcc 8].
Example C12_example_two_calls :
  exists s, run_noloss (init 8) example_two_calls = Some s /\ call_settled s 7 /\
            call_toks (history s) 7 = [2; 3; 3; 4; 5] /\ rels (history s) = [0; 1; 2; 3; 4; 5] /\
            rdr_holds s 8 6 /\ ~ quiescent s.
Proof.
  eexists. split; [vm_compute; reflexivity|]. split; [repeat split|]. split; [reflexivity|]. split; [reflexivity|].
  assert (Hh : rdr_holds (match run_noloss (init 8) example_two_calls with Some s => s | None => init 8 end) 8 6).
  { vm_compute. right. split; reflexivity. }
  split; [exact Hh|]. intros Q. apply (Q 6). left. exists 8. right. left. exact Hh.
Qed.

(* the frame handed to a failed exchange: stopExchanges has latched the error of outbound call 9
   (LErrN), the next response fragment still finds room in recvCh and is queued -- it belongs to
   the call, is read by the application and released exactly once, by the fragment's done() *)
Definition example_latched : list label :=
  [LNewMex 9 1 2; LWNew 9 true; LWAcc 9; LWFlush 9 true; LWrite 1 false;
   LReadFwd 1 (Some 9) 0; LFetch 9 true true true; LAcc 9;
   LErrN 9; LReadFwd 1 (Some 9) 0; LReadFwd 1 (Some 9) 0; LReadFwd 1 (Some 9) 0;
   LFetch 9 true true true; LAcc 9; LReadFwd 1 (Some 9) 0; LFetch 9 true true true; LAcc 9; LFetch 9 true true true].
Example C12_example_latched :
  exists s, run false (init 8) example_latched = Some s /\ tr_okb (s_trace s) = true /\
            (* request fragment; response fragments 1..3 released by done(); fragment 4 refused (recvCh
               full, error latched) and fragment 5 refused although recvCh has room again (frameDropped):
               both released by the reader loop *)
            map (tok_code (history s)) (gets (history s)) = [200900; 31900; 31900; 31900; 30400; 30400] /\
            x_dropped (s_mex s 9) = true /\ r_err (s_rdr s 9) = true.
Proof. eexists. split; [vm_compute; reflexivity|]. repeat split. Qed.

(* ==================================================================== hand-over discipline

   "the library neither reads nor writes it after handing it back" -- statement by statement.
   The interleaving model above treats "a stretch of code that only touches a frame the acting
   goroutine holds" as one atomic step that ENDS with the hand-over (ch <- f, Release(f), go ..).
   That is only faithful if no function of the library touches a frame after the statement that
   hands it over: from that statement on the frame belongs to the pool, or to another goroutine
   that may release it at any moment (the destination connection's writeFrames releases a relayed
   frame as soon as it is written).  The following theorems are about the Go source itself:
   go2v regenerates, on every run, one abstract program per function that hands a frame over
   (Gen/GenFrameUse.v frame_use_table; syntax and path semantics in Spec/FrameUseSpec.v):
   its uses of the frame, (re)bindings, hand-overs, calls that may take the frame, the bool/error
   variables that tell whether they did, and the control flow between them. *)
From Coq Require Import String.
From Verif Require Import Spec.FrameUseSpec Model.FrameUse Gen.GenFrameUse Proofs.FrameUseP.
Local Open Scope string_scope.

(* For every function of the regenerated table and every execution path of its abstract
   program (every choice at every branch, every behaviour of its callees that their ownership
   signatures allow, any number of loop iterations): the trace of what happens to the frame is
   disciplined -- no use, no hand-over, no passing-on after a successful hand-over (sent on a
   channel, released, given to a goroutine, taken by a callee), until the variable is bound to a
   fresh frame.  Uses on the failure branch (the frame was NOT taken) are allowed.
   [row_live0 kind]: parameters and heap fields start owned, local variables start without a frame. *)
Theorem C12_no_touch_after_handover : forall fn cls kind body, In (fn, cls, kind, body) frame_use_table ->
  forall e tr e' k, exec conv_of body e tr e' k -> disciplined (row_live0 kind) tr.
Proof. exact no_touch_after_handover. Qed.
Print Assumptions C12_no_touch_after_handover.

(* The assumption made about callees is discharged: every function with a frame parameter keeps
   its own ownership signature (Model/FrameUse.v conv_table) -- whenever it returns after the
   frame is gone, the returned values say so (release flag false / sent = true / nil error) -- *)
Theorem C12_handover_signatures_kept : forall fn cls body, In (fn, cls, 0, body) frame_use_table ->
  forall e tr e' vs c live', exec conv_of body e tr e' (KRet vs c) -> disc true tr = Some live' ->
  conv_holds (conv_of fn) vs live'.
Proof. exact handover_signatures_kept. Qed.
Print Assumptions C12_handover_signatures_kept.

(* ... and every callee that is given a frame for keeps is such a function of the table, or an
   interface method all of whose implementations are (with the same signature, unless the caller
   assumes the frame gone in any case). *)
Theorem C12_handover_callees_checked : forall fn cls kind body f, In (fn, cls, kind, body) frame_use_table ->
  In f (callees body) -> callee_ok conv_of frame_use_table frame_use_impls f = true.
Proof. exact handover_callees_checked. Qed.
Print Assumptions C12_handover_callees_checked.

(* The checker is sound for ANY table and any signatures, not only today's (this is what turns
   an edit of the source into a failed obligation rather than into a changed definition): *)
Theorem C12_checker_sound : forall cv fn cls kind body, row_check cv (fn, cls, kind, body) = true ->
  forall e tr e' k, exec cv body e tr e' k -> disciplined (row_live0 kind) tr.
Proof. exact checked_row_disciplined. Qed.
Print Assumptions C12_checker_sound.

(* The failure branches: the returns at which a function still owns the frame but neither
   releases it nor hands it on nor tells its caller to release it are exactly the documented
   leaks on fault paths (each is a [loses] step of the interleaving model); everywhere else a
   frame that was not taken goes back to the caller with "release it", who releases it once. *)
Theorem C12_drops_are_the_documented_leaks : table_drops conv_of frame_use_table = expected_drops.
Proof. exact drops_are_expected. Qed.
Print Assumptions C12_drops_are_the_documented_leaks.

(* A frame can also be reached through the heap: the statements that store a frame (or a struct
   bearing one) into a field are exactly the reviewed ones, each of which is a place of the
   interleaving model (fragment of a reader / of a writer) or a view that lives only while the
   reader loop holds the frame. *)
Theorem C12_frame_stores_are_the_reviewed_ones : frame_escapes = expected_escapes.
Proof. exact escapes_are_expected. Qed.
Print Assumptions C12_frame_stores_are_the_reviewed_ones.

(* Tie to the interleaving model.  The hand-over statements of the source (chan send of a
   frame, FramePool.Release, go statement with a frame, fragment.done(), the onDone closure) are
   exactly the model's list, in source order; its Release statements are, function by function,
   the FramePool.Release call sites of Gen/GenSites.v; *)
Theorem C12_handover_sites_generated : map xfer_site xfer_model = frame_xfer_sites.
Proof. exact xfer_sites_generated. Qed.
Print Assumptions C12_handover_sites_generated.

Theorem C12_release_sites_agree :
  forallb (fun f => Nat.eqb (release_count_xfer f) (release_count_pool f))
          (map (fun r => fst (fst (fst r))) xfer_model ++ map fst pool_sites) = true.
Proof. exact release_sites_agree. Qed.
Print Assumptions C12_release_sites_agree.

(* in every run of the model, every hand-over event (a release; a frame entering a send queue,
   an exchange's receive queue or a call's reader) of a step is performed by a hand-over
   statement that the list attributes to that step's label; *)
Theorem C12_model_handovers_are_source_sites : forall ls s,
  Forall (fun te => forallb (handover_okb (fst te)) (snd te) = true) (run_events false s ls).
Proof. exact run_handovers_explained. Qed.
Print Assumptions C12_model_handovers_are_source_sites.

(* and every hand-over statement of the source is performed by one of its labels in a run. *)
Theorem C12_handover_sites_exercised :
  exists s, run false (init 1) xfer_witness = Some s /\
            forallb (row_hit (run_events false (init 1) xfer_witness)) xfer_model = true.
Proof. exact xfer_rows_exercised. Qed.
Print Assumptions C12_handover_sites_exercised.

(* ---- non-vacuity ---- *)

(* the relay's fragment sender as it is: report the size, hand the fragment to the destination,
   release it if it was not taken -- accepted; the same with the report moved after the
   hand-over (a read of a frame the destination's writer may already have released) -- rejected,
   and indeed one of its paths is undisciplined *)
Example C12_example_flush :
  row_check conv_of (s2z "relayFragmentSender.flushFragment", s2z "wf", 0, ex_flush_good) = true /\
  row_check conv_of (s2z "relayFragmentSender.flushFragment", s2z "wf", 0, ex_flush_bad) = false /\
  exists e tr e' k, exec conv_of ex_flush_bad e tr e' k /\ ~ disciplined true tr.
Proof. exact example_flush_thm. Qed.

(* the table is not empty and contains the functions the property is about *)
Example C12_example_table :
  List.length frame_use_table = 30%nat /\ List.length frame_xfer_sites = 23%nat /\
  existsb (fun r => str_eqb (fst (fst (fst r))) (s2z "relayFragmentSender.flushFragment")) frame_use_table = true /\
  existsb (fun r => str_eqb (fst (fst (fst r))) (s2z "Connection.writeFrames")) frame_use_table = true.
Proof. vm_compute. repeat split. Qed.
