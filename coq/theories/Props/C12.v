(* Property C12 -- Pooled frame buffers have exactly one owner at a time.
   "A frame obtained from the configured frame pool is handed back at most once, and the
    library neither reads nor writes it after handing it back, under any traffic including
    timeouts, malformed or truncated messages, relay drops and connection failures; on calls
    that complete without a fault every frame is handed back."

   Statements only.  [run false (init cap) ls] = the repaired code (Model/FrameOwn.v) started
   with an empty pool history and send buffers of capacity [cap], driven through the label
   list [ls]: ANY interleaving of reader loops, writer loops, handlers, callers, relay
   forwarding, timeouts ([LCtx]), connection failures ([LErrN], [LWrite _ true], [LStop]),
   truncated ([LReadFail]), malformed ([LFetch _ false _ _], [LFetch _ _ false _], frame
   kinds other than 0) and unroutable ([LReadFwd _ None _], [LReadLeak]) frames, full send
   buffers, with unboundedly many connections, calls and frames.  [run] only admits labels
   that satisfy [app_ok] (a handler does not read request arguments after it called
   InboundCallResponse.SendSystemError).  [history s] is the chronological list of pool
   events; the three predicates are those of Spec/FrameOwnSpec.v. *)
From Coq Require Import ZArith List Bool.
From Verif Require Import Gen.GenSites Spec.FrameOwnSpec Model.FrameOwn Proofs.FrameOwnP.
Import ListNotations.
Local Open Scope Z_scope.

(* no frame is handed back twice, for every schedule and every fault history *)
Theorem C12_at_most_once : forall cap ls s,
  run false (init cap) ls = Some s -> released_at_most_once (history s).
Proof. exact at_most_once_thm. Qed.
Print Assumptions C12_at_most_once.

(* after a frame was handed back no later event concerns it: no access at any of the
   modelled access sites, no hand-over to another goroutine, no second release *)
Theorem C12_no_use_after_release : forall cap ls s,
  run false (init cap) ls = Some s -> no_use_after_release (history s).
Proof. exact no_use_after_release_thm. Qed.
Print Assumptions C12_no_use_after_release.

(* only frames that came out of the pool are released or touched, and the pool never sees
   the same frame obtained twice *)
Theorem C12_only_pool_frames : forall cap ls s,
  run false (init cap) ls = Some s -> only_pool_frames (history s).
Proof. exact only_pool_frames_thm. Qed.
Print Assumptions C12_only_pool_frames.

(* Completeness.  [run_noloss] = runs none of whose steps is one of the enumerated
   frame-dropping steps [loses] (frame for an unknown or finished exchange or swallowed by
   the relay; unparsable or unexpected frame taken from an exchange; message.write failing on
   a fresh frame; control message for a full send buffer) -- timeouts, error frames,
   connection failures and full relay buffers are NOT excluded.  Then every frame ever
   obtained is released or still referenced by an exchange queue, a send queue, a reader's
   fragment or a writer's fragment ... *)
Theorem C12_no_frame_lost : forall cap ls s,
  run_noloss (init cap) ls = Some s ->
  forall t, In t (gets (history s)) -> In t (rels (history s)) \/ held s t.
Proof. exact no_loss. Qed.
Print Assumptions C12_no_frame_lost.

(* ... hence, when nothing is in flight any more, every frame has been handed back *)
Theorem C12_faultfree_all_released : forall cap ls s,
  run_noloss (init cap) ls = Some s -> quiescent s -> all_released (history s).
Proof. exact noloss_quiescent. Qed.
Print Assumptions C12_faultfree_all_released.

(* such runs are runs: the safety theorems apply to them *)
Theorem C12_noloss_is_run : forall cap ls s, run_noloss (init cap) ls = Some s -> run false (init cap) ls = Some s.
Proof. exact noloss_is_run_thm. Qed.
Print Assumptions C12_noloss_is_run.

(* Tie to the source: the model's site table is exactly the list of FramePool.Get/Release
   call sites that go2v extracted from the Go source on this run (Gen/GenSites.v), in the
   same order; a call site added, removed or moved to another function breaks this proof. *)
Theorem C12_sites_generated : map snd site_table = pool_sites.
Proof. exact site_table_is_generated. Qed.
Print Assumptions C12_sites_generated.

(* and every Get/Release event the model can produce names a site of that table *)
Theorem C12_sites_known : forall cap ls s,
  run false (init cap) ls = Some s -> Forall site_known (s_trace s).
Proof. exact sites_known_thm. Qed.
Print Assumptions C12_sites_known.

(* The pinned tree (dispatchInbound releasing its frame parameter when readMethod fails)
   refutes the first clause: call req with the more-fragments flag, then a continuation
   whose checksum does not match. *)
Theorem C12_pinned_at_most_once_refuted :
  exists s, run true (init 8) pinned_witness = Some s /\ ~ released_at_most_once (history s).
Proof. exact pinned_double_release. Qed.
Print Assumptions C12_pinned_at_most_once_refuted.

(* The application contract in [run] is necessary: without it the reader copies out of a
   released frame. *)
Theorem C12_contract_needed :
  exists s, run_any false (init 8) [LReadCallReq 1 7; LFetch 7 true true true; LRespSysErr 7; LAcc 7] = Some s /\
            ~ no_use_after_release (history s).
Proof. exact contract_needed. Qed.
Print Assumptions C12_contract_needed.

(* ---- non-vacuity ---- *)

(* a complete inbound call with a two-fragment request (handshake, call req, continuation,
   arguments read to the end, response written and sent): accepted by run_noloss, ends
   with nothing in flight in the queues, four pool frames plus two handshake frames all released *)
Definition example_call : list label :=
  [LLocal 1 0; LLocal 1 1; LReadCallReq 1 7; LFetch 7 true true true; LAcc 7;
   LReadFwd 1 (Some 7) 0; LFetch 7 true true true; LAcc 7; LCloseLast 7;
   LWNew 7 true; LWAcc 7; LWFlush 7 false; LWNew 7 true; LWAcc 7; LWFlush 7 true; LWrite 1 false; LWrite 1 false].
Example C12_example_call :
  exists s, run_noloss (init 8) example_call = Some s /\
            gets (history s) = [0; 1; 2; 3; 4; 5] /\ rels (history s) = [0; 1; 2; 3; 4; 5] /\
            x_q (s_mex s 7) = [] /\ s_send s 1 = [] /\ r_complete (s_rdr s 7) = true /\ w_complete (s_wr s 7) = true.
Proof. eexists. split; [vm_compute; reflexivity|]. repeat split. Qed.

(* a faulty run: timeout while the response is being written (the response fragment is never
   sent: code 200000 = obtained by reqResWriter.newFragment, not released), a frame for a finished
   exchange (30000: dropped), a full relay buffer (30400: released by the reader loop), a failed
   connection write (30900) and the drain that follows (30900) *)
Definition example_faults : list label :=
  [LReadCallReq 1 7; LFetch 7 true true true; LCloseLast 7; LWNew 7 true; LCtx 7; LWFlush 7 true;
   LReadFwd 1 (Some 7) 0; LRelaySend 1 2; LRelaySend 1 2; LRelaySend 1 2; LWrite 2 true; LStop 2; LDrain 2].
Example C12_example_faults :
  exists s, run false (init 2) example_faults = Some s /\ tr_okb (s_trace s) = true /\
            map (tok_code (history s)) (gets (history s)) = [31900; 200000; 30000; 30900; 30900; 30400].
Proof. eexists. split; [vm_compute; reflexivity|]. split; reflexivity. Qed.

(* every site of the table is exercised by the model *)
Definition example_sites : list label :=
  [LLocal 1 0; LLocal 1 1; LReadFail 1; LReadRel 1 false; LReadRel 1 true;
   LConnSysErr 1 true false; LConnSysErr 1 true false; LRfsFrag 2 1 false; LWrite 1 false;
   LSendMsg 1 true; LSendMsg 1 false; LWrite 1 true; LSendMsg 1 true; LStop 1; LDrain 1;
   LNewMex 9 1 2; LReadFwd 1 (Some 9) 0; LReadFwd 1 (Some 9) 1; LRecvMsg 9; LRecvMsg 9;
   LReadCallReq 1 7; LFetch 7 true true true; LCloseLast 7; LWNew 7 true].
Example C12_example_sites :
  exists s, run false (init 1) example_sites = Some s /\
    forallb (fun x => existsb (fun e => match e with EGet y _ _ | ERel y _ => y =? x | _ => false end) (s_trace s))
            (map fst site_table) = true.
Proof. eexists. split; [vm_compute; reflexivity|]. vm_compute. reflexivity. Qed.
