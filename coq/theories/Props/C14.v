(* Property C14 -- Deadlines and cancellation propagate hop by hop.
   This file contains only statements, each closed by [exact].

   Vocabulary.  Durations and instants are integer nanoseconds; [ms_ns] = 1 ms.
   [begin_call state has_deadline deadline now ctx_err] is Connection.beginCall up to the
   point where the call's TimeToLive is fixed; [wire_ttl_ms] the uint32 field written into the
   call req; [recv_ttl_ns] the receiver's decoding; [incoming_ctx base arrival ttl] the deadline
   of the context handed to the handler; [relay_ttl max field] = (duration of the relay's own
   timers, forwarded field); [relay_max cfg] the maximum in force for a configured
   RelayMaxTimeout (validateRelayMaxTimeout, generated from source).
   [run c ls] executes a schedule [ls] of caller / handler / environment steps of one call under
   the options [c] (SendCancelOnContextCanceled, PropagateCancel per relay, PropagateCancel on
   the server); [hctx] is the handler's context, [cctx] the caller's (0 live, 1 deadline
   exceeded, 2 cancelled), [cres] the error the caller's wait ended with. *)
From Coq Require Import ZArith List Bool.
From Verif Require Import Base.Wrap Gen.GenConsts Gen.GenTTL Model.Messages Model.TTL Model.Cancel
  Proofs.TTLP Proofs.CancelP Proofs.CancelInvP.
Import ListNotations.
Local Open Scope Z_scope.

(* ---- (a) the ttl sent never exceeds the caller's remaining time ------------------------- *)

(* Every accepted call (any connection state, deadline, clock reading, context state): the
   field is a uint32, field x 1ms <= deadline - now; below 2^32 ms of remaining time it is the
   remaining time truncated to whole milliseconds and at least 1. *)
Theorem C14_wire_ttl : forall state has deadline now cerr ttl,
  begin_call state has deadline now cerr = BcOk ttl ->
  is_u32 (wire_ttl_ms ttl) /\ wire_ttl_ms ttl * ms_ns <= deadline - now /\
  (deadline - now < 2 ^ 32 * ms_ns ->
     1 <= wire_ttl_ms ttl /\ wire_ttl_ms ttl = (deadline - now) / ms_ns).
Proof. exact wire_ttl_sound. Qed.
Print Assumptions C14_wire_ttl.

(* Under a millisecond left (including deadlines in the past): local ErrTimeout, whatever the
   state of the context. *)
Theorem C14_sub_millisecond_fails_locally : forall deadline now cerr,
  deadline - now < ms_ns ->
  begin_call c_connectionActive true deadline now cerr = BcErr c_ErrCodeTimeout.
Proof. exact begin_call_sub_ms. Qed.
Print Assumptions C14_sub_millisecond_fails_locally.

(* At least a millisecond left and a live context: the call is accepted with the remaining
   time (saturated to the Duration range) as its TimeToLive. *)
Theorem C14_accepts : forall deadline now,
  ms_ns <= deadline - now ->
  begin_call c_connectionActive true deadline now 0 = BcOk (time_sub deadline now) /\
  ms_ns <= time_sub deadline now <= deadline - now.
Proof. exact begin_call_accepts. Qed.
Print Assumptions C14_accepts.

(* An already expired / cancelled caller context with time formally left: ErrTimeout /
   ErrRequestCancelled, nothing is sent. *)
Theorem C14_begin_with_dead_context : forall deadline now cerr,
  ms_ns <= deadline - now -> cerr = 1 \/ cerr = 2 ->
  begin_call c_connectionActive true deadline now cerr =
    BcErr (if cerr =? 1 then c_ErrCodeTimeout else c_ErrCodeCancelled).
Proof. exact begin_call_ctx_err. Qed.
Print Assumptions C14_begin_with_dead_context.

(* Full statement wanted by the design: "accepted calls send 1 <= ttl_ms".  It is REFUTED
   beyond 2^32 ms of remaining time (the uint32 conversion wraps; with exactly 2^32 ms the
   field is 0); the proved part is the last conjunct of C14_wire_ttl (remaining < 2^32 ms).
   The property statement itself ("never exceeds") is not affected: wrapping only shrinks. *)
Theorem C14_wire_ttl_positive_refuted :
  exists deadline now ttl,
    begin_call c_connectionActive true deadline now 0 = BcOk ttl /\ wire_ttl_ms ttl = 0.
Proof. exact wire_ttl_zero_witness. Qed.
Print Assumptions C14_wire_ttl_positive_refuted.

(* the field of the model is the first thing Model.Messages.w_callreq (C06) writes *)
Theorem C14_wire_field_is_callreq_field : forall m,
  w_callreq m = (fun b => w_headers (cq_headers m) (TypedBuf.w_len8 (cq_service m)
                   (w_span (cq_span m) (TypedBuf.w_u32 (wire_ttl_ms (cq_ttl_ns m)) b)))).
Proof. exact wire_field_is_callreq_field. Qed.
Print Assumptions C14_wire_field_is_callreq_field.

(* ---- (b) the handler's context expires no later than the ttl after arrival ---------------- *)

(* All 2^32 field values, any base (connection) context deadline, any arrival instant: no
   int64 overflow, the deadline is arrival + field x 1ms, or the base deadline when earlier. *)
Theorem C14_handler_deadline : forall base arrival field,
  is_u32 field ->
  recv_ttl_ns field = field * ms_ns /\
  exists d, incoming_ctx base arrival (recv_ttl_ns field) = Some d /\
            d <= arrival + field * ms_ns /\
            (base = None -> d = arrival + field * ms_ns) /\
            (forall b, base = Some b -> d = Z.min b (arrival + field * ms_ns)).
Proof. exact handler_clause. Qed.
Print Assumptions C14_handler_deadline.

(* a zero ttl yields a context that is already expired, with or without a base deadline *)
Theorem C14_zero_ttl_expired : forall base arrival,
  expired_at (incoming_ctx base arrival (recv_ttl_ns 0)) arrival = true.
Proof. exact zero_ttl_expired. Qed.
Print Assumptions C14_zero_ttl_expired.

(* ---- (c) a relay never forwards more than it received nor more than its maximum ------------ *)

(* Any configured RelayMaxTimeout (any int64 duration; invalid ones fall back to the default),
   any received field: the forwarded field is <= the received one and, in ms, <= the maximum
   in force; the relay's own timers run for min(received, maximum). *)
Theorem C14_relay_ttl : forall cfg field,
  is_duration cfg -> is_u32 field ->
  let m := relay_max cfg in
  let r := relay_ttl m field in
  valid_max m /\ (valid_max cfg -> m = cfg) /\
  is_u32 (snd r) /\ snd r <= field /\ snd r * ms_ns <= m /\
  fst r = Z.min (field * ms_ns) m /\ snd r * ms_ns <= fst r /\
  snd r = (if field * ms_ns >? m then m / ms_ns else field).
Proof. exact relay_clause. Qed.
Print Assumptions C14_relay_ttl.

(* any chain of relays: the field never grows and ends below every maximum on the path *)
Theorem C14_relay_chain : forall maxes field,
  Forall is_duration maxes -> is_u32 field ->
  is_u32 (hops_ttl maxes field) /\ hops_ttl maxes field <= field /\
  Forall (fun cfg => hops_ttl maxes field * ms_ns <= relay_max cfg) maxes.
Proof. exact hops_ttl_spec. Qed.
Print Assumptions C14_relay_chain.

(* caller -> relays -> handler: the time the handler is given is bounded by the caller's
   remaining time at the start of the call and by every relay maximum; sub-millisecond
   budgets never leave the caller. *)
Theorem C14_end_to_end : forall deadline now maxes base arrival r,
  Forall is_duration maxes ->
  e2e deadline now maxes base arrival = Some r ->
  e2e_wire r * ms_ns <= deadline - now /\
  is_u32 (e2e_arrived r) /\ e2e_arrived r <= e2e_wire r /\
  Forall (fun cfg => e2e_arrived r * ms_ns <= relay_max cfg) maxes /\
  exists d, e2e_deadline r = Some d /\ d <= arrival + e2e_arrived r * ms_ns /\
            d <= arrival + (deadline - now).
Proof. exact e2e_spec. Qed.
Print Assumptions C14_end_to_end.

Theorem C14_end_to_end_rejects : forall deadline now maxes base arrival,
  deadline - now < ms_ns -> e2e deadline now maxes base arrival = None.
Proof. exact e2e_rejects. Qed.
Print Assumptions C14_end_to_end_rejects.

(* ---- (d) what ends a handler's context, and the caller's error ------------------------------ *)

(* For every option combination and every schedule: a handler context that reports
   DeadlineExceeded implies the deadline passed; one that reports Canceled implies the response
   completed, was blackholed, the connection failed, or the caller cancelled with propagation
   enabled on every hop.  The caller's context / error are cancelled (timed out) only after a
   cancellation (the deadline). *)
Theorem C14_cancel_sound : forall c ls,
  let s := run c ls in
  (hctx s = 0 \/ hctx s = 1 \/ hctx s = 2) /\
  (hctx s = 1 -> In LDeadline ls) /\
  (hctx s = 2 -> In LHClose ls \/ In LHBlackhole ls \/ In LConnFail ls \/ (In LCancel ls /\ all_on c = true)) /\
  (cctx s = 0 \/ cctx s = 1 \/ cctx s = 2) /\
  (cctx s = 1 -> In LDeadline ls) /\ (cctx s = 2 -> In LCancel ls) /\
  (cres s = Some c_ErrCodeTimeout -> In LDeadline ls) /\
  (cres s = Some c_ErrCodeCancelled -> In LCancel ls) /\
  (dl_passed s = true -> In LDeadline ls).
Proof. exact causes_run. Qed.
Print Assumptions C14_cancel_sound.

(* Without propagation enabled on every hop, no schedule free of deadline / completion /
   blackhole / connection failure ends the handler's context -- whatever the caller does. *)
Theorem C14_no_propagation : forall c ls,
  all_on c = false ->
  ~ In LDeadline ls -> ~ In LHClose ls -> ~ In LHBlackhole ls -> ~ In LConnFail ls ->
  hctx (run c ls) = 0.
Proof. exact no_propagation_run. Qed.
Print Assumptions C14_no_propagation.

(* step level, any state: the handler's context changes only by the listed events *)
Theorem C14_changes_only_by : forall c s l,
  hctx (step c s l) <> hctx s ->
  l = LDeadline \/ l = LHClose \/ l = LHBlackhole \/ l = LConnFail \/
  (all_on c = true /\ cctx s = 2 /\ (l = LWFrag \/ l = LWClose \/ l = LRead)).
Proof. exact handler_ctx_changes_only_by. Qed.
Print Assumptions C14_changes_only_by.

(* After any schedule that leaves a handler running with a live context: the deadline ends it
   with DeadlineExceeded; completing the response, Blackhole and a connection failure cancel it. *)
Theorem C14_cancel_complete : forall c ls,
  let s := run c ls in
  hstarted s = true -> hctx s = 0 ->
  hctx (run c (ls ++ [LDeadline])) = 1 /\ hctx (run c (ls ++ [LHBlackhole])) = 2 /\
  hctx (run c (ls ++ [LHClose])) = 2 /\ hctx (run c (ls ++ [LConnFail])) = 2.
Proof. exact complete_run. Qed.
Print Assumptions C14_cancel_complete.

(* With propagation enabled on every hop: once the caller's context is cancelled, its next
   wait -- writing any further request fragment, or reading any response fragment -- cancels the
   running handler's context and ends with ErrRequestCancelled.  (Any point of a multi-frame
   request or response: [ls] is arbitrary.) *)
Theorem C14_cancel_propagates : forall c ls l,
  let s := run c ls in
  all_on c = true ->
  hstarted s = true -> hctx s = 0 -> cctx s = 2 -> conn_failed s = false -> caller_waits s l ->
  hctx (run c (ls ++ [l])) = 2 /\ cres (run c (ls ++ [l])) = Some c_ErrCodeCancelled.
Proof. exact propagates_run. Qed.
Print Assumptions C14_cancel_propagates.

(* the caller's wait (request write or response read) ends with ErrTimeout after its deadline,
   ErrRequestCancelled after a cancellation *)
Theorem C14_caller_error : forall c ls l,
  let s := run c ls in
  caller_waits s l ->
  (cctx s = 1 -> cres (run c (ls ++ [l])) = Some c_ErrCodeTimeout) /\
  (cctx s = 2 -> cres (run c (ls ++ [l])) = Some c_ErrCodeCancelled).
Proof. exact caller_error_run. Qed.
Print Assumptions C14_caller_error.

(* BeginCall itself: ErrTimeout once the deadline has passed (the remaining-time test comes
   first, even for a cancelled context), ErrRequestCancelled for a cancelled context with time
   left, otherwise the call starts *)
Theorem C14_begin_error : forall c ls,
  let s := run c ls in
  begun s = false -> cres s = None ->
  (dl_passed s = true -> cres (run c (ls ++ [LBegin])) = Some c_ErrCodeTimeout) /\
  (dl_passed s = false -> cctx s = 2 -> cres (run c (ls ++ [LBegin])) = Some c_ErrCodeCancelled) /\
  (dl_passed s = false -> cctx s = 0 ->
     begun (run c (ls ++ [LBegin])) = true /\ cres (run c (ls ++ [LBegin])) = None).
Proof. exact begin_error_run. Qed.
Print Assumptions C14_begin_error.

(* an ended context stays ended, with the same reason, under any continuation *)
Theorem C14_ctx_sticky : forall c ls ls',
  (hctx (run c ls) <> 0 -> hctx (run c (ls ++ ls')) = hctx (run c ls)) /\
  (cctx (run c ls) <> 0 -> cctx (run c (ls ++ ls')) = cctx (run c ls)).
Proof. exact sticky_run. Qed.
Print Assumptions C14_ctx_sticky.

(* cancel messages: at most one per call, only with SendCancelOnContextCanceled and after a
   cancellation; the server honours exactly those it receives when PropagateCancel is set *)
Theorem C14_cancel_messages : forall c ls,
  let s := run c ls in
  0 <= requested s <= cancels_sent s /\ cancels_sent s <= 1 /\
  honored s = (if srv_prop c then requested s else 0) /\
  (0 < cancels_sent s -> send_cancel c = true /\ In LCancel ls).
Proof. exact messages_run. Qed.
Print Assumptions C14_cancel_messages.

(* ---- non-vacuity ----------------------------------------------------------------------------- *)
Example C14_example_ttl :
  (* 1.9995 ms left -> field 1; through a relay with a 50 ms maximum a 10 s ttl becomes 50 *)
  begin_call c_connectionActive true 1001999500 1000000000 0 = BcOk 1999500 /\
  wire_ttl_ms 1999500 = 1 /\
  relay_ttl (relay_max 50000000) 10000 = (50000000, 50) /\
  hops_ttl [1000000000; 50000000; 0] 4000000000 = 50 /\
  incoming_ctx (Some 70) 10 (recv_ttl_ns 0) = Some 10 /\
  incoming_ctx None 10 (recv_ttl_ns 5) = Some 5000010.
Proof. vm_compute. repeat split. Qed.

Example C14_example_cancel :
  let on := {| send_cancel := true; hops := [true]; srv_prop := true |} in
  let off := {| send_cancel := true; hops := [false]; srv_prop := true |} in
  (* cancelled while the second request fragment is being written, through a relay *)
  let ls := [LBegin; LWFrag; LCancel; LWFrag] in
  hstarted (run on [LBegin; LWFrag; LCancel]) = true /\ hctx (run on [LBegin; LWFrag; LCancel]) = 0 /\
  caller_waits (run on [LBegin; LWFrag; LCancel]) LWFrag /\
  hctx (run on ls) = 2 /\ cres (run on ls) = Some 2 /\ requested (run on ls) = 1 /\
  hctx (run off ls) = 0 /\ cres (run off ls) = Some 2 /\ requested (run off ls) = 0 /\
  hctx (run off (ls ++ [LDeadline])) = 1.
Proof. vm_compute. repeat split; auto. Qed.

(* ---- (c) on BOTH send paths of the relay, at the level of the frame bytes ------------------- *)
(* Vocabulary.  [tfwd_callreq max p appends] (Model/TTLAppend.v) is Relayer.handleCallReq for a
   call req frame with sized payload [p] once the RelayHost has chosen a destination and
   appended the key/value pairs [appends] to arg2 (CallFrame.Arg2Append): the clamp writes the
   ttl into the frame (lazyCallReq.SetTTL, [clamp_ttl]); without appends that frame is handed to
   the destination connection as it is, with appends it is re-encoded by fragmentingSend /
   relayFragmentSender.newFragment ([append_send], the model of C08) from the bytes of the SAME
   frame.  The result is a code and the frames handed on, as (is it a call req frame?, payload).
   [lazy_ttl_ms pl] is the ttl field (payload bytes 1..4) of a call req payload.
   [tfwd_hops hops p]: a chain of relays, each with its configured maximum and its own appends;
   every hop reads what the previous one sent as a frame ([tfwd_frame_ok]: bytes, at most
   MaxFramePayloadSize of them). *)
From Verif Require Import Base.Bytes Base.Wire Model.TypedBuf Model.Crc Model.Codecs Model.RelayLazy Model.RelayAppend
  Model.TTLAppend Spec.Protocol Proofs.CodecP Proofs.CodecsP Proofs.RelayAppendP Proofs.TTLAppendP.

(* Any configured RelayMaxTimeout, ANY frame payload the relay accepts (one- or multi-frame
   request, any headers, checksum type, argument sizes), any appended pairs: every call req
   frame handed to the destination -- forwarded as it is or re-fragmented into one or several
   frames -- carries the clamped field of C14_relay_ttl: not more than received, in ms not more
   than the maximum in force. *)
Theorem C14_relay_ttl_append : forall cfg p appends pl,
  is_duration cfg -> bytes_ok p = true -> zlen p <= c_MaxFramePayloadSize ->
  let m := relay_max cfg in
  In (true, pl) (snd (tfwd_callreq m p appends)) ->
  let f := lazy_ttl_ms p in
  is_u32 f /\ lazy_ttl_ms pl = snd (relay_ttl m f) /\
  lazy_ttl_ms pl <= f /\ lazy_ttl_ms pl * ms_ns <= m /\
  lazy_ttl_ms pl = (if f * ms_ns >? m then m / ms_ns else f).
Proof. exact tfwd_ttl_statement. Qed.
Print Assumptions C14_relay_ttl_append.

(* ... and only the first frame handed on is a call req: the continuation frames a
   re-fragmentation produces have no ttl field that could differ *)
Theorem C14_relay_ttl_append_one_callreq : forall cfg p appends,
  is_duration cfg -> bytes_ok p = true -> zlen p <= c_MaxFramePayloadSize ->
  let m := relay_max cfg in
  let out := snd (tfwd_callreq m p appends) in
  (forall pl, In (true, pl) out ->
     lazy_ttl_ms pl = snd (relay_ttl m (lazy_ttl_ms p)) /\ is_u32 (lazy_ttl_ms p)) /\
  (forall f rest, out = f :: rest -> Forall (fun x => fst x = false) rest).
Proof. exact tfwd_ttl_clamped. Qed.
Print Assumptions C14_relay_ttl_append_one_callreq.

(* The append path does forward (the theorem above is not vacuous on it): for every call req
   first frame laid out as the protocol document says (any flags -- so also the first frame of
   a multi-frame request --, thrift arg scheme, arg2 = encoding of the pairs h, an arg3 chunk)
   and at least one appended pair within the 16-bit limits, the relay hands on a call req
   frame, followed by continuation frames only, with the clamped ttl. *)
Theorem C14_relay_append_forwards : forall cfg flags ttl tr service hdrs ct ckb a1 h a3 a appends ck0,
  is_duration cfg -> is_u32 ttl ->
  first_ok tr service hdrs ct ckb a1 (s_theaders h) a3 ->
  let p := callreq_first flags ttl tr service hdrs ct ckb a1 (s_theaders h) a3 in
  bytes_ok p = true -> zlen p <= c_MaxFramePayloadSize ->
  hs_as (hsel_fold hdrs (mkHsel [] [] [] [])) = c_Thrift ->
  ck_new ct = Some ck0 ->
  kvs16_ok h -> kvs16_ok (a :: appends) -> zlen h + zlen (a :: appends) <= 65535 ->
  let m := relay_max cfg in
  exists pl rest,
    tfwd_callreq m p (a :: appends) = (0, (true, pl) :: rest) /\
    Forall (fun x => fst x = false) rest /\
    lazy_ttl_ms p = ttl /\
    lazy_ttl_ms pl = snd (relay_ttl m ttl) /\
    lazy_ttl_ms pl <= ttl /\ lazy_ttl_ms pl * ms_ns <= m.
Proof. exact tfwd_append_forwards. Qed.
Print Assumptions C14_relay_append_forwards.

(* Any chain of relays, each appending its own pairs or none: the field of the call req that
   leaves the last hop is the hops_ttl of C14_relay_chain -- never larger than the field the
   first hop received, in ms below every maximum on the path. *)
Theorem C14_relay_chain_append : forall hops p p',
  Forall (fun h => is_duration (fst h)) hops -> hops <> [] ->
  tfwd_hops hops p = Some p' ->
  let f := lazy_ttl_ms p in
  is_u32 f /\ lazy_ttl_ms p' = hops_ttl (map fst hops) f /\
  lazy_ttl_ms p' <= f /\
  Forall (fun h => lazy_ttl_ms p' * ms_ns <= relay_max (fst h)) hops.
Proof. exact tfwd_hops_ttl. Qed.
Print Assumptions C14_relay_chain_append.

Example C14_example_append :
  (* thrift call req, ttl 10 s, arg2 = {k:v}, through a relay with a 50 ms maximum whose host
     appends {a:bc}: one call req frame with ttl 50 and both pairs; the same with no appends;
     the first frame of a multi-frame request with a crc32 checksum; three hops *)
  let p := callreq_first 0 10000 (repeat 0 25) [115] [([97;115], c_Thrift)] 0 [] [109] (s_theaders [([107],[118])]) [120] in
  let p1 := callreq_first 1 10000 (repeat 0 25) [115] [([97;115], c_Thrift)] 1 [1;2;3;4] [109] (s_theaders []) [120] in
  let r := tfwd_callreq (relay_max 50000000) p [([97],[98;99])] in
  let r0 := tfwd_callreq (relay_max 50000000) p [] in
  let r1 := tfwd_callreq (relay_max 50000000) p1 [([97],[98;99])] in
  lazy_ttl_ms p = 10000 /\
  fst r = 0 /\ zlen (snd r) = 1 /\ option_map lazy_ttl_ms (tfwd_first r) = Some 50 /\
  option_map (fun pl => lz_arg2 pl (snd (lazy_callreq pl))) (tfwd_first r) = Some (s_theaders [([107],[118]); ([97],[98;99])]) /\
  fst r0 = 0 /\ zlen (snd r0) = 1 /\ option_map lazy_ttl_ms (tfwd_first r0) = Some 50 /\
  fst r1 = 0 /\ zlen (snd r1) = 1 /\ option_map lazy_ttl_ms (tfwd_first r1) = Some 50 /\
  option_map (fun pl => nth 0 pl 0) (tfwd_first r1) = Some 1 /\
  option_map lazy_ttl_ms (tfwd_hops [(1000000000, [([97],[98])]); (50000000, [([99],[100])]); (0, [])] p) = Some 50 /\
  run_ttl_relay_app ([50000000; 1; 1; 97; 2; 98; 99] ++ put_bytes p) = [50000000; 0; 50].
Proof. vm_compute. repeat split. Qed.

(* ---- the deadline of ONE ATTEMPT of a retried call (thrift / json clients) ------------------ *)
(* Vocabulary.  Channel.RunWithRetry calls its attempt function once per attempt with the
   context of that attempt: [attempt_ctx overall start tpa] (Model/AttemptCtx.v) = the caller's
   context when RetryOptions.TimeoutPerAttempt is 0, else context.WithTimeout(caller's, tpa)
   created at [start].  [attempt_remaining overall_dl start tpa now] is the time the attempt has
   left at [now] -- the "caller's remaining time" of clause (a) for this call.
   [ctxflow_sites] (Gen/GenCtxFlow.v, regenerated from the source of EVERY package of the module on
   each run) lists every hand-over of a context below RunWithRetry: in RunWithRetry itself, in each
   attempt function passed to it ([retry_attempt_fns]) and in the functions those call
   (startCall -> BeginCall), with its origin (0 own parameter, 1 derived from it, 2 the ENCLOSING
   function's context captured by the attempt function, 3 anything else).
   [gen_client_src pkg] folds the origins of package pkg into the source of the context its
   BeginCall receives; [client_begin src ..] is beginCall with that context. *)
From Verif Require Import Gen.GenCtxFlow Spec.CtxFlowSpec Model.AttemptCtx Model.ConnFail
  Proofs.AttemptCtxP Proofs.ConnFailP.

(* The tie.  RunWithRetry hands its function runCtx / WithTimeout(runCtx, TimeoutPerAttempt);
   inside the core package the context given to BeginCall goes down to the message exchange of the
   call; every hand-over on the way passes on the function's own context parameter (or one derived
   from it); every attempt function does hand a context on and reaches a BeginCall; the thrift and
   json clients are among them. *)
Theorem C14_attempt_ctx_generated :
  rows_of_fn pkg_root fn_run_with_retry ctxflow_sites = core_ctx_rows /\
  forallb (path_step_present ctxflow_sites) core_call_path = true /\
  forallb row_forwards ctxflow_sites = true /\
  forallb (attempt_fn_covered ctxflow_sites) retry_attempt_fns = true /\
  forallb (fun pf => reaches_begin (fst pf) ctxflow_sites) retry_attempt_fns = true /\
  forallb (fun k => existsb (fun pf => lz_eqb (fst pf) (fst k) && lz_eqb (snd pf) (snd k)) retry_attempt_fns) known_attempt_fns = true /\
  forallb (fun p => existsb (fun pf => lz_eqb (fst pf) p) retry_attempt_fns) (client_pkgs ctxflow_sites) = true.
Proof. exact (conj core_rows_generated (conj core_path_generated (conj ctx_discipline_generated ctx_coverage_generated))). Qed.
Print Assumptions C14_attempt_ctx_generated.

(* (a) for an attempt, every package: the field is a uint32 and field x 1ms never exceeds the
   time the ATTEMPT has left (hence neither the overall remaining time nor, with a per-attempt
   timeout, start + TimeoutPerAttempt - now); below 2^32 ms it is that time in whole ms, >= 1 *)
Theorem C14_attempt_wire_ttl : forall pkg odl start tpa now cerr ttl,
  client_begin (gen_client_src pkg) (Some odl) start tpa now cerr = BcOk ttl ->
  is_u32 (wire_ttl_ms ttl) /\
  wire_ttl_ms ttl * ms_ns <= attempt_remaining odl start tpa now /\
  wire_ttl_ms ttl * ms_ns <= odl - now /\
  (tpa <> 0 -> wire_ttl_ms ttl * ms_ns <= start + tpa - now) /\
  (attempt_remaining odl start tpa now < 2 ^ 32 * ms_ns ->
     1 <= wire_ttl_ms ttl /\ wire_ttl_ms ttl = attempt_remaining odl start tpa now / ms_ns).
Proof. exact attempt_wire_ttl. Qed.
Print Assumptions C14_attempt_wire_ttl.

(* an attempt with under a millisecond left fails locally with ErrTimeout *)
Theorem C14_attempt_sub_millisecond : forall pkg odl start tpa now cerr,
  attempt_remaining odl start tpa now < ms_ns ->
  client_begin (gen_client_src pkg) (Some odl) start tpa now cerr = BcErr c_ErrCodeTimeout.
Proof. exact attempt_sub_ms. Qed.
Print Assumptions C14_attempt_sub_millisecond.

(* (d) the context of the attempt's message exchange -- every wait of the caller ends with it --
   expires at the overall deadline or TimeoutPerAttempt after the attempt's start, whichever is
   earlier *)
Theorem C14_attempt_wait_deadline : forall pkg odl start tpa,
  client_ctx (gen_client_src pkg) (Some odl) start tpa = Some (if tpa =? 0 then odl else Z.min odl (start + tpa)).
Proof. exact attempt_wait_deadline. Qed.
Print Assumptions C14_attempt_wait_deadline.

(* (a)-(c) end to end for an attempt: through any chain of relays the field that arrives and the
   handler's deadline are bounded by the attempt's remaining time and by every relay maximum *)
Theorem C14_attempt_end_to_end : forall pkg odl start tpa now maxes base arrival f,
  Forall is_duration maxes ->
  attempt_field (gen_client_src pkg) odl start tpa now maxes = Some f ->
  is_u32 f /\ f * ms_ns <= attempt_remaining odl start tpa now /\
  Forall (fun cfg => f * ms_ns <= relay_max cfg) maxes /\
  exists d, incoming_ctx base arrival (recv_ttl_ns f) = Some d /\
            d <= arrival + f * ms_ns /\ d <= arrival + attempt_remaining odl start tpa now.
Proof. exact attempt_end_to_end. Qed.
Print Assumptions C14_attempt_end_to_end.

(* why the tie is needed: handing on the ENCLOSING function's context (origin 2) sends the whole
   remaining time of the call although the attempt has far less *)
Theorem C14_attempt_needs_own_context :
  exists odl start tpa now ttl,
    client_begin SrcOverall (Some odl) start tpa now 0 = BcOk ttl /\
    attempt_remaining odl start tpa now < wire_ttl_ms ttl * ms_ns.
Proof. exact overall_ctx_exceeds_attempt. Qed.
Print Assumptions C14_attempt_needs_own_context.

(* the reference the engine attemptttl judges against (sub ttl_attempt): an attempt that starts at
   or after start_lb delivers at most attempt_bound .. start_lb *)
Theorem C14_attempt_bound : forall pkg odl tpa maxes start_lb start now f,
  Forall is_duration maxes ->
  0 <= tpa -> start_lb <= start <= now ->
  odl - start_lb < 2 ^ 32 * ms_ns -> tpa < 2 ^ 32 * ms_ns ->
  attempt_field (gen_client_src pkg) odl start tpa now maxes = Some f ->
  1 <= f \/ f = 0 -> f <= attempt_bound odl tpa maxes start_lb.
Proof. exact attempt_bound_sound. Qed.
Print Assumptions C14_attempt_bound.

(* ---- (d) "its connection fails": every kind of connection failure ---------------------------- *)
(* Vocabulary (Model/ConnFail.v).  One connection with any number of inbound exchanges (handlers)
   and outbound exchanges (calls made over it); [run ce pe ls] executes a schedule of call reqs
   arriving (an id that is still active = protocolError), outbound calls beginning,
   connectionError (FConnErr: read / write error, EOF, protocol error frame from the peer,
   unparsable error frame, ...), protocolError (FProtoErr), watcher goroutines (FWatch), handler
   deadlines / completions and caller waits.  [ce] / [pe] are the stop programs of the two
   functions: which exchange sets they stop, under the shared once-only CAS or not; [prog_ok] =
   the program stops BOTH sets.  [settle] lets every watcher and every blocked caller run. *)

(* The tie.  The stopExchanges statements of connection.go are the programs of the model (both
   functions: outbound and inbound, under c.stoppedExchanges.CAS(false, true); no other caller);
   messageExchangeSet.stopExchanges and the watcher goroutine of dispatchInbound are statement by
   statement what the model's stop_set / FWatch were written against. *)
Theorem C14_connfail_generated :
  (prog_of fn_connection_error stop_sites = map Some ce_prog /\
   prog_of fn_protocol_error stop_sites = map Some pe_prog /\
   forallb (fun r => lz_eqb (row_fn r) fn_connection_error || lz_eqb (row_fn r) fn_protocol_error) stop_sites = true) /\
  notify_sites = model_notify_sites /\ watch_sites = model_watch_sites /\
  prog_ok ce_prog /\ prog_ok pe_prog.
Proof. exact (conj stop_programs_generated (conj notify_statements_generated (conj watcher_statements_generated (conj ce_prog_ok pe_prog_ok)))). Qed.
Print Assumptions C14_connfail_generated.

(* which steps are failures, whatever happened before *)
Theorem C14_connfail_events : forall ce pe, prog_ok ce -> prog_ok pe -> forall ls l,
  let s := run ce pe ls in
  l = FConnErr \/ l = FProtoErr \/ (exists id e, l = FCallReq id /\ active s = true /\ find id (inb s) = Some e) ->
  failed (run ce pe (ls ++ [l])) = true.
Proof. exact failure_events. Qed.
Print Assumptions C14_connfail_events.

(* after any failure, in every schedule: the connection is no longer active, both exchange sets
   are shut down, every registered exchange -- every handler still running, every call still
   waiting -- has been notified *)
Theorem C14_connfail_notifies_all : forall ce pe, prog_ok ce -> prog_ok pe -> forall ls,
  let s := run ce pe ls in
  failed s = true ->
  active s = false /\ in_shut s = true /\ out_shut s = true /\
  notified_all (inb s) /\ notified_all (outb s).
Proof. exact failure_notifies_all. Qed.
Print Assumptions C14_connfail_notifies_all.

(* ... so the goroutine watching a registered handler cancels its context: the exchange leaves
   the map with the context Canceled (DeadlineExceeded if the deadline had passed before) *)
Theorem C14_connfail_cancels_handler : forall ce pe, prog_ok ce -> prog_ok pe -> forall ls id e,
  let s := run ce pe ls in
  failed s = true -> find id (inb s) = Some e ->
  let s' := step ce pe s (FWatch id) in
  inb s' = remove id (inb s) /\
  lookup_last id (gone s') None = Some (if x_ctx e =? 0 then 2 else x_ctx e).
Proof. exact failure_cancels_handler. Qed.
Print Assumptions C14_connfail_cancels_handler.

(* once everything that is ready has run: no exchange is left, no handler context is live *)
Theorem C14_connfail_settles : forall ce pe, prog_ok ce -> prog_ok pe -> forall ls,
  let s := run ce pe ls in
  failed s = true ->
  inb (settle ce pe s) = [] /\ outb (settle ce pe s) = [] /\
  forall id, hctx_of (settle ce pe s) id <> Some 0.
Proof. exact failure_settles. Qed.
Print Assumptions C14_connfail_settles.

(* exactly once: each set is stopped at most once, exactly once after a failure; no exchange is
   notified twice *)
Theorem C14_connfail_exactly_once : forall ce pe, prog_ok ce -> prog_ok pe -> forall ls,
  let s := run ce pe ls in
  0 <= in_stops s <= 1 /\ 0 <= out_stops s <= 1 /\
  (failed s = true -> in_stops s = 1 /\ out_stops s = 1) /\
  Forall (fun e => 0 <= x_notifies e <= 1) (inb s ++ outb s).
Proof. exact stops_exactly_once. Qed.
Print Assumptions C14_connfail_exactly_once.

(* necessity of [prog_ok]: a protocolError that stops only the outbound set consumes the shared
   flag, the connectionError that follows (the peer closes the socket) stops nothing, and the
   handlers' contexts stay live for good *)
Theorem C14_connfail_needs_inbound_stop :
  let ls := [FCallReq 1; FCallReq 2; FCallReq 1; FConnErr] in
  let s := settle ce_prog pe_outbound_only (run ce_prog pe_outbound_only ls) in
  failed s = true /\ hctx_of s 1 = Some 0 /\ hctx_of s 2 = Some 0.
Proof. exact inbound_stop_needed. Qed.
Print Assumptions C14_connfail_needs_inbound_stop.

Example C14_example_attempt :
  (* overall 3 s, TimeoutPerAttempt 200 ms: the attempt that starts at 0 sends 200, the one that
     starts at 2.9 s sends 100; through a relay with a 50 ms maximum 50; without a per-attempt
     timeout 3000 *)
  run_ttl_attempt [3000000000; 200000000; 0; 2; 0; 2900000000] = [200; 100] /\
  run_ttl_attempt [3000000000; 200000000; 1; 50000000; 1; 0] = [50] /\
  run_ttl_attempt [3000000000; 0; 0; 1; 0] = [3000] /\
  gen_client_src pkg_thrift = SrcAttempt /\ gen_client_src pkg_json = SrcAttempt.
Proof. vm_compute. repeat split. Qed.

Example C14_example_connfail :
  (* two handlers running, a call req re-using id 1 (protocolError), then the peer closes the
     socket (connectionError): both contexts end Canceled; an outbound call waiting on the
     connection ends with the error *)
  let ls := [FCallReq 1; FCallReq 2; FOutCall 7; FCallReq 1; FConnErr] in
  let s := settle ce_prog pe_prog (run ce_prog pe_prog ls) in
  failed s = true /\ hctx_of s 1 = Some 2 /\ hctx_of s 2 = Some 2 /\ out_res s = [(7, 1)] /\
  run_connfail [0; 0; 4; 0; 1; 0; 2; 0; 1; 2] = [2; 1; 2; 2; 2; 0; 0].
Proof. vm_compute. repeat split. Qed.

(* ---- (d) the caller's cancel on connections that are NOT active (graceful Close in progress) ----
   Vocabulary.  Model/C14DrainCancel.v carries, next to the call of Model/Cancel.v, the connection
   state and the channel state of the caller, of every relay hop and of the server ([c14dc_conns]);
   every decision on the path of a cancel is taken by the definition regenerated from the Go source
   (Gen/GenC14Cancel.v), which is handed those states: Connection.onCancel, Connection.handleFrameRelay,
   Connection.handleCancel, messageExchangeSet.handleCancel, messageExchange.handleCancel, as traces
   of the calls they make (1 = cancel counted as requested, 2 = counted as honoured, 3 = handed to
   the inbound exchange set, 4 = handed to the exchange, 5 = the handler's context cancelled,
   6 = cancel message queued by the caller's connection, 7 = connectionError).  Schedules
   ([c14dc_label]) add a graceful Close of any party with the call in flight ([DDrain]) and
   arbitrary state changes ([DSet]). *)
From Verif Require Import Gen.GenFrame Gen.GenC14Cancel Model.C14DrainCancel Proofs.C14DrainCancelP.

(* The tie.  Whether a cancel is sent, forwarded by a relay hop, honoured by the server and
   delivered to the exchange depends on SendCancelOnContextCanceled / PropagateCancel and on the
   exchange being registered -- for EVERY connection state and channel state.  (handleCancel:
   "the only condition is PropagateCancel".) *)
Theorem C14_cancel_path_conditions : forall (opt : bool) (cs chs : Z) (tr : list Z),
  (forall serr, c14OnCancel opt cs chs serr tr =
     if opt then (if serr then (tr ++ [6]) ++ [7] else tr ++ [6]) else tr) /\
  (forall mt, c14RelayCancelRoute mt opt cs chs = relayRoute mt opt) /\
  c14RelayCancelRoute c_messageTypeCancel opt cs chs = (if opt then 1 else 0) /\
  c14HandleCancel opt cs chs tr = ((if opt then ((tr ++ [1]) ++ [2]) ++ [3] else tr ++ [1]), true) /\
  (forall reg, c14MexsetCancel reg tr = if reg then tr ++ [4] else tr) /\
  (forall has, c14MexCancel has tr = if has then tr ++ [5] else tr).
Proof. exact c14dc_gen_all. Qed.
Print Assumptions C14_cancel_path_conditions.

(* One step of the call, taken with the generated decisions under ANY states of all parties, is
   the step of Model/Cancel.v: the cancel step does not depend on the connection state. *)
Theorem C14_cancel_step_state_independent : forall c (k : c14dc_conns) s l,
  c14dc_base_step c k s l = Cancel.step c s l.
Proof. exact c14dc_base_step_eq. Qed.
Print Assumptions C14_cancel_step_state_independent.

(* Every schedule with graceful Closes and arbitrary state changes of any party is, for the call,
   the schedule without them: all theorems about [Cancel.run] above hold on draining connections. *)
Theorem C14_drain_erasure : forall c ls,
  d_base (c14dc_run c ls) = Cancel.run c (c14dc_erase ls).
Proof. exact c14dc_erasure. Qed.
Print Assumptions C14_drain_erasure.

(* The clause.  After any schedule (Closes and state changes included) that leaves a handler
   running, for EVERY connection / channel state [k] of caller, relay hops and server: the
   call's exchange is still registered, and with propagation enabled on every hop the next wait
   of a caller whose context is cancelled cancels the handler's context and ends with
   ErrRequestCancelled. *)
Theorem C14_cancel_reaches_handler_in_every_connection_state : forall c ls (k : c14dc_conns) l,
  let s := d_base (c14dc_run c ls) in
  all_on c = true ->
  Cancel.hstarted s = true -> Cancel.hctx s = 0 -> Cancel.cctx s = 2 -> Cancel.conn_failed s = false ->
  caller_waits s l ->
  Cancel.mex_reg s = true /\
  Cancel.hctx (c14dc_base_step c k s l) = 2 /\
  Cancel.cres (c14dc_base_step c k s l) = Some c_ErrCodeCancelled.
Proof. exact c14dc_cancel_reaches. Qed.
Print Assumptions C14_cancel_reaches_handler_in_every_connection_state.

(* The server alone: a cancel frame for a registered exchange of a running handler is counted as
   honoured and cancels the handler's context in every state of the server's connection. *)
Theorem C14_server_honours_cancel_in_every_state : forall c (k : c14dc_conns) s,
  Cancel.srv_prop c = true -> Cancel.mex_reg s = true -> Cancel.hctx s = 0 ->
  Cancel.hctx (c14dc_server_cancel c k s) = 2 /\
  Cancel.honored (c14dc_server_cancel c k s) = Cancel.honored s + 1.
Proof. exact c14dc_server_honours. Qed.
Print Assumptions C14_server_honours_cancel_in_every_state.

(* what the tie excludes: a handleCancel that also asks for an active connection differs from
   the generated one on a draining connection *)
Theorem C14_cancel_guard_on_state_differs :
  exists p cs chs, fst (c14dc_bad_handle_cancel p cs chs []) <> fst (c14HandleCancel p cs chs []).
Proof. exact c14dc_bad_differs. Qed.
Print Assumptions C14_cancel_guard_on_state_differs.

Example C14_example_drain :
  (* server, both relay hops and the caller's channel start a graceful Close with the call in
     flight (StartClose; the caller's connection, without inbound calls, InboundClosed); the caller
     cancels and writes on: the handler's context ends Canceled *)
  let d := c14dc_run c14dc_ex_cfg c14dc_ex_ls in
  dc_server (d_conns d) = (c_connectionStartClose, c_ChannelStartClose) /\
  dc_hops (d_conns d) = [(c_connectionStartClose, c_ChannelStartClose); (c_connectionStartClose, c_ChannelStartClose)] /\
  dc_client (d_conns d) = (c_connectionInboundClosed, c_ChannelStartClose) /\
  Cancel.hstarted (d_base d) = true /\ Cancel.hctx (d_base d) = 0 /\ Cancel.cctx (d_base d) = 2 /\
  Cancel.hctx (d_base (c14dc_step c14dc_ex_cfg d (DL LWFrag))) = 2.
Proof. exact c14dc_example. Qed.
