(* Property C14 -- Deadlines and cancellation propagate hop by hop.
   This file contains only statements, each closed by [exact].

   Vocabulary.  Durations and instants are integer nanoseconds; [ms_ns] = 1 ms.
   [begin_call state has_deadline deadline now ctx_err] is Connection.beginCall up to the
   point where the call's TimeToLive is fixed; [wire_ttl_ms] the uint32 field written into the
   call req; [recv_ttl_ns] the receiver's decoding; [incoming_ctx base arrival ttl] the deadline
   of the context handed to the handler; [relay_ttl max field] = (duration of the relay's own
   timers, forwarded field); [relay_max cfg] the maximum in force for a configured
   RelayMaxTimeout (validateRelayMaxTimeout, generated from source).
   [run c ls] executes a schedule [ls] of caller / handler / environment steps of one call under
   the options [c] (SendCancelOnContextCanceled, PropagateCancel per relay, PropagateCancel on
   the server); [hctx] is the handler's context, [cctx] the caller's (0 live, 1 deadline
   exceeded, 2 cancelled), [cres] the error the caller's wait ended with. *)
From Coq Require Import ZArith List Bool.
From Verif Require Import Base.Wrap Gen.GenConsts Gen.GenTTL Model.Messages Model.TTL Model.Cancel
  Proofs.TTLP Proofs.CancelP Proofs.CancelInvP.
Import ListNotations.
Local Open Scope Z_scope.

(* ---- (a) the ttl sent never exceeds the caller's remaining time ------------------------- *)

(* Every accepted call (any connection state, deadline, clock reading, context state): the
   field is a uint32, field x 1ms <= deadline - now; below 2^32 ms of remaining time it is the
   remaining time truncated to whole milliseconds and at least 1. *)
Theorem C14_wire_ttl : forall state has deadline now cerr ttl,
  begin_call state has deadline now cerr = BcOk ttl ->
  is_u32 (wire_ttl_ms ttl) /\ wire_ttl_ms ttl * ms_ns <= deadline - now /\
  (deadline - now < 2 ^ 32 * ms_ns ->
     1 <= wire_ttl_ms ttl /\ wire_ttl_ms ttl = (deadline - now) / ms_ns).
Proof. exact wire_ttl_sound. Qed.
Print Assumptions C14_wire_ttl.

(* Under a millisecond left (including deadlines in the past): local ErrTimeout, whatever the
   state of the context. *)
Theorem C14_sub_millisecond_fails_locally : forall deadline now cerr,
  deadline - now < ms_ns ->
  begin_call c_connectionActive true deadline now cerr = BcErr c_ErrCodeTimeout.
Proof. exact begin_call_sub_ms. Qed.
Print Assumptions C14_sub_millisecond_fails_locally.

(* At least a millisecond left and a live context: the call is accepted with the remaining
   time (saturated to the Duration range) as its TimeToLive. *)
Theorem C14_accepts : forall deadline now,
  ms_ns <= deadline - now ->
  begin_call c_connectionActive true deadline now 0 = BcOk (time_sub deadline now) /\
  ms_ns <= time_sub deadline now <= deadline - now.
Proof. exact begin_call_accepts. Qed.
Print Assumptions C14_accepts.

(* An already expired / cancelled caller context with time formally left: ErrTimeout /
   ErrRequestCancelled, nothing is sent. *)
Theorem C14_begin_with_dead_context : forall deadline now cerr,
  ms_ns <= deadline - now -> cerr = 1 \/ cerr = 2 ->
  begin_call c_connectionActive true deadline now cerr =
    BcErr (if cerr =? 1 then c_ErrCodeTimeout else c_ErrCodeCancelled).
Proof. exact begin_call_ctx_err. Qed.
Print Assumptions C14_begin_with_dead_context.

(* Full statement wanted by the design: "accepted calls send 1 <= ttl_ms".  It is REFUTED
   beyond 2^32 ms of remaining time (the uint32 conversion wraps; with exactly 2^32 ms the
   field is 0); the proved part is the last conjunct of C14_wire_ttl (remaining < 2^32 ms).
   The property statement itself ("never exceeds") is not affected: wrapping only shrinks. *)
Theorem C14_wire_ttl_positive_refuted :
  exists deadline now ttl,
    begin_call c_connectionActive true deadline now 0 = BcOk ttl /\ wire_ttl_ms ttl = 0.
Proof. exact wire_ttl_zero_witness. Qed.
Print Assumptions C14_wire_ttl_positive_refuted.

(* the field of the model is the first thing Model.Messages.w_callreq (C06) writes *)
Theorem C14_wire_field_is_callreq_field : forall m,
  w_callreq m = (fun b => w_headers (cq_headers m) (TypedBuf.w_len8 (cq_service m)
                   (w_span (cq_span m) (TypedBuf.w_u32 (wire_ttl_ms (cq_ttl_ns m)) b)))).
Proof. exact wire_field_is_callreq_field. Qed.
Print Assumptions C14_wire_field_is_callreq_field.

(* ---- (b) the handler's context expires no later than the ttl after arrival ---------------- *)

(* All 2^32 field values, any base (connection) context deadline, any arrival instant: no
   int64 overflow, the deadline is arrival + field x 1ms, or the base deadline when earlier. *)
Theorem C14_handler_deadline : forall base arrival field,
  is_u32 field ->
  recv_ttl_ns field = field * ms_ns /\
  exists d, incoming_ctx base arrival (recv_ttl_ns field) = Some d /\
            d <= arrival + field * ms_ns /\
            (base = None -> d = arrival + field * ms_ns) /\
            (forall b, base = Some b -> d = Z.min b (arrival + field * ms_ns)).
Proof. exact handler_clause. Qed.
Print Assumptions C14_handler_deadline.

(* a zero ttl yields a context that is already expired, with or without a base deadline *)
Theorem C14_zero_ttl_expired : forall base arrival,
  expired_at (incoming_ctx base arrival (recv_ttl_ns 0)) arrival = true.
Proof. exact zero_ttl_expired. Qed.
Print Assumptions C14_zero_ttl_expired.

(* ---- (c) a relay never forwards more than it received nor more than its maximum ------------ *)

(* Any configured RelayMaxTimeout (any int64 duration; invalid ones fall back to the default),
   any received field: the forwarded field is <= the received one and, in ms, <= the maximum
   in force; the relay's own timers run for min(received, maximum). *)
Theorem C14_relay_ttl : forall cfg field,
  is_duration cfg -> is_u32 field ->
  let m := relay_max cfg in
  let r := relay_ttl m field in
  valid_max m /\ (valid_max cfg -> m = cfg) /\
  is_u32 (snd r) /\ snd r <= field /\ snd r * ms_ns <= m /\
  fst r = Z.min (field * ms_ns) m /\ snd r * ms_ns <= fst r /\
  snd r = (if field * ms_ns >? m then m / ms_ns else field).
Proof. exact relay_clause. Qed.
Print Assumptions C14_relay_ttl.

(* any chain of relays: the field never grows and ends below every maximum on the path *)
Theorem C14_relay_chain : forall maxes field,
  Forall is_duration maxes -> is_u32 field ->
  is_u32 (hops_ttl maxes field) /\ hops_ttl maxes field <= field /\
  Forall (fun cfg => hops_ttl maxes field * ms_ns <= relay_max cfg) maxes.
Proof. exact hops_ttl_spec. Qed.
Print Assumptions C14_relay_chain.

(* caller -> relays -> handler: the time the handler is given is bounded by the caller's
   remaining time at the start of the call and by every relay maximum; sub-millisecond
   budgets never leave the caller. *)
Theorem C14_end_to_end : forall deadline now maxes base arrival r,
  Forall is_duration maxes ->
  e2e deadline now maxes base arrival = Some r ->
  e2e_wire r * ms_ns <= deadline - now /\
  is_u32 (e2e_arrived r) /\ e2e_arrived r <= e2e_wire r /\
  Forall (fun cfg => e2e_arrived r * ms_ns <= relay_max cfg) maxes /\
  exists d, e2e_deadline r = Some d /\ d <= arrival + e2e_arrived r * ms_ns /\
            d <= arrival + (deadline - now).
Proof. exact e2e_spec. Qed.
Print Assumptions C14_end_to_end.

Theorem C14_end_to_end_rejects : forall deadline now maxes base arrival,
  deadline - now < ms_ns -> e2e deadline now maxes base arrival = None.
Proof. exact e2e_rejects. Qed.
Print Assumptions C14_end_to_end_rejects.

(* ---- (d) what ends a handler's context, and the caller's error ------------------------------ *)

(* For every option combination and every schedule: a handler context that reports
   DeadlineExceeded implies the deadline passed; one that reports Canceled implies the response
   completed, was blackholed, the connection failed, or the caller cancelled with propagation
   enabled on every hop.  The caller's context / error are cancelled (timed out) only after a
   cancellation (the deadline). *)
Theorem C14_cancel_sound : forall c ls,
  let s := run c ls in
  (hctx s = 0 \/ hctx s = 1 \/ hctx s = 2) /\
  (hctx s = 1 -> In LDeadline ls) /\
  (hctx s = 2 -> In LHClose ls \/ In LHBlackhole ls \/ In LConnFail ls \/ (In LCancel ls /\ all_on c = true)) /\
  (cctx s = 0 \/ cctx s = 1 \/ cctx s = 2) /\
  (cctx s = 1 -> In LDeadline ls) /\ (cctx s = 2 -> In LCancel ls) /\
  (cres s = Some c_ErrCodeTimeout -> In LDeadline ls) /\
  (cres s = Some c_ErrCodeCancelled -> In LCancel ls) /\
  (dl_passed s = true -> In LDeadline ls).
Proof. exact causes_run. Qed.
Print Assumptions C14_cancel_sound.

(* Without propagation enabled on every hop, no schedule free of deadline / completion /
   blackhole / connection failure ends the handler's context -- whatever the caller does. *)
Theorem C14_no_propagation : forall c ls,
  all_on c = false ->
  ~ In LDeadline ls -> ~ In LHClose ls -> ~ In LHBlackhole ls -> ~ In LConnFail ls ->
  hctx (run c ls) = 0.
Proof. exact no_propagation_run. Qed.
Print Assumptions C14_no_propagation.

(* step level, any state: the handler's context changes only by the listed events *)
Theorem C14_changes_only_by : forall c s l,
  hctx (step c s l) <> hctx s ->
  l = LDeadline \/ l = LHClose \/ l = LHBlackhole \/ l = LConnFail \/
  (all_on c = true /\ cctx s = 2 /\ (l = LWFrag \/ l = LWClose \/ l = LRead)).
Proof. exact handler_ctx_changes_only_by. Qed.
Print Assumptions C14_changes_only_by.

(* After any schedule that leaves a handler running with a live context: the deadline ends it
   with DeadlineExceeded; completing the response, Blackhole and a connection failure cancel it. *)
Theorem C14_cancel_complete : forall c ls,
  let s := run c ls in
  hstarted s = true -> hctx s = 0 ->
  hctx (run c (ls ++ [LDeadline])) = 1 /\ hctx (run c (ls ++ [LHBlackhole])) = 2 /\
  hctx (run c (ls ++ [LHClose])) = 2 /\ hctx (run c (ls ++ [LConnFail])) = 2.
Proof. exact complete_run. Qed.
Print Assumptions C14_cancel_complete.

(* With propagation enabled on every hop: once the caller's context is cancelled, its next
   wait -- writing any further request fragment, or reading any response fragment -- cancels the
   running handler's context and ends with ErrRequestCancelled.  (Any point of a multi-frame
   request or response: [ls] is arbitrary.) *)
Theorem C14_cancel_propagates : forall c ls l,
  let s := run c ls in
  all_on c = true ->
  hstarted s = true -> hctx s = 0 -> cctx s = 2 -> conn_failed s = false -> caller_waits s l ->
  hctx (run c (ls ++ [l])) = 2 /\ cres (run c (ls ++ [l])) = Some c_ErrCodeCancelled.
Proof. exact propagates_run. Qed.
Print Assumptions C14_cancel_propagates.

(* the caller's wait (request write or response read) ends with ErrTimeout after its deadline,
   ErrRequestCancelled after a cancellation *)
Theorem C14_caller_error : forall c ls l,
  let s := run c ls in
  caller_waits s l ->
  (cctx s = 1 -> cres (run c (ls ++ [l])) = Some c_ErrCodeTimeout) /\
  (cctx s = 2 -> cres (run c (ls ++ [l])) = Some c_ErrCodeCancelled).
Proof. exact caller_error_run. Qed.
Print Assumptions C14_caller_error.

(* BeginCall itself: ErrTimeout once the deadline has passed (the remaining-time test comes
   first, even for a cancelled context), ErrRequestCancelled for a cancelled context with time
   left, otherwise the call starts *)
Theorem C14_begin_error : forall c ls,
  let s := run c ls in
  begun s = false -> cres s = None ->
  (dl_passed s = true -> cres (run c (ls ++ [LBegin])) = Some c_ErrCodeTimeout) /\
  (dl_passed s = false -> cctx s = 2 -> cres (run c (ls ++ [LBegin])) = Some c_ErrCodeCancelled) /\
  (dl_passed s = false -> cctx s = 0 ->
     begun (run c (ls ++ [LBegin])) = true /\ cres (run c (ls ++ [LBegin])) = None).
Proof. exact begin_error_run. Qed.
Print Assumptions C14_begin_error.

(* an ended context stays ended, with the same reason, under any continuation *)
Theorem C14_ctx_sticky : forall c ls ls',
  (hctx (run c ls) <> 0 -> hctx (run c (ls ++ ls')) = hctx (run c ls)) /\
  (cctx (run c ls) <> 0 -> cctx (run c (ls ++ ls')) = cctx (run c ls)).
Proof. exact sticky_run. Qed.
Print Assumptions C14_ctx_sticky.

(* cancel messages: at most one per call, only with SendCancelOnContextCanceled and after a
   cancellation; the server honours exactly those it receives when PropagateCancel is set *)
Theorem C14_cancel_messages : forall c ls,
  let s := run c ls in
  0 <= requested s <= cancels_sent s /\ cancels_sent s <= 1 /\
  honored s = (if srv_prop c then requested s else 0) /\
  (0 < cancels_sent s -> send_cancel c = true /\ In LCancel ls).
Proof. exact messages_run. Qed.
Print Assumptions C14_cancel_messages.

(* ---- non-vacuity ----------------------------------------------------------------------------- *)
Example C14_example_ttl :
  (* 1.9995 ms left -> field 1; through a relay with a 50 ms maximum a 10 s ttl becomes 50 *)
  begin_call c_connectionActive true 1001999500 1000000000 0 = BcOk 1999500 /\
  wire_ttl_ms 1999500 = 1 /\
  relay_ttl (relay_max 50000000) 10000 = (50000000, 50) /\
  hops_ttl [1000000000; 50000000; 0] 4000000000 = 50 /\
  incoming_ctx (Some 70) 10 (recv_ttl_ns 0) = Some 10 /\
  incoming_ctx None 10 (recv_ttl_ns 5) = Some 5000010.
Proof. vm_compute. repeat split. Qed.

Example C14_example_cancel :
  let on := {| send_cancel := true; hops := [true]; srv_prop := true |} in
  let off := {| send_cancel := true; hops := [false]; srv_prop := true |} in
  (* cancelled while the second request fragment is being written, through a relay *)
  let ls := [LBegin; LWFrag; LCancel; LWFrag] in
  hstarted (run on [LBegin; LWFrag; LCancel]) = true /\ hctx (run on [LBegin; LWFrag; LCancel]) = 0 /\
  caller_waits (run on [LBegin; LWFrag; LCancel]) LWFrag /\
  hctx (run on ls) = 2 /\ cres (run on ls) = Some 2 /\ requested (run on ls) = 1 /\
  hctx (run off ls) = 0 /\ cres (run off ls) = Some 2 /\ requested (run off ls) = 0 /\
  hctx (run off (ls ++ [LDeadline])) = 1.
Proof. vm_compute. repeat split; auto. Qed.
