From Coq Require Import ZArith List Bool.
From Verif Require Import Model.PeerHeap Model.PeerList.
Theorem C15_stub : True. Proof. exact I. Qed.
Print Assumptions C15_stub.
