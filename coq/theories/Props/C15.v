(* Property C15 -- Peer selection returns a least-loaded eligible peer and starves none.
   This file contains only statements, each closed by [exact].

   Model: Model/PeerHeap.v (peer_heap.go + container/heap), Model/PeerList.v (peer.go PeerList,
   Channel.updatePeer, isolated sub-channel lists).  Spec: Spec/PeerSelect.v.
   [lrun pl_empty ops] is the state of one PeerList after the history [ops] of Add / Remove /
   Get / GetNew (arbitrary previously-selected sets) / score changes / SetStrategy, with arbitrary
   scores and arbitrary rng draws; [chan_run (chan_init n) ops] is a channel with n isolated
   sub-channel lists, scores computed by the calculators generated from peer_strategies.go. *)
From Coq Require Import ZArith List Bool Permutation.
From Verif Require Import Base.Wrap Gen.GenPeers Spec.PeerSelect Model.PeerHeap Model.PeerList
  Proofs.PeerHeapP Proofs.PeerListP.
Import ListNotations.
Local Open Scope Z_scope.

(* ---- heap / map bookkeeping -------------------------------------------------------------
   Wanted (DESIGN C15_heap_inv): after every history the map and the heap hold the same peers,
   heap[i].index = i, and the heap order holds for the key (score, order).
   The last clause is FALSE for the pinned code (C15_heap_order_refuted below: addPeer's
   swapOrder calls heap.Fix on stale positions).  Proved: everything else, with the heap order
   on the SCORE, which is what minimality of the selection needs. *)
Theorem C15_heap_inv_partial : forall n ops,
  exists c, chan_run (chan_init n) ops = Some c /\
    forall cl, In cl (ch_lists c) ->
      let l := cl_pl cl in
      NoDup (pl_keys l) /\ Permutation (pl_keys l) (map ps_hp (pl_arr l)) /\
      (forall i, (i < length (pl_arr l))%nat -> ps_index (nth i (pl_arr l) ps_dflt) = Z.of_nat i) /\
      (forall i, (0 < i < length (pl_arr l))%nat ->
         ps_score (nth ((i - 1) / 2) (pl_arr l) ps_dflt) <= ps_score (nth i (pl_arr l) ps_dflt)).
Proof. exact chan_heap_inv. Qed.
Print Assumptions C15_heap_inv_partial.

(* the same for one list with arbitrary (not calculator-produced) scores; no history panics *)
Theorem C15_heap_inv_list_partial : forall ops,
  exists l, lrun pl_empty ops = Some l /\
    NoDup (pl_keys l) /\ Permutation (pl_keys l) (map ps_hp (pl_arr l)) /\
    (forall i, (i < length (pl_arr l))%nat -> ps_index (nth i (pl_arr l) ps_dflt) = Z.of_nat i) /\
    (forall i, (0 < i < length (pl_arr l))%nat ->
       ps_score (nth ((i - 1) / 2) (pl_arr l) ps_dflt) <= ps_score (nth i (pl_arr l) ps_dflt)).
Proof. exact list_heap_inv. Qed.
Print Assumptions C15_heap_inv_list_partial.

(* a history (four Adds) after which peerHeap.Less(child, parent) holds for some heap position *)
Theorem C15_heap_order_refuted : exists ops l, lrun pl_empty ops = Some l /\
  ~ (forall i, (0 < i < length (pl_arr l))%nat ->
       pless (nth i (pl_arr l) ps_dflt) (nth ((i - 1) / 2) (pl_arr l) ps_dflt) = false).
Proof. exact lex_order_refuted_explicit. Qed.
Print Assumptions C15_heap_order_refuted.

(* ---- selection ----------------------------------------------------------------------------
   After any history, for any previously-selected set and any draw: Get returns a member that is
   eligible at the strictest non-empty tier (host:port and host untried; host:port untried; any)
   with the minimum score within that tier; the list keeps the same members with the same scores.
   Otherwise it reports no-peers, and then the list is empty and unchanged. *)
Theorem C15_min_eligible : forall ops l prev d, lrun pl_empty ops = Some l ->
  match pl_get l prev d with
  | Some (l', SelOk p, _) =>
      least_loaded (eligible_get prev (pl_keys l)) (map (fun x => (ps_hp x, ps_score x)) (pl_arr l)) p /\
      pl_keys l' = pl_keys l /\
      Permutation (map (fun x => (ps_hp x, ps_score x)) (pl_arr l'))
                  (map (fun x => (ps_hp x, ps_score x)) (pl_arr l))
  | Some (l', SelNoPeers, _) => pl_keys l = [] /\ l' = l
  | _ => False
  end.
Proof. exact min_eligible_reachable. Qed.
Print Assumptions C15_min_eligible.

(* GetNew: the same over the first two tiers; ErrNoNewPeers exactly when the list is non-empty and
   every member's host:port was tried *)
Theorem C15_getnew : forall ops l prev d, lrun pl_empty ops = Some l ->
  match pl_getnew l prev d with
  | Some (l', SelOk p, _) =>
      least_loaded (eligible_getnew prev (pl_keys l)) (map (fun x => (ps_hp x, ps_score x)) (pl_arr l)) p /\
      pl_keys l' = pl_keys l /\
      Permutation (map (fun x => (ps_hp x, ps_score x)) (pl_arr l'))
                  (map (fun x => (ps_hp x, ps_score x)) (pl_arr l))
  | Some (l', SelNoPeers, _) => pl_keys l = [] /\ l' = l
  | Some (l', SelNoNewPeers, _) =>
      pl_keys l <> [] /\ (forall q, In q (pl_keys l) -> tier2 prev q = false) /\
      pl_keys l' = pl_keys l /\
      Permutation (map (fun x => (ps_hp x, ps_score x)) (pl_arr l'))
                  (map (fun x => (ps_hp x, ps_score x)) (pl_arr l))
  | None => False
  end.
Proof. exact getnew_reachable. Qed.
Print Assumptions C15_getnew.

(* no-peers only for the empty list; Get never fails otherwise and never leaks ErrNoNewPeers *)
Theorem C15_nopeers_iff : forall ops l prev d, lrun pl_empty ops = Some l ->
  ((exists l' n, pl_get l prev d = Some (l', SelNoPeers, n)) <-> pl_keys l = []) /\
  pl_get l prev d <> None /\
  (forall l' n, pl_get l prev d <> Some (l', SelNoNewPeers, n)).
Proof. exact nopeers_reachable. Qed.
Print Assumptions C15_nopeers_iff.

(* ---- default strategy (generated preferIncomingCalculator / leastPendingCalculator) -------
   with fewer than MaxInt32 pending calls: inbound-connected < connected < unconnected, fewer
   pending first; the scores are exactly pending / MaxInt32 + pending / MaxUint64 *)
Theorem C15_tiers : forall i1 o1 p1 i2 o2 p2,
  0 <= i1 -> 0 <= o1 -> i1 + o1 < 2 ^ 63 -> 0 <= p1 < 2 ^ 31 - 1 ->
  0 <= i2 -> 0 <= o2 -> i2 + o2 < 2 ^ 63 -> 0 <= p2 < 2 ^ 31 - 1 ->
  (preferIncomingScore i1 o1 p1 < preferIncomingScore i2 o2 p2 <->
   rank_lt (default_rank i1 o1 p1) (default_rank i2 o2 p2)).
Proof. exact prefer_incoming_rank. Qed.
Print Assumptions C15_tiers.

Theorem C15_tier_scores : forall inb outb pend,
  0 <= inb -> 0 <= outb -> inb + outb < 2 ^ 63 -> 0 <= pend < 2 ^ 31 ->
  preferIncomingScore inb outb pend =
    (if inb + outb =? 0 then 2 ^ 64 - 1 else if inb =? 0 then 2 ^ 31 - 1 + pend else pend) /\
  leastPendingScore inb outb pend = (if inb + outb =? 0 then 2 ^ 64 - 1 else pend).
Proof. exact tier_scores. Qed.
Print Assumptions C15_tier_scores.

(* ---- fairness -------------------------------------------------------------------------------
   Wanted: after ANY history, with equal scores and no membership change, every one of the n
   peers is chosen in any 3n consecutive selections.  FALSE for the pinned code after the list
   shrank (C15_fair_refuted, known finding peerlist:fairness-after-shrink).
   Proved (C15_fair_partial): the statement under the stamp bound
       order(p) <= counter + n/2 + 1  for every peer p
   at the start of the window (no assumption on the heap layout, any draws): every peer is even
   chosen within the first n + n/2 + 1 <= 3n selections.  C15_stamp_bound: the bound holds after
   every history without Remove (so it holds at the start of any window of such a history).
   Missing: histories with Remove (there the bound, and the clause, fail); the re-establishment
   of the bound n_old/2 selections after a Remove is not proved. *)
Theorem C15_fair_partial : forall ops l s ds, lrun pl_empty ops = Some l ->
  (forall x, In x (pl_arr l) -> ps_score x = s) ->
  (forall o, In o (map ps_order (pl_arr l)) -> o <= pl_ctr l + Z.of_nat (length (pl_arr l)) / 2 + 1) ->
  let n := length (pl_arr l) in
  (0 < n)%nat -> length ds = (3 * n)%nat ->
  pl_ctr l + 3 * Z.of_nat n + Z.of_nat n / 2 + 2 < 2 ^ 64 ->
  exists l' sel, get_nils l ds = Some (l', sel) /\ length sel = (3 * n)%nat /\ pl_keys l' = pl_keys l /\
    forall p, In p (pl_keys l) -> In p (firstn (n + n / 2 + 1) sel).
Proof. exact fair_reachable. Qed.
Print Assumptions C15_fair_partial.

Theorem C15_stamp_bound : forall ops l,
  forallb (fun op => negb (is_remove op)) ops = true ->
  2 * Z.of_nat (length ops) + 4 < 2 ^ 64 -> lrun pl_empty ops = Some l ->
  forall o, In o (map ps_order (pl_arr l)) -> o <= pl_ctr l + Z.of_nat (length (pl_arr l)) / 2 + 1.
Proof. exact stamp_reachable. Qed.
Print Assumptions C15_stamp_bound.

(* 16 Adds, one selection, 14 Removes: equal scores, and one of the n = 2 members is not chosen in
   3n = 6 consecutive selections *)
Theorem C15_fair_refuted : exists ops l ds p,
  lrun pl_empty ops = Some l /\
  (forall x, In x (pl_arr l) -> ps_score x = 0) /\
  length ds = (3 * length (pl_arr l))%nat /\ In p (pl_keys l) /\
  exists l' sel, get_nils l ds = Some (l', sel) /\ ~ In p sel.
Proof. exact fair_refuted_explicit. Qed.
Print Assumptions C15_fair_refuted.

(* ---- non-vacuity --------------------------------------------------------------------------- *)
(* three peers on two hosts with scores 5, 3, 3: a request that already tried b:1 (and host b)
   gets a:1 although b:2 has a smaller score; one that tried everything gets a minimum-score peer *)
Example C15_example_select :
  let a1 := [97; 58; 49] in let b1 := [98; 58; 49] in let b2 := [98; 58; 50] in
  let ops := [LAdd a1 5 0 0; LAdd b1 3 0 0; LAdd b2 3 0 0] in
  match lrun pl_empty ops with
  | Some l =>
      (match pl_get l [b1; [98]] 0 with Some (_, SelOk p, _) => p = a1 | _ => False end) /\
      (match pl_get l [b1] 0 with Some (_, SelOk p, _) => p = b2 | _ => False end) /\
      (match pl_get l [a1; b1; b2; [97]; [98]] 0 with Some (_, SelOk p, _) => p = b1 \/ p = b2 | _ => False end) /\
      (match pl_getnew l [a1; b1; b2] 0 with Some (_, SelNoNewPeers, _) => True | _ => False end)
  | None => False
  end.
Proof. vm_compute. repeat split; auto. Qed.

(* the hypotheses of C15_fair_partial are satisfiable: 5 peers, equal scores, stamp bound *)
Example C15_example_fair :
  match lrun pl_empty (adds 5 ++ [LGet [] 1; LGet [] 2]) with
  | Some l =>
      forallb (fun x => ps_score x =? 0) (pl_arr l) = true /\
      forallb (fun o => o <=? pl_ctr l + Z.of_nat (length (pl_arr l)) / 2 + 1) (map ps_order (pl_arr l)) = true /\
      length (pl_arr l) = 5%nat /\
      match get_nils l (repeat 2 15) with
      | Some (_, sel) => forallb (fun p => mem p (firstn 8 sel)) (pl_keys l) = true
      | None => False
      end
  | None => False
  end.
Proof. vm_compute. repeat split; auto. Qed.

(* the default strategy's three tiers on concrete loads *)
Example C15_example_tiers :
  preferIncomingScore 1 0 7 = 7 /\ preferIncomingScore 0 2 0 = 2147483647 /\
  preferIncomingScore 0 0 0 = 18446744073709551615 /\ leastPendingScore 0 1 4 = 4.
Proof. vm_compute. repeat split; auto. Qed.

(* ==== what selection is FED with: the request's previously-selected set and the peer's load ====
   Gen/GenPeerSel.v is regenerated from retry.go (getHost, RequestState.AddSelectedPeer,
   RequestState.PrevSelectedPeers), peer.go (Peer.NumConnections, Peer.NumPendingOutbound) and
   mex.go (messageExchangeSet.count) on every run, loops included; a map[string]struct{} is a
   nilable set of strings (Base/GoSemColl.v).  Proofs: Proofs/GenPeerSelP.v, Proofs/ReqSelP.v. *)
From Verif Require Import Base.GoSemColl Gen.GenPeerSel Model.ReqSel Proofs.GenPeerSelP Proofs.ReqSelP.

(* the generated getHost never panics and is the specification's host function, for every string:
   the bytes before the LAST ':' (so "[::1]:80" has host "[::1]"), the whole string if there is none *)
Theorem C15_gethost_generated : forall hp, getHost hp = Some (host_of hp).
Proof. exact getHost_host_of. Qed.
Print Assumptions C15_gethost_generated.

(* after attempts that selected p1..pk (any strings, any k) the generated AddSelectedPeer has not
   panicked, PrevSelectedPeers hands selection the very map, and that map holds every pi AND
   every host(pi) -- and nothing else; it is non-nil as soon as one peer was added *)
Theorem C15_selected_set_complete : forall ps, exists rs,
  add_all fresh_request ps = Some rs /\
  RequestState_PrevSelectedPeers rs = Some (RequestState_SelectedPeers rs) /\
  (forall p, In p ps -> sset_mem (RequestState_SelectedPeers rs) p = true /\
                        sset_mem (RequestState_SelectedPeers rs) (host_of p) = true) /\
  (forall s, sset_mem (RequestState_SelectedPeers rs) s = true ->
             exists p, In p ps /\ (s = p \/ s = host_of p)) /\
  (ps <> [] -> sset_isnil (RequestState_SelectedPeers rs) = false).
Proof. exact selected_set_complete. Qed.
Print Assumptions C15_selected_set_complete.

(* the attempts of one request (Get(rs.PrevSelectedPeers()) then rs.AddSelectedPeer(peer), both
   generated), starting from any reachable list, with ANY history on the list between two
   attempts: no attempt panics, and attempt k+1 returns a least-loaded peer of the strictest
   non-empty tier with respect to everything attempts 1..k tried (peers and their hosts) *)
Theorem C15_retry_least_loaded_untried : forall ops l atts, lrun pl_empty ops = Some l ->
  exists log rsf, req_run l fresh_request atts = Some (log, rsf) /\
    forall k lk p, nth_error log k = Some (lk, p) ->
      let T := tried_set (map snd (firstn k log)) in
      least_loaded (eligible_get T (pl_keys lk)) (map (fun x => (ps_hp x, ps_score x)) (pl_arr lk)) p.
Proof. exact retry_least_loaded_untried. Qed.
Print Assumptions C15_retry_least_loaded_untried.

(* the same in plain terms: the peer is a member; while a member on a host that no earlier attempt
   touched exists the attempt gets such a member; while an untried member exists it gets one *)
Theorem C15_retry_avoids_tried_hosts : forall ops l atts, lrun pl_empty ops = Some l ->
  exists log rsf, req_run l fresh_request atts = Some (log, rsf) /\
    forall k lk p, nth_error log k = Some (lk, p) ->
      let T := tried_set (map snd (firstn k log)) in
      In p (pl_keys lk) /\
      ((exists q, In q (pl_keys lk) /\ ~ In q T /\ ~ In (host_of q) T) -> ~ In p T /\ ~ In (host_of p) T) /\
      ((exists q, In q (pl_keys lk) /\ ~ In q T) -> ~ In p T).
Proof. exact retry_avoids_tried_hosts. Qed.
Print Assumptions C15_retry_avoids_tried_hosts.

(* the generated NumPendingOutbound is the number of OUR calls in flight to the peer: the sizes of
   the OUTBOUND exchange sets summed over the outbound AND the inbound connections (a call we make
   over a connection the peer dialled counts; calls the peer makes to us never do);
   NumConnections = (inbound, outbound) list lengths *)
Theorem C15_pending_counts_our_calls : forall p, pending_calls (peerconns_of p) < 2 ^ 63 ->
  Peer_NumPendingOutbound p =
    Some (zsum (map (fun c => zlen (messageExchangeSet_exchanges (Connection_outbound c)))
                    (Peer_outboundConnections p ++ Peer_inboundConnections p))) /\
  Peer_NumConnections p = Some (zlen (Peer_inboundConnections p), zlen (Peer_outboundConnections p)).
Proof. exact pending_counts_our_calls. Qed.
Print Assumptions C15_pending_counts_our_calls.

(* GetScore of the built-in strategies on a peer = the model's score (Model/PeerList.v [calc]) of
   the load (inbound, outbound, pending_calls) that Model/ReqSel.v reads off the connections *)
Theorem C15_score_of_connections : forall strat p, 0 <= strat <= 2 ->
  pending_calls (peerconns_of p) < 2 ^ 63 ->
  gen_score strat p = Some (calc strat (attrs_of (peerconns_of p) 0 0)).
Proof. exact gen_score_model. Qed.
Print Assumptions C15_score_of_connections.

(* hence the default strategy ranks two peers by (tier, our pending calls) whatever connections
   carry the calls *)
Theorem C15_default_rank_of_connections : forall p1 p2 s1 s2,
  let c1 := peerconns_of p1 in let c2 := peerconns_of p2 in
  zlen (pc_inbound c1) + zlen (pc_outbound c1) < 2 ^ 63 -> pending_calls c1 < 2 ^ 31 - 1 ->
  zlen (pc_inbound c2) + zlen (pc_outbound c2) < 2 ^ 63 -> pending_calls c2 < 2 ^ 31 - 1 ->
  gen_score 0 p1 = Some s1 -> gen_score 0 p2 = Some s2 ->
  (s1 < s2 <-> rank_lt (default_rank (zlen (pc_inbound c1)) (zlen (pc_outbound c1)) (pending_calls c1))
                       (default_rank (zlen (pc_inbound c2)) (zlen (pc_outbound c2)) (pending_calls c2))).
Proof. exact default_rank_of_connections. Qed.
Print Assumptions C15_default_rank_of_connections.

(* ---- non-vacuity ---- *)
(* four peers a:1 a:2 b:1 c:1 with scores 0 0 5 9: a request's three attempts get a:1 (or a:2), then
   b:1 (host a tried), then c:1 (hosts a, b tried) although a:2 has the lowest score throughout;
   a fourth attempt falls back to the untried a-peer *)
Example C15_example_retry :
  let a1 := [97; 58; 49] in let a2 := [97; 58; 50] in let b1 := [98; 58; 49] in let c1 := [99; 58; 49] in
  let ops := [LAdd a1 0 0 0; LAdd a2 0 0 0; LAdd b1 5 0 0; LAdd c1 9 0 0] in
  match lrun pl_empty ops with
  | Some l =>
      match req_run l fresh_request [mkAtt [] 0; mkAtt [] 0; mkAtt [] 0; mkAtt [] 0] with
      | Some (log, rs) =>
          match map snd log with
          | [p1; p2; p3; p4] => (p1 = a1 \/ p1 = a2) /\ p2 = b1 /\ p3 = c1 /\ (p4 = a1 \/ p4 = a2) /\ p4 <> p1
          | _ => False
          end /\
          sset_len (RequestState_SelectedPeers rs) = 7
      | None => False
      end
  | None => False
  end.
Proof. vm_compute. repeat split; auto; discriminate. Qed.

(* the host function: no colon => the whole string; empty host; a bracketed IPv6 literal is the
   host of its host:port; several colons => cut at the last one *)
Example C15_example_gethost :
  getHost [110; 48] = Some [110; 48] /\ getHost [58; 49] = Some [] /\
  getHost [91; 58; 58; 49; 93; 58; 56; 48] = Some [91; 58; 58; 49; 93] /\
  getHost [97; 58; 49; 58; 50] = Some [97; 58; 49].
Proof. vm_compute. repeat split. Qed.

(* IPv6 peers [::1]:1 [::1]:2 [::2]:1 with scores 0 0 9: the second attempt of a request leaves the
   host [::1] (score 0 sibling available) for [::2]:1; the third falls back to the untried sibling *)
Example C15_example_retry_ipv6 :
  let x1 := [91; 58; 58; 49; 93; 58; 49] in let x2 := [91; 58; 58; 49; 93; 58; 50] in
  let y1 := [91; 58; 58; 50; 93; 58; 49] in
  match lrun pl_empty [LAdd x1 0 0 0; LAdd x2 0 0 0; LAdd y1 9 0 0] with
  | Some l =>
      match req_run l fresh_request [mkAtt [] 0; mkAtt [] 0; mkAtt [] 0] with
      | Some (log, _) =>
          match map snd log with
          | [p1; p2; p3] => (p1 = x1 \/ p1 = x2) /\ p2 = y1 /\ (p3 = x1 \/ p3 = x2) /\ p3 <> p1
          | _ => False
          end
      | None => False
      end
  | None => False
  end.
Proof. vm_compute. repeat split; auto; discriminate. Qed.

(* a peer that dialled us (one inbound connection) carrying 2 of our calls and 3 of its own, and
   one idle outbound connection: 2 pending, default score 2 (top tier) *)
Example C15_example_load :
  let mex := mk_messageExchange 0 in
  let es n := mk_messageExchangeSet (map (fun i => (Z.of_nat i, mex)) (seq 0 n)) in
  let p := mk_Peer [mk_Connection (es 3%nat) (es 2%nat)] [mk_Connection (es 0%nat) (es 0%nat)] in
  Peer_NumPendingOutbound p = Some 2 /\ Peer_NumConnections p = Some (1, 1) /\ gen_score 0 p = Some 2.
Proof. vm_compute. repeat split. Qed.

(* ==== the score a list STORES for a peer is the score of the peer's LIVE state ==================
   Model/C15Score.v: an interleaving model of everything that reads, computes or stores a score.
   What a calculator reads of a peer is derived from the connections (announced host:port, dialled
   host:port, our calls in flight); an outbound connection dialled through an address other than
   the announced one (TCP relay, NAT, localhost vs 127.0.0.1) belongs to TWO peers.  One atomic
   step per critical section of channel.go / peer.go; operations (connect, accept, close, exchange
   added / removed, Add, Remove, SetStrategy, Get, GetNew, root-list collection) are threads whose
   steps interleave in any order ([srun] over [ESpawn] / [EStep]), on the channel's list and any
   number of isolated sub-channel lists.  [live_score s cl K] = the list's calculator (generated
   from peer_strategies.go) applied to K's current connections and pending calls.
   Gen/GenC15Score.v is regenerated from the source on every run; Proofs/C15ScoreGenP.v proves the
   model's thread programs equal to the compiled statement structure of the Go functions and the
   atomic steps equal to their lock regions.  Proofs: Proofs/C15ScoreP.v. *)
From Verif Require Import Base.GoMap Spec.C15ScoreSpec Gen.GenC15Score Gen.GenC15ScoreFn Model.C15Score Proofs.C15ScoreP Proofs.C15ScoreGenP.

(* no interleaving makes the model panic (heap.Fix / Remove on a stale index, a missing map entry) *)
Theorem C15_score_model_total : forall n es, exists s, srun (s_init n) es = Some s.
Proof. exact srun_total. Qed.
Print Assumptions C15_score_model_total.

(* at EVERY moment of every interleaving: the stored score of every entry of every list is the
   live one, or some running operation still has the re-scoring of exactly this entry ahead of it
   (an onPeerChange on this list for this peer, or an updatePeer that has not passed the list yet) *)
Theorem C15_score_fresh_or_owed : forall n es s, srun (s_init n) es = Some s ->
  forall j cl x, nth_error (ss_lists s) j = Some cl -> In x (pl_arr (cl_pl cl)) ->
    ps_score x = live_score s cl (ps_hp x) \/
    exists t, In t (ss_thr s) /\ owes j (ps_hp x) t = true.
Proof. exact score_fresh_or_owed. Qed.
Print Assumptions C15_score_fresh_or_owed.

(* FRESHNESS: whenever no operation is running, every list (the channel's and every isolated
   sub-channel's, whatever strategy was set) holds for every member -- alias peers included --
   exactly the score its calculator gives the member's live connections and pending calls *)
Theorem C15_score_fresh : forall n es s, srun (s_init n) es = Some s -> quiescent s = true ->
  forall cl x, In cl (ss_lists s) -> In x (pl_arr (cl_pl cl)) -> ps_score x = live_score s cl (ps_hp x).
Proof. exact score_fresh_quiescent. Qed.
Print Assumptions C15_score_fresh.

(* hence Get at a quiescent moment returns a member of the strictest non-empty tier whose LIVE
   score is minimal in that tier (connected before unconnected, fewer pending first by C15_tiers) *)
Theorem C15_get_least_loaded_live : forall n es s, srun (s_init n) es = Some s -> quiescent s = true ->
  forall cl prev d, In cl (ss_lists s) ->
    match pl_get (cl_pl cl) prev d with
    | Some (_, SelOk p, _) =>
        least_loaded (eligible_get prev (pl_keys (cl_pl cl)))
                     (map (fun x => (ps_hp x, live_score s cl (ps_hp x))) (pl_arr (cl_pl cl))) p
    | Some (_, SelNoPeers, _) => pl_keys (cl_pl cl) = []
    | _ => False
    end.
Proof. exact get_least_loaded_live. Qed.
Print Assumptions C15_get_least_loaded_live.

(* THE FAMILY.  Besides the operations of the model, ANY thread program may run ([GProg]), interleaved
   with everything else, as long as it is covered ([good], a decidable syntactic condition): every
   change of a peer's connections or pending calls is followed in the same thread by
   Channel.updatePeer of that very peer (possibly behind a root-list lookup of the same host:port),
   a connection is only added to the peers of its announced / dialled host:port, and a failed test
   skips re-scorings of its own subject only.  Freshness at every quiescent moment, no panic. *)
Theorem C15_score_covered_programs_fresh : forall n gs s, grun (s_init n) gs = Some s -> quiescent s = true ->
  forall cl x, In cl (ss_lists s) -> In x (pl_arr (cl_pl cl)) -> ps_score x = live_score s cl (ps_hp x).
Proof. exact covered_programs_fresh. Qed.
Print Assumptions C15_score_covered_programs_fresh.

Theorem C15_score_covered_programs_total : forall n gs, exists s, grun (s_init n) gs = Some s.
Proof. exact covered_programs_total. Qed.
Print Assumptions C15_score_covered_programs_total.

(* the harness entry point run_c15score runs operations one after the other ([seq_run]); what it
   prints for a quiescent state is therefore the specification: stored score = live score *)
Theorem C15_score_sequential : forall n ops s, seq_run (s_init n) ops = Some s -> quiescent s = true ->
  forall cl x, In cl (ss_lists s) -> In x (pl_arr (cl_pl cl)) -> ps_score x = live_score s cl (ps_hp x).
Proof. exact seq_fresh. Qed.
Print Assumptions C15_score_sequential.

(* ---- ties to the source (Gen/GenC15Score.v) ------------------------------------------------
   the thread programs of the model ARE the statement structure of the Go functions: every peer
   that gains / loses the connection is passed to updatePeer, on the announced AND on the dialled
   host:port; exchangeUpdated re-scores both *)
Theorem C15_score_steps_generated : forall c ann dial,
  compiled c15prog_addToPeer (env_of c false ann dial [] true) c15prog_close = Some (prog_close c ann dial) /\
  (exists p1 p2,
     compiled c15prog_addToPeer (env_of c false ann dial [] true) c15prog_active = Some p1 /\
     compiled c15prog_addToPeer (env_of c false ann dial dial true) c15prog_connectTail = Some p2 /\
     prog_connect c ann dial = p1 ++ p2) /\
  compiled c15prog_addToPeer (env_of c true ann [] [] true) c15prog_active = Some (prog_accept c ann) /\
  compiled c15prog_addToPeer (env_of c false ann dial [] true) c15prog_exch = Some (exch_updated ann dial) /\
  c15prog_updatePeer = [CCall 7 4; CCall 8 4] /\ c15prog_subUpdate = [CLoop [CIf 7 0 [CCall 9 4] []]].
Proof.
  exact (fun c ann dial => conj (close_tie c ann dial) (conj (connect_tie c ann dial)
          (conj (active_tie c true ann []) (conj (exch_tie c ann dial) update_peer_tie)))).
Qed.
Print Assumptions C15_score_steps_generated.

(* the atomic steps ARE the lock regions of peer.go: in Add, onPeerChange, SetStrategy the score is
   computed (GetScore, with the calculator read in the same region) and published (map store,
   updatePeer) under ONE hold of the list's write lock *)
Theorem C15_score_regions_generated :
  (c15reg_listAdd = reg_add /\ c15reg_listExists = reg_exists /\
   c15reg_onPeerChange = reg_on_peer_change /\ c15reg_getPeerScore = reg_get_peer_score /\
   c15reg_setStrategy = reg_set_strategy /\ c15reg_listUpdatePeer = reg_list_update_peer /\
   c15reg_listRemove = reg_remove) /\
  forallb region_safe [c15reg_listAdd; c15reg_listExists; c15reg_onPeerChange; c15reg_setStrategy; c15reg_listRemove] = true.
Proof. exact (conj regions_tie regions_safe). Qed.
Print Assumptions C15_score_regions_generated.

(* the data path inside those regions (statement targets of the classic translator): updatePeer
   always leaves the new score; Add stores GetScore of the peer the root list returned, under the
   host:port, computed in the locked region; onPeerChange's locked region re-scores the entry iff it
   (still) exists, with GetScore of the entry's own peer *)
Theorem C15_score_datapath_generated : forall scores get_score hp p old new,
  c15listUpdateScore old new = new /\
  c15listAddScores scores get_score hp p = (gmap_set scores hp (get_score p), p) /\
  c15listRescore scores get_score hp =
    (if snd (gmap_get scores hp) then gmap_set scores hp (get_score hp) else scores).
Proof.
  exact (fun scores get_score hp p old new =>
           conj (update_score_tie old new) (conj (add_scores_tie scores get_score hp p) (rescore_tie scores get_score hp))).
Qed.
Print Assumptions C15_score_datapath_generated.

(* no other function of the package changes a peer's connection lists, computes or stores a score *)
Theorem C15_score_census_generated : c15_census = census_expected.
Proof. exact census_tie. Qed.
Print Assumptions C15_score_census_generated.

(* ---- the obligations are needed (and the pinned tree broke two of them) ------------------------
   alias peer "a" (a forwarder in front of "r") in the channel's list, connected through the alias:
   closing with "drop from every peer, re-score once" leaves the alias peer ranked as connected
   (2^31-1 instead of 2^64-1) at a quiescent moment; the program is not covered *)
Example C15_example_uncovered_close_stale :
  match seq_run (s_init 0) alias_setup with
  | Some s0 =>
      stale_entries s0 = [] /\ good (ck_of s0) close_rescore_once = false /\
      match run_prog s0 close_rescore_once with
      | Some s1 => quiescent s1 = true /\ stale_entries s1 = [(0%nat, hp_a, 2 ^ 31 - 1, 2 ^ 64 - 1)]
      | None => False
      end
  | None => False
  end.
Proof. exact uncovered_close_goes_stale. Qed.

(* exchangeUpdated as the pinned tree had it (re-score the announced peer only): a call in flight
   over the alias connection leaves the alias peer with the score of an idle connection
   (finding c15:alias-pending-stale, fixed) *)
Example C15_example_uncovered_exch_stale :
  match seq_run (s_init 0) alias_setup with
  | Some s0 =>
      good (ck_of s0) exch_announced_only = false /\
      match run_prog s0 exch_announced_only with
      | Some s1 => quiescent s1 = true /\ stale_entries s1 = [(0%nat, hp_a, 2 ^ 31 - 1, 2 ^ 31)]
      | None => False
      end
  | None => False
  end.
Proof. exact uncovered_exch_goes_stale. Qed.

(* the same history with the model's (= the code's) programs: calls start and finish, the connection
   closes, both peers end as unconnected; the hypotheses of C15_score_fresh are satisfiable *)
Example C15_example_alias_fresh :
  match seq_run (s_init 0) (alias_setup ++ [OExch 1 1; OExch 1 1; OExch 1 (-1); OClose 1]) with
  | Some s =>
      quiescent s = true /\ stale_entries s = [] /\
      map (fun x => (ps_hp x, ps_score x)) (flat_map (fun cl => pl_arr (cl_pl cl)) (ss_lists s)) =
        [(hp_r, 2 ^ 64 - 1); (hp_a, 2 ^ 64 - 1)]
  | None => False
  end.
Proof. exact covered_close_stays_fresh. Qed.

(* lock-region tables that are NOT safe: PeerList.Add scoring the peer before it takes the write
   lock, and onPeerChange as the pinned tree had it (GetScore between the read-locked lookup and
   the write-locked update: finding c15:onpeerchange-lost-update, fixed) *)
Example C15_example_unsafe_regions :
  region_safe [(0, 30); (0, 7); (0, 29); (1, 27); (0, 20); (2, 21); (2, 7); (2, 36); (2, 38); (2, 22); (2, 25); (2, 38); (2, 7)] = false /\
  region_safe [(1, 31); (1, 27); (0, 7); (0, 20); (0, 38); (0, 7); (2, 24); (2, 38)] = false.
Proof. vm_compute. split; reflexivity. Qed.
