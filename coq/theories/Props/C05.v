(* Property C05 -- Every call ends in exactly one outcome by its deadline, under any fault.
   This file contains only statements, each closed by [exact].
   Definitions used: Spec/FragSpec.v (denote), Spec/FragOk.v (frames_ok, ck_chain),
   Proofs/FragRP.v (wf, arg_read, arg_ok, data_of), Model/Cut.v (read_frames, recv_outcome,
   call_outcome, cut_at), Proofs/CutP.v (stream_of, msg_frames, fits, hdr_parses),
   Spec/WaitSpec.v (wsite, has_deadline_exit), Gen/GenWaitSites.v (wait_sites: regenerated
   from the Go source on every run), Model/CallPath.v (run_path, lstep, lrun). *)
From Coq Require Import ZArith List Bool.
From Verif Require Import Base.Wrap Base.Bytes Gen.GenConsts Gen.GenFrame Gen.GenWaitSites
  Model.TypedBuf Model.Messages Model.Crc Model.Frag Model.FragWire Model.Cut Model.CallPath
  Spec.FragSpec Spec.FragOk Spec.Protocol Spec.WaitSpec
  Proofs.CodecP Proofs.FrameP Proofs.FragRP Proofs.CutP Proofs.CallPathP.
Import ListNotations.
Local Open Scope Z_scope.

(* ======================= clause (a): complete correct response or error ================== *)

(* CUT BETWEEN FRAGMENTS, any read pattern.  For every well-formed fragment sequence fs with
   valid running checksums that denotes [a1;a2;a3], every k < |fs| (the receiver gets an error
   after the first k fragments: connection closed, half-closed or stalled), and ALL read
   sizes >= 0: the reader does not panic, never reads all three arguments successfully,
   never becomes Complete; an argument whose Begin/reads/Close all succeeded is exactly the
   argument that was sent; all data handed out is a prefix of the right argument. *)
Theorem C05_prefix_never_success : forall fs ck0 a1 a2 a3,
  wf fs -> ck_new (first_ctype fs) = Some ck0 -> ck_chain ck0 fs ->
  denote (chunks_of fs) = [a1; a2; a3] ->
  forall k, (k < length fs)%nat ->
  forall ns1 ns2 ns3,
  Forall (fun n => 0 <= n) ns1 -> Forall (fun n => 0 <= n) ns2 -> Forall (fun n => 0 <= n) ns3 ->
  exists cb1 l1 cc1 st1 cb2 l2 cc2 st2 cb3 l3 cc3 st3,
    arg_read false ns1 (r_init (firstn k fs)) = Some (cb1, l1, cc1, st1) /\
    arg_read false ns2 st1 = Some (cb2, l2, cc2, st2) /\
    arg_read true ns3 st2 = Some (cb3, l3, cc3, st3) /\
    ~ (arg_ok cb1 l1 cc1 /\ arg_ok cb2 l2 cc2 /\ arg_ok cb3 l3 cc3) /\
    rs_state st3 <> c_fragmentingReadComplete /\
    (arg_ok cb1 l1 cc1 -> data_of l1 = a1) /\ (arg_ok cb2 l2 cc2 -> data_of l2 = a2) /\
    (exists r1, a1 = data_of l1 ++ r1) /\ (exists r2, a2 = data_of l2 ++ r2) /\ (exists r3, a3 = data_of l3 ++ r3).
Proof. exact cut_reader_safe. Qed.

(* the caller's three ArgReadHelper reads (raw.Call): an error for every proper prefix of the
   fragments, exactly [a1;a2;a3] for the whole sequence; no other success value exists *)
Theorem C05_outcome_fragments : forall fs ck0 a1 a2 a3,
  wf fs -> ck_new (first_ctype fs) = Some ck0 -> ck_chain ck0 fs ->
  denote (chunks_of fs) = [a1; a2; a3] ->
  forall n1 n2 n3, 0 < n1 -> 0 < n2 -> 0 < n3 ->
  forall k, (k <= length fs)%nat ->
  call_outcome n1 n2 n3 (firstn k fs) = if (k <? length fs)%nat then OErr else OOk [a1; a2; a3].
Proof. exact cut_call_outcome. Qed.

(* CUT AT ANY BYTE.  The frame loop on the first n bytes of a stream of well-formed frames
   yields exactly the frames completely contained in those bytes (a truncated header or
   payload is a short read, never a frame): all of them iff n is the stream length. *)
Theorem C05_frames_of_prefix : forall frs, Forall wframe_ok frs ->
  forall n fuel, (n <= length (stream_of frs))%nat -> (n < fuel)%nat ->
  exists k, (k <= length frs)%nat /\
            fst (read_frames fuel (firstn n (stream_of frs))) = map hp_of (firstn k frs) /\
            ((n < length (stream_of frs))%nat -> (k < length frs)%nat) /\
            (n = length (stream_of frs) -> k = length frs).
Proof. exact read_frames_cut. Qed.

(* END TO END on the receiving side of either direction (mt0/mtc = call res/call res continue
   at the caller, call req/call req continue at the handler): for every message id, header
   that the message type parses, fragment sequence as above whose frames fit, and EVERY
   byte offset 0 <= n <= |stream|: frame loop + dispatch by id + fragment parser + reader +
   three helper reads give an error when n < |stream| and exactly [a1;a2;a3] when n = |stream|. *)
Theorem C05_cut_any_byte : forall mt0 mtc id hdr0,
  u_ok 1 mt0 -> u_ok 1 mtc -> u_ok 4 id -> hdr_parses mt0 hdr0 -> hdr_parses mtc [] ->
  forall fs ck0 a1 a2 a3,
  wf fs -> ck_new (first_ctype fs) = Some ck0 -> ck_chain ck0 fs ->
  denote (chunks_of fs) = [a1; a2; a3] -> fits hdr0 fs ->
  forall n1 n2 n3, 0 < n1 -> 0 < n2 -> 0 < n3 ->
  let stream := stream_of (msg_frames true mt0 mtc id hdr0 fs) in
  forall n, 0 <= n <= zlen stream ->
  recv_outcome id mt0 mtc n1 n2 n3 (cut_at n stream) = if n <? zlen stream then OErr else OOk [a1; a2; a3].
Proof. exact cut_stream_outcome. Qed.

(* the header hypotheses hold for every in-limit call res / call req header and for continuations *)
Theorem C05_headers_parse :
  (forall m, callres_ok m -> hdr_parses c_messageTypeCallRes (spec_callres m)) /\
  (forall m ttl, callreq_ok m ttl -> hdr_parses c_messageTypeCallReq (spec_callreq m ttl)) /\
  hdr_parses c_messageTypeCallResContinue [] /\ hdr_parses c_messageTypeCallReqContinue [].
Proof. exact headers_parse. Qed.

(* ONE OUTCOME (partial; superseded by C05_one_outcome / C05_success_is_denotation below, which
   cover hostile fragments and arbitrary scripts).  Wanted: for every input (also hostile fragments) the caller sees
   exactly one terminal event, success xor error, and nothing after an error succeeds.
   Proved here: once the reader's error is set (any state, any input), every later argument
   read returns that error, no data, and does not change the state.  That every error CODE
   returned also sets the error is proved for well-formed sequences only (C01_exact_read:
   sticky); the delivery race between the exchange's error latch and queued frames
   (mex.recvPeerFrame) is checked by the engine's oracle only. *)
Theorem C05_one_outcome_partial : forall last ns st e, rs_err st = e -> e <> 0 ->
  arg_read last ns st = Some (e, map (fun _ => ([], e)) ns, e, st).
Proof. exact arg_read_err. Qed.

(* ======================= clause (b): control returns by the deadline ===================== *)

(* THE GENERATED TABLE: every blocking statement on the outbound call path (closure of the
   call API under the static call graph, see Gen/GenWaitSites.v) offers an exit bound to the
   caller's deadline (ctx.Done() or a connection deadline set from the context) -- except the
   release of the new-connection semaphore, which never blocks (C05_release_never_blocks). *)
Theorem C05_wait_exits : Forall (fun w => has_deadline_exit w \/ is_release w) wait_sites.
Proof. exact wait_sites_ok. Qed.

(* no mutex of the package is held across network I/O, and no such Lock is on the path *)
Theorem C05_no_lock_across_io : io_lock_count = 0 /\ Forall (fun w => ws_kind w <> WLock) wait_sites.
Proof. exact no_lock_across_io. Qed.

(* the semaphore of peer.go: any number of callers, any interleaving of enter / acquire /
   give up / release: at most one holder, the slot holds a token exactly while there is a
   holder, and the holder's release is always enabled *)
Theorem C05_release_never_blocks : forall ca n ls s, lrun ca (linit n) ls = Some s ->
  holders s <= 1 /\ l_tok s = holders s /\
  forall i, nth i (l_pcs s) LDone = LHold -> lstep ca s (LRelease i) <> None.
Proof. exact connlock_safe. Qed.

(* ... and a waiting caller can always leave through its context *)
Theorem C05_waiter_can_leave : forall s i, nth i (l_pcs s) LDone = LWait -> lstep true s (LGiveUp i) <> None.
Proof. exact connlock_waiter_can_leave. Qed.

(* DEADLINE (partial: time-abstract).  Wanted: raw.Call returns by deadline + slack on the
   wall clock.  Proved: in the model where code between blocking statements takes no time
   and a blocked goroutine wakes as soon as an exit fires, for every deadline dl, every
   moment dc <= dl at which the context is done (deadline or cancellation), EVERY sequence
   of waits each of which has a deadline exit or finds its event already there, every
   timing of data / error / timer events and every start time t, the goroutine is past the
   last wait no later than max(t, dl).  Missing (measured by the engine, not provable
   here): wake-up latency of the Go runtime, run time of the non-blocking code, accuracy
   of timers; and the table is a syntactic approximation of the code (trusted base). *)
Theorem C05_deadline_partial : forall dc dl, dc <= dl -> forall path,
  Forall (fun s => p_ready s = true \/ has_deadline_exit (p_site s)) path ->
  forall t, exists t', run_path dc dl path t = Some t' /\ t <= t' /\ t' <= Z.max t dl.
Proof. exact path_by_deadline. Qed.

(* the criterion is necessary in that model: a wait without a deadline exit blocks for ever
   when none of its events happens *)
Theorem C05_exit_needed : forall w, has_deadline_exitb w = false ->
  forall dc dl t, wait_leave dc dl w (mkEv None None None) t = None.
Proof. exact no_deadline_exit_blocks. Qed.

(* the shape the pinned tree had (a plain mutex around Connect, repaired by the fix: commit
   in peer.go): a caller queued behind a holder has no enabled step at all *)
Theorem C05_plain_mutex_would_block : exists ls s,
  lrun false (linit 2) ls = Some s /\ nth 1 (l_pcs s) LDone = LWait /\ nth 0 (l_pcs s) LDone = LHold /\
  lstep false s (LEnter 1) = None /\ lstep false s (LAcquire 1) = None /\
  lstep false s (LGiveUp 1) = None /\ lstep false s (LRelease 1) = None.
Proof. exact connlock_mutex_blocks. Qed.

(* dial and handshake run under the caller's deadline (or the earlier connect timeout);
   without a deadline the handshake gets 5 s *)
Theorem C05_ttl_budget :
  (forall now d ct, connect_deadline now d ct <= d) /\
  (forall now d, init_deadline now (Some d) = d /\ init_deadline now None = now + 5 * 1000000000).
Proof. exact (conj connect_budget init_budget). Qed.

Print Assumptions C05_prefix_never_success.
Print Assumptions C05_outcome_fragments.
Print Assumptions C05_frames_of_prefix.
Print Assumptions C05_cut_any_byte.
Print Assumptions C05_headers_parse.
Print Assumptions C05_one_outcome_partial.
Print Assumptions C05_wait_exits.
Print Assumptions C05_no_lock_across_io.
Print Assumptions C05_release_never_blocks.
Print Assumptions C05_waiter_can_leave.
Print Assumptions C05_deadline_partial.
Print Assumptions C05_exit_needed.
Print Assumptions C05_plain_mutex_would_block.
Print Assumptions C05_ttl_budget.

(* ---------------- non-vacuity ---------------- *)
(* the premises hold for a concrete 3-fragment message with each checksum type, and the
   outcome over ALL byte offsets of its call res stream is as stated *)
Definition ex_res_hdr : list Z := spec_callres (mkCallRes 0 (mkSpan 1 2 3 1) [([97;115], [114;97;119])]).
Definition ex_stream (c : ckst) : list Z :=
  stream_of (msg_frames true c_messageTypeCallRes c_messageTypeCallResContinue 7 ex_res_hdr (seal c ex_layout)).

Example C05_example_premises : forall c, In c [mkCk 0 0; mkCk 1 0; mkCk 3 0] ->
  wf (seal c ex_layout) /\ ck_new (first_ctype (seal c ex_layout)) = Some c /\ ck_chain c (seal c ex_layout) /\
  denote (chunks_of (seal c ex_layout)) = [[1;2]; [3;4]; [5;6]].
Proof. exact ex_premises. Qed.

Example C05_example_all_offsets :
  forallb (fun c =>
    forallb (fun n =>
      match recv_outcome 7 c_messageTypeCallRes c_messageTypeCallResContinue 512 512 512 (cut_at (Z.of_nat n) (ex_stream c)) with
      | OErr => Z.of_nat n <? zlen (ex_stream c)
      | OOk args => (Z.of_nat n =? zlen (ex_stream c)) &&
                    match args with [a1; a2; a3] => bytes_eqb a1 [1;2] && bytes_eqb a2 [3;4] && bytes_eqb a3 [5;6] | _ => false end
      | OPanic => false
      end) (seq 0 (S (length (ex_stream c)))))
    [mkCk 0 0; mkCk 1 0; mkCk 3 0] = true /\ (length (ex_stream (mkCk 1 0)) > 100)%nat.
Proof. vm_compute. split; [reflexivity|]. repeat constructor. Qed.

(* the table is not empty and contains the sites the property text names; the shape of the
   pinned tree's lock site fails the criterion *)
Example C05_example_table :
  (7 <= length wait_sites)%nat /\
  existsb (fun w => wkind_eqb (ws_kind w) WDial) wait_sites = true /\
  existsb (fun w => wkind_eqb (ws_kind w) WNetIO) wait_sites = true /\
  (3 <= length (filter (fun w => wkind_eqb (ws_kind w) WSelect && existsb (wexit_eqb XErrLatch) (ws_exits w)) wait_sites))%nat /\
  has_deadline_exitb (mkWsite [80;101;101;114;46;71;101;116;67;111;110;110;101;99;116;105;111;110] WLock []) = false.
Proof. vm_compute. repeat split; repeat constructor. Qed.

(* a path through the real table: lock wait, dial, handshake write+read, send, receive --
   with a peer that never answers (no data event anywhere) control is back at the deadline *)
Example C05_example_path :
  let silent := mkEv None None None in
  run_path 1000 1000 (map (fun w => mkStep w silent false) (filter has_deadline_exitb wait_sites)) 0 = Some 1000.
Proof. vm_compute. reflexivity. Qed.

(* ===================================================================================== *)
(* HOSTILE INPUT (strengthening).  Definitions: Proofs/HostileP.v (r_step, r_trace, op_ok,     *)
(* frag_parsed, tr_obs, completions, complete_ok, dfrag), Model/Budget.v, Gen/GenBudget.v.     *)
(* ===================================================================================== *)
From Verif Require Import Gen.GenBudget Model.Budget Proofs.PeerInputP Proofs.HostileP Proofs.BudgetP.

(* every fragment the fragment parser accepts, for ANY payload bytes and message type, has a
   known checksum type and a checksum field of that type's size: the premise of the next theorems *)
Theorem C05_parser_output_parsed : forall mt payload f, bytes_ok payload = true ->
  parse_frag_payload mt payload = (0, f) -> frag_parsed f.
Proof. exact parsed_frag_parsed. Qed.

(* ONE OUTCOME, for ANY fragment list (any chunk structure, checksum fields, more-flags) whose
   fragments passed the parser and ANY script of Begin / Read(n) / Close / helper reads (helper
   buffer size > 0): the reader model never panics; every error code returned (anything but
   nil and io.EOF) is also the reader's sticky error, and from the first error on every
   operation returns that error and no data ([sticky]); at most one operation of the script
   takes the reader into state Complete; and whenever the reader is Complete the fragments it
   consumed form a well-formed message (each fragment has a chunk, the more-fragments flag is
   set on all but the last, clear on the last) whose every checksum verified against the
   running checksum of the first fragment's type. *)
Theorem C05_one_outcome : forall fs ops, Forall frag_parsed fs -> Forall op_ok ops ->
  exists t, r_trace ops (r_init fs) = Some t /\ length t = length ops /\
    Forall (fun x => is_err (snd (fst x)) -> rs_err (snd x) = snd (fst x)) t /\
    sticky (tr_obs t) /\
    (completions (r_init fs) t <= 1)%nat /\
    Forall (fun x => rs_state (snd x) = c_fragmentingReadComplete -> complete_ok fs (snd x)) t.
Proof. exact hostile_reader. Qed.

(* ... and Complete is absorbing: once there, every operation fails without handing out data *)
Theorem C05_complete_absorbing : forall o st, op_ok o -> hs st -> rs_state st = c_fragmentingReadComplete ->
  exists c st', r_step o st = Some ([], c, st') /\ is_err c /\ rs_state st' = c_fragmentingReadComplete /\ rs_in st' = rs_in st.
Proof. exact complete_absorbing. Qed.

(* the caller's three helper reads on a prefix of ANY fragment list: an error, or exactly the
   outcome on the whole list (fragments that follow never turn a success into something else) *)
Theorem C05_more_fragments_never_alter : forall n1 n2 n3 pre post, 0 < n1 -> 0 < n2 -> 0 < n3 ->
  call_outcome n1 n2 n3 pre = OErr \/ call_outcome n1 n2 n3 (pre ++ post) = call_outcome n1 n2 n3 pre.
Proof. exact call_outcome_ext. Qed.

(* PREFIX NEVER SUCCESS, ARBITRARY PEER STREAMS.  For ANY byte stream (not only one a writer
   produced), any message id / message types and EVERY byte offset n at which the stream is
   cut, half-closed or stalled: the receiving side (frame loop, dispatch by id, fragment
   parser, reader, three helper reads) does not panic, and its outcome on the first n bytes
   is an error or is the outcome on the whole stream -- a cut never produces a success and
   never alters one. *)
Theorem C05_prefix_never_success_hostile : forall id mt0 mtc n1 n2 n3 stream, 0 < n1 -> 0 < n2 -> 0 < n3 ->
  bytes_ok stream = true -> forall n,
  recv_outcome id mt0 mtc n1 n2 n3 (cut_at n stream) <> OPanic /\
  (recv_outcome id mt0 mtc n1 n2 n3 (cut_at n stream) = OErr \/
   recv_outcome id mt0 mtc n1 n2 n3 (cut_at n stream) = recv_outcome id mt0 mtc n1 n2 n3 stream).
Proof. exact hostile_stream_cut. Qed.

(* BUDGETS AGAINST THE SOURCE.  The hand-written handshake deadline is the function go2v
   regenerates from setInitDeadline on every run; the connect budget is Channel.Connect's
   context.WithTimeout on a context with a deadline; for every context and connect timeout
   the dialer's context ends no later than the caller's and the handshake deadline is the
   dialer context's deadline (5 s from the handshake when there is none). *)
Theorem C05_init_deadline_generated : forall now od,
  init_deadline now od =
  setInitDeadline now (match od with Some _ => true | None => false end) (match od with Some d => d | None => 0 end).
Proof. exact init_deadline_generated. Qed.

Theorem C05_connect_ctx_deadline : forall now d ct, connect_ctx now (Some d) ct = Some (connect_deadline now d ct).
Proof. exact connect_ctx_deadline. Qed.

Theorem C05_budget_bounds : forall now now' od ct,
  (forall d, od = Some d -> exists d', connect_ctx now od ct = Some d' /\ d' <= d /\ handshake_deadline now now' od ct = d') /\
  (0 < ct -> exists d', connect_ctx now od ct = Some d' /\ d' <= now + ct /\ handshake_deadline now now' od ct = d') /\
  (od = None -> ct <= 0 -> connect_ctx now od ct = None /\ handshake_deadline now now' od ct = now' + 5000000000).
Proof. exact budget_bounds. Qed.

(* SUCCESS ON HOSTILE INPUT IS A DENOTATION.  For ANY fragment list that passed the parser: if
   the caller's three helper reads all succeed, the list splits into the consumed fragments
   [pre] and an untouched rest; [pre] is a well-formed message (each fragment has a chunk, the
   more-fragments flag is set on all but the last) whose every checksum verified; and the
   arguments returned are exactly what [pre] denotes by the protocol document (Spec/FragSpec.v).
   So a partial, altered or foreign response is reported as success only if it carries
   valid running checksums over a complete message (C02 bounds how likely that is). *)
Theorem C05_success_is_denotation : forall n1 n2 n3 fs args, 0 < n1 -> 0 < n2 -> 0 < n3 ->
  Forall frag_parsed fs -> call_outcome n1 n2 n3 fs = OOk args ->
  exists pre post c0, fs = pre ++ post /\ wf pre /\ ck_new (first_ctype pre) = Some c0 /\ ck_chain c0 pre /\
    f_more (last pre dfrag) = false /\ args = denote (chunks_of pre).
Proof. exact hostile_success_denote. Qed.

(* ... end to end for ARBITRARY peer bytes: the receiving side of a call (frame loop, dispatch
   by id, fragment parser, reader, helper reads) reports success only with the denotation of a
   checksum-verified well-formed message among the fragments the stream delivered *)
Theorem C05_stream_success_is_denotation : forall id mt0 mtc n1 n2 n3 stream args, 0 < n1 -> 0 < n2 -> 0 < n3 ->
  bytes_ok stream = true -> recv_outcome id mt0 mtc n1 n2 n3 stream = OOk args ->
  exists pre post c0, delivered id mt0 mtc stream = pre ++ post /\ wf pre /\ ck_new (first_ctype pre) = Some c0 /\
    ck_chain c0 pre /\ f_more (last pre dfrag) = false /\ args = denote (chunks_of pre).
Proof. exact hostile_stream_success. Qed.

Print Assumptions C05_success_is_denotation.
Print Assumptions C05_stream_success_is_denotation.
Print Assumptions C05_parser_output_parsed.
Print Assumptions C05_one_outcome.
Print Assumptions C05_complete_absorbing.
Print Assumptions C05_more_fragments_never_alter.
Print Assumptions C05_prefix_never_success_hostile.
Print Assumptions C05_init_deadline_generated.
Print Assumptions C05_connect_ctx_deadline.
Print Assumptions C05_budget_bounds.

(* ---------------- non-vacuity (hostile) ---------------- *)
(* hostile fragment lists: a forged checksum, a more-flag on the last fragment, a fragment
   after the last one, a fragment without chunks -- all [frag_parsed]; a script with reads
   of size 0, 1 and 1000 and stray operations: the trace exists (no panic), errors are
   sticky, and the reader is Complete only in the one list whose checksums are right *)
Definition hx_good : list frag := seal (mkCk 1 0) ex_layout.
Definition hx_forged : list frag :=
  match hx_good with f :: r => mkFrag (f_more f) (f_ctype f) [1; 2; 3; 4] (f_chunks f) :: r | [] => [] end.
Definition hx_trailing : list frag := hx_good ++ hx_good.
Definition hx_nochunks : list frag := [mkFrag false 0 [] []].
Definition hx_script : list rop :=
  [RClose; RBegin false; RRead 0; RRead 1; RRead 1000; RClose; RBegin false; RHelper 512; RBegin true; RHelper 7; RBegin true; RRead 3; RClose].

Definition frag_parsedb (f : frag) : bool :=
  match ck_new (f_ctype f) with None => false | Some _ => zlen (f_ck f) =? ChecksumSize (f_ctype f) end.

Example C05_example_hostile :
  forallb (fun fs => forallb frag_parsedb fs) [hx_good; hx_forged; hx_trailing; hx_nochunks] = true /\
  (* the well-formed list read by helpers: success, Complete exactly at the end *)
  call_outcome 512 512 512 hx_good = OOk [[1;2]; [3;4]; [5;6]] /\
  (* trailing fragments after a complete message do not alter the success; the forged checksum,
     and the chunk-less fragment, are errors *)
  call_outcome 512 512 512 hx_trailing = OOk [[1;2]; [3;4]; [5;6]] /\
  call_outcome 512 512 512 hx_forged = OErr /\ call_outcome 512 512 512 hx_nochunks = OErr /\
  (* the stray script never panics on any of them *)
  forallb (fun fs => match r_trace hx_script (r_init fs) with Some _ => true | None => false end)
          [hx_good; hx_forged; hx_trailing; hx_nochunks] = true /\
  (* without the parser's guarantee the model DOES panic (unknown checksum type 9): the premise is needed *)
  r_trace [RBegin false] (r_init [mkFrag false 9 [] [[1]]]) = None.
Proof. vm_compute. repeat split; reflexivity. Qed.

(* the success on the list with trailing fragments is the denotation of its verified prefix *)
Example C05_example_denotation :
  call_outcome 512 512 512 hx_trailing = OOk (denote (chunks_of hx_good)) /\ hx_trailing = hx_good ++ hx_good /\
  ck_chain (mkCk 1 0) hx_good /\ denote (chunks_of hx_trailing) <> denote (chunks_of hx_good).
Proof. split; [vm_compute; reflexivity|]. split; [reflexivity|]. split; [apply seal_chain|]. vm_compute. discriminate. Qed.

(* arbitrary bytes as a peer stream: garbage, and a valid stream with garbage appended, at all offsets *)
Example C05_example_hostile_stream :
  let s := ex_stream (mkCk 1 0) ++ [0; 16; 4; 0; 0; 0; 0; 7; 0; 0; 0; 0; 0; 0; 0; 0; 255; 255] in
  forallb (fun n =>
    match recv_outcome 7 c_messageTypeCallRes c_messageTypeCallResContinue 512 512 512 (cut_at (Z.of_nat n) s) with
    | OErr => Z.of_nat n <? zlen (ex_stream (mkCk 1 0))
    | OOk args => (zlen (ex_stream (mkCk 1 0)) <=? Z.of_nat n) &&
                  match args with [a1; a2; a3] => bytes_eqb a1 [1;2] && bytes_eqb a2 [3;4] && bytes_eqb a3 [5;6] | _ => false end
    | OPanic => false
    end) (seq 0 (S (length s))) = true.
Proof. vm_compute. reflexivity. Qed.

(* the budget model on concrete numbers: connect timeout below / above the deadline, none *)
Example C05_example_budget :
  connect_ctx 10 (Some 300) 100 = Some 110 /\ connect_ctx 10 (Some 300) 1000 = Some 300 /\ connect_ctx 10 (Some 300) 0 = Some 300 /\
  connect_ctx 10 None 0 = None /\ handshake_deadline 10 12 None 0 = 12 + 5000000000 /\ handshake_deadline 10 12 (Some 300) 100 = 110.
Proof. vm_compute. repeat split; reflexivity. Qed.

(* ===================================================================================== *)
(* LOCKS AS BLOCKING SITES (strengthening).  A sync.Mutex acquisition has no exit bound to   *)
(* the caller's deadline; it is bounded only through the lock discipline of EVERY user of    *)
(* the mutex.  Definitions: Spec/LockProgSpec.v (lock programs, their executions xs/xb with the  *)
(* trace of lock events, exit_clean, ev_ok, lock_disciplined, plain_mutex), Model/LockProg.v *)
(* (checker fn_ok; thread model tstep/trun, ops_ok, sections_left), Gen/GenLockProgs.v       *)
(* (lockp_progs, lockp_mutexes, lockp_sites, lockp_sites_conn: regenerated from the Go source on *)
(* every run by go2v/lockprogs.go), Proofs/LockProgP.v.                                      *)
(* ===================================================================================== *)
From Verif Require Import Spec.LockProgSpec Gen.GenLockProgs Model.LockProg Proofs.LockProgP.

(* THE GENERATED LOCK PROGRAMS.  For every function and function literal of package tchannel
   that performs a lock operation (control-flow skeleton regenerated from the source), EVERY
   execution of the skeleton -- all branches, any number of loop iterations --
     - that ends in a return or at the end of the body holds no lock after the deferred
       unlocks have run, and never releases a lock it does not hold           (balance),
     - executes a blocking statement (select without default, channel operation, network
       I/O, dial, Wait, Sleep; here or in a callee of the static call graph) only while no
       plain mutex is held (the context-aware semaphore of peer.go may be)  (no blocking),
     - takes a mutex (here or in a callee) only if it is strictly smaller, in the numbering
       of lockp_mutexes, than every lock held at that moment            (order, no re-entry). *)
Theorem C05_lock_discipline_generated : Forall (lock_disciplined (sem_of lockp_mutexes)) lockp_progs.
Proof. exact lock_progs_disciplined. Qed.

(* the checker that decides this over the generated programs is sound for every execution,
   for any program and any set of semaphores *)
Theorem C05_lock_checker_sound : forall sem f, fn_ok sem f = true -> lock_disciplined sem f.
Proof. exact fn_ok_sound. Qed.

(* THE COMBINED TABLE.  Every blocking site on the call path -- the waits of C05_wait_exits
   and the lock acquisitions in the closure of the caller-side entry points, of the connection
   goroutines, the inbound side, the relay and the connection failure path -- is either a wait
   with an exit bound to the caller's deadline (ctx.Done() / context-derived connection
   deadline; or the never-blocking semaphore release), or the acquisition of a plain mutex of
   the table, inside a function whose lock program is in the table, all of whose users follow
   the lock discipline. *)
Theorem C05_every_blocking_site_bounded : Forall (bsite_bounded lockp_mutexes lockp_progs) call_path_sites.
Proof. exact all_blocking_sites_bounded. Qed.

(* WHY THE DISCIPLINE BOUNDS A LOCK WAIT.  Threads whose lock operations follow the discipline
   (ops_ok: acquisitions strictly downwards, releases of held mutexes, waits only with nothing
   held, nothing held at the end), any number of them, any interleaving, any timing of the
   environment's events: in every reachable state
     - if some mutex is held, a thread that holds one has an enabled step of its own (no
       deadlock among lock holders, no holder waits for the environment), and
     - the holders alone -- without any event of the environment, timer or step of a thread
       that holds nothing -- reach a state in which every mutex is free in exactly
       sections_left s steps, the number of operations left in the open critical sections.
   A goroutine waiting for a mutex therefore waits no longer than the holders' critical
   sections take, and those contain no blocking statement. *)
Theorem C05_lock_wait_bounded : forall threads ls s,
  Forall (fun ops => ops_ok [] ops = true) threads -> trun (tinit threads) ls = Some s ->
  (~ all_free s -> exists i held ops, nth i s ([], []) = (held, ops) /\ held <> [] /\ exists s1, tstep s (TStep i) = Some s1) /\
  (exists ls' s', Forall is_tstep ls' /\ length ls' = sections_left s /\ trun s ls' = Some s' /\ all_free s').
Proof. exact lock_wait_bounded. Qed.

(* the discipline is necessary: a thread that returns with the mutex held (a return path
   without the matching Unlock) is refused by ops_ok, and a second thread that then wants the
   mutex waits for ever -- no label is enabled in that state, whatever the environment does *)
Theorem C05_leaked_lock_blocks_forever :
  ops_ok [] [OAcq 4] = false /\
  exists s, trun (tinit [[OAcq 4]; [OAcq 4; ORel 4]]) [TStep 0] = Some s /\
    nth 1 s ([], []) = ([], [OAcq 4; ORel 4]) /\ forall l, tstep s l = None.
Proof. exact leaked_lock_blocks. Qed.

(* ... and the lock program of that shape is refused by the checker because it HAS an
   execution that returns holding the lock *)
Theorem C05_leaking_program_refused :
  fn_ok (fun _ => false) ex_leak = false /\ ~ lock_disciplined (fun _ => false) ex_leak /\
  fn_ok (fun _ => false) ex_block = false /\ fn_ok (fun _ => false) ex_order = false /\ fn_ok (fun _ => false) ex_good = true.
Proof. exact (conj (proj1 checker_refuses) (conj leak_not_disciplined (proj2 checker_refuses))). Qed.

(* THE LINK between the two: every execution of a disciplined lock program that does not end
   in a panic performs -- events of its trace, then the deferred unlocks at the exit, operations
   on semaphores left out -- a list of lock operations that the thread model accepts *)
Theorem C05_program_runs_are_threads : forall sem f, lock_disciplined sem f ->
  forall c s tr, xb (lf_body f) hinit c s tr -> c <> CPanic -> ops_ok [] (thread_of_run sem tr s) = true.
Proof. exact run_is_thread. Qed.

(* ... hence for ANY number of goroutines, each executing ANY of the generated lock programs
   along ANY of its paths, in ANY interleaving: in every reachable state a lock holder can move,
   and the holders alone free every mutex within the length of the open critical sections *)
Theorem C05_generated_programs_bound_lock_waits : forall runs : list (lfunc * ltrace * hst),
  Forall (fun r => let '(f, tr, s) := r in In f lockp_progs /\ exists c, c <> CPanic /\ xb (lf_body f) hinit c s tr) runs ->
  forall ls st, trun (tinit (map (fun r => let '(f, tr, s) := r in thread_of_run (sem_of lockp_mutexes) tr s) runs)) ls = Some st ->
  (~ all_free st -> exists i held ops, nth i st ([], []) = (held, ops) /\ held <> [] /\ exists s1, tstep st (TStep i) = Some s1) /\
  (exists ls' s', Forall is_tstep ls' /\ length ls' = sections_left st /\ trun st ls' = Some s' /\ all_free s').
Proof. exact generated_programs_bound_lock_waits. Qed.

Print Assumptions C05_program_runs_are_threads.
Print Assumptions C05_generated_programs_bound_lock_waits.
Print Assumptions C05_lock_discipline_generated.
Print Assumptions C05_lock_checker_sound.
Print Assumptions C05_every_blocking_site_bounded.
Print Assumptions C05_lock_wait_bounded.
Print Assumptions C05_leaked_lock_blocks_forever.
Print Assumptions C05_leaking_program_refused.

(* ---------------- non-vacuity ---------------- *)
(* the generated tables contain the functions, mutexes and acquisitions the property is about *)
Example C05_example_lock_tables :
  (60 <= length lockp_progs)%nat /\ (25 <= length lockp_sites)%nat /\ (50 <= length call_path_sites)%nat /\
  has_prog [109; 101; 115; 115; 97; 103; 101; 69; 120; 99; 104; 97; 110; 103; 101; 83; 101; 116; 46; 110; 101; 119; 69; 120; 99; 104; 97; 110; 103; 101] = true /\ has_prog [109; 101; 115; 115; 97; 103; 101; 69; 120; 99; 104; 97; 110; 103; 101; 83; 101; 116; 46; 114; 101; 109; 111; 118; 101; 69; 120; 99; 104; 97; 110; 103; 101] = true /\ has_prog [109; 101; 115; 115; 97; 103; 101; 69; 120; 99; 104; 97; 110; 103; 101; 83; 101; 116; 46; 115; 116; 111; 112; 69; 120; 99; 104; 97; 110; 103; 101; 115] = true /\ has_prog [67; 111; 110; 110; 101; 99; 116; 105; 111; 110; 46; 114; 101; 97; 100; 83; 116; 97; 116; 101] = true /\
  has_prog [114; 101; 108; 97; 121; 73; 116; 101; 109; 115; 46; 65; 100; 100] = true /\ has_prog [80; 101; 101; 114; 46; 71; 101; 116; 67; 111; 110; 110; 101; 99; 116; 105; 111; 110] = true /\
  has_mutex [109; 101; 115; 115; 97; 103; 101; 69; 120; 99; 104; 97; 110; 103; 101; 83; 101; 116] = true /\ has_mutex [67; 111; 110; 110; 101; 99; 116; 105; 111; 110; 46; 115; 116; 97; 116; 101; 77; 117; 116] = true /\ has_mutex [114; 101; 108; 97; 121; 73; 116; 101; 109; 115] = true /\ has_mutex [80; 101; 101; 114] = true /\
  Nat.leb 5 (sites_of_mutex [109; 101; 115; 115; 97; 103; 101; 69; 120; 99; 104; 97; 110; 103; 101; 83; 101; 116]) = true /\ Nat.leb 3 (sites_of_mutex [67; 111; 110; 110; 101; 99; 116; 105; 111; 110; 46; 115; 116; 97; 116; 101; 77; 117; 116]) = true /\ Nat.leb 4 (sites_of_mutex [114; 101; 108; 97; 121; 73; 116; 101; 109; 115]) = true.
Proof. vm_compute. repeat split; repeat constructor. Qed.

(* the thread model's hypotheses hold for a concrete system with a nested acquisition, and a
   waiter exists in a reachable state of it *)
Example C05_example_threads : Forall (fun ops => ops_ok [] ops = true) ex_threads /\
  exists s, trun (tinit ex_threads) [TStep 1; TStep 1] = Some s /\ sections_left s = 2%nat /\ tstep s (TStep 0) = None.
Proof. exact ex_threads_ok. Qed.

(* ===================================================================================== *)
(* ERROR NOTIFICATION AGAINST PENDING FRAMES (strengthening).  Clause (a) under every          *)
(* scheduling of the error notification against pending frames: between the byte stream and    *)
(* the fragment reader sits the call's exchange (mex.go): a bounded queue filled by the       *)
(* connection reader (forwardPeerFrame), emptied by the caller (recvPeerFrame), with an error *)
(* latch that any goroutine may set (stopExchanges after a connection error).                 *)
(* Definitions: Spec/ChanProg.v (the vocabulary of channel programs), Gen/GenMexProg.v        *)
(* (mexForwardPeerFrame, mexRecvPeerFrame: REGENERATED from mex.go on every run by            *)
(* go2v/chanprog.go), Model/MexProg.v (meaning of a channel program on an exchange;            *)
(* prog_step_obs), Model/Mex.v (the interleaving system of C04: step_obs, run, ghost history  *)
(* g_received, s_wire), Proofs/MexP.v (window), Proofs/ErrQP.v (prog_run, frs_of, gap_fs),    *)
(* Model/ErrQ.v (the scenario semantics the engine errq compares the implementation with).    *)
(* ===================================================================================== *)
From Verif Require Import Spec.ChanProg Gen.GenMexProg Spec.Demux Model.Mex Proofs.MexP Model.MexProg Proofs.MexProgP
  Model.ErrQ Proofs.ErrQP.

(* THE TIE TO THE SOURCE.  The order of the tests in messageExchange.forwardPeerFrame -- context
   error, frameDropped, then the select {room in recvCh | context done | error latch: one last
   non-blocking send, else set frameDropped and refuse} -- and in messageExchange.recvPeerFrame --
   context error, then select {a queued frame (checked against the exchange's id) | context done |
   error latch: one last non-blocking receive, else the latched error} -- as regenerated from
   mex.go, interpreted as one atomic action per run-to-select / per communication, give EXACTLY
   the steps LFwdCheck, LFwdSend, LFwdCtxDone, LFwdErr, LRecvCheck, LRecvFrame, LRecvCtxDone,
   LRecvErr of the exchange model, in every state.  Any edit of the two functions that changes
   a test, a case, a result or their order changes the generated programs and breaks this proof. *)
Theorem C05_exchange_steps_generated : forall s l,
  prog_step_obs mexForwardPeerFrame mexRecvPeerFrame s l = step_obs true s l.
Proof. exact prog_step_generated. Qed.

(* ... hence every schedule of the regenerated system is a schedule of the model (and C04's
   theorems about [run] hold of it) *)
Theorem C05_generated_runs : forall ls, prog_run ls = run ls.
Proof. exact prog_run_is_run. Qed.

(* NO GAP => SUCCESS IS WHAT WAS SENT.  For EVERY schedule of the exchange set -- any
   interleaving of frame arrivals (of any number of calls), deliveries, refusals (context done;
   error latch set with a full buffer; an earlier frame dropped), takes by the receiver, error
   notifications from any goroutine (stopExchanges), shutdowns, expiries -- and every exchange e:
   if the frames that arrived for e carry, in order, an initial part of the fragments fs the
   peer's writer produced for (a1,a2,a3), then after ANY number k of frames taken by e's receiver
   the fragments it holds are an initial part of fs (no hole, no reordering, nothing foreign), the
   caller's three reads on them give an error or exactly [a1;a2;a3], and they give a success only
   when the receiver holds ALL of fs. *)
Theorem C05_queue_success_is_sent : forall ls s r e (payload : Z -> frag) fs ck0 a1 a2 a3,
  prog_run ls = Some s -> nth_error (s_mexes s) r = Some e ->
  prefix (frs_of payload (window e (s_wire s))) fs ->
  wf fs -> ck_new (first_ctype fs) = Some ck0 -> ck_chain ck0 fs ->
  denote (chunks_of fs) = [a1; a2; a3] ->
  forall n1 n2 n3, 0 < n1 -> 0 < n2 -> 0 < n3 ->
  forall k, let got := frs_of payload (firstn k (g_received (m_g e))) in
    prefix got fs /\
    (call_outcome n1 n2 n3 got = OErr \/ call_outcome n1 n2 n3 got = OOk [a1; a2; a3]) /\
    (call_outcome n1 n2 n3 got <> OErr -> got = fs).
Proof. exact errq_success_is_sent. Qed.

(* ... and for ANY frames a peer may send (C05_success_is_denotation behind the exchange): a
   success is the denotation of a checksum-verified well-formed message that is an INITIAL PART,
   in arrival order, of the frames that reached the exchange -- never of a sequence with a frame
   left out *)
Theorem C05_queue_success_is_denotation : forall ls s r e (payload : Z -> frag) n1 n2 n3 k args,
  0 < n1 -> 0 < n2 -> 0 < n3 ->
  prog_run ls = Some s -> nth_error (s_mexes s) r = Some e ->
  (forall t, frag_parsed (payload t)) ->
  call_outcome n1 n2 n3 (frs_of payload (firstn k (g_received (m_g e)))) = OOk args ->
  exists pre post c0, frs_of payload (window e (s_wire s)) = pre ++ post /\ wf pre /\
    ck_new (first_ctype pre) = Some c0 /\ ck_chain c0 pre /\ f_more (last pre dfrag) = false /\
    args = denote (chunks_of pre).
Proof. exact errq_success_is_denotation. Qed.

(* THE CLAUSE HAS TEETH.  The same statement is FALSE of the code without the frameDropped flag
   (Mex.v's [run_pinned]; the pinned tree, finding c04:frame-gap-after-error-latch): with frames
   that carry no checksum, the schedule {frames 1, 2 queued; error notified; frame 3 dropped on
   the full buffer; the receiver takes frame 1; frame 4 accepted} ends in SUCCESS with arg3 =
   [5;6;8] where the peer sent [5;6;7;8]. *)
Theorem C05_queue_gap_pinned_refuted : exists ls s e args,
  run_pinned ls = Some s /\ nth_error (s_mexes s) 0 = Some e /\
  frs_of gap_payload (window e (s_wire s)) = gap_fs /\
  call_outcome 512 512 512 (frs_of gap_payload (g_received (m_g e))) = OOk args /\
  args <> denote (chunks_of gap_fs).
Proof. exact errq_pinned_refuted. Qed.

(* THE SCENARIO SEMANTICS IS A SCHEDULE.  Every state of the scenario model that the engine errq
   compares the real client with (Model/ErrQ.v: the peer writes frame by frame, the receiver takes
   frame by frame, the connection error comes from a failed write / a failed ping send / a protocol
   error frame) is reached by a schedule of the regenerated system ... *)
Theorem C05_errq_scenario_reachable : forall id cap kind code n evs,
  exists ls, prog_run ls = Some (x_st (x_run id cap kind code n evs)).
Proof. exact errq_scenario_reachable. Qed.

(* ... so a success predicted by the scenario model is the denotation of a verified initial part
   of the frames that reached the exchange *)
Theorem C05_errq_scenario_success : forall id cap kind code n evs (payload : Z -> frag) args,
  (forall t, frag_parsed (payload t)) ->
  let x := x_run id cap kind code n evs in
  call_outcome 512 512 512 (frs_of payload (x_recvd x)) = OOk args ->
  exists e pre post c0, nth_error (s_mexes (x_st x)) 0 = Some e /\
    frs_of payload (window e (s_wire (x_st x))) = pre ++ post /\ wf pre /\
    ck_new (first_ctype pre) = Some c0 /\ ck_chain c0 pre /\ f_more (last pre dfrag) = false /\
    args = denote (chunks_of pre).
Proof. exact errq_scenario_success. Qed.

Print Assumptions C05_exchange_steps_generated.
Print Assumptions C05_generated_runs.
Print Assumptions C05_queue_success_is_sent.
Print Assumptions C05_queue_success_is_denotation.
Print Assumptions C05_queue_gap_pinned_refuted.
Print Assumptions C05_errq_scenario_reachable.
Print Assumptions C05_errq_scenario_success.

(* ---------------- non-vacuity ---------------- *)
(* the premises of C05_queue_success_is_sent hold for four checksum-less fragments ... *)
Example C05_example_gap_premises :
  wf gap_fs /\ ck_new (first_ctype gap_fs) = Some (mkCk 0 0) /\ ck_chain (mkCk 0 0) gap_fs /\
  denote (chunks_of gap_fs) = [[]; [3; 4]; [5; 6; 7; 8]].
Proof. exact gap_fs_premises. Qed.

(* ... and on the regenerated system the schedule that breaks the pinned code refuses frame 4:
   the exchange is marked dropped, LFwdSend is not enabled, frames 1, 2 were delivered *)
Example C05_example_gap_refused : exists s e,
  prog_run (firstn 16 gap_trace) = Some s /\ nth_error (s_mexes s) 0 = Some e /\
  prog_step s LFwdSend = None /\ map f_tag (g_delivered (m_g e)) = [1; 2] /\ m_dropped e = true.
Proof. exact errq_gap_trace_generated. Qed.

(* the scenario model on the words AAEATA (error against a full buffer, then a frame, a take, a
   frame) and AAAETA (the third frame in the reader's hands when the error comes), error kinds 1
   and 3, four frames: the receiver gets frames 1, 2 and then the connection error; without an
   error a lagging receiver gets all four *)
Example C05_example_errq :
  map (fun x => (x_res x, x_rerr x, map f_tag (x_recvd x)))
      [x_run 7 2 1 11 4 [0;0;2;0;1;0]; x_run 7 2 1 11 4 [0;0;0;2;1;0]; x_run 7 2 3 13 4 [0;0;2;0;1;0]; x_run 7 2 0 10 4 [0;0;0;0;1;1]] =
  [([0; 0; 11], 11, [1; 2]); ([0; 0; 11], 11, [1; 2]); ([0; 0; 13], 13, [1; 2]); ([0; 0; 0; 0], 0, [1; 2; 3; 4])].
Proof. vm_compute. reflexivity. Qed.

(* ========================================================================================= *)
(* Strengthening: lock waits on the FAILURE paths a caller runs itself -- giving up on a      *)
(* stalled connection, and a connection that dies while it is being registered with its peer *)
(* Definitions: Model/C05VLockFam.v (c05v_results, run_c05vlock = concat of it: the scenario  *)
(* model of sub c05vlock of engine cutbegin, paths over Gen/GenWaitSites.v and               *)
(* Gen/GenLockProgs.v), Proofs/C05VLockFamP.v (c05v_wf: the times of a scenario are not       *)
(* negative; c05v_back_in_time r: r = [class; 1] with class 0 or 1; c05v_names).              *)
(* ========================================================================================= *)
From Verif Require Import Model.CallScen Model.CutBegin Model.C05VLockFam Proofs.C05VLockFamP.

(* Over the tables regenerated from the source: EVERY call of EVERY scenario of the two families
   has control back by its bound (its deadline; for the caller that cancels, the moment of the
   cancellation), for all deadlines, cancellation moments, buffer sizes, and any number of
   follow-up calls:
   family 3 -- the connection is stalled in the send direction with its send buffer full; X is
     blocked in flushFragment on a multi-frame argument, W (optional) waits for a withheld
     response; one of them cancels (with or without SendCancelOnContextCanceled) or lets its
     deadline expire; with the option set the cancelling caller's OWN goroutine runs
     Connection.onCancel -> sendMessage fails -> connectionError -> close (withStateLock) ->
     stopExchanges (both sets) -> checkExchanges (readState) -> removeExchange; the other call
     is woken by the error latch; Z then calls the same host:port;
   family 4 -- the goroutine establishing a connection is between the unlocked and the locked
     state check of Peer.addConnection when the connection leaves the active state; it takes
     the peer's lock, finds the connection inactive, returns; the first call fails on the dead
     connection; every follow-up call takes the same peer's lock, connects and registers anew.
   Each lock acquisition on these paths passes only if its site is in the generated lock-site
   table and the WHOLE generated lock-program table passes the checker (Model/CutBegin.v lock_in);
   each wait must have a deadline exit in the generated wait-site table. *)
Theorem C05_failure_path_scenarios_back : forall c, c05v_wf c -> Forall c05v_back_in_time (c05v_results c).
Proof. exact c05vlock_all_back. Qed.

(* the tie is not vacuous: every function in which those paths take a lock (Peer.addConnection,
   Connection.withStateLock, messageExchangeSet.stopExchanges, Peer.getActiveConn,
   Connection.readState, messageExchangeSet.newExchange / removeExchange) has its acquisition in
   the generated lock-site table on a plain mutex, and its lock program is in the generated table
   and follows the lock discipline in every execution *)
Theorem C05_failure_path_locks_tied : Forall (fun n =>
  (exists l, In l (lockp_sites ++ lockp_sites_conn) /\ ls_fn l = n /\ plain_mutex lockp_mutexes (ls_mutex l)) /\
  (exists f, In f lockp_progs /\ lf_name f = n /\ lock_disciplined (sem_of lockp_mutexes) f)) c05v_names.
Proof. exact c05vlock_names_tied. Qed.

(* and the prediction really depends on the tables: one lock acquisition that is not a site of
   the table (or any acquisition when the table fails the checker: lock_in then has this shape)
   anywhere on a path turns the prediction into "may be blocked for ever" *)
Theorem C05_failure_path_unknown_lock_blocks : forall class dc bound pre post,
  forallb c05v_step_ok pre = true ->
  c05v_back class dc bound (pre ++ mkStep (mkWsite [] WLock []) (mkEv None None None) false :: post) = [class; 0].
Proof. exact c05v_unknown_site_blocks. Qed.

Print Assumptions C05_failure_path_scenarios_back.
Print Assumptions C05_failure_path_locks_tied.
Print Assumptions C05_failure_path_unknown_lock_blocks.

(* non-vacuity: a family-3 scenario (SendCancelOnContextCanceled, buffer of 2, X cancels 30 ms in,
   W present) and a family-4 scenario (through a forwarder, second registration, reset, two
   follow-ups) are well-formed, and the model's output for them *)
Example C05_example_failure_path_scenarios :
  c05v_wf [3; 1; 2; 0; 0; 1; 600; 700; 400; 30] /\ c05v_wf [4; 0; 1; 2; 3; 500; 300; 400] /\
  run_c05vlock [3; 1; 2; 0; 0; 1; 600; 700; 400; 30] = [1; 1; 1; 1; 0; 1] /\
  run_c05vlock [4; 0; 1; 2; 3; 500; 300; 400] = [0; 1; 0; 1; 0; 1].
Proof. exact c05vlock_examples. Qed.

(* ========================================================================================= *)
(* Strengthening: the blocking statements the caller's goroutine reaches THROUGH THE PACKAGE'S  *)
(* OWN CALLBACKS.  Definitions: Spec/C05VWideSpec.v (wjoin, join_bounded, is_bounded_join),     *)
(* c05v_wait_sites / c05v_wait_joins (end of Gen/GenLockProgs.v, regenerated from the source by  *)
(* go2v/c05vwide.go), Proofs/C05VWideP.v.                                                       *)
(* ========================================================================================= *)
From Verif Require Import Spec.C05VWideSpec Proofs.C05VWideP.

(* THE WIDE TABLE.  C05_wait_exits follows declared functions and methods only.  The caller's
   goroutine also runs the function values the package itself stores into func-typed struct
   fields -- messageExchangeSet.onCancel / onRemoved / onAdded, connectionEvents.OnActive /
   OnCloseStateChange / OnExchangeUpdated -- directly or through a local variable holding the
   field's value: a caller that gives up runs Connection.onCancel (-> connectionError -> close
   -> Channel.connectionCloseStateChange ...) itself.  Every blocking statement of THAT closure
   (same extraction per function) offers an exit bound to the caller's deadline, or is the
   release of the new-connection semaphore, or is the join of a goroutine of the package
   (`<-c.healthCheckDone`) that was told to stop by the statement before (a context.CancelFunc)
   and whose own blocking statements can all be left through a context, a timer or a connection
   deadline. *)
Theorem C05_wait_exits_through_callbacks :
  Forall (fun w => has_deadline_exit w \/ is_release w \/ is_bounded_join c05v_wait_joins w) c05v_wait_sites.
Proof. exact wide_wait_sites_ok. Qed.

(* the wide table contains every site of the narrow one, its closure is strictly larger, and no
   acquisition of a mutex held across network I/O is in it *)
Theorem C05_wide_table_includes_narrow : (forall w, In w wait_sites -> In w c05v_wait_sites) /\
  c05v_narrow_root_count < c05v_wide_root_count /\ Forall (fun w => ws_kind w <> WLock) c05v_wait_sites.
Proof. exact wide_includes_narrow. Qed.

Print Assumptions C05_wait_exits_through_callbacks.
Print Assumptions C05_wide_table_includes_narrow.
