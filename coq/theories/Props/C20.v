(* Property C20 -- Errors reach the caller with code, message and application flag intact.
   Statements only, each closed by [exact].

   Vocabulary (Model/ErrorPath.v, Proofs/ErrorPathP.v):
     send_system_error c id sp e   Connection.SendSystemError on connection [c] (Sent wire-bytes | NotSent why)
     relay_chain hops wire         the frame read and re-sent by each relay of [hops] in turn
                                   (None = some relay did not forward it)
     hop_live fin hp               relay items present on both connections, not entombed, timers
                                   stoppable when the frame finishes the call, send queue has room
     caller_receive relay id m w   the caller's connection reads [w] while exchange [id] is in state [m];
                                   result = (what the reader returns, was the connection closed)
     waiting                       an exchange with a live context, nothing queued, no connection error
     s_frame / s_error / s_callres the wire layout of Spec/Protocol.v (independent of the code) *)
From Coq Require Import ZArith List Bool Lia.
From Verif Require Import Base.Wrap Base.Bytes Gen.GenConsts Gen.GenRetry Gen.GenFrame Gen.GenErrors
  Model.TypedBuf Model.Messages Model.ErrorPath Spec.Protocol Spec.ErrorSpec Spec.RelayErrors
  Proofs.CodecP Proofs.FrameP Proofs.ErrorPathP.
Import ListNotations.
Local Open Scope Z_scope.

(* ---- system errors: every code 0x00..0xff, every message, directly and through any number of
   relays.  A message of at most L = MaxFramePayloadSize - 28 bytes is put on the wire in the
   specified layout and the caller's reader returns SystemError{same code, same message}; the
   caller's connection is closed iff the code is the protocol-error code.  A longer message
   fails at frame construction: nothing is sent (never a truncated message). *)
Theorem C20_syserr_rt : forall c sid sp code msg hops,
  code_ok code -> span_ok sp -> msg_ok msg -> u_ok 4 sid -> active_conn c -> Forall (hop_live true) hops ->
  (zlen msg <= c_MaxFramePayloadSize - 28 ->
     exists wire wire',
       send_system_error c sid sp (ESys code msg) = Sent wire /\
       wire = s_frame 255 sid (s_error code (spec_span sp) msg) /\
       relay_chain hops wire = Some wire' /\
       caller_receive false (final_id sid hops) waiting wire' = (CErr (ESys code msg), code =? 255)) /\
  (c_MaxFramePayloadSize - 28 < zlen msg -> send_system_error c sid sp (ESys code msg) = NotSent 1).
Proof. exact syserr_roundtrip_sys. Qed.
Print Assumptions C20_syserr_rt.

(* the same for whatever error value a handler passes (a non-system error travels as
   "unexpected", 0x05, with its Error() text): code and message on the wire are
   GetSystemErrorCode / GetSystemErrorMessage of the value, and both arrive unchanged *)
Theorem C20_syserr_any : forall c sid sp e m hops,
  sys_message e = Some m -> code_ok (sys_code e) -> span_ok sp -> msg_ok m -> u_ok 4 sid ->
  active_conn c -> Forall (hop_live true) hops ->
  (zlen m <= max_error_msg ->
     exists wire wire',
       send_system_error c sid sp e = Sent wire /\
       wire = s_frame 255 sid (s_error (sys_code e) (spec_span sp) m) /\
       relay_chain hops wire = Some wire' /\
       caller_receive false (final_id sid hops) waiting wire' = (CErr (ESys (sys_code e) m), sys_code e =? 255)) /\
  (max_error_msg < zlen m -> send_system_error c sid sp e = NotSent 1).
Proof. exact syserr_roundtrip. Qed.
Theorem C20_handler_plain_error : forall e, is_sys e = false -> is_nil e = false ->
  sys_code e = 5 /\ sys_message e = Some (err_text e).
Proof. exact handler_plain_error. Qed.

(* relays never alter what they forward: whatever the state of their items, timers and queues,
   a frame that comes out of a chain of relays has the type and payload that went in (only the
   id is remapped); otherwise nothing comes out *)
Theorem C20_relay_transparent : forall hops t sid p w,
  u_ok 1 t -> u_ok 4 sid -> zlen p <= 65519 -> Forall hop_ids_ok hops ->
  relay_chain hops (s_frame t sid p) = Some w -> exists cid, u_ok 4 cid /\ w = s_frame t cid p.
Proof. exact relay_chain_transparent. Qed.

(* ---- application errors.
   FULL STATEMENT WANTED: a response whose handler called SetApplicationError arrives with
   ApplicationError() = true and the caller's decoded arg2 / arg3 equal to the handler's, for
   responses of any number of fragments, directly and through relays.
   PROVED HERE (hence _partial): for a response that fits one fragment -- SetApplicationError
   (possible only before the arguments start) makes the first fragment carry response code 1,
   the caller's ApplicationError() is true, and the bytes that hold the arguments (checksum
   type, checksum, chunks: [rest]) arrive unchanged, directly and through any number of live
   relays; without the call the code is 0 and the flag false.
   MISSING: decoding [rest] into arguments and continuation fragments on the reader side (the
   fragment reader/writer model of property C01 is not part of this development; relays
   forwarding continuation frames unchanged is C20_relay_transparent with t = 0x14).  On the
   real code the decoded arguments are checked by the engine's oracle. *)
Theorem C20_apperr_partial : forall sid flags (app : bool) hdrs rest hops,
  u_ok 4 sid -> u_ok 1 flags -> kvs8_ok hdrs ->
  zlen (s_callres_fragment flags (if app then 1 else 0) hdrs rest) <= 65519 ->
  Forall (hop_live (finishesCall 4 flags)) hops ->
  forall rs, (if app then set_application_error (mkResp 0 false) else Some (mkResp 0 false)) = Some rs ->
  exists h p wire',
    callres_frame sid flags rs hdrs rest = Some (h, p) /\
    frame_out h p = s_frame 4 sid (s_callres_fragment flags (if app then 1 else 0) hdrs rest) /\
    relay_chain hops (frame_out h p) = Some wire' /\
    caller_receive false (final_id sid hops) waiting wire' = (CRes (if app then 1 else 0) rest, false) /\
    application_error (if app then 1 else 0) = app /\ spec_app_error (if app then 1 else 0) = app.
Proof. exact apperr_roundtrip. Qed.
Theorem C20_apperr_only_before_args : forall st app, 1 < st -> set_application_error (mkResp st app) = None.
Proof. exact set_application_error_late. Qed.

(* ---- locally detected conditions map to the fixed codes of the statement *)
Theorem C20_local_map : forall cond,
  match cond with
  | LDeadline =>   (* whatever is queued or notified: a passed deadline wins *)
      forall id m, mx_ctx m = ECtxDeadline ->
        exists msg, read_response id m = CErr (ESys (spec_local_code cond) msg)
  | LCancelled =>
      forall id m, mx_ctx m = ECtxCanceled ->
        exists msg, read_response id m = CErr (ESys (spec_local_code cond) msg)
  | LConnLost =>   (* any non-system failure of the connection, wrapped with its text *)
      (forall id e, is_sys e = false ->
         read_response id (notify waiting e) = CErr (ESys (spec_local_code cond) (err_text e))) /\
      (forall id t fid p pre, u_ok 1 t -> u_ok 4 fid -> zlen p <= 65519 -> strict_prefix pre (s_frame t fid p) ->
         exists msg, caller_receive false id waiting pre = (CErr (ESys (spec_local_code cond) msg), true))
  | LClosingPeer => (* start-close / inbound-closed; the answer travels back through any relays *)
      forall c id sp hops,
        cn_state c = c_connectionStartClose \/ cn_state c = c_connectionInboundClosed ->
        0 < cn_room c -> span_ok sp -> u_ok 4 id -> Forall (hop_live true) hops ->
        exists wire wire' msg,
          handle_call_req_state c id sp = Rejected (Sent wire) /\
          relay_chain hops wire = Some wire' /\
          caller_receive false (final_id id hops) waiting wire' = (CErr (ESys (spec_local_code cond) msg), false)
  end.
Proof. exact local_map. Qed.
Print Assumptions C20_local_map.

(* the same conditions detected before the call is sent (Connection.beginCall): a deadline
   less than a millisecond away or already passed -> timeout, a cancelled context -> cancelled *)
Theorem C20_begin_call :
  (forall st hd ttl ctx,
     st = c_connectionStartClose \/ st = c_connectionInboundClosed \/ st = c_connectionClosed ->
     begin_call st hd ttl ctx = v_ErrConnectionClosed) /\
  (forall ttl ctx, begin_call c_connectionActive false ttl ctx = v_ErrTimeoutRequired) /\
  (forall ctx, begin_call c_connectionActive true true ctx = v_ErrTimeout) /\
  begin_call c_connectionActive true false ECtxDeadline = v_ErrTimeout /\
  begin_call c_connectionActive true false ECtxCanceled = v_ErrRequestCancelled /\
  begin_call c_connectionActive true false ENil = ENil /\
  sys_code v_ErrTimeout = spec_local_code LDeadline /\ sys_code v_ErrRequestCancelled = spec_local_code LCancelled.
Proof. exact begin_call_spec. Qed.
Print Assumptions C20_begin_call.

(* ---- protocol errors: outside relay channels a frame closes the connection it arrived on
   exactly when it is an error frame that carries the protocol-error code (or cannot be
   parsed); every other code leaves the connection open (C20_syserr_rt: closed iff code = 255).
   On a connection of a relay channel error frames are routed to the relayer instead. *)
Theorem C20_protocol :
  (forall id sp msg junk, error_ok (mkErr 255 sp msg) ->
     handle_error id (s_error 255 (spec_span sp) msg ++ junk) = AClose 2 (ESys 255 msg)) /\
  (forall h payload site e, handle_frame false h payload = AClose site e ->
     fh_type h = c_messageTypeError /\
     ((site = 1 /\ rerr (snd (r_error (rb payload))) = true) \/
      (site = 2 /\ exists m, e = ESys 255 m /\ em_code (fst (r_error (rb payload))) = 255))) /\
  (forall h payload, fh_type h = c_messageTypeError -> handle_frame true h payload = ARelay).
Proof. exact protocol_frames. Qed.
Print Assumptions C20_protocol.

(* the sending side of a protocol error (e.g. a call req whose id is still active): the peer
   gets an error frame with code 0xff and the error's text, local exchanges the same error *)
Theorem C20_protocol_sent : forall c id e,
  is_sys e = false -> msg_ok (err_text e) -> zlen (err_text e) <= max_error_msg ->
  cn_state c <> c_connectionClosed -> 0 < cn_room c ->
  protocol_error c id e =
    (ESys 255 (err_text e), Sent (s_frame 255 id (s_error 255 (spec_span zero_span) (err_text e)))).
Proof. exact protocol_error_spec. Qed.
Print Assumptions C20_protocol_sent.

(* ---- errors a relay originates carry the codes of Spec/RelayErrors.v *)
Theorem C20_relay_codes : forall env site,
  env_site env = Some site ->
  match relay_handle_callreq env with
  | RRError e close => spec_relay_code site = Some (sys_code e) /\ (close = true <-> site = RSStartSystem 255)
  | RRSilent => spec_relay_code site = None
  | _ => False
  end.
Proof. exact relay_callreq_codes. Qed.
Print Assumptions C20_relay_codes.

Theorem C20_relay_timer_fail :
  (forall entombed orig, relay_timeout entombed orig =
     if entombed && orig then RRError v_ErrTimeout false else RRSilent) /\
  spec_relay_code RSTimeout = Some (sys_code v_ErrTimeout) /\
  (forall reason e, reason <> c_u_relayErrorSourceConnSlow ->
     exists m, relay_fail true true true true reason e = RRError (EOther m 0) false /\
               sys_code (EOther m 0) = 5 /\ firstn (length reason) m = reason) /\
  (forall e, relay_fail true true true true c_u_relayErrorSourceConnSlow e = RRSilent) /\
  (forall found stopped entombed orig reason e,
     found && stopped && entombed && orig = false -> relay_fail found stopped entombed orig reason e = RRSilent) /\
  spec_relay_code RSDestSlow = Some 5 /\ spec_relay_reason RSDestSlow = c_u_relayErrorDestConnSlow /\
  spec_relay_code RSArg2ModifyFailed = Some 5 /\ spec_relay_reason RSArg2ModifyFailed = c_u_relayArg2ModifyFailed /\
  spec_relay_code RSSourceSlow = None.
Proof. exact relay_timer_fail_codes. Qed.

(* NewWrappedSystemError keeps the code of an error that already is a SystemError.  This rule
   is why the unrepaired relay answered "selected remote connection inactive" with the network
   code although the call site wrapped it as declined (finding c20:relay-remote-inactive-code,
   repaired; the model above is the repaired code and C20_relay_codes holds for that row). *)
Theorem C20_wrapped_keeps_code : forall c1 c2 e, is_sys e = false ->
  sys_code (new_wrapped c1 (new_wrapped c2 e)) = c2.
Proof. exact wrap_wrap_keeps_inner. Qed.

(* tie of the hand-written name tables to the generated constants *)
Theorem C20_names :
  List.concat code_names = c_u_SystemErrCode_name_0 /\ code_string 255 = c_u_SystemErrCode_name_1 /\
  List.concat state_names = c_u_connectionState_name.
Proof. exact code_names_tie. Qed.

Print Assumptions C20_syserr_any.
Print Assumptions C20_handler_plain_error.
Print Assumptions C20_apperr_only_before_args.
Print Assumptions C20_wrapped_keeps_code.
Print Assumptions C20_names.
Print Assumptions C20_relay_transparent.
Print Assumptions C20_apperr_partial.
Print Assumptions C20_relay_timer_fail.

(* ---- non-vacuity: "busy" with message "hi" from a handler, through two relays *)
Example C20_example :
  let c := mkConn c_connectionActive 1 false in
  let hops := [mkHop (ILive true 6) (ILive true 0) 1; mkHop (ILive true 7) (ILive true 0) 1] in
  active_conn c /\ Forall (hop_live true) hops /\ final_id 5 hops = 7 /\
  (match send_system_error c 5 zero_span (ESys 3 [104; 105]) with
   | Sent wire => match relay_chain hops wire with
                  | Some w => caller_receive false 7 waiting w
                  | None => (CWait, true)
                  end
   | NotSent _ => (CWait, true)
   end) = (CErr (ESys 3 [104; 105]), false).
Proof.
  cbv zeta. split; [split; [reflexivity|reflexivity]|]. split.
  - repeat constructor; cbn; try (intros _; reflexivity); unfold u_ok; cbn; lia.
  - split; vm_compute; reflexivity.
Qed.

(* a relay whose timer already fired drops the late error frame; nothing reaches the caller *)
Example C20_example_dropped :
  match send_system_error (mkConn c_connectionActive 1 false) 5 zero_span (ESys 3 [104; 105]) with
  | Sent wire => relay_chain [mkHop (ILive false 6) (ILive true 0) 1] wire
  | NotSent _ => Some []
  end = None.
Proof. vm_compute. reflexivity. Qed.

(* an exchange whose deadline passed reports timeout even with a response queued *)
Example C20_example_deadline :
  read_response 9 (mkMex ECtxDeadline [(mkFH 16 4 0 9, [])] (ESys 7 [])) = CErr (ESys 1 [116; 105; 109; 101; 111; 117; 116]).
Proof. vm_compute. reflexivity. Qed.
