(* Property C20 -- Errors reach the caller with code, message and application flag intact.
   Statements only, each closed by [exact].

   Vocabulary (Model/ErrorPath.v, Proofs/ErrorPathP.v):
     send_system_error c id sp e   Connection.SendSystemError on connection [c] (Sent wire-bytes | NotSent why)
     relay_chain hops wire         the frame read and re-sent by each relay of [hops] in turn
                                   (None = some relay did not forward it)
     hop_live fin hp               relay items present on both connections, not entombed, timers
                                   stoppable when the frame finishes the call, send queue has room
     caller_receive relay id m w   the caller's connection reads [w] while exchange [id] is in state [m];
                                   result = (what the reader returns, was the connection closed)
     waiting                       an exchange with a live context, nothing queued, no connection error
     s_frame / s_error / s_callres the wire layout of Spec/Protocol.v (independent of the code) *)
From Coq Require Import ZArith List Bool Lia.
From Verif Require Import Base.Wrap Base.Bytes Gen.GenConsts Gen.GenRetry Gen.GenFrame Gen.GenErrors
  Model.TypedBuf Model.Messages Model.ErrorPath Spec.Protocol Spec.ErrorSpec Spec.RelayErrors
  Proofs.CodecP Proofs.FrameP Proofs.ErrorPathP.
Import ListNotations.
Local Open Scope Z_scope.

(* ---- system errors: every code 0x00..0xff, every message, directly and through any number of
   relays.  A message of at most L = MaxFramePayloadSize - 28 bytes is put on the wire in the
   specified layout and the caller's reader returns SystemError{same code, same message}; the
   caller's connection is closed iff the code is the protocol-error code.  A longer message
   fails at frame construction: nothing is sent (never a truncated message). *)
Theorem C20_syserr_rt : forall c sid sp code msg hops,
  code_ok code -> span_ok sp -> msg_ok msg -> u_ok 4 sid -> active_conn c -> Forall (hop_live true) hops ->
  (zlen msg <= c_MaxFramePayloadSize - 28 ->
     exists wire wire',
       send_system_error c sid sp (ESys code msg) = Sent wire /\
       wire = s_frame 255 sid (s_error code (spec_span sp) msg) /\
       relay_chain hops wire = Some wire' /\
       caller_receive false (final_id sid hops) waiting wire' = (CErr (ESys code msg), code =? 255)) /\
  (c_MaxFramePayloadSize - 28 < zlen msg -> send_system_error c sid sp (ESys code msg) = NotSent 1).
Proof. exact syserr_roundtrip_sys. Qed.
Print Assumptions C20_syserr_rt.

(* the same for whatever error value a handler passes (a non-system error travels as
   "unexpected", 0x05, with its Error() text): code and message on the wire are
   GetSystemErrorCode / GetSystemErrorMessage of the value, and both arrive unchanged *)
Theorem C20_syserr_any : forall c sid sp e m hops,
  sys_message e = Some m -> code_ok (sys_code e) -> span_ok sp -> msg_ok m -> u_ok 4 sid ->
  active_conn c -> Forall (hop_live true) hops ->
  (zlen m <= max_error_msg ->
     exists wire wire',
       send_system_error c sid sp e = Sent wire /\
       wire = s_frame 255 sid (s_error (sys_code e) (spec_span sp) m) /\
       relay_chain hops wire = Some wire' /\
       caller_receive false (final_id sid hops) waiting wire' = (CErr (ESys (sys_code e) m), sys_code e =? 255)) /\
  (max_error_msg < zlen m -> send_system_error c sid sp e = NotSent 1).
Proof. exact syserr_roundtrip. Qed.
Theorem C20_handler_plain_error : forall e, is_sys e = false -> is_nil e = false ->
  sys_code e = 5 /\ sys_message e = Some (err_text e).
Proof. exact handler_plain_error. Qed.

(* relays never alter what they forward: whatever the state of their items, timers and queues,
   a frame that comes out of a chain of relays has the type and payload that went in (only the
   id is remapped); otherwise nothing comes out *)
Theorem C20_relay_transparent : forall hops t sid p w,
  u_ok 1 t -> u_ok 4 sid -> zlen p <= 65519 -> Forall hop_ids_ok hops ->
  relay_chain hops (s_frame t sid p) = Some w -> exists cid, u_ok 4 cid /\ w = s_frame t cid p.
Proof. exact relay_chain_transparent. Qed.

(* ---- application errors.
   FULL STATEMENT WANTED: a response whose handler called SetApplicationError arrives with
   ApplicationError() = true and the caller's decoded arg2 / arg3 equal to the handler's, for
   responses of any number of fragments, directly and through relays.
   PROVED HERE (hence _partial): for a response that fits one fragment -- SetApplicationError
   (possible only before the arguments start) makes the first fragment carry response code 1,
   the caller's ApplicationError() is true, and the bytes that hold the arguments (checksum
   type, checksum, chunks: [rest]) arrive unchanged, directly and through any number of live
   relays; without the call the code is 0 and the flag false.
   MISSING IN THIS THEOREM: decoding [rest] into arguments and continuation fragments on the
   reader side -- supplied by C20_apperr / C20_apperr_forwarded below (module AppErrFull), which
   use the fragment writer/reader model of property C01.  On the real code the decoded arguments
   are also checked by the engine's oracle. *)
Theorem C20_apperr_partial : forall sid flags (app : bool) hdrs rest hops,
  u_ok 4 sid -> u_ok 1 flags -> kvs8_ok hdrs ->
  zlen (s_callres_fragment flags (if app then 1 else 0) hdrs rest) <= 65519 ->
  Forall (hop_live (finishesCall 4 flags)) hops ->
  forall rs, (if app then set_application_error (mkResp 0 false) else Some (mkResp 0 false)) = Some rs ->
  exists h p wire',
    callres_frame sid flags rs hdrs rest = Some (h, p) /\
    frame_out h p = s_frame 4 sid (s_callres_fragment flags (if app then 1 else 0) hdrs rest) /\
    relay_chain hops (frame_out h p) = Some wire' /\
    caller_receive false (final_id sid hops) waiting wire' = (CRes (if app then 1 else 0) rest, false) /\
    application_error (if app then 1 else 0) = app /\ spec_app_error (if app then 1 else 0) = app.
Proof. exact apperr_roundtrip. Qed.
Theorem C20_apperr_only_before_args : forall st app, 1 < st -> set_application_error (mkResp st app) = None.
Proof. exact set_application_error_late. Qed.

(* FULL STATEMENT (the part marked MISSING above), with the fragment writer / reader models of
   property C01.  Vocabulary:
     Model/Frag.v, Spec/FragOk.v      w_run capf (script3 a1 a2 a3) (w_init ck) [] = the handler writing
                                      arg1..arg3 with ANY sequence of Writes and Flushes (a_i : list witem,
                                      arg_bytes a_i = the bytes) into fragments offering capf true / capf false
                                      bytes to chunks; ws_out st = the fragments handed to flushFragment
     Proofs/FragWireP.v               frag_capacity msghdr ck = 65519 - (1 + |msghdr| + 1 + checksum size): what
                                      a pooled frame leaves for chunks; kind_ok kind = checksum none/crc32/crc32c
     Proofs/AppErrP.v (glue only)     frag_flags f, frag_rest f = the flags byte and the bytes behind the message
                                      header (checksum type, checksum, chunks) of fragment f as finish/flush lay
                                      them out -- the [flags] and [rest] of C20_apperr_partial;
                                      resp_frames true sid rs hdrs fs = the frames of the response: the first by
                                      callres_frame (response code of rs), the others call res continue frames;
                                      wire_frames true id code hdrs fs = the same in specification form:
                                      s_frame 4 id ([flags] ++ s_callres code tracing hdrs ++ rest) followed by
                                      s_frame 0x14 id ([flags] ++ rest) for each continuation fragment;
                                      relay_all hops ws = every frame through relay_chain hops (None = some frame
                                      was not forwarded);
                                      recv_fragments true id ws = the caller's connection reads each frame
                                      (ReadIn, dispatch to exchange id), the response reader demands call res then
                                      call res continue (recvPeerFrameOfType) and parses each with
                                      parseInboundFragment (FragWire.parse_frag_payload);
                                      reads_back fs b1 b2 b3 = the fragmenting reader on fs returns exactly b1, b2,
                                      b3 -- with any positive read sizes continued to end-of-stream, and through
                                      ArgReadHelper.Read with any buffer size -- every operation returns nil, it
                                      ends Complete and releases every fragment (unfolded in C20_reads_back). *)
From Verif Require Model.Crc Model.Frag Model.FragWire Spec.FragOk Proofs.FragWireP Proofs.FragRP Proofs.FragRoundtrip Proofs.AppErrP.
Module AppErrFull.
  Import Model.Crc Model.Frag Model.FragWire Spec.FragOk Proofs.FragWireP Proofs.FragRoundtrip Proofs.AppErrP.

  (* a response of ANY number of fragments, any write/flush pattern, any capacities from (3,5) up
     to what a frame holds, any checksum kind, with SetApplicationError called (app = true) or not,
     through any number of LIVE relays: every frame is forwarded with only the id changed, the
     caller's ApplicationError() equals the handler's flag, the caller's reader receives the same
     fragments and returns exactly the handler's three arguments *)
  Theorem C20_apperr : forall sid (app : bool) hdrs hops capf kind a1 a2 a3,
    u_ok 4 sid -> kvs8_ok hdrs -> kind_ok kind -> Forall (hop_live true) hops ->
    let code := if app then 1 else 0 in
    3 <= capf true <= frag_capacity (s_callres code (s_tracing 0 0 0 0) hdrs) (ck_fresh kind) ->
    5 <= capf false <= frag_capacity [] (ck_fresh kind) ->
    forall rs, (if app then set_application_error (mkResp 0 false) else Some (mkResp 0 false)) = Some rs ->
    let cid := final_id sid hops in
    exists codes st wires wires' f1 fs1,
      w_run capf (script3 a1 a2 a3) (Frag.w_init (ck_fresh kind)) [] = Some (codes, st) /\
      Forall (fun c => c = 0) codes /\ ws_out st = f1 :: fs1 /\
      resp_frames true sid rs hdrs (ws_out st) = Some wires /\
      wires = wire_frames true sid code hdrs (ws_out st) /\
      relay_all hops wires = Some wires' /\
      caller_receive false cid waiting (hd [] wires') = (CRes code (frag_rest f1), false) /\
      application_error code = app /\ spec_app_error code = app /\
      recv_fragments true cid wires' = Some (ws_out st) /\
      reads_back (ws_out st) (arg_bytes a1) (arg_bytes a2) (arg_bytes a3).
  Proof. exact apperr_full. Qed.

  (* relays in ANY state (items, tombs, timers, queues; cf. C20_relay_transparent): whenever all
     frames of the response come out of the chain, the caller gets flag, fragments and arguments *)
  Theorem C20_apperr_forwarded : forall sid (app : bool) hdrs hops capf kind a1 a2 a3,
    u_ok 4 sid -> kvs8_ok hdrs -> kind_ok kind -> Forall hop_ids_ok hops ->
    let code := if app then 1 else 0 in
    3 <= capf true <= frag_capacity (s_callres code (s_tracing 0 0 0 0) hdrs) (ck_fresh kind) ->
    5 <= capf false <= frag_capacity [] (ck_fresh kind) ->
    forall rs, (if app then set_application_error (mkResp 0 false) else Some (mkResp 0 false)) = Some rs ->
    let cid := final_id sid hops in
    exists codes st wires f1 fs1,
      w_run capf (script3 a1 a2 a3) (Frag.w_init (ck_fresh kind)) [] = Some (codes, st) /\
      Forall (fun c => c = 0) codes /\ ws_out st = f1 :: fs1 /\
      resp_frames true sid rs hdrs (ws_out st) = Some wires /\
      reads_back (ws_out st) (arg_bytes a1) (arg_bytes a2) (arg_bytes a3) /\
      forall wires', relay_all hops wires = Some wires' ->
        caller_receive false cid waiting (hd [] wires') = (CRes code (frag_rest f1), false) /\
        application_error code = app /\ spec_app_error code = app /\
        recv_fragments true cid wires' = Some (ws_out st).
  Proof. exact apperr_forwarded. Qed.

  (* reads_back, unfolded *)
  Theorem C20_reads_back : forall fs b1 b2 b3, reads_back fs b1 b2 b3 <->
    (forall ns1 ns2 ns3,
       Forall (fun n => 0 < n) ns1 -> Forall (fun n => 0 < n) ns2 -> Forall (fun n => 0 < n) ns3 ->
       FragRP.zsum ns1 > zlen b1 -> FragRP.zsum ns2 > zlen b2 -> FragRP.zsum ns3 > zlen b3 ->
       exists l1 st1 l2 st2 l3 st3,
         FragRP.arg_read false ns1 (Frag.r_init fs) = Some (0, l1, 0, st1) /\
         FragRP.arg_read false ns2 st1 = Some (0, l2, 0, st2) /\
         FragRP.arg_read true ns3 st2 = Some (0, l3, 0, st3) /\
         FragRP.data_of l1 = b1 /\ FragRP.data_of l2 = b2 /\ FragRP.data_of l3 = b3 /\
         FragRP.r_final (Z.of_nat (length fs)) st3) /\
    (forall n1 n2 n3, 0 < n1 -> 0 < n2 -> 0 < n3 ->
       exists st1 st2 st3,
         FragRP.arg_helper false n1 (Frag.r_init fs) = Some (0, b1, 0, st1) /\
         FragRP.arg_helper false n2 st1 = Some (0, b2, 0, st2) /\
         FragRP.arg_helper true n3 st2 = Some (0, b3, 0, st3) /\
         FragRP.r_final (Z.of_nat (length fs)) st3).
  Proof. exact (fun fs b1 b2 b3 => conj (fun H => H) (fun H => H)). Qed.

  Print Assumptions C20_apperr.
  Print Assumptions C20_apperr_forwarded.

  (* non-vacuity: application error, 6-byte fragments (six frames), crc32c, two relays: number of
     frames, the caller's first-frame result (code 1), the three arguments read back *)
  Example C20_apperr_example :
    let capf := fun first : bool => if first then 6 else 6 in
    let hops := [mkHop (ILive true 6) (ILive true 0) 1; mkHop (ILive true 7) (ILive true 0) 1] in
    let a2 := [IWrite [1; 2; 3]; IFlush; IWrite [4; 5]] in
    let a3 := [IWrite [6; 7; 8; 9; 10; 11; 12]] in
    Forall (hop_live true) hops /\
    3 <= capf true <= frag_capacity (s_callres 1 (s_tracing 0 0 0 0) []) (ck_fresh 3) /\
    5 <= capf false <= frag_capacity [] (ck_fresh 3) /\
    match w_run capf (script3 [] a2 a3) (Frag.w_init (ck_fresh 3)) [] with
    | Some (_, st) =>
        match resp_frames true 5 (mkResp 0 true) [] (ws_out st) with
        | Some wires =>
            match relay_all hops wires with
            | Some wires' =>
                (length wires', fst (caller_receive false 7 waiting (hd [] wires')),
                 match recv_fragments true 7 wires' with
                 | Some fs => option_map fst
                     (FragWire.r_run [RBegin false; RHelper 4; RBegin false; RHelper 4; RBegin true; RHelper 4] (Frag.r_init fs) [])
                 | None => None
                 end)
            | None => (0%nat, CWait, None)
            end
        | None => (0%nat, CWait, None)
        end
    | None => (0%nat, CWait, None)
    end = (6%nat, CRes 1 [3; 3;248;159;82; 0;0; 0;2;1;2],
           Some [0; 0;0;  0; 0;5;1;2;3;4;5;  0; 0;7;6;7;8;9;10;11;12]).
  Proof.
    cbv zeta. split; [|split; [|split; [|vm_compute; reflexivity]]].
    - repeat constructor; cbn; try (intros _; reflexivity); unfold u_ok; cbn; lia.
    - vm_compute. split; discriminate.
    - vm_compute. split; discriminate.
  Qed.
End AppErrFull.

(* ---- locally detected conditions map to the fixed codes of the statement *)
Theorem C20_local_map : forall cond,
  match cond with
  | LDeadline =>   (* whatever is queued or notified: a passed deadline wins *)
      forall id m, mx_ctx m = ECtxDeadline ->
        exists msg, read_response id m = CErr (ESys (spec_local_code cond) msg)
  | LCancelled =>
      forall id m, mx_ctx m = ECtxCanceled ->
        exists msg, read_response id m = CErr (ESys (spec_local_code cond) msg)
  | LConnLost =>   (* any non-system failure of the connection, wrapped with its text *)
      (forall id e, is_sys e = false ->
         read_response id (notify waiting e) = CErr (ESys (spec_local_code cond) (err_text e))) /\
      (forall id t fid p pre, u_ok 1 t -> u_ok 4 fid -> zlen p <= 65519 -> strict_prefix pre (s_frame t fid p) ->
         exists msg, caller_receive false id waiting pre = (CErr (ESys (spec_local_code cond) msg), true))
  | LClosingPeer => (* start-close / inbound-closed; the answer travels back through any relays *)
      forall c id sp hops,
        cn_state c = c_connectionStartClose \/ cn_state c = c_connectionInboundClosed ->
        0 < cn_room c -> span_ok sp -> u_ok 4 id -> Forall (hop_live true) hops ->
        exists wire wire' msg,
          handle_call_req_state c id sp = Rejected (Sent wire) /\
          relay_chain hops wire = Some wire' /\
          caller_receive false (final_id id hops) waiting wire' = (CErr (ESys (spec_local_code cond) msg), false)
  end.
Proof. exact local_map. Qed.
Print Assumptions C20_local_map.

(* the same conditions detected before the call is sent (Connection.beginCall): a deadline
   less than a millisecond away or already passed -> timeout, a cancelled context -> cancelled *)
Theorem C20_begin_call :
  (forall st hd ttl ctx,
     st = c_connectionStartClose \/ st = c_connectionInboundClosed \/ st = c_connectionClosed ->
     begin_call st hd ttl ctx = v_ErrConnectionClosed) /\
  (forall ttl ctx, begin_call c_connectionActive false ttl ctx = v_ErrTimeoutRequired) /\
  (forall ctx, begin_call c_connectionActive true true ctx = v_ErrTimeout) /\
  begin_call c_connectionActive true false ECtxDeadline = v_ErrTimeout /\
  begin_call c_connectionActive true false ECtxCanceled = v_ErrRequestCancelled /\
  begin_call c_connectionActive true false ENil = ENil /\
  sys_code v_ErrTimeout = spec_local_code LDeadline /\ sys_code v_ErrRequestCancelled = spec_local_code LCancelled.
Proof. exact begin_call_spec. Qed.
Print Assumptions C20_begin_call.

(* ---- protocol errors: outside relay channels a frame closes the connection it arrived on
   exactly when it is an error frame that carries the protocol-error code (or cannot be
   parsed); every other code leaves the connection open (C20_syserr_rt: closed iff code = 255).
   On a connection of a relay channel error frames are routed to the relayer instead. *)
Theorem C20_protocol :
  (forall id sp msg junk, error_ok (mkErr 255 sp msg) ->
     handle_error id (s_error 255 (spec_span sp) msg ++ junk) = AClose 2 (ESys 255 msg)) /\
  (forall h payload site e, handle_frame false h payload = AClose site e ->
     fh_type h = c_messageTypeError /\
     ((site = 1 /\ rerr (snd (r_error (rb payload))) = true) \/
      (site = 2 /\ exists m, e = ESys 255 m /\ em_code (fst (r_error (rb payload))) = 255))) /\
  (forall h payload, fh_type h = c_messageTypeError -> handle_frame true h payload = ARelay).
Proof. exact protocol_frames. Qed.
Print Assumptions C20_protocol.

(* the sending side of a protocol error (e.g. a call req whose id is still active): the peer
   gets an error frame with code 0xff and the error's text, local exchanges the same error *)
Theorem C20_protocol_sent : forall c id e,
  is_sys e = false -> msg_ok (err_text e) -> zlen (err_text e) <= max_error_msg ->
  cn_state c <> c_connectionClosed -> 0 < cn_room c ->
  protocol_error c id e =
    (ESys 255 (err_text e), Sent (s_frame 255 id (s_error 255 (spec_span zero_span) (err_text e)))).
Proof. exact protocol_error_spec. Qed.
Print Assumptions C20_protocol_sent.

(* ---- errors a relay originates carry the codes of Spec/RelayErrors.v *)
Theorem C20_relay_codes : forall env site,
  env_site env = Some site ->
  match relay_handle_callreq env with
  | RRError e close => spec_relay_code site = Some (sys_code e) /\ (close = true <-> site = RSStartSystem 255)
  | RRSilent => spec_relay_code site = None
  | _ => False
  end.
Proof. exact relay_callreq_codes. Qed.
Print Assumptions C20_relay_codes.

Theorem C20_relay_timer_fail :
  (forall entombed orig, relay_timeout entombed orig =
     if entombed && orig then RRError v_ErrTimeout false else RRSilent) /\
  spec_relay_code RSTimeout = Some (sys_code v_ErrTimeout) /\
  (forall reason e, reason <> c_u_relayErrorSourceConnSlow ->
     exists m, relay_fail true true true true reason e = RRError (EOther m 0) false /\
               sys_code (EOther m 0) = 5 /\ firstn (length reason) m = reason) /\
  (forall e, relay_fail true true true true c_u_relayErrorSourceConnSlow e = RRSilent) /\
  (forall found stopped entombed orig reason e,
     found && stopped && entombed && orig = false -> relay_fail found stopped entombed orig reason e = RRSilent) /\
  spec_relay_code RSDestSlow = Some 5 /\ spec_relay_reason RSDestSlow = c_u_relayErrorDestConnSlow /\
  spec_relay_code RSArg2ModifyFailed = Some 5 /\ spec_relay_reason RSArg2ModifyFailed = c_u_relayArg2ModifyFailed /\
  spec_relay_code RSSourceSlow = None.
Proof. exact relay_timer_fail_codes. Qed.

(* NewWrappedSystemError keeps the code of an error that already is a SystemError.  This rule
   is why the unrepaired relay answered "selected remote connection inactive" with the network
   code although the call site wrapped it as declined (finding c20:relay-remote-inactive-code,
   repaired; the model above is the repaired code and C20_relay_codes holds for that row). *)
Theorem C20_wrapped_keeps_code : forall c1 c2 e, is_sys e = false ->
  sys_code (new_wrapped c1 (new_wrapped c2 e)) = c2.
Proof. exact wrap_wrap_keeps_inner. Qed.

(* tie of the hand-written name tables to the generated constants *)
Theorem C20_names :
  List.concat code_names = c_u_SystemErrCode_name_0 /\ code_string 255 = c_u_SystemErrCode_name_1 /\
  List.concat state_names = c_u_connectionState_name.
Proof. exact code_names_tie. Qed.

Print Assumptions C20_syserr_any.
Print Assumptions C20_handler_plain_error.
Print Assumptions C20_apperr_only_before_args.
Print Assumptions C20_wrapped_keeps_code.
Print Assumptions C20_names.
Print Assumptions C20_relay_transparent.
Print Assumptions C20_apperr_partial.
Print Assumptions C20_relay_timer_fail.

(* ---- non-vacuity: "busy" with message "hi" from a handler, through two relays *)
Example C20_example :
  let c := mkConn c_connectionActive 1 false in
  let hops := [mkHop (ILive true 6) (ILive true 0) 1; mkHop (ILive true 7) (ILive true 0) 1] in
  active_conn c /\ Forall (hop_live true) hops /\ final_id 5 hops = 7 /\
  (match send_system_error c 5 zero_span (ESys 3 [104; 105]) with
   | Sent wire => match relay_chain hops wire with
                  | Some w => caller_receive false 7 waiting w
                  | None => (CWait, true)
                  end
   | NotSent _ => (CWait, true)
   end) = (CErr (ESys 3 [104; 105]), false).
Proof.
  cbv zeta. split; [split; [reflexivity|reflexivity]|]. split.
  - repeat constructor; cbn; try (intros _; reflexivity); unfold u_ok; cbn; lia.
  - split; vm_compute; reflexivity.
Qed.

(* a relay whose timer already fired drops the late error frame; nothing reaches the caller *)
Example C20_example_dropped :
  match send_system_error (mkConn c_connectionActive 1 false) 5 zero_span (ESys 3 [104; 105]) with
  | Sent wire => relay_chain [mkHop (ILive false 6) (ILive true 0) 1] wire
  | NotSent _ => Some []
  end = None.
Proof. vm_compute. reflexivity. Qed.

(* an exchange whose deadline passed reports timeout even with a response queued *)
Example C20_example_deadline :
  read_response 9 (mkMex ECtxDeadline [(mkFH 16 4 0 9, [])] (ESys 7 [])) = CErr (ESys 1 [116; 105; 109; 101; 111; 117; 116]).
Proof. vm_compute. reflexivity. Qed.

(* ==== wait sites: every place where the END OF A CONTEXT is turned into the call's error ====

   Vocabulary (Spec/CtxSiteSpec.v, Model/CtxPath.v, Proofs/CtxPathP.v):
     ctx_sites (GENERATED, Gen/GenCtxSites.v)   every branch of package tchannel that runs because a
                                  context ended -- the body of `case <-X.Done():`, of `if X.Err() != nil`,
                                  `if err := X.Err(); err != nil`, `if X.Err() == context.Canceled`, or any
                                  other statement with an X.Err() -- with, for every return reachable from
                                  the branch, the returned error as an expression over the context's error:
                                  CxCtx (the context's error itself), CxConv e (GetContextError(e)),
                                  CxWrap code e, CxPass f e, CxVal name, CxNil, CxOther source
     cx_eval r c                  the value of such an expression for the context error c, with the
                                  GENERATED GetContextError / NewWrappedSystemError of Gen/GenErrors.v
     ctx_end, spec_ctx_code       EndDeadline -> 1 (timeout), EndCanceled -> 2 (cancelled): the statement
     call_error st e de           the error an API caller gets when the context ends by e while the call is
                                  parked at stage st of the call path (queued on the peer's new-connection
                                  semaphore, check in front of the dial, inside the dialer (which reports de),
                                  handshake, beginCall, flushFragment's check / select, recvPeerFrame's
                                  check / select), composed from ctx_sites and the GENERATED error-flow
                                  functions of Gen/GenCtxErr.v (Channel.Connect's dial-error block,
                                  Channel.initError, Peer.GetConnection, Peer.getConnectionRelay, Peer.BeginCall)
     relay_connect_result st de   what Relayer.handleCallReq does when the time-to-live ends at stage st of
                                  Peer.getConnectionRelay (relay_handle_callreq of Model/ErrorPath.v)  *)
From Verif Require Import Gen.GenCtxSites Gen.GenWaitSites Spec.CtxSiteSpec Spec.WaitSpec Model.CtxPath Proofs.CtxPathP.

(* EVERY consumer of a context's end in the package: each error it can return is a system error
   with the documented code (deadline -> timeout, cancellation -> cancelled); the context's error
   is handed to no function that could keep it; the extraction saw every return of the branch *)
Theorem C20_ctx_sites_converted : forall s, In s ctx_sites ->
  (forall r e, In r (cs_rets s) -> when_applies (cs_when s) e = true ->
     exists msg, cx_eval r (ctx_err e) = Some (ESys (spec_ctx_code e) msg)) /\
  (forall f b, In (f, b) (cs_calls s) -> b = true) /\
  (cs_falls s = true -> cs_rets s = []).
Proof. exact ctx_sites_converted. Qed.

(* the table is not empty where it matters: the consumers of the call path are in it and return
   something, and every select of property C05's table of blocking statements of the outbound
   call path (Gen/GenWaitSites.v) that can be left through the context has its branch in it *)
Theorem C20_ctx_sites_required : forall fn k, In (fn, k) required_sites ->
  exists s, In s ctx_sites /\ cs_fn s = fn /\ cs_kind s = k /\ cs_rets s <> [].
Proof. exact ctx_sites_required. Qed.
Theorem C20_wait_sites_covered : forall w, In w wait_sites -> ws_kind w = WSelect -> In XCtx (ws_exits w) ->
  exists s, In s ctx_sites /\ cs_fn s = ws_fn w /\ cs_kind s = KDone /\ cs_rets s <> [].
Proof. exact wait_sites_covered. Qed.

(* for every wait site on the call path, a context that ends there yields the documented code.
   dial_reports: what a dialer may report -- deadline: an error that says "timeout" (net.Dialer's
   i/o timeout or the context's own error); cancellation: any other error.
   Exception on the pinned tree: a cancellation while the HANDSHAKE is pending (next theorem). *)
Theorem C20_ctx_call_sites : forall st e de,
  dial_reports e de ->
  ((st, e) <> (GHandshake, EndCanceled) \/ handshake_sees_cancel = true) ->
  exists msg, call_error st e de = Some (ESys (spec_ctx_code e) msg).
Proof. exact ctx_call_sites. Qed.

(* REFUTED CLAUSE (finding c20:handshake-ignores-cancel): while the deferred error mapping of
   Channel.outboundHandshake does not test the context (handshake_sees_cancel = false, computed from
   the generated table), a caller that cancels during the handshake gets timeout, not cancelled *)
Theorem C20_ctx_handshake_cancel_refuted : handshake_sees_cancel = false ->
  forall de, call_error GHandshake EndCanceled de = Some v_ErrTimeout /\
             sys_code v_ErrTimeout <> spec_ctx_code EndCanceled.
Proof. exact ctx_handshake_cancel_refuted. Qed.

(* a relay whose lookup of the destination connection outlives the call's time-to-live (queued
   behind another call's connection attempt, in front of / inside the dialer, in the handshake)
   originates timeout (0x01) and keeps the caller's connection open *)
Theorem C20_ctx_relay_sites : forall st de, In st conn_stages -> is_net_timeout de = true ->
  exists msg, relay_connect_result st de = Some (RRError (ESys 1 msg) false) /\
              spec_relay_code RSTimeout = Some 1 /\ spec_relay_code (RSConnectSystem 1) = Some 1.
Proof. exact ctx_relay_sites. Qed.

(* the harness entry point of the model equals the observable the statement prescribes *)
Theorem C20_ctxsite_model_is_spec : forall s en topo variant,
  ctxsite_input_ok s en topo variant ->
  ((s, en) <> (3, 2) \/ handshake_sees_cancel = true) ->
  run_c20_ctxsite [s; en; topo; variant] = spec_ctxsite en topo.
Proof. exact run_ctxsite_spec. Qed.

Print Assumptions C20_ctx_sites_converted.
Print Assumptions C20_ctx_sites_required.
Print Assumptions C20_wait_sites_covered.
Print Assumptions C20_ctx_call_sites.
Print Assumptions C20_ctx_handshake_cancel_refuted.
Print Assumptions C20_ctx_relay_sites.
Print Assumptions C20_ctxsite_model_is_spec.

(* non-vacuity: the table has the row of Peer.lockNewConn; a deadline that passes while a call is
   queued there reaches the caller as timeout, a cancellation as cancelled; through a relay: 0x01 *)
Example C20_ctx_example :
  In (mkCsite fn_lockNewConn KDone WAny [CxConv CxCtx] false []) ctx_sites /\
  call_error GQueued EndDeadline ENil = Some v_ErrTimeout /\
  call_error GQueued EndCanceled ENil = Some v_ErrRequestCancelled /\
  relay_connect_result GQueued ENil = Some (RRError v_ErrTimeout false) /\
  dial_reports EndDeadline ECtxDeadline /\ dial_reports EndCanceled ECtxCanceled /\
  ctxsite_input_ok 0 1 2 0.
Proof.
  split; [vm_compute; tauto|]. split; [vm_compute; reflexivity|]. split; [vm_compute; reflexivity|].
  split; [vm_compute; reflexivity|]. split; [reflexivity|]. split; [split; reflexivity|].
  unfold ctxsite_input_ok. lia.
Qed.
