(* Property C01 -- Call arguments survive fragmentation byte-for-byte.
   (writer/reader theorems over all scripts are in preparation in Proofs/FragWP.v, FragRP.v;
   this file lists what is proved now.) *)
From Coq Require Import ZArith List Bool.
From Verif Require Import Base.Wrap Base.Bytes Gen.GenConsts Gen.GenFrame Model.TypedBuf Model.Messages
  Model.Crc Model.Frag Model.FragWire Spec.FragSpec Spec.FragOk Proofs.FragWireP Proofs.FragWP.
Import ListNotations.
Local Open Scope Z_scope.

(* every emitted frame is at most 65535 bytes: a fragment whose chunks fit the room that
   newFragment leaves in a pooled frame encodes to at most MaxFrameSize bytes, for every
   message header and checksum type *)
Theorem C01_frame_bytes : forall msghdr ck f,
  chunks_size (f_chunks f) <= frag_capacity msghdr ck -> zlen (f_ck f) = ck_size ck ->
  c_FrameHeaderSize + zlen (enc_frag_payload msghdr f) <= c_MaxFrameSize.
Proof. exact frame_bytes_bound. Qed.

(* the receiver's fragment parser recovers exactly flags, checksum type, checksum bytes and
   chunks from the sender's layout *)
Theorem C01_fragment_layout : forall f,
  f_chunks f <> [] \/ True ->
  0 <= f_ctype f < c_checksumCount -> zlen (f_ck f) = ChecksumSize (f_ctype f) ->
  zlen (enc_chunks (f_chunks f)) <= 65535 ->
  parse_frag_payload c_messageTypeCallReqContinue (enc_frag_payload [] f) = (0, f).
Proof. exact parse_frag_roundtrip. Qed.

(* WRITER, all scripts: for every capacity function with at least 3 bytes in the initial and
   5 in continuation fragments, every checksum, and every three arguments written with ANY
   sequence of write sizes and explicit flushes: no panic, every operation returns nil, the
   writer ends Complete having called doneSending, the emitted fragments denote exactly the
   three byte strings, each fragment has >= 1 chunk, fits its capacity and carries the
   more-fragments flag iff it is not the last, and each checksum field is the running checksum. *)
Theorem C01_writer : forall (capf : bool -> Z) ck a1 a2 a3,
  3 <= capf true -> 5 <= capf false ->
  exists codes st,
    w_run capf (script3 a1 a2 a3) (w_init ck) [] = Some (codes, st) /\
    Forall (fun c => c = 0) codes /\
    ws_state st = c_fragmentingWriteComplete /\ ws_done st = true /\
    denote (chunks_of (ws_out st)) = [arg_bytes a1; arg_bytes a2; arg_bytes a3] /\
    frames_ok capf (ws_out st) /\
    ck_chain ck (ws_out st).
Proof. exact writer_correct. Qed.

Print Assumptions C01_writer.
Print Assumptions C01_frame_bytes.
Print Assumptions C01_fragment_layout.

(* non-vacuity / regression: the exact-length-read witness of the pinned tree
   ("ABCDEFGH","NOPQ","xyz", 10-byte fragments): the writer output, and the reader with
   exact-length reads and Close now returns the three arguments *)
Definition ex_args : list (list Z) := [[65;66;67;68;69;70;71;72]; [78;79;80;81]; [120;121;122]].
Definition ex_script : list wop :=
  [WBegin false; WWrite (nth 0 ex_args []); WClose; WBegin false; WWrite (nth 1 ex_args []); WClose;
   WBegin true; WWrite (nth 2 ex_args []); WClose].
Definition ex_frags : list frag :=
  match w_run (fun _ => 10) ex_script (w_init (mkCk 0 0)) [] with Some (_, st) => ws_out st | None => [] end.
Example C01_example_writer : denote (chunks_of ex_frags) = ex_args /\ length ex_frags = 3%nat.
Proof. vm_compute. split; reflexivity. Qed.
Example C01_example_exact_read :
  FragWire.r_run [RBegin false; RRead 8; RClose; RBegin false; RRead 4; RClose; RBegin true; RRead 3; RClose]
        (r_init ex_frags) []
  = Some ([0; 0; 8; 65;66;67;68;69;70;71;72; 0; 0; 0; 4; 78;79;80;81; 0; 0; 0; 3; 120;121;122; 0],
          mkRst c_fragmentingReadComplete 0 [] [] false [] (Some (mkCk 0 0)) 3 3 true).
Proof. vm_compute. reflexivity. Qed.
