(* Property C01 -- Call arguments survive fragmentation byte-for-byte.
   Definitions used in the statements: Spec/FragSpec.v (denote), Spec/FragOk.v (frames_ok,
   ck_chain, script3, arg_bytes), Proofs/FragRP.v (arg_read, arg_helper, data_of, arg_ok,
   sticky, r_final), Proofs/FragRoundtrip.v (kind_ok, ck_fresh). *)
From Coq Require Import ZArith List Bool.
From Verif Require Import Base.Wrap Base.Bytes Gen.GenConsts Gen.GenFrame Model.TypedBuf Model.Messages
  Model.Crc Model.Frag Model.FragWire Spec.FragSpec Spec.FragOk Proofs.FragWireP Proofs.FragWP Proofs.FragRP Proofs.FragRoundtrip
  Gen.GenFrameSites Model.FramePool Proofs.FramePoolP.
Import ListNotations.
Local Open Scope Z_scope.

(* every emitted frame is at most 65535 bytes: a fragment whose chunks fit the room that
   newFragment leaves in a pooled frame encodes to at most MaxFrameSize bytes, for every
   message header and checksum type *)
Theorem C01_frame_bytes : forall msghdr ck f,
  chunks_size (f_chunks f) <= frag_capacity msghdr ck -> zlen (f_ck f) = ck_size ck ->
  c_FrameHeaderSize + zlen (enc_frag_payload msghdr f) <= c_MaxFrameSize.
Proof. exact frame_bytes_bound. Qed.

(* the receiver's fragment parser recovers exactly flags, checksum type, checksum bytes and
   chunks from the sender's layout *)
Theorem C01_fragment_layout : forall f,
  f_chunks f <> [] \/ True ->
  0 <= f_ctype f < c_checksumCount -> zlen (f_ck f) = ChecksumSize (f_ctype f) ->
  zlen (enc_chunks (f_chunks f)) <= 65535 ->
  parse_frag_payload c_messageTypeCallReqContinue (enc_frag_payload [] f) = (0, f).
Proof. exact parse_frag_roundtrip. Qed.

(* WRITER, all scripts: for every capacity function with at least 3 bytes in the initial and
   5 in continuation fragments, every checksum, and every three arguments written with ANY
   sequence of write sizes and explicit flushes: no panic, every operation returns nil, the
   writer ends Complete having called doneSending, the emitted fragments denote exactly the
   three byte strings, each fragment has >= 1 chunk, fits its capacity and carries the
   more-fragments flag iff it is not the last, and each checksum field is the running checksum. *)
Theorem C01_writer : forall (capf : bool -> Z) ck a1 a2 a3,
  3 <= capf true -> 5 <= capf false ->
  exists codes st,
    w_run capf (script3 a1 a2 a3) (w_init ck) [] = Some (codes, st) /\
    Forall (fun c => c = 0) codes /\
    ws_state st = c_fragmentingWriteComplete /\ ws_done st = true /\
    denote (chunks_of (ws_out st)) = [arg_bytes a1; arg_bytes a2; arg_bytes a3] /\
    frames_ok capf (ws_out st) /\
    ck_chain ck (ws_out st).
Proof. exact writer_correct. Qed.

(* READER, any read sizes to end-of-stream: for every well-formed fragment sequence with valid
   running checksums that denotes [a1;a2;a3], reading each argument with ANY positive read
   sizes until end-of-stream returns exactly a1, a2, a3, ends Complete and releases every
   fragment exactly once *)
Theorem C01_reader_eof : forall fs ck0 a1 a2 a3,
  wf fs -> ck_new (first_ctype fs) = Some ck0 -> ck_chain ck0 fs ->
  denote (chunks_of fs) = [a1; a2; a3] ->
  forall ns1 ns2 ns3,
  Forall (fun n => 0 < n) ns1 -> Forall (fun n => 0 < n) ns2 -> Forall (fun n => 0 < n) ns3 ->
  zsum ns1 > zlen a1 -> zsum ns2 > zlen a2 -> zsum ns3 > zlen a3 ->
  exists l1 st1 l2 st2 l3 st3,
    arg_read false ns1 (r_init fs) = Some (0, l1, 0, st1) /\
    arg_read false ns2 st1 = Some (0, l2, 0, st2) /\
    arg_read true ns3 st2 = Some (0, l3, 0, st3) /\
    Forall code_ok l1 /\ Forall code_ok l2 /\ Forall code_ok l3 /\
    data_of l1 = a1 /\ data_of l2 = a2 /\ data_of l3 = a3 /\
    rs_state st3 = c_fragmentingReadComplete /\ rs_fin st3 = true /\
    rs_rel st3 = Z.of_nat (length fs) /\ rs_err st3 = 0.
Proof. exact reader_eof. Qed.

(* ROUND TRIP (writer then reader), all write/flush patterns x all read-size patterns x all
   capacities x all checksum types: exactly the same three byte strings *)
Theorem C01_roundtrip : forall capf kind a1 a2 a3,
  3 <= capf true -> 5 <= capf false -> kind_ok kind ->
  exists codes st, w_run capf (script3 a1 a2 a3) (w_init (ck_fresh kind)) [] = Some (codes, st) /\
  forall ns1 ns2 ns3,
  Forall (fun n => 0 < n) ns1 -> Forall (fun n => 0 < n) ns2 -> Forall (fun n => 0 < n) ns3 ->
  zsum ns1 > zlen (arg_bytes a1) -> zsum ns2 > zlen (arg_bytes a2) -> zsum ns3 > zlen (arg_bytes a3) ->
  exists l1 st1 l2 st2 l3 st3,
    arg_read false ns1 (r_init (ws_out st)) = Some (0, l1, 0, st1) /\
    arg_read false ns2 st1 = Some (0, l2, 0, st2) /\
    arg_read true ns3 st2 = Some (0, l3, 0, st3) /\
    data_of l1 = arg_bytes a1 /\ data_of l2 = arg_bytes a2 /\ data_of l3 = arg_bytes a3 /\
    r_final (Z.of_nat (length (ws_out st))) st3.
Proof. exact roundtrip_eof. Qed.

(* the same through ArgReadHelper.Read (read all, ensure empty, close), any buffer size *)
Theorem C01_roundtrip_helper : forall capf kind a1 a2 a3,
  3 <= capf true -> 5 <= capf false -> kind_ok kind ->
  exists codes st, w_run capf (script3 a1 a2 a3) (w_init (ck_fresh kind)) [] = Some (codes, st) /\
  forall n1 n2 n3, 0 < n1 -> 0 < n2 -> 0 < n3 ->
  exists st1 st2 st3,
    arg_helper false n1 (r_init (ws_out st)) = Some (0, arg_bytes a1, 0, st1) /\
    arg_helper false n2 st1 = Some (0, arg_bytes a2, 0, st2) /\
    arg_helper true n3 st2 = Some (0, arg_bytes a3, 0, st3) /\
    r_final (Z.of_nat (length (ws_out st))) st3.
Proof. exact roundtrip_helper. Qed.

(* EXACT-LENGTH READS and every other read pattern (sizes >= 0, Close without having seen
   end-of-stream): never a panic; an argument whose Begin, reads and Close all succeeded was
   read exactly; the data returned is always a prefix of the right argument (never shifted
   or foreign); after the first error every later operation returns that error and no data *)
Theorem C01_exact_read : forall capf kind a1 a2 a3,
  3 <= capf true -> 5 <= capf false -> kind_ok kind ->
  exists codes st, w_run capf (script3 a1 a2 a3) (w_init (ck_fresh kind)) [] = Some (codes, st) /\
  forall ns1 ns2 ns3,
  Forall (fun n => 0 <= n) ns1 -> Forall (fun n => 0 <= n) ns2 -> Forall (fun n => 0 <= n) ns3 ->
  exists cb1 l1 cc1 st1 cb2 l2 cc2 st2 cb3 l3 cc3 st3,
    arg_read false ns1 (r_init (ws_out st)) = Some (cb1, l1, cc1, st1) /\
    arg_read false ns2 st1 = Some (cb2, l2, cc2, st2) /\
    arg_read true ns3 st2 = Some (cb3, l3, cc3, st3) /\
    (arg_ok cb1 l1 cc1 -> data_of l1 = arg_bytes a1) /\
    (arg_ok cb2 l2 cc2 -> data_of l2 = arg_bytes a2) /\
    (arg_ok cb3 l3 cc3 -> data_of l3 = arg_bytes a3) /\
    (exists r1, arg_bytes a1 = data_of l1 ++ r1) /\ (exists r2, arg_bytes a2 = data_of l2 ++ r2) /\
    (exists r3, arg_bytes a3 = data_of l3 ++ r3) /\
    sticky (ops_of cb1 l1 cc1 ++ ops_of cb2 l2 cc2 ++ ops_of cb3 l3 cc3).
Proof. exact roundtrip_safe. Qed.

(* tie to the source: the state predicates used by the writer and reader models are the
   functions regenerated from fragmenting_writer.go / fragmenting_reader.go on this run *)
Theorem C01_state_predicates : forall s, is_writing s = isWritingArgument s /\ is_reading s = isReadingArgument s.
Proof. exact (fun s => conj (is_writing_generated s) (is_reading_generated s)). Qed.

Print Assumptions C01_writer.
Print Assumptions C01_reader_eof.
Print Assumptions C01_roundtrip.
Print Assumptions C01_roundtrip_helper.
Print Assumptions C01_exact_read.
Print Assumptions C01_frame_bytes.
Print Assumptions C01_fragment_layout.

(* non-vacuity / regression: the exact-length-read witness of the pinned tree
   ("ABCDEFGH","NOPQ","xyz", 10-byte fragments): the writer output, and the reader with
   exact-length reads and Close now returns the three arguments *)
Definition ex_args : list (list Z) := [[65;66;67;68;69;70;71;72]; [78;79;80;81]; [120;121;122]].
Definition ex_script : list wop :=
  [WBegin false; WWrite (nth 0 ex_args []); WClose; WBegin false; WWrite (nth 1 ex_args []); WClose;
   WBegin true; WWrite (nth 2 ex_args []); WClose].
Definition ex_frags : list frag :=
  match w_run (fun _ => 10) ex_script (w_init (mkCk 0 0)) [] with Some (_, st) => ws_out st | None => [] end.
Example C01_example_writer : denote (chunks_of ex_frags) = ex_args /\ length ex_frags = 3%nat.
Proof. vm_compute. split; reflexivity. Qed.
Example C01_example_exact_read :
  FragWire.r_run [RBegin false; RRead 8; RClose; RBegin false; RRead 4; RClose; RBegin true; RRead 3; RClose]
        (r_init ex_frags) []
  = Some ([0; 0; 8; 65;66;67;68;69;70;71;72; 0; 0; 0; 4; 78;79;80;81; 0; 0; 0; 3; 120;121;122; 0],
          mkRst c_fragmentingReadComplete 0 [] [] false [] (Some (mkCk 0 0)) 3 3 true).
Proof. vm_compute. reflexivity. Qed.

(* ---- every FramePool, every NewFrame call site (Model/FramePool.v, Proofs/FramePoolP.v) ----
   The size theorem C01_frame_bytes takes the room of a fragment from MaxFramePayloadSize.
   What follows ties that to the code: go2v regenerates on every run, from every non-test
   file of every package, the table of NewFrame(..) call sites with the VALUE of the argument,
   the slice bounds inside NewFrame, every other place a Frame is made or re-sliced, every
   write buffer over a Payload, and every FramePool implementation with what its Get returns
   and its Release stores (Gen/GenFrameSites.v). *)

(* the tables of this run satisfy the obligations: every NewFrame argument is
   MaxFramePayloadSize (or, for a frame the function only reads into, at least that); frames
   are made in NewFrame only; Payload/buffer/headerBuffer are assigned in NewFrame only (or
   set to nil); write buffers wrap a whole Payload; every pool's Get returns a fresh NewFrame,
   a frame received from its channel or one taken from its sync.Pool, its Release stores
   nothing but its parameter (and nothing at all if it clears the frame); the New function of
   a sync.Pool of frames returns a fresh NewFrame *)
Theorem C01_frame_sites : frame_sites_ok = true.
Proof. exact frame_sites_ok_holds. Qed.

(* the FramePool implementations of the repository are exactly the ones the harness engine
   poolwire / poolget constructs (a new implementation breaks this and must be added there) *)
Theorem C01_pool_impls_known : map (fun p => fst (fst (fst p))) pool_impls = known_pools.
Proof. exact pool_impls_known. Qed.

(* EVERY POOL, EVERY SCHEDULE of allocations, Gets (fresh or recycled) and Releases (kept or
   discarded): a frame returned by any FramePool.Get has len(Payload) = MaxFramePayloadSize
   at offset FrameHeaderSize of a buffer of MaxFrameSize bytes, header in front *)
Theorem C01_pool_frames : forall evs w s,
  pw_run evs pw_init = Some w -> In s (w_got w) ->
  sh_payload s = c_MaxFramePayloadSize /\ sh_poff s = c_FrameHeaderSize /\
  sh_header s = c_FrameHeaderSize /\ sh_hoff s = 0 /\ sh_buffer s = c_MaxFrameSize.
Proof. exact pool_frames_good. Qed.

(* every frame library code holds (receive-only frames of helper packages included) can take a
   maximal legal frame *)
Theorem C01_live_frames_roomy : forall evs w s,
  pw_run evs pw_init = Some w -> In s (w_live w) ->
  c_MaxFramePayloadSize <= sh_payload s /\ sh_poff s = c_FrameHeaderSize /\ sh_poff s + sh_payload s <= sh_buffer s.
Proof. exact live_frames_roomy. Qed.

(* the size clause FOR EVERY POOL: in a frame from any pool, a fragment whose chunks fit the
   room newFragment leaves (len(frame.Payload) - flags - message header - checksum type -
   checksum) is a frame of at most 65535 bytes; the size flushFragment stamps,
   SetPayloadSize(uint16(BytesWritten)), does not wrap and equals the bytes Frame.WriteOut
   writes (within the buffer); the receiver's PayloadSize gives back the payload length *)
Theorem C01_frame_bytes_every_pool : forall evs w s msghdr ck f,
  pw_run evs pw_init = Some w -> In s (w_got w) ->
  chunks_size (f_chunks f) <= frame_room s (zlen msghdr) (ck_size ck) -> zlen (f_ck f) = ck_size ck ->
  let n := zlen (enc_frag_payload msghdr f) in
  c_FrameHeaderSize + n <= c_MaxFrameSize /\
  SetPayloadSize (wrapU 16 n) = c_FrameHeaderSize + n /\
  SetPayloadSize (wrapU 16 n) <= sh_buffer s /\
  PayloadSize (SetPayloadSize (wrapU 16 n)) = n /\
  n <= sh_payload s.
Proof. exact every_pool_frame_bytes. Qed.

Print Assumptions C01_frame_sites.
Print Assumptions C01_pool_frames.
Print Assumptions C01_live_frames_roomy.
Print Assumptions C01_frame_bytes_every_pool.

(* non-vacuity: a schedule in which each of the four pools hands out frames -- checked pool
   fresh; channel pool fresh, released and kept, recycled; disabled pool fresh; sync pool New,
   released and kept, recycled -- is enabled and yields six frames *)
Example C01_example_pools :
  let a := first_plain_site in
  match pw_run [EGet 0 0 a; EGet 1 0 a; ERelease 1 0 true; EGet 1 1 0; EGet 2 0 a;
               EGet 3 3 a; ERelease 3 0 true; EGet 3 2 0] pw_init with
  | Some w => map sh_payload (w_got w) = [65519; 65519; 65519; 65519; 65519; 65519] /\ length (w_store w) = 0%nat
  | None => False
  end.
Proof. vm_compute. split; reflexivity. Qed.
(* why the argument of NewFrame matters: NewFrame(MaxFrameSize) gives a 65535-byte Payload in a
   65551-byte buffer, and a fragment filling it is stamped with the size 15 *)
Example C01_example_oversized_frame_wraps :
  new_frame c_MaxFrameSize false = Some (mkShape 65551 16 65535 0 16 false) /\
  SetPayloadSize (wrapU 16 65535) = 15.
Proof. exact oversized_frame_wraps. Qed.

(* ---- the io.Writer / io.Reader contract of the argument streams (Model/FragIO.v, Proofs/FragIOP.v,
   Proofs/FragIOGenP.v) ----
   "Any sequence of write sizes" is experienced by the caller through what Write RETURNS: a caller
   that honours io.Writer (io.Copy, bufio.Writer, http.WriteRequest, a loop p = p[n:]) decides from the
   returned count which bytes are part of the argument.  Model/FragIO.v adds the returned values to the
   writer and reader models, keeping the count the way the Go loops keep it (a running total). *)
From Verif Require Import Gen.GenFragIO Model.FragIO Proofs.FragIOP Proofs.FragIOGenP.

(* WRITER with its returned values, all scripts: for every capacity function, checksum and three
   arguments written with ANY sequence of write sizes (each below 2^63 bytes, as every Go slice) and
   flushes: no panic; EVERY Write(p) returns (len(p), nil) -- whether it fits, spills into one more
   fragment or spans any number of fragments -- and every other operation returns nil; the counts
   returned for the Writes of an argument add up to the length of the argument that the emitted
   fragments denote; codes and final state are those of the run of C01_writer *)
Theorem C01_write_returns : forall (capf : bool -> Z) ck a1 a2 a3,
  3 <= capf true -> 5 <= capf false ->
  small_writes a1 -> small_writes a2 -> small_writes a3 ->
  exists r1 st1 r2 st2 r3 st3,
    w_run_n capf (arg_ops false a1) (w_init ck) = Some (r1, st1) /\
    w_run_n capf (arg_ops false a2) st1 = Some (r2, st2) /\
    w_run_n capf (arg_ops true a3) st2 = Some (r3, st3) /\
    Forall2 ret_ok (arg_ops false a1) r1 /\ Forall2 ret_ok (arg_ops false a2) r2 /\ Forall2 ret_ok (arg_ops true a3) r3 /\
    returned r1 = zlen (arg_bytes a1) /\ returned r2 = zlen (arg_bytes a2) /\ returned r3 = zlen (arg_bytes a3) /\
    denote (chunks_of (ws_out st3)) = [arg_bytes a1; arg_bytes a2; arg_bytes a3] /\
    map zlen (denote (chunks_of (ws_out st3))) = [returned r1; returned r2; returned r3] /\
    w_run capf (script3 a1 a2 a3) (w_init ck) [] = Some (map snd (r1 ++ r2 ++ r3), st3).
Proof. exact io_writer. Qed.

(* ONE Write in any state in which an argument is open (whatever room the current fragment has
   left, whatever was written before): n = len(p), nil, and the state is the one of Model/Frag.v *)
Theorem C01_write_once : forall (capf : bool -> Z) st p,
  3 <= capf false -> zlen p < int_max -> ws_err st = 0 -> is_writing (ws_state st) = true ->
  exists st', w_write capf p st = Some (0, st') /\ w_write_n capf p st = Some (zlen p, 0, st').
Proof. exact io_write_once. Qed.

(* a caller that re-offers what a short count leaves (`n, err := w.Write(p); p = p[n:]`) makes exactly
   ONE call: what it transmits is what it meant to send *)
Theorem C01_resend_loop_once : forall (capf : bool -> Z) st p fuel,
  3 <= capf false -> zlen p < int_max -> ws_err st = 0 -> is_writing (ws_state st) = true -> p <> [] ->
  exists st', w_write capf p st = Some (0, st') /\ w_send_all capf (S fuel) p st 0 = Some (1, 0, st').
Proof. exact io_send_all_once. Qed.

(* READER with its returned count: Read(buf) returns the bytes, code and state of Model/Frag.v (to
   which C01_reader_eof / C01_exact_read apply: the bytes are the NEXT bytes of the argument) and
   n = the number of bytes delivered; never more than len(buf); len(buf) exactly iff the error is nil
   (a short read always comes with io.EOF or an error) *)
Theorem C01_read_returns : forall n st, 0 <= n < int_max ->
  r_read_n n st = match r_read n st with None => None | Some (bs, c, st1) => Some (zlen bs, bs, c, st1) end /\
  forall bs c st1, r_read n st = Some (bs, c, st1) ->
    zlen bs <= n /\ (c = 0 -> zlen bs = n) /\ (c <> 0 -> zlen bs < n \/ n = 0).
Proof. exact io_read. Qed.

(* tie to the source: ONE ITERATION of the loop of fragmentingWriter.Write, regenerated from
   fragmenting_writer.go on this run, accumulates the count before anything is returned, returns
   (total, nil) when the rest of the slice fit, (total, err) when Flush failed, and otherwise goes on
   with exactly the written bytes dropped from the front of the slice ... *)
Theorem C01_write_iteration_generated : forall fits flush_err total b,
  fragWriteIter fits flush_err total b =
  let '(ret, total', b') := wr_iter (fits b) total b in
  if ret then (1, (total', 0), total', b)
  else if negb (flush_err =? 0) then (1, (total', flush_err), total', b)
  else (0, (0, 0), total', b').
Proof. exact write_iter_generated. Qed.

(* ... and the loop of the writer model is the repetition of that generated iteration *)
Theorem C01_write_loop_generated : forall capf fuel b st t,
  w_write_loop_n capf (S fuel) b st t =
  let '(how, r, t', b') := fragWriteIter (w_fits st) 0 t b in
  if how =? 1 then (fst r, w_put st b)
  else w_write_loop_n capf fuel b' (w_flush_raw capf (w_put st b)) t'.
Proof. exact write_loop_generated. Qed.

(* the same for one iteration of the loop of fragmentingReader.Read (fragmenting_reader.go) *)
Theorem C01_read_iteration_generated : forall cur rem more recv_err total b,
  fragReadIter cur rem more recv_err total b =
  let '(n, total', b', cur') := rd_iter cur total b in
  if b' =? 0 then (1, (total', 0), total', b', cur')
  else if rem >? 0 then (1, (total', 12), total', b', cur')
  else if negb more then (1, (total', 12), total', b', cur')
  else if negb (recv_err =? 0) then (1, (total', recv_err), total', b', cur')
  else (0, (0, 0), total', b', cur').
Proof. exact read_iter_generated. Qed.

Print Assumptions C01_write_returns.
Print Assumptions C01_write_once.
Print Assumptions C01_resend_loop_once.
Print Assumptions C01_read_returns.
Print Assumptions C01_write_iteration_generated.
Print Assumptions C01_write_loop_generated.
Print Assumptions C01_read_iteration_generated.

(* non-vacuity: 10-byte fragments (8 data bytes each): single Writes of 8, 9, 17, 33 and 40 bytes --
   fitting, and crossing 1, 2, 4 and 4 fragment boundaries -- return (len, nil) *)
Example C01_example_write_spans :
  let capf := fun _ : bool => 10 in
  let st0 := match w_begin capf false (w_init (mkCk 0 0)) with Some (_, s) => s | None => w_init (mkCk 0 0) end in
  map (fun k => match w_write_n capf (repeat 7 k) st0 with
                | Some (n, c, st) => (n, c, Z.of_nat (length (ws_out st)))
                | None => (-1, -1, -1) end) [8%nat; 9%nat; 17%nat; 33%nat; 40%nat]
  = [(8, 0, 0); (9, 0, 1); (17, 0, 2); (33, 0, 4); (40, 0, 4)].
Proof. exact io_write_spans. Qed.

(* ------------------------------------------------------------------------------------------
   An early answer keeps the request (strengthening W01).  The bytes a handler Reads are slices of
   the frame its request reader is parsed into.  Gen/GenC01RelSites.v (go2v/c01relsites.go) lists,
   regenerated from the source, every call that can give that frame back to the FramePool;
   Model/C01RelSites.v knows these sites with the moment at which each runs. *)
From Verif Require Import Model.C01RelSites Gen.GenC01RelSites Proofs.C01RelSitesP.

(* the regenerated table is the model's table: the reader's own releases of a fragment it has
   consumed (fragmentingReader.Close of the last argument, recvAndParseNextFragment before it
   fetches), the two paths that FAIL a call (InboundCallResponse.SendSystemError, dispatchInbound
   when the method cannot be read) and the wrappers releasePreviousFragment / done -- same
   functions, same callees, same receivers, same guards *)
Theorem C01_release_sites_generated : c01_release_sites = map fst c01r_known.
Proof. exact c01r_sites_exact. Qed.

(* no function outside these reaches a release (closure over static, embedded, interface and
   closure calls, cut at the reader's API, SendSystemError and dispatchInbound) *)
Theorem C01_releasing_functions_generated : c01r_functions_ok c01_releasing_functions = true.
Proof. exact c01r_functions_ok_holds. Qed.

(* in the world of this run's table: a handler of a call that is not failed obtains from every Read
   the bytes its caller sent at that position -- whenever it completes its response (RvRespComplete),
   whatever frames the pool reuses (RvReuse: only frames that were given back), across fragments
   (RvAdvance) *)
Theorem C01_early_answer_keeps_request : forall own evs,
  forallb (fun e => negb (c01r_is_fail e)) evs = true ->
  Forall (fun p => fst p = snd p) (c01r_run c01_release_sites (c01r_init own) evs).
Proof. exact c01r_early_answer. Qed.

(* ... and for every table all of whose sites are known ones *)
Theorem C01_early_answer_any_known_table : forall tbl own evs,
  c01r_table_ok tbl = true ->
  forallb (fun e => negb (c01r_is_fail e)) evs = true ->
  Forall (fun p => fst p = snd p) (c01r_run tbl (c01r_init own) evs).
Proof. exact c01r_early_answer_any_table. Qed.

(* without the hypothesis "the call is not failed" the statement is FALSE of the pinned tree (known
   finding c01:read-after-syserr): SendSystemError gives the request frame back and leaves the
   reader parsed into it, the handler that reads on gets another frame's bytes with no error *)
Theorem C01_read_after_failed_call_refuted :
  exists own evs, ~ Forall (fun p => fst p = snd p) (c01r_run c01_release_sites (c01r_init own) evs).
Proof. exact c01r_read_after_fail_refuted. Qed.

Print Assumptions C01_release_sites_generated.
Print Assumptions C01_read_after_failed_call_refuted.
Print Assumptions C01_releasing_functions_generated.
Print Assumptions C01_early_answer_keeps_request.
Print Assumptions C01_early_answer_any_known_table.

(* non-vacuity: the hypothesis distinguishes -- a table with one more site (a release in
   InboundCallResponse.doneSending) is refused, and in its world the handler that answers first
   reads the bytes of the frame that was read into the reused memory, with no error; the same trace
   in the world of this run's table returns the caller's bytes *)
Example C01_example_doneSending_table_refused : c01r_table_ok c01r_table_with_doneSending = false.
Proof. exact c01r_doneSending_refused. Qed.

Example C01_example_doneSending_foreign :
  c01r_run c01r_table_with_doneSending (c01r_init [1; 2; 3; 4; 5])
    [RvRead 2; RvRespComplete; RvReuse [9; 9; 9; 9; 9]; RvRead 3]
  = [([1; 2], [1; 2]); ([9; 9; 9], [3; 4; 5])].
Proof. exact c01r_doneSending_foreign. Qed.

Example C01_example_early_answer_own :
  c01r_run c01_release_sites (c01r_init [1; 2; 3; 4; 5])
    [RvRead 2; RvRespComplete; RvReuse [9; 9; 9; 9; 9]; RvRead 3]
  = [([1; 2], [1; 2]); ([3; 4; 5], [3; 4; 5])].
Proof. exact c01r_example_own. Qed.
