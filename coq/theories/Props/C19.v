(* Property C19 -- Idle sweeps and health checks close exactly the connections they should.
   This file contains only statements, each closed by [exact], Print Assumptions and
   non-vacuity Examples.  Vocabulary (events, call frames, last_call_activity,
   health_closes_at, lastn): Spec/IdleHealthSpec.v.  Model: Model/Health.v, Model/Idle.v,
   Model/IdleHealthSys.v (isMessageTypeCall, HealthCheckOptions.enabled, validateIdleCheck,
   GetSystemErrorCode and all constants are regenerated from the Go source). *)
From Coq Require Import ZArith List Bool.
From Verif Require Import Base.Wrap Gen.GenConsts Gen.GenFrame Gen.GenHealthIdle Spec.IdleHealthSpec
  Model.Health Model.Idle Model.IdleHealthSys Proofs.IdleP Proofs.HealthP.
Import ListNotations.
Local Open Scope Z_scope.

(* The frame types that count as activity are exactly call req/res/continue and error
   (so init, cancel, ping req, ping res, anything else never count), for every type value. *)
Theorem C19_activity_types : forall mt, isMessageTypeCall mt = is_call_frame mt.
Proof. exact is_call_frame_gen. Qed.
Print Assumptions C19_activity_types.

(* For every history of events over any number of connections (frames of any type in both
   directions, calls, closes, sweeps, pings with any outcomes) under a monotone stub clock:
   the later of the two activity stamps of a connection is the time of its last sent or
   received call frame (its creation time if none).  Pings never move it. *)
Theorem C19_stamp : forall cf t0 h id, clock_ok t0 h ->
  match lookup id (ch_conns (run cf t0 h)) with
  | Some c => last_call_activity id t0 None h = Some (Z.max (k_lr c) (k_lw c))
  | None => last_call_activity id t0 None h = None
  end.
Proof. exact stamp_is_last_call_activity. Qed.
Print Assumptions C19_stamp.

(* One sweep, from ANY channel state (distinct connection ids, non-negative exchange counts,
   MaxIdleTime a Duration above the minimum): connection id leaves the Active state if and
   only if it is tracked, Active, has no pending inbound/outbound call, no pending relayed
   call, and now - max(lastRead,lastWrite) >= MaxIdleTime; it is then exactly what
   Connection.close makes of it; every other connection is unchanged. *)
Theorem C19_sweep_iff : forall mi s id c,
  NoDup (map fst (ch_conns s)) -> min_duration < mi <= max_duration ->
  lookup id (ch_conns s) = Some c -> counts_ok c ->
  exists c', lookup id (ch_conns (sweep mi s)) = Some c' /\
    ((is_active c = true /\ is_active c' = false) <-> should_close (ch_now s) mi c) /\
    (should_close (ch_now s) mi c -> c' = conn_close c) /\
    (~ should_close (ch_now s) mi c -> c' = c).
Proof. exact sweep_iff. Qed.
Print Assumptions C19_sweep_iff.

(* The same over histories: after every history h (all interleavings of the events), with
   idle checking enabled, the sweep tick closes connection id if and only if it is Active,
   has no pending call or relayed call, and the clock is at least MaxIdleTime past its last
   call activity IN THE HISTORY; connections it does not close are untouched. *)
Theorem C19_sweep_history : forall cf t0 h id,
  clock_ok t0 h -> sweep_enabled cf = true ->
  idleCheckOk (cf_idle_interval cf) (cf_max_idle cf) = true -> cf_max_idle cf <= max_duration ->
  let s := run cf t0 h in
  let s' := step cf s ETick in
  (In id (closed_between (ch_conns s) (ch_conns s')) <->
   exists c la, lookup id (ch_conns s) = Some c /\ k_state c = c_connectionActive /\
     k_inb c = 0 /\ k_outb c = 0 /\ relay_idle c /\
     last_call_activity id t0 None h = Some la /\ clock t0 h - la >= cf_max_idle cf) /\
  (forall c, lookup id (ch_conns s) = Some c -> ~ In id (closed_between (ch_conns s) (ch_conns s')) ->
     lookup id (ch_conns s') = Some c).
Proof. exact sweep_history. Qed.
Print Assumptions C19_sweep_history.

(* With idle checking disabled (IdleCheckInterval <= 0) a tick changes nothing. *)
Theorem C19_sweep_disabled : forall cf s, sweep_enabled cf = false -> step cf s ETick = s.
Proof. exact sweep_disabled. Qed.
Print Assumptions C19_sweep_disabled.

(* A swept connection ends Closed, or InboundClosed while a ping is still in flight. *)
Theorem C19_swept_state : forall c,
  k_state c = c_connectionActive -> k_inb c = 0 -> k_outb c = 0 -> relay_idle c -> k_stopped c = false ->
  k_state (conn_close c) = (if k_pings c =? 0 then c_connectionClosed else c_connectionInboundClosed).
Proof. exact swept_state. Qed.
Print Assumptions C19_swept_state.

(* Health loop, for every FailuresToClose >= 1 and every sequence of ping outcomes: the loop
   closes the connection at outcome i iff outcomes i-F+1..i are F failures in a row, no
   earlier such window exists, and no stop outcome occurred up to i.  (Not earlier, not later;
   a success in the window prevents it, i.e. resets the count.) *)
Theorem C19_health : forall F outs i, 1 <= F ->
  snd (health_loop F outs 0 hl_init) = Some i <-> health_closes_at (Z.to_nat F) outs i.
Proof. exact health_loop_closes_iff. Qed.
Print Assumptions C19_health.

(* A success resets the count (and never closes). *)
Theorem C19_health_reset : forall F l,
  hl_fails (fst (health_iter F POk l)) = 0 /\ snd (health_iter F POk l) = false /\
  hl_running (fst (health_iter F POk l)) = true.
Proof. exact health_iter_ok. Qed.
Print Assumptions C19_health_reset.

(* In the channel: the end of a ping runs exactly one loop body on that connection; the
   connection is closed iff the body says so, i.e. iff the outcome is a failure and it is the
   F-th in a row. *)
Theorem C19_health_step : forall F o c, k_hstatus c = 2 ->
  let c1 := check_exchanges (set_counts (k_inb c) (k_outb c) (k_pings c - 1) (k_relay c) c) in
  let r := health_iter F o (k_health c) in
  k_health (ping_end F o c) = fst r /\
  (snd r = true <-> o = PFail /\ hl_fails (k_health c) + 1 >= F) /\
  (snd r = true -> k_state (ping_end F o c) = k_state (conn_close c1)) /\
  (snd r = false -> k_state (ping_end F o c) = k_state c1).
Proof. exact ping_end_step. Qed.
Print Assumptions C19_health_step.

(* A ping that cannot even be queued (the wedged-connection case): the connection ends
   Closed through the connection-error path and the health goroutine has exited. *)
Theorem C19_health_not_sent : forall F c, k_hstatus c = 1 -> conn_wf c ->
  let c' := ping_start F false c in
  k_state c' = c_connectionClosed /\ k_tracked c' = false /\ k_hstatus c' = 3 /\
  hl_hist (k_health c') = hh_add (hl_hist (k_health c)) false.
Proof. exact ping_not_sent. Qed.
Print Assumptions C19_health_not_sent.

(* Events of one connection never touch another connection. *)
Theorem C19_others_untouched : forall cf s e id id',
  ev_conn e = Some id' -> id' <> id -> (forall i rl, e <> ENewConn i rl) ->
  lookup id (ch_conns (step cf s e)) = lookup id (ch_conns s).
Proof. exact other_conns_untouched. Qed.
Print Assumptions C19_others_untouched.

(* The health history reported by asBools is the last 256 results in order, for every
   sequence of results; the ring index never leaves the array. *)
Theorem C19_history_ring : forall bs,
  let h := fold_left hh_add bs hh_new in
  hh_as_bools h = lastn 256 bs /\ hh_bad h = false /\ hh_total h = zlen bs.
Proof. exact ring_as_bools. Qed.
Print Assumptions C19_history_ring.

(* Options: Timeout 0 means one second, FailuresToClose 0 means 5, anything else is kept;
   health checks run iff Interval > 0 (the constants are regenerated from the source). *)
Theorem C19_defaults : forall o,
  let o' := ho_with_defaults o in
  ho_interval o' = ho_interval o /\
  ho_timeout o' = (if ho_timeout o =? 0 then 1000000000 else ho_timeout o) /\
  ho_failures o' = (if ho_failures o =? 0 then 5 else ho_failures o) /\
  (ho_enabled o' = true <-> 0 < ho_interval o).
Proof. exact defaults_spec. Qed.
Print Assumptions C19_defaults.

(* Along every history a connection is in the set the sweep iterates over exactly while it is
   not Closed, and its pending-call counters are never negative. *)
Theorem C19_tracked_iff_open : forall cf t0 h id c,
  lookup id (ch_conns (run cf t0 h)) = Some c ->
  (k_tracked c = true <-> k_state c <> c_connectionClosed) /\ counts_ok c.
Proof. exact run_tracked_iff_open. Qed.
Print Assumptions C19_tracked_iff_open.

(* ---- non-vacuity ---- *)
Definition ex_cf : config :=
  {| cf_idle_interval := 30; cf_max_idle := 180;
     cf_health := ho_with_defaults {| ho_interval := 1; ho_timeout := 0; ho_failures := 0 |} |}.

(* two connections; conn 0 gets a ping res (not activity), conn 1 a call res at t=160; at
   t=200 the sweep closes conn 0 only; after 200 more it closes conn 1 *)
Example C19_example_sweep :
  let h := [ENewConn 0 false; ENewConn 1 true; EAdvance 100; ERead 0 209; EAdvance 60; EWrite 1 4; EAdvance 40] in
  clock_ok 1000 h /\
  closed_between (ch_conns (run ex_cf 1000 h)) (ch_conns (step ex_cf (run ex_cf 1000 h) ETick)) = [0] /\
  last_call_activity 0 1000 None h = Some 1000 /\ last_call_activity 1 1000 None h = Some 1160 /\
  let h2 := h ++ [ETick; EAdvance 200] in
  closed_between (ch_conns (run ex_cf 1000 h2)) (ch_conns (step ex_cf (run ex_cf 1000 h2) ETick)) = [1].
Proof. vm_compute. repeat split; try discriminate; intros; discriminate. Qed.

(* a pending relayed call keeps an idle connection open *)
Example C19_example_relay_pending :
  let h := [ENewConn 0 true; EPend 0 2 1; EAdvance 500] in
  closed_between (ch_conns (run ex_cf 0 h)) (ch_conns (step ex_cf (run ex_cf 0 h) ETick)) = [].
Proof. vm_compute. reflexivity. Qed.

(* default FailuresToClose = 5: fail x4, ok, fail x5 closes at index 9 and not at 4 *)
Example C19_example_health :
  let outs := [PFail; PFail; PFail; PFail; POk; PFail; PFail; PFail; PFail; PFail; PFail] in
  ho_failures (cf_health ex_cf) = 5 /\
  snd (health_loop 5 outs 0 hl_init) = Some 9%nat /\ health_closes_at 5 outs 9.
Proof.
  split; [reflexivity|]. split; [vm_compute; reflexivity|].
  apply (proj1 (health_loop_closes_iff 5 _ 9 ltac:(discriminate))). vm_compute. reflexivity.
Qed.
