(* Property C19 -- Idle sweeps and health checks close exactly the connections they should.
   This file contains only statements, each closed by [exact], Print Assumptions and
   non-vacuity Examples.  Vocabulary (events, call frames, last_call_activity,
   health_closes_at, lastn): Spec/IdleHealthSpec.v.  Model: Model/Health.v, Model/Idle.v,
   Model/IdleHealthSys.v (isMessageTypeCall, HealthCheckOptions.enabled, validateIdleCheck,
   GetSystemErrorCode and all constants are regenerated from the Go source). *)
From Coq Require Import ZArith List Bool.
From Verif Require Import Base.Wrap Gen.GenConsts Gen.GenFrame Gen.GenHealthIdle Spec.IdleHealthSpec
  Spec.IdleHealthHist Model.Health Model.Idle Model.IdleHealthSys Model.IdleSweepFine
  Proofs.IdleP Proofs.HealthP Proofs.IdleHealthSysP Proofs.IdleSweepFineP.
Import ListNotations.
Local Open Scope Z_scope.

(* The frame types that count as activity are exactly call req/res/continue and error
   (so init, cancel, ping req, ping res, anything else never count), for every type value. *)
Theorem C19_activity_types : forall mt, isMessageTypeCall mt = is_call_frame mt.
Proof. exact is_call_frame_gen. Qed.
Print Assumptions C19_activity_types.

(* For every history of events over any number of connections (frames of any type in both
   directions, calls, closes, sweeps, pings with any outcomes) under a monotone stub clock:
   the later of the two activity stamps of a connection is the time of its last sent or
   received call frame (its creation time if none).  Pings never move it. *)
Theorem C19_stamp : forall cf t0 h id, clock_ok t0 h ->
  match lookup id (ch_conns (run cf t0 h)) with
  | Some c => last_call_activity id t0 None h = Some (Z.max (k_lr c) (k_lw c))
  | None => last_call_activity id t0 None h = None
  end.
Proof. exact stamp_is_last_call_activity. Qed.
Print Assumptions C19_stamp.

(* One sweep, from ANY channel state (distinct connection ids, non-negative exchange counts,
   MaxIdleTime a Duration above the minimum): connection id leaves the Active state if and
   only if it is tracked, Active, has no pending inbound/outbound call, no pending relayed
   call, and now - max(lastRead,lastWrite) >= MaxIdleTime; it is then exactly what
   Connection.close makes of it; every other connection is unchanged. *)
Theorem C19_sweep_iff : forall mi s id c,
  NoDup (map fst (ch_conns s)) -> min_duration < mi <= max_duration ->
  lookup id (ch_conns s) = Some c -> counts_ok c ->
  exists c', lookup id (ch_conns (sweep mi s)) = Some c' /\
    ((is_active c = true /\ is_active c' = false) <-> should_close (ch_now s) mi c) /\
    (should_close (ch_now s) mi c -> c' = conn_close c) /\
    (~ should_close (ch_now s) mi c -> c' = c).
Proof. exact sweep_iff. Qed.
Print Assumptions C19_sweep_iff.

(* The same over histories: after every history h (all interleavings of the events), with
   idle checking enabled, the sweep tick closes connection id if and only if it is Active,
   has no pending call or relayed call, and the clock is at least MaxIdleTime past its last
   call activity IN THE HISTORY; connections it does not close are untouched. *)
Theorem C19_sweep_history : forall cf t0 h id,
  clock_ok t0 h -> sweep_enabled cf = true ->
  idleCheckOk (cf_idle_interval cf) (cf_max_idle cf) = true -> cf_max_idle cf <= max_duration ->
  let s := run cf t0 h in
  let s' := step cf s ETick in
  (In id (closed_between (ch_conns s) (ch_conns s')) <->
   exists c la, lookup id (ch_conns s) = Some c /\ k_state c = c_connectionActive /\
     k_inb c = 0 /\ k_outb c = 0 /\ relay_idle c /\
     last_call_activity id t0 None h = Some la /\ clock t0 h - la >= cf_max_idle cf) /\
  (forall c, lookup id (ch_conns s) = Some c -> ~ In id (closed_between (ch_conns s) (ch_conns s')) ->
     lookup id (ch_conns s') = Some c).
Proof. exact sweep_history. Qed.
Print Assumptions C19_sweep_history.

(* With idle checking disabled (IdleCheckInterval <= 0) a tick changes nothing. *)
Theorem C19_sweep_disabled : forall cf s, sweep_enabled cf = false -> step cf s ETick = s.
Proof. exact sweep_disabled. Qed.
Print Assumptions C19_sweep_disabled.

(* A swept connection ends Closed, or InboundClosed while a ping is still in flight. *)
Theorem C19_swept_state : forall c,
  k_state c = c_connectionActive -> k_inb c = 0 -> k_outb c = 0 -> relay_idle c -> k_stopped c = false ->
  k_state (conn_close c) = (if k_pings c =? 0 then c_connectionClosed else c_connectionInboundClosed).
Proof. exact swept_state. Qed.
Print Assumptions C19_swept_state.

(* Health loop, for every FailuresToClose >= 1 and every sequence of ping outcomes: the loop
   closes the connection at outcome i iff outcomes i-F+1..i are F failures in a row, no
   earlier such window exists, and no stop outcome occurred up to i.  (Not earlier, not later;
   a success in the window prevents it, i.e. resets the count.) *)
Theorem C19_health : forall F outs i, 1 <= F ->
  snd (health_loop F outs 0 hl_init) = Some i <-> health_closes_at (Z.to_nat F) outs i.
Proof. exact health_loop_closes_iff. Qed.
Print Assumptions C19_health.

(* A success resets the count (and never closes). *)
Theorem C19_health_reset : forall F l,
  hl_fails (fst (health_iter F POk l)) = 0 /\ snd (health_iter F POk l) = false /\
  hl_running (fst (health_iter F POk l)) = true.
Proof. exact health_iter_ok. Qed.
Print Assumptions C19_health_reset.

(* In the channel: the end of a ping runs exactly one loop body on that connection; the
   connection is closed iff the body says so, i.e. iff the outcome is a failure and it is the
   F-th in a row. *)
Theorem C19_health_step : forall F o c, k_hstatus c = 2 ->
  let c1 := check_exchanges (set_counts (k_inb c) (k_outb c) (k_pings c - 1) (k_relay c) c) in
  let r := health_iter F o (k_health c) in
  k_health (ping_end F o c) = fst r /\
  (snd r = true <-> o = PFail /\ hl_fails (k_health c) + 1 >= F) /\
  (snd r = true -> k_state (ping_end F o c) = k_state (conn_close c1)) /\
  (snd r = false -> k_state (ping_end F o c) = k_state c1).
Proof. exact ping_end_step. Qed.
Print Assumptions C19_health_step.

(* A ping that cannot even be queued (the wedged-connection case): the connection ends
   Closed through the connection-error path and the health goroutine has exited. *)
Theorem C19_health_not_sent : forall F c, k_hstatus c = 1 -> conn_wf c ->
  let c' := ping_start F false c in
  k_state c' = c_connectionClosed /\ k_tracked c' = false /\ k_hstatus c' = 3 /\
  hl_hist (k_health c') = hh_add (hl_hist (k_health c)) false.
Proof. exact ping_not_sent. Qed.
Print Assumptions C19_health_not_sent.

(* Events of one connection never touch another connection. *)
Theorem C19_others_untouched : forall cf s e id id',
  ev_conn e = Some id' -> id' <> id -> (forall i rl, e <> ENewConn i rl) ->
  lookup id (ch_conns (step cf s e)) = lookup id (ch_conns s).
Proof. exact other_conns_untouched. Qed.
Print Assumptions C19_others_untouched.

(* The health history reported by asBools is the last 256 results in order, for every
   sequence of results; the ring index never leaves the array. *)
Theorem C19_history_ring : forall bs,
  let h := fold_left hh_add bs hh_new in
  hh_as_bools h = lastn 256 bs /\ hh_bad h = false /\ hh_total h = zlen bs.
Proof. exact ring_as_bools. Qed.
Print Assumptions C19_history_ring.

(* Options: Timeout 0 means one second, FailuresToClose 0 means 5, anything else is kept;
   health checks run iff Interval > 0 (the constants are regenerated from the source). *)
Theorem C19_defaults : forall o,
  let o' := ho_with_defaults o in
  ho_interval o' = ho_interval o /\
  ho_timeout o' = (if ho_timeout o =? 0 then 1000000000 else ho_timeout o) /\
  ho_failures o' = (if ho_failures o =? 0 then 5 else ho_failures o) /\
  (ho_enabled o' = true <-> 0 < ho_interval o).
Proof. exact defaults_spec. Qed.
Print Assumptions C19_defaults.

(* Along every history a connection is in the set the sweep iterates over exactly while it is
   not Closed, and its pending-call counters are never negative. *)
Theorem C19_tracked_iff_open : forall cf t0 h id c,
  lookup id (ch_conns (run cf t0 h)) = Some c ->
  (k_tracked c = true <-> k_state c <> c_connectionClosed) /\ counts_ok c.
Proof. exact run_tracked_iff_open. Qed.
Print Assumptions C19_tracked_iff_open.

(* ---- non-vacuity ---- *)
Definition ex_cf : config :=
  {| cf_idle_interval := 30; cf_max_idle := 180;
     cf_health := ho_with_defaults {| ho_interval := 1; ho_timeout := 0; ho_failures := 0 |} |}.

(* two connections; conn 0 gets a ping res (not activity), conn 1 a call res at t=160; at
   t=200 the sweep closes conn 0 only; after 200 more it closes conn 1 *)
Example C19_example_sweep :
  let h := [ENewConn 0 false; ENewConn 1 true; EAdvance 100; ERead 0 209; EAdvance 60; EWrite 1 4; EAdvance 40] in
  clock_ok 1000 h /\
  closed_between (ch_conns (run ex_cf 1000 h)) (ch_conns (step ex_cf (run ex_cf 1000 h) ETick)) = [0] /\
  last_call_activity 0 1000 None h = Some 1000 /\ last_call_activity 1 1000 None h = Some 1160 /\
  let h2 := h ++ [ETick; EAdvance 200] in
  closed_between (ch_conns (run ex_cf 1000 h2)) (ch_conns (step ex_cf (run ex_cf 1000 h2) ETick)) = [1].
Proof. vm_compute. repeat split; try discriminate; intros; discriminate. Qed.

(* a pending relayed call keeps an idle connection open *)
Example C19_example_relay_pending :
  let h := [ENewConn 0 true; EPend 0 2 1; EAdvance 500] in
  closed_between (ch_conns (run ex_cf 0 h)) (ch_conns (step ex_cf (run ex_cf 0 h) ETick)) = [].
Proof. vm_compute. reflexivity. Qed.

(* default FailuresToClose = 5: fail x4, ok, fail x5 closes at index 9 and not at 4 *)
Example C19_example_health :
  let outs := [PFail; PFail; PFail; PFail; POk; PFail; PFail; PFail; PFail; PFail; PFail] in
  ho_failures (cf_health ex_cf) = 5 /\
  snd (health_loop 5 outs 0 hl_init) = Some 9%nat /\ health_closes_at 5 outs 9.
Proof.
  split; [reflexivity|]. split; [vm_compute; reflexivity|].
  apply (proj1 (health_loop_closes_iff 5 _ 9 ltac:(discriminate))). vm_compute. reflexivity.
Qed.

(* ==== second part: history-level health theorems on the whole system =========================
   Vocabulary: Spec/IdleHealthHist.v (ping_outcomes / ping_inflight: the health-check pings of a
   connection as the history shows them; health_closes_now; ping traffic; erase_pings, erase_pings_of). *)

(* For every history h (all interleavings of sweep ticks, frames, calls, closes, pings and ping
   outcomes over any number of connections), FailuresToClose >= 1, health checks enabled: an
   Active connection leaves the Active state at a ping outcome o IF AND ONLY IF one of its pings
   is in flight and o completes the F-th consecutive failure since the last success of the pings
   the history shows, with no stop outcome and no earlier such run (health_closes_at at the index
   of o).  Never earlier, never later. *)
Theorem C19_health_history : forall cf t0 h id c o,
  let F := ho_failures (cf_health cf) in
  1 <= F -> ho_enabled (cf_health cf) = true ->
  lookup id (ch_conns (run cf t0 h)) = Some c -> is_active c = true ->
  exists c', lookup id (ch_conns (step cf (run cf t0 h) (EPingEnd id o))) = Some c' /\
    (is_active c' = false <->
     ping_inflight id h = true /\ health_closes_now (Z.to_nat F) (ping_outcomes id h) o).
Proof. exact sys_health_iff. Qed.
Print Assumptions C19_health_history.

(* The decision itself, whatever the state of the connection (also while it drains after a
   Close): whenever the health goroutine waits for its ping, the loop body calls close at the
   outcome iff health_closes_now over the history's pings. *)
Theorem C19_health_decision : forall cf t0 h id c o,
  let F := ho_failures (cf_health cf) in
  1 <= F -> lookup id (ch_conns (run cf t0 h)) = Some c -> k_hstatus c = 2 ->
  ping_inflight id h = true /\
  (snd (health_iter F o (k_health c)) = true <-> health_closes_now (Z.to_nat F) (ping_outcomes id h) o).
Proof. exact sys_health_decision. Qed.
Print Assumptions C19_health_decision.

(* Nothing else closes: along every history an Active connection stays Active at every event
   except a sweep, an application Close of it, the end of one of its pings, or a ping of it that
   cannot be sent (connection error). *)
Theorem C19_closed_only_by : forall cf t0 h id c e,
  lookup id (ch_conns (run cf t0 h)) = Some c -> is_active c = true ->
  (forall c', lookup id (ch_conns (step cf (run cf t0 h) e)) = Some c' -> is_active c' = true) \/
  e = ETick \/ e = EClose id \/ (exists o, e = EPingEnd id o) \/ e = EPingStart id false.
Proof. exact sys_active_left_only_by. Qed.
Print Assumptions C19_closed_only_by.

(* Ping / health traffic is never call activity: erasing ALL of it from a history (health-check
   events, ping request and ping response frames in both directions) changes neither the clock
   nor the last call activity of any connection (so, by C19_stamp, no activity stamp) ... *)
Theorem C19_pings_no_activity : forall h id t0,
  clock t0 (erase_pings h) = clock t0 h /\
  last_call_activity id t0 None (erase_pings h) = last_call_activity id t0 None h.
Proof. intros h id t0. split; [apply erase_pings_clock|apply erase_pings_lca]. Qed.
Print Assumptions C19_pings_no_activity.

(* ... and in the model each such event leaves both stamps of every connection as they were. *)
Theorem C19_pings_no_stamp : forall cf s e id, is_ping_traffic e = true ->
  option_map stamps (lookup id (ch_conns (step cf s e))) = option_map stamps (lookup id (ch_conns s)).
Proof. exact ping_traffic_stamps. Qed.
Print Assumptions C19_pings_no_stamp.

(* The ping traffic of one connection (its health checks, sendable or not, with any outcomes, and
   its ping frames) never influences another connection: erasing it from the history leaves the
   clock and the complete state of every other connection unchanged, hence also the decision of
   the next sweep on it and what that sweep makes of it. *)
Theorem C19_pings_noninterference : forall cf t0 h id id', id <> id' ->
  let s1 := run cf t0 (erase_pings_of id' h) in
  let s2 := run cf t0 h in
  ch_now s1 = ch_now s2 /\ lookup id (ch_conns s1) = lookup id (ch_conns s2) /\
  (sweep_closes cf s1 id <-> sweep_closes cf s2 id) /\
  lookup id (ch_conns (step cf s1 ETick)) = lookup id (ch_conns (step cf s2 ETick)).
Proof.
  intros cf t0 h id id' Hne s1 s2.
  destruct (pings_of_noninterference cf t0 h id id' Hne) as [H1 H2].
  destruct (pings_of_sweep_noninterference cf t0 h id id' Hne) as [H3 H4]. auto.
Qed.
Print Assumptions C19_pings_noninterference.

(* ==== third part: the sweep as a thread of atomic actions (Model/IdleSweepFine.v) =============== *)

(* The decisions of the sweep on one connection as go2v translates them from the Go source
   (Connection.IsActive, Connection.hasPendingCalls, Relayer.canClose, lastActivityTime,
   idleSweep.isIdle) are the ones of the hand model. *)
Theorem C19_gen_decisions : forall now mi c,
  connIsActive (k_state c) = is_active c /\
  relayCanClose (relay_is_nil c) (relay_pending c) = relay_can_close c /\
  hasPendingCalls (k_inb c) (k_outb c) (relayCanClose (relay_is_nil c) (relay_pending c)) = has_pending_calls c /\
  lastActivityTime (k_lr c) (k_lw c) = last_activity c /\
  sweepIsIdle (time_sub now (lastActivityTime (k_lr c) (k_lw c))) mi = idle_candidate now mi c.
Proof.
  intros now mi c. split; [apply gen_is_active|]. split; [apply gen_relay_can_close|].
  split; [apply gen_has_pending_calls|]. split; [apply gen_last_activity|apply gen_fine_idle].
Qed.
Print Assumptions C19_gen_decisions.

(* C19_stamp along every interleaving of the sweep's atomic actions with the other events. *)
Theorem C19_fine_stamp : forall fx cf t0 ls st id, clock_ok t0 (evs_of ls) ->
  frun fx cf (finit t0) ls = Some st ->
  match lookup id (ch_conns (f_ch st)) with
  | Some c => last_call_activity id t0 None (evs_of ls) = Some (Z.max (k_lr c) (k_lw c))
  | None => last_call_activity id t0 None (evs_of ls) = None
  end.
Proof. exact fine_stamp. Qed.
Print Assumptions C19_fine_stamp.

(* C19_sweep_iff under interleaving, for a connection no other goroutine touches while the sweep
   runs: one whole sweep (FBegin ... back to idle), interleaved in any way with events on OTHER
   connections and clock advances, closes connection id if and only if it should be closed at
   the clock value the sweep started with; it is then what Connection.close makes of it, else
   unchanged.  (Both code versions.) *)
Theorem C19_fine_sweep_iff : forall fx cf st0 seg st id c,
  f_pc st0 = SIdle -> chan_wf (f_ch st0) -> min_duration < cf_max_idle cf <= max_duration ->
  lookup id (ch_conns (f_ch st0)) = Some c ->
  ~ In FBegin seg -> (forall e, In (FEv e) seg -> ev_conn e <> Some id) ->
  frun fx cf st0 (FBegin :: seg) = Some st -> f_pc st = SIdle ->
  let now := ch_now (f_ch st0) in
  exists c', lookup id (ch_conns (f_ch st)) = Some c' /\
    ((is_active c = true /\ is_active c' = false) <-> should_close now (cf_max_idle cf) c) /\
    (should_close now (cf_max_idle cf) c -> c' = conn_close c) /\
    (~ should_close now (cf_max_idle cf) c -> c' = c).
Proof. exact fine_quiescent_iff. Qed.
Print Assumptions C19_fine_sweep_iff.

(* Without any event of another goroutine the fine sweep is the atomic sweep of Model/Idle.v. *)
Theorem C19_fine_atomic : forall fx cf st0 seg st,
  f_pc st0 = SIdle -> chan_wf (f_ch st0) -> ~ In FBegin seg -> (forall e, ~ In (FEv e) seg) ->
  frun fx cf st0 (FBegin :: seg) = Some st -> f_pc st = SIdle ->
  forall id, lookup id (ch_conns (f_ch st)) = lookup id (ch_conns (sweep (cf_max_idle cf) (f_ch st0))).
Proof. exact fine_atomic_refines. Qed.
Print Assumptions C19_fine_atomic.

(* The weakest correct "only if" for a connection that IS touched during the sweep: whenever
   the poller is about to call close on connection id, the interleaving so far is
      pb ++ FBegin :: tl ++ FStep :: e1 ++ FStep :: e2 ++ FStep :: e3 ++ FStep :: e4 ++ FStep :: e5
   (e1..e5 events of other goroutines only, no other sweep begun after pb), the sweep's clock
   value is the clock after pb, and: before e1 the connection was Active, before e2 it had no
   inbound call, before e3 no outbound call, before e4 no relayed call, before e5 -- with the
   re-check of the fix, fx = true -- it was idle for MaxIdleTime against that clock value. *)
Theorem C19_fine_close_only_if : forall fx cf t0 ls st now id rest,
  frun fx cf (finit t0) ls = Some st -> f_pc st = SClose now id rest ->
  exists pb tl e1 e2 e3 e4 e5,
    let p1 := pb ++ FBegin :: tl in
    let p2 := p1 ++ FStep :: e1 in
    let p3 := p2 ++ FStep :: e2 in
    let p4 := p3 ++ FStep :: e3 in
    let p5 := p4 ++ FStep :: e4 in
    ls = p5 ++ FStep :: e5 /\ ~ In FBegin tl /\ now = clock t0 (evs_of pb) /\
    env_only e1 /\ env_only e2 /\ env_only e3 /\ env_only e4 /\ env_only e5 /\
    conn_at fx cf t0 p1 id (fun c => is_active c = true) /\
    conn_at fx cf t0 p2 id (fun c => (k_inb c >? 0) = false) /\
    conn_at fx cf t0 p3 id (fun c => (k_outb c >? 0) = false) /\
    conn_at fx cf t0 p4 id (fun c => relay_can_close c = true) /\
    conn_at fx cf t0 p5 id (fun c => fx = true -> idle_candidate now (cf_max_idle cf) c = true).
Proof. exact fine_close_chain. Qed.
Print Assumptions C19_fine_close_only_if.

(* ... and the connection was collected by the first loop of this same sweep: the interleaving
   is pb ++ FBegin :: tl0 ++ FLook id :: tl1 with no sweep begun after pb, and just before that
   FLook the connection was idle for MaxIdleTime against the sweep's clock value.  (Both code
   versions; without the re-check it is all that is known about the idleness of a connection
   being closed.) *)
Theorem C19_fine_close_looked : forall fx cf t0 ls st now id rest,
  frun fx cf (finit t0) ls = Some st -> f_pc st = SClose now id rest ->
  exists pb tl0 tl1, ls = pb ++ FBegin :: tl0 ++ FLook id :: tl1 /\ ~ In FBegin tl0 /\ ~ In FBegin tl1 /\
    now = clock t0 (evs_of pb) /\
    conn_at fx cf t0 (pb ++ FBegin :: tl0) id (fun c => idle_candidate now (cf_max_idle cf) c = true).
Proof. exact fine_close_looked. Qed.
Print Assumptions C19_fine_close_looked.

(* In terms of the history (code with the re-check, monotone stub clock): when the poller is
   about to close connection id, no call frame was sent or received on it between
   (clock at the start of the sweep - MaxIdleTime) and the instant of the re-check, frames
   arriving DURING the sweep included. *)
Theorem C19_fine_close_history : forall cf t0 ls st now id rest,
  clock_ok t0 (evs_of ls) -> min_duration < cf_max_idle cf <= max_duration ->
  frun true cf (finit t0) ls = Some st -> f_pc st = SClose now id rest ->
  exists pb mid e5,
    ls = pb ++ FBegin :: mid ++ FStep :: e5 /\ ~ In FBegin mid /\ env_only e5 /\
    now = clock t0 (evs_of pb) /\
    exists la, last_call_activity id t0 None (evs_of (pb ++ FBegin :: mid)) = Some la /\ now - la >= cf_max_idle cf.
Proof. exact fine_close_history. Qed.
Print Assumptions C19_fine_close_history.

(* ... and the whole condition of the statement at ONE instant: if the close takes effect (the
   connection is still Active) and no call started on the connection between the poller's read
   of the inbound count and its re-check, then at the instant of the re-check the connection
   was tracked, Active, without pending inbound, outbound or relayed call, and idle for
   MaxIdleTime against the sweep's clock value. *)
Theorem C19_fine_close_instant : forall cf t0 ls st now id rest c,
  min_duration < cf_max_idle cf <= max_duration ->
  frun true cf (finit t0) ls = Some st -> f_pc st = SClose now id rest ->
  lookup id (ch_conns (f_ch st)) = Some c -> is_active c = true ->
  exists pb tl e1 e2 e3 e4 e5,
    let p2 := (pb ++ FBegin :: tl ++ FStep :: e1) in
    let p5 := p2 ++ FStep :: e2 ++ FStep :: e3 ++ FStep :: e4 in
    ls = p5 ++ FStep :: e5 /\ ~ In FBegin tl /\ now = clock t0 (evs_of pb) /\
    env_only e1 /\ env_only e2 /\ env_only e3 /\ env_only e4 /\ env_only e5 /\
    ((forall a, In a (e2 ++ e3 ++ e4) -> call_start_on id a = false) ->
     conn_at true cf t0 p5 id (fun c5 => should_close now (cf_max_idle cf) c5)).
Proof. exact fine_close_instant. Qed.
Print Assumptions C19_fine_close_instant.

(* The code WITHOUT the re-check (fx = false, the tree before the fix "idle sweep re-checks that
   a collected connection is still idle before closing it") violates the "only if" at every
   instant of the sweep: an outbound call is pending on a connection that is otherwise idle when
   the first loop collects it, its response arrives between the two loops, and the second loop
   closes the connection -- although from the tick to the return of the sweep there is no
   instant at which it was Active, without pending call and idle for MaxIdleTime. *)
Theorem C19_fine_unpatched_refuted :
  let ls := refute_pre ++ FBegin :: refute_sweep in
  clock_ok 0 (evs_of ls) /\
  conn_sat false refute_cf 0 refute_pre 0 is_active = true /\
  conn_sat false refute_cf 0 ls 0 (fun c => negb (is_active c)) = true /\
  (exists st, frun false refute_cf (finit 0) ls = Some st /\ f_pc st = SIdle) /\
  forall k s c, (k <= length refute_sweep)%nat ->
    frun false refute_cf (finit 0) (refute_pre ++ FBegin :: firstn k refute_sweep) = Some s ->
    lookup 0 (ch_conns (f_ch s)) = Some c ->
    ~ should_close (clock 0 (evs_of refute_pre)) (cf_max_idle refute_cf) c.
Proof. exact fine_unpatched_refuted. Qed.
Print Assumptions C19_fine_unpatched_refuted.

(* ---- non-vacuity of the second and third parts ---- *)

(* two connections, FailuresToClose 2: connection 0 fails, succeeds, fails, fails -> closed at
   the 4th outcome and not at the 3rd; connection 1's pings and a sweep in between change nothing *)
Definition ex_cf2 : config :=
  {| cf_idle_interval := 30; cf_max_idle := 180;
     cf_health := ho_with_defaults {| ho_interval := 1; ho_timeout := 0; ho_failures := 2 |} |}.
Example C19_example_health_history :
  let h := [ENewConn 0 false; ENewConn 1 false; EPingStart 0 true; EPingEnd 0 PFail; EPingStart 1 true; ETick;
            EPingStart 0 true; EPingEnd 0 POk; EPingEnd 1 PFail; EPingStart 0 true; EPingEnd 0 PFail; EPingStart 0 true] in
  ping_outcomes 0 h = [PFail; POk; PFail] /\ ping_inflight 0 h = true /\
  health_closes_now 2 (ping_outcomes 0 h) PFail /\ ~ health_closes_now 2 (ping_outcomes 0 h) POk /\
  (exists c, lookup 0 (ch_conns (run ex_cf2 0 h)) = Some c /\ is_active c = true) /\
  (exists c, lookup 0 (ch_conns (run ex_cf2 0 (h ++ [EPingEnd 0 PFail]))) = Some c /\ is_active c = false) /\
  erase_pings_of 1 h = [ENewConn 0 false; ENewConn 1 false; EPingStart 0 true; EPingEnd 0 PFail; ETick;
            EPingStart 0 true; EPingEnd 0 POk; EPingStart 0 true; EPingEnd 0 PFail; EPingStart 0 true].
Proof.
  cbv zeta. split; [vm_compute; reflexivity|]. split; [vm_compute; reflexivity|].
  split. { unfold health_closes_now. apply (proj1 (health_loop_closes_iff 2 _ 3 ltac:(discriminate))). vm_compute. reflexivity. }
  split. { unfold health_closes_now. intros H. apply (proj2 (health_loop_closes_iff 2 _ 3 ltac:(discriminate))) in H. vm_compute in H. discriminate. }
  split; [eexists; split; vm_compute; reflexivity|]. split; [eexists; split; vm_compute; reflexivity|].
  vm_compute. reflexivity.
Qed.

(* the interleaving of C19_fine_unpatched_refuted on the code with the re-check: the connection
   stays open and the sweep returns *)
Example C19_example_fine_patched :
  let ls := refute_pre ++ FBegin :: [FLock; FLook 0; FStep; FEv (ERead 0 4); FEv (EPend 0 1 (-1)); FStep; FStep; FStep; FStep; FStep; FStep] in
  conn_sat true refute_cf 0 ls 0 is_active = true /\
  exists st, frun true refute_cf (finit 0) ls = Some st /\ f_pc st = SIdle.
Proof. exact fine_patched_example. Qed.

(* a sweep over two idle connections interleaved with a call that comes and goes on the second
   one after it was collected: the first is closed, the second is not (fx = true) *)
Example C19_example_fine_two :
  let ls := [FEv (ENewConn 0 false); FEv (ENewConn 1 false); FEv (EAdvance 200); FBegin; FLock; FLook 1; FLook 0; FStep;
             FStep; FStep; FStep; FStep; FStep;
             FEv (ERead 0 3); FEv (EPend 0 0 1); FEv (EWrite 0 4); FEv (EPend 0 0 (-1));
             FStep; FStep; FStep; FStep; FStep; FStep; FStep] in
  conn_sat true refute_cf 0 ls 1 (fun c => negb (is_active c)) = true /\
  conn_sat true refute_cf 0 ls 0 is_active = true /\
  conn_sat false refute_cf 0 (ls ++ [FStep]) 0 (fun c => negb (is_active c)) = true.
Proof. vm_compute. repeat split. Qed.

(* ==== fourth part: one iteration of the two loops, regenerated from the source ====================
   Gen/GenHealthLoop.v (go2v statement targets): healthIterBody = the statements of the health-check
   loop body that follow the ping (health.go), sweepLoopBody = the body of the sweep's closing loop
   (idle_sweep.go).  Proofs/HealthLoopGenP.v. *)
From Verif Require Import Gen.GenRetry Gen.GenHealthLoop Proofs.HealthLoopGenP.

(* The generated iteration of the health-check loop is health_iter of Model/Health.v -- the
   iteration all health theorems above are about -- for EVERY value of
   c.log.Enabled(LogLevelDebug) (dbg): the counter, the value added to the history, whether the
   loop goes on and whether the connection is closed do not depend on the logging configuration.
   (The counter is a Go int: the equality is for counters below 2^63 - 1.) *)
Theorem C19_gen_health_iter : forall F err inv dbg l,
  - 2 ^ 63 <= hl_fails l + 1 < 2 ^ 63 ->
  iter_of_gen l (healthIterBody (hl_fails l) err inv F dbg) = health_iter F (classify err inv) l.
Proof. exact gen_health_iter. Qed.
Print Assumptions C19_gen_health_iter.

(* The three clauses of the statement read off the generated iteration, for every logging
   configuration: the history gets err == nil; a success resets the count to 0 and the loop goes
   on; a stop outcome returns without closing; a failure adds one; c.close is called iff the
   outcome is a failure and the new count is >= FailuresToClose. *)
Theorem C19_gen_health_decision : forall F err inv dbg cf,
  - 2 ^ 63 <= cf + 1 < 2 ^ 63 ->
  let '(cf', how, added) := healthIterBody cf err inv F dbg in
  added = e_nil err /\
  (classify err inv = POk -> cf' = 0 /\ how = 0) /\
  (classify err inv = PStop -> cf' = cf /\ how = 1) /\
  (classify err inv = PFail -> cf' = cf + 1 /\ how = (if cf + 1 >=? F then 2 else 0)) /\
  (how = 2 <-> classify err inv = PFail /\ cf + 1 >= F).
Proof. exact gen_health_decision. Qed.
Print Assumptions C19_gen_health_decision.

(* C19_health for the loop that iterates the GENERATED body: whatever the logger answers in each
   iteration, the connection is closed at ping i iff pings i-F+1..i failed, no earlier window of
   F failures exists and no stop outcome occurred. *)
Theorem C19_gen_health_loop : forall F dbg errs i,
  1 <= F -> Z.of_nat (length errs) < 2 ^ 63 ->
  snd (gen_health_loop F dbg errs 0 hl_init) = Some i <-> health_closes_at (Z.to_nat F) (outcomes_of errs) i.
Proof. exact gen_health_loop_closes_iff. Qed.
Print Assumptions C19_gen_health_loop.

(* The generated body of the sweep's closing loop, its tests evaluated on the connection as it is
   at the schedule points that precede them (c1 at idle.sweep.check, c2 at idle.sweep.pending, c3 at
   idle.sweep.recheck), calls conn.close (at instant 4 = idle.sweep.close) exactly when the poller
   of Model/IdleSweepFine.v -- IsActive on the state of instant 1, the three counter reads of
   hasPendingCalls on that of instant 2, the re-check on that of instant 3, in this order --
   arrives at SClose; otherwise both go on to the next candidate. *)
Theorem C19_gen_sweep_loop : forall cf now id rest s1 s2 s3 c1 c2 c3,
  lookup id (ch_conns s1) = Some c1 -> lookup id (ch_conns s2) = Some c2 -> lookup id (ch_conns s3) = Some c3 ->
  let at_ := conn_at_instant c1 c2 c3 in
  let body := sweepLoopBody
    (fun t => connIsActive (k_state (at_ t)))
    (fun t => hasPendingCalls (k_inb (at_ t)) (k_outb (at_ t)) (relayCanClose (relay_is_nil (at_ t)) (relay_pending (at_ t))))
    (fun t => fine_idle now (cf_max_idle cf) (at_ t)) in
  let p := poller_after_tests cf now id rest s1 s2 s3 in
  (body = 4 /\ p = SClose now id rest) \/ (body = 0 /\ p = SLoop2 now rest).
Proof. exact gen_sweep_loop. Qed.
Print Assumptions C19_gen_sweep_loop.

(* ... i.e. it closes iff Active at the first instant, without pending call at the second, idle at
   the third: the idle re-check is the LAST test before the close. *)
Theorem C19_gen_sweep_loop_closes : forall act pend idle,
  sweepLoopBody act pend idle <> 0 <-> act 1 = true /\ pend 2 = false /\ idle 3 = true.
Proof. exact gen_sweep_loop_closes. Qed.
Print Assumptions C19_gen_sweep_loop_closes.

(* The activity stamps: updateLastActivityRead / updateLastActivityWrite as generated are the stamp
   updates of Model/Idle.v (a frame moves its direction's stamp to the clock iff it is a call frame,
   and never the other stamp) ... *)
Theorem C19_gen_stamps : forall now mt c,
  k_lr (update_read now mt c) = stampOnRead mt (unix_nano now) (k_lr c) /\
  k_lw (update_read now mt c) = k_lw c /\
  k_lw (update_write now mt c) = stampOnWrite mt (unix_nano now) (k_lw c) /\
  k_lr (update_write now mt c) = k_lr c.
Proof. exact gen_stamps. Qed.
Print Assumptions C19_gen_stamps.

(* ... and the generated bodies of writeFrames / readFrames apply them to EVERY frame: a frame taken
   off the send channel has been stamped when it is written, whatever the logger answers (dbg) and
   whether or not the write succeeds; a frame whose body was read has been stamped when it is handed
   to a handler; a frame that could not be read is not handled. *)
Theorem C19_gen_stamp_sites : forall dbg ok,
  fst (writeFrameTaken dbg ok) = 1 /\ snd (writeFrameTaken dbg ok) = (if ok then 0 else 1) /\
  readFrameBody true = 1 /\ readFrameBody false = -1.
Proof. exact gen_stamp_sites. Qed.
Print Assumptions C19_gen_stamp_sites.

(* non-vacuity: FailuresToClose 2, a logger without debug level: fail, ok, fail does not close;
   fail, ok, fail, fail closes at the fourth ping *)
Example C19_example_gen_health :
  let fail := ({| e_nil := false; e_sys := true; e_code := 5; e_net := false |}, false) in
  let ok := ({| e_nil := true; e_sys := false; e_code := 0; e_net := false |}, false) in
  snd (gen_health_loop 2 (fun _ => false) [fail; ok; fail] 0 hl_init) = None /\
  snd (gen_health_loop 2 (fun _ => false) [fail; ok; fail; fail] 0 hl_init) = Some 3%nat /\
  snd (gen_health_loop 2 (fun i => Nat.even i) [fail; ok; fail; fail] 0 hl_init) = Some 3%nat.
Proof. vm_compute. repeat split. Qed.

(* ==== fifth part: relay connections -- "no relayed call" is "no live relay item, no held unit" ====
   Model/IdleRelay.v: the combined state of a relaying channel = the relay bookkeeping of property
   C09 (Model/RelayItems.v, imported read-only: items, tombstones, timers, goroutines, the counter
   Relayer.pending per connection) + the connection table the sweep works on (Model/Idle.v).
   [linked]: the k_relay the sweep reads IS Relayer.countPending() of the connection's relayer.
   Gen/GenIdleRelay.v (go2v statement targets, relay.go): the counter after timeoutRelayItem /
   failRelayItem / finishRelayItem / the rejection branch of handleCallReq, after decrementPending,
   after the increment of canHandleNewCall, and countPending.  Proofs/IdleRelayP.v. *)
From Verif Require Import Gen.GenRelayFwd Gen.GenIdleRelay Model.RelayItems Proofs.RelayInv9P Proofs.RelayThmP
  Model.IdleRelay Proofs.IdleRelayP.

(* Every function of relay.go that ENDS a relay item gives the unit of Relayer.pending back exactly
   when the relay model's step pushes the decrement (IDec) -- as regenerated from the source:
   timeoutRelayItem (both sides of a call: isOriginator or not), failRelayItem (whatever the reason,
   also when no error frame is sent to a slow source), finishRelayItem, and the two rejections of
   handleCallReq (no destination / destination connection cannot take the call).  [decs k code] =
   number of decrementPending obligations for connection k in the code a step pushes; [took] =
   Entomb / deleteCall handed the item to this caller. *)
Theorem C19_gen_relay_ends :
  (forall cf st t o room p,
     p - decs (key_conn t) (snd (exec cf st (IEntomb t (FromTimeout o)) room)) =
     sweepRelayTimeoutPending (took (snd (items_entomb cf st t))) o p) /\
  (forall cf st t r room p,
     p - decs (key_conn t) (snd (exec cf st (IEntomb t (FromFail r)) room)) =
     sweepRelayFailPending true true (took (snd (items_entomb cf st t))) (orig_of (snd (items_entomb cf st t)))
       (r =? reason_source_slow) p) /\
  (forall cf st t r room,
     snd (exec cf st (IFailGet t r) room) = (if took (snd (items_get st t true)) then [IEntomb t (FromFail r)] else []) /\
     (forall found stopped ok orig slow p, found && stopped = false -> sweepRelayFailPending found stopped ok orig slow p = p)) /\
  (forall cf st t lk room p,
     p - decs (key_conn t) (snd (exec cf st (IDelete t lk) room)) =
     sweepRelayFinishPending (took (snd (items_delete_call st t lk))) (orig_of (snd (items_delete_call st t lk))) p) /\
  (forall cf st k f e c room p,
     p - decs k (snd (exec cf st (IGetDest k f e c) room)) = sweepRelayNoDestPending (get_dest_rejects st k f e) p) /\
  (forall cf st k f e c d room p,
     p - decs k (snd (exec cf st (IRemoteCan k f e c d) room)) =
     sweepRelayNoDestPending (negb (relayCanHandleNewCall (c_state (get_conn st d)))) p).
Proof. exact gen_relay_ends. Qed.
Print Assumptions C19_gen_relay_ends.

(* The counter itself: decrementPending is the model's IDec (minus one as a uint32, then the close
   check by the same goroutine), the increment of canHandleNewCall is that of ICanHandle /
   IRemoteCan, countPending is the model's c_pending; and hasPendingCalls, as generated, consults
   the relay through canClose of countPending ONLY: on a linked connection it is the hand model's
   has_pending_calls, i.e. inbound calls, outbound calls, or counter <> 0. *)
Theorem C19_gen_relay_counter :
  (forall cf st k room,
     c_pending (get_conn (fst (exec cf st (IDec k) room)) k) = wrapU 32 (sweepRelayDecrement (c_pending (get_conn st k))) /\
     snd (exec cf st (IDec k) room) = [ICheck k]) /\
  (forall cf st k f e c room,
     c_pending (get_conn (fst (exec cf st (ICanHandle k f e c) room)) k) =
     (if relayCanHandleNewCall (c_state (get_conn st k))
      then wrapU 32 (sweepRelayAdmitPending true (c_pending (get_conn st k)))
      else sweepRelayAdmitPending false (c_pending (get_conn st k)))) /\
  (forall cf st k f e c d room,
     c_pending (get_conn (fst (exec cf st (IRemoteCan k f e c d) room)) d) =
     (if relayCanHandleNewCall (c_state (get_conn st d))
      then wrapU 32 (sweepRelayAdmitPending true (c_pending (get_conn st d)))
      else sweepRelayAdmitPending false (c_pending (get_conn st d)))) /\
  (forall st k, relay_count st k = c_pending (get_conn st k)) /\
  (forall st id c, k_relay c = Some (relay_count st id) ->
     relay_has_pending st id c = has_pending_calls c /\
     relay_has_pending st id c = ((k_inb c >? 0) || (k_outb c >? 0) || negb (c_pending (get_conn st id) =? 0))).
Proof. exact gen_relay_counter. Qed.
Print Assumptions C19_gen_relay_counter.

(* C09_pending_exact as the sweep reads it: in every reachable state of the relay (all
   interleavings of frames, timers, slow connections, rejections, connection loss; fresh request
   ids) Relayer.canClose of connection k holds if the connection has no live (non-tombstone) relay
   item and no relay goroutine holds a unit of it (is between canHandleNewCall and addRelayItem or
   between Entomb / deleteCall and decrementPending) -- and only then, as long as fewer than 2^32
   calls are in flight on the connection. *)
Theorem C19_relay_can_close : forall cf ls st, run_fresh cf RelayItems.init ls = Some st -> forall k,
  (no_live_item st k -> no_held_unit st k -> relay_count st k = 0 /\ relayCanClose false (relay_count st k) = true) /\
  (relay_load st k < 2 ^ 32 ->
   (relayCanClose false (relay_count st k) = true <-> no_live_item st k /\ no_held_unit st k)).
Proof. exact relay_can_close_iff. Qed.
Print Assumptions C19_relay_can_close.

(* THE IF DIRECTION FOR RELAY CONNECTIONS, over the combined state: the relay bookkeeping is in
   any reachable state, the connection table is linked to it.  A connection whose relayed calls
   have all ended -- by completion, by the relay's own timeout on either side, by a cancel, by a
   failed send towards a slow destination or a slow source, by a rejection, by the loss of the other
   connection: every path of the relay model -- i.e. that has no live relay item and no goroutine
   still on its way to decrementPending, and that is tracked, Active, without local calls and at
   least MaxIdleTime past its last call frame, IS closed by the sweep. *)
Theorem C19_relay_ended_swept : forall cf ls rc, run_fresh cf RelayItems.init ls = Some (rc_relay rc) -> linked rc ->
  forall mi id c,
  NoDup (map fst (ch_conns (rc_chan rc))) -> min_duration < mi <= max_duration ->
  Idle.lookup id (ch_conns (rc_chan rc)) = Some c ->
  no_live_item (rc_relay rc) id -> no_held_unit (rc_relay rc) id ->
  k_tracked c = true -> k_state c = c_connectionActive -> k_inb c = 0 -> k_outb c = 0 ->
  ch_now (rc_chan rc) - Z.max (k_lr c) (k_lw c) >= mi ->
  Idle.lookup id (ch_conns (rc_chan (rsweep mi rc))) = Some (conn_close c) /\ is_active (conn_close c) = false.
Proof. exact combined_ended_swept. Qed.
Print Assumptions C19_relay_ended_swept.

(* Both directions (C19_sweep_iff on the combined state): the sweep closes relay connection id iff
   it is tracked, Active, has no local call, no live relay item, no held unit, and is idle for
   MaxIdleTime; a connection it does not close is untouched. *)
Theorem C19_relay_sweep_iff : forall cf ls rc, run_fresh cf RelayItems.init ls = Some (rc_relay rc) -> linked rc ->
  forall mi id c,
  NoDup (map fst (ch_conns (rc_chan rc))) -> min_duration < mi <= max_duration ->
  Idle.lookup id (ch_conns (rc_chan rc)) = Some c -> 0 <= k_inb c -> 0 <= k_outb c ->
  relay_load (rc_relay rc) id < 2 ^ 32 ->
  exists c', Idle.lookup id (ch_conns (rc_chan (rsweep mi rc))) = Some c' /\
    ((is_active c = true /\ is_active c' = false) <->
     (k_tracked c = true /\ k_state c = c_connectionActive /\ k_inb c = 0 /\ k_outb c = 0 /\
      (no_live_item (rc_relay rc) id /\ no_held_unit (rc_relay rc) id) /\
      ch_now (rc_chan rc) - Z.max (k_lr c) (k_lw c) >= mi)) /\
    (is_active c = true /\ is_active c' = false -> c' = conn_close c) /\
    (~ (is_active c = true /\ is_active c' = false) -> c' = c).
Proof. exact combined_sweep_iff. Qed.
Print Assumptions C19_relay_sweep_iff.

(* The whole channel once the relay is at rest (no relay goroutine has anything left to do, no
   timeout timer is pending; tombstones may still await collection): EVERY connection that is
   tracked, Active, without local calls and idle for MaxIdleTime is closed by the next sweep --
   no relayed call that has ended, however it ended, keeps a connection open. *)
Theorem C19_relay_quiescent_swept : forall cf ls st, run_fresh cf RelayItems.init ls = Some st -> quiescent st ->
  forall mi s, NoDup (map fst (ch_conns s)) -> min_duration < mi <= max_duration ->
  linked {| rc_relay := st; rc_chan := s |} ->
  forall id c, Idle.lookup id (ch_conns s) = Some c ->
  k_tracked c = true -> k_state c = c_connectionActive -> k_inb c = 0 -> k_outb c = 0 ->
  ch_now s - Z.max (k_lr c) (k_lw c) >= mi ->
  Idle.lookup id (ch_conns (rc_chan (rsweep mi {| rc_relay := st; rc_chan := s |}))) = Some (conn_close c) /\
  is_active (conn_close c) = false.
Proof. exact relay_quiescent_swept. Qed.
Print Assumptions C19_relay_quiescent_swept.

(* non-vacuity: caller connection 0, callee connection 1, one relayed call that nobody answers.
   While it is in flight both relayers count 1 and a sweep at MaxIdleTime + 100 leaves both
   connections open; after BOTH timers have fired (the callee-side one is not the originator) the
   relay is at rest, both connections have no live item and no held unit, both counters are 0 and
   the same sweep closes both connections. *)
Example C19_example_relay_timeout :
  run_fresh tmo_cf RelayItems.init tmo_inflight = Some (state_after tmo_inflight) /\
  run_fresh tmo_cf RelayItems.init tmo_labels = Some (state_after tmo_labels) /\
  map (relay_count (state_after tmo_inflight)) [0; 1] = [1; 1] /\
  map (relay_load (state_after tmo_inflight)) [0; 1] = [1; 1] /\
  closed_between (ch_conns tmo_chan)
    (ch_conns (rc_chan (rsweep 100 (link (state_after tmo_inflight) tmo_chan)))) = [] /\
  map (relay_load (state_after tmo_labels)) [0; 1] = [0; 0] /\
  map (relay_count (state_after tmo_labels)) [0; 1] = [0; 0] /\
  threads (state_after tmo_labels) = [] /\
  closed_between (ch_conns tmo_chan)
    (ch_conns (rc_chan (rsweep 100 (link (state_after tmo_labels) tmo_chan)))) = [0; 1].
Proof. vm_compute. repeat split. Qed.

(* ==== sixth part: calls that are NOT relayed, on every kind of connection ========================
   A connection of a relaying channel (c.relay != nil, k_relay = Some n) can carry, besides relayed
   calls, calls the relay channel HANDLES ITSELF (ChannelOptions.RelayLocalHandlers ->
   Relayer.handleLocalCallReq -> handleFrameNoRelay: an inbound exchange) and calls the relay channel
   ORIGINATES (Channel.BeginCall over one of its connections: an outbound exchange).  Neither touches
   Relayer.pending.  The only-if direction of the statement ("closed ... only if it has no pending
   calls") for them: Spec/C19LocalSpec.v reads the calls in flight off the history (the spec does not
   know whether the channel relays), Proofs/C19LocalP.v. *)
From Verif Require Import Spec.C19LocalSpec Proofs.C19LocalP.

(* Connection.hasPendingCalls as regenerated from the source is the disjunction of its three sources
   -- inbound calls, outbound calls, not Relayer.canClose -- and nothing else: whatever canClose was
   computed from (nil relayer or not, any value of the counter), a call in either exchange set makes
   it true; it is false only if both sets have no call and canClose holds. *)
Theorem C19_gen_pending_sources :
  (forall inb outb cc, hasPendingCalls inb outb cc = (inb >? 0) || (outb >? 0) || negb cc) /\
  (forall isNil pending inb outb, 0 < inb \/ 0 < outb ->
     hasPendingCalls inb outb (relayCanClose isNil pending) = true) /\
  (forall inb outb cc, hasPendingCalls inb outb cc = false <-> inb <= 0 /\ outb <= 0 /\ cc = true).
Proof. exact c19l_gen_pending_sources. Qed.
Print Assumptions C19_gen_pending_sources.

(* One sweep, from ANY channel state (distinct connection ids): a connection with a call in its
   inbound or outbound exchange set is left exactly as it is -- whatever its k_relay (no relayer, a
   relayer with counter 0, any counter), its stamps and its state; and whatever the sweep closes had
   no call in either set. *)
Theorem C19_sweep_keeps_busy : forall mi s id c,
  NoDup (map fst (ch_conns s)) -> Idle.lookup id (ch_conns s) = Some c ->
  (0 < k_inb c \/ 0 < k_outb c -> Idle.lookup id (ch_conns (sweep mi s)) = Some c) /\
  (forall c', Idle.lookup id (ch_conns (sweep mi s)) = Some c' -> is_active c = true -> is_active c' = false ->
     k_inb c <= 0 /\ k_outb c <= 0).
Proof. exact c19l_sweep_keeps_busy. Qed.
Print Assumptions C19_sweep_keeps_busy.

(* Over histories: after every history h (all interleavings of the events, any clock, sweep enabled
   or not) the exchange counts of connection id are the calls in flight of the history
   (calls_in_flight, Spec/C19LocalSpec.v: w = 0 calls the channel handles itself, w = 1 calls it
   originated) ... *)
Theorem C19_calls_in_flight : forall cf t0 h id,
  option_map k_inb (Idle.lookup id (ch_conns (IdleHealthSys.run cf t0 h))) = calls_in_flight id 0 None h /\
  option_map k_outb (Idle.lookup id (ch_conns (IdleHealthSys.run cf t0 h))) = calls_in_flight id 1 None h.
Proof. exact c19l_calls_in_flight_both. Qed.
Print Assumptions C19_calls_in_flight.

(* ... so a connection -- of a relaying channel or not, idle for however long, whatever its relay
   counter -- on which a call the channel handles itself or a call the channel originated is in
   flight is NOT closed by the tick: it is left exactly as it is. *)
Theorem C19_nonrelayed_call_kept : forall cf t0 h id c,
  Idle.lookup id (ch_conns (IdleHealthSys.run cf t0 h)) = Some c -> nonrelayed_call_in_flight id h ->
  Idle.lookup id (ch_conns (IdleHealthSys.step cf (IdleHealthSys.run cf t0 h) ETick)) = Some c /\
  ~ In id (closed_between (ch_conns (IdleHealthSys.run cf t0 h)) (ch_conns (IdleHealthSys.step cf (IdleHealthSys.run cf t0 h) ETick))).
Proof. exact c19l_nonrelayed_call_kept. Qed.
Print Assumptions C19_nonrelayed_call_kept.

(* The same over the combined relay / sweep state of Model/IdleRelay.v, with NO hypothesis on the
   relay bookkeeping (it may have no live item and no held unit for the connection, the counter may
   be 0, canClose may hold): the sweep leaves a connection with a call in its exchange sets as it
   is, and hasPendingCalls computed from the generated functions is true. *)
Theorem C19_relay_busy_kept : forall rc mi id c,
  NoDup (map fst (ch_conns (rc_chan rc))) -> Idle.lookup id (ch_conns (rc_chan rc)) = Some c ->
  0 < k_inb c \/ 0 < k_outb c ->
  Idle.lookup id (ch_conns (rc_chan (rsweep mi rc))) = Some c /\
  relay_has_pending (rc_relay rc) id c = true.
Proof. exact c19l_relay_busy_kept. Qed.
Print Assumptions C19_relay_busy_kept.

(* non-vacuity: a connection of a relaying channel (ex_cf: MaxIdleTime 180).  A call the relay
   handles itself starts at t=0; a relayed call comes and goes (the relay counter is back at 0);
   at t=500 the tick closes nothing although canClose holds and the connection was silent for 500;
   the handler answers, 200 later the tick closes the connection.  Second connection: a call the
   relay channel originated is pending at t=500: not closed. *)
Example C19_example_relay_local_call :
  let h := [ENewConn 0 true; ENewConn 1 true; ERead 0 3; EPend 0 0 1;
            ERead 0 3; EPend 0 2 1; EWrite 0 4; EPend 0 2 (-1);
            EPend 1 1 1; EWrite 1 3; EAdvance 500] in
  nonrelayed_call_in_flight 0 h /\ nonrelayed_call_in_flight 1 h /\
  option_map k_relay (Idle.lookup 0 (ch_conns (IdleHealthSys.run ex_cf 0 h))) = Some (Some 0) /\
  closed_between (ch_conns (IdleHealthSys.run ex_cf 0 h)) (ch_conns (IdleHealthSys.step ex_cf (IdleHealthSys.run ex_cf 0 h) ETick)) = [] /\
  let h2 := h ++ [ETick; EWrite 0 4; EPend 0 0 (-1); EAdvance 200] in
  ~ nonrelayed_call_in_flight 0 h2 /\
  closed_between (ch_conns (IdleHealthSys.run ex_cf 0 h2)) (ch_conns (IdleHealthSys.step ex_cf (IdleHealthSys.run ex_cf 0 h2) ETick)) = [0].
Proof.
  cbv zeta. split; [exists 0, 1; vm_compute; repeat split; auto|].
  split; [exists 1, 1; vm_compute; repeat split; auto|].
  split; [vm_compute; reflexivity|]. split; [vm_compute; reflexivity|].
  split; [|vm_compute; reflexivity].
  intros (w & n & [-> | ->] & Hn & Hpos); vm_compute in Hn; injection Hn as <-; exact (Z.lt_irrefl _ Hpos).
Qed.
