(* Property C04 -- Concurrent calls never mix, and concurrent API use is race-free.
   This file contains only statements, each closed by [exact].

   Vocabulary: Spec/Demux.v (interleaving, prefix, subseq); Model/Mex.v (the interleaving
   system of mex.go: [run ls = Some s] = s is reached by the schedule ls of atomic steps of
   any number of exchanges, callers, consumers, shutdown/expire/stop threads and the single
   connection reader; ghost history g_arrived/g_delivered/g_received, s_wire, g_from/g_to);
   Proofs/MexP.v ([window e w] = the frames of w carrying e's id between the positions at which
   e entered and left the exchanges map).

   The model describes the REPAIRED messageExchange.forwardPeerFrame (fix commit "refuse later
   frames of an exchange once one was dropped"); [run_pinned] is the code as pinned.

   Clause (c) of the property -- concurrent use of the public API causes no data race -- is a
   statement about the Go memory model.  No Gallina model here expresses the memory model.
   What IS proved (section LOCK DISCIPLINE at the end of this file): over the table of every
   syntactic read / write site of the mutex-protected state of the concurrency core, regenerated
   from the Go source on every run (Gen/GenLockSites.v, go2v/locksites.go), each write site holds
   the field's mutex in write mode and each read site at least in read mode, up to an explicit
   exception list; and, against a small semantics of a readers-writer mutex, a write section
   excludes every other section.  This is a syntactic lock-set discipline in the style of Eraser,
   not race freedom in the Go memory model.  Dynamic evidence: both tiers run the multiplex
   (with cancel frames) and mex scenarios under the race detector in a child process. *)
From Coq Require Import ZArith List Bool.
From Verif Require Import Base.Wrap Base.Bytes Gen.GenConsts Gen.GenMex Model.Crc Model.Frag Spec.FragSpec Spec.FragOk
  Proofs.FragWP Proofs.FragRP Proofs.FragRoundtrip Spec.Demux Model.Mex Proofs.MexP Proofs.MexE2E
  Spec.LockSpec Model.LockDiscipline Gen.GenLockSites Proofs.LockSitesP.
Import ListNotations.
Local Open Scope Z_scope.

(* SHUFFLE.  For per-call frame sequences with pairwise distinct ids and ANY order-preserving
   interleaving w of them (what the connection's single writer can put on the wire, and the
   single reader take off it), filtering w by a call's id gives back exactly that call's
   sequence; an id that belongs to no call gets nothing. *)
Theorem C04_shuffle : forall (ids : list Z) (seqs : list (list frame)) (w : list frame),
  NoDup ids -> Forall2 (fun i s => Forall (fun f => f_id f = i) s) ids seqs -> interleaving seqs w ->
  Forall2 (fun i s => filter (fun f => f_id f =? i) w = s) ids seqs.
Proof. exact shuffle. Qed.
Print Assumptions C04_shuffle.

Theorem C04_shuffle_foreign : forall (ids : list Z) (seqs : list (list frame)) (w : list frame) j,
  Forall2 (fun i s => Forall (fun f => f_id f = i) s) ids seqs -> interleaving seqs w -> ~ In j ids ->
  filter (fun f => f_id f =? j) w = [].
Proof. exact shuffle_foreign. Qed.
Print Assumptions C04_shuffle_foreign.

(* DEMUX.  In every reachable state, for every exchange e: what was put on e's queue is an
   initial segment (hence an in-order subsequence) of the frames with e's id that arrived
   while e was registered; it contains no frame of another id; the consumer has received a
   prefix of it and the rest is still queued; the queue never exceeds its capacity. *)
Theorem C04_demux : forall ls s r e,
  run ls = Some s -> nth_error (s_mexes s) r = Some e ->
  let g := m_g e in
  prefix (g_delivered g) (window e (s_wire s)) /\
  subseq (g_delivered g) (window e (s_wire s)) /\
  Forall (fun f => f_id f = m_id e) (g_delivered g) /\
  g_delivered g = g_received g ++ m_queue e /\
  zlen (m_queue e) <= m_cap e.
Proof. exact demux. Qed.
Print Assumptions C04_demux.

(* NO GAP.  What a call's consumer has received is always an initial segment of the frames that
   arrived for it: never a hole, never a reordering; once it has received as many frames as
   arrived, it has received exactly those.  (A consumer can therefore only complete on the
   true frame sequence; after a refused frame it can only end with the context/latch error.) *)
Theorem C04_no_gap : forall ls s r e,
  run ls = Some s -> nth_error (s_mexes s) r = Some e ->
  prefix (g_received (m_g e)) (window e (s_wire s)) /\
  (length (g_received (m_g e)) = length (window e (s_wire s)) -> g_received (m_g e) = window e (s_wire s)).
Proof. exact no_gap. Qed.
Print Assumptions C04_no_gap.

(* A REFUSED FRAME IS FINAL.  Once some frame that arrived for an exchange has not been delivered
   (and the reader is not holding a frame for it), then in EVERY continuation of the schedule
   nothing more is delivered to it: its consumer can receive at most the frames delivered before
   the refusal, so it can never complete on a sequence with the refused frame missing -- it ends
   with the context / latched error. *)
Theorem C04_refused_final : forall ls s r e,
  run ls = Some s -> nth_error (s_mexes s) r = Some e ->
  (forall f, s_reader s <> RLooked f (Some r) /\ s_reader s <> RSelect f r) ->
  g_delivered (m_g e) <> window e (s_wire s) ->
  forall ls' s' e', run_from step s ls' = Some s' -> nth_error (s_mexes s') r = Some e' ->
  g_delivered (m_g e') = g_delivered (m_g e) /\ prefix (g_received (m_g e')) (g_delivered (m_g e)).
Proof. exact refused_final. Qed.
Print Assumptions C04_refused_final.

(* The pinned code REFUTES the no-gap clause: with the error latch set and the queue full a
   frame is dropped, and a later frame is still delivered once the consumer made room
   (finding c04:frame-gap-after-error-latch, repaired). *)
Theorem C04_no_gap_pinned_refuted : exists ls s e,
  run_pinned ls = Some s /\ nth_error (s_mexes s) 0 = Some e /\
  ~ prefix (g_received (m_g e)) (window e (s_wire s)).
Proof. exact no_gap_pinned_refuted. Qed.
Print Assumptions C04_no_gap_pinned_refuted.

(* REFUSAL.  A forwarding step that returns an error (the frame is refused) happens only when
   the exchange's context is done (the error is the context error) or its error latch is set
   (the error is the latched error). *)
Theorem C04_refusal_cause : forall ls s l s' code,
  run ls = Some s -> is_fwd l = true -> step_obs true s l = Some (s', [code]) -> code <> 0 ->
  exists f r e, (s_reader s = RLooked f (Some r) \/ s_reader s = RSelect f r) /\
    nth_error (s_mexes s) r = Some e /\
    ((m_ctx e <> 0 /\ code = ctx_err (m_ctx e)) \/ (m_err e <> 0 /\ code = m_err e)).
Proof. exact refusal_cause. Qed.
Print Assumptions C04_refusal_cause.

(* IDS IN FLIGHT.  In every reachable state the ids registered in the set are pairwise distinct,
   and an exchange is registered under its own id exactly while its interval is open. *)
Theorem C04_registered : forall ls s,
  run ls = Some s ->
  NoDup (map fst (s_exch s)) /\
  (forall id r, In (id, r) (s_exch s) <->
     exists e, nth_error (s_mexes s) r = Some e /\ m_id e = id /\ g_to (m_g e) = None).
Proof. exact registered_iff. Qed.
Print Assumptions C04_registered.

(* A newExchange with an id that is live is rejected with the duplicate error and changes
   nothing; with a fresh id (set not shut down) it registers the exchange. *)
Theorem C04_duplicate_rejected : forall s id cap r,
  1 <= cap -> s_shutdown s = false -> lookup id (s_exch s) = Some r ->
  step_obs true s (LNew id cap) = Some (s, [E_DUPLICATE]).
Proof. exact new_duplicate_rejected. Qed.
Print Assumptions C04_duplicate_rejected.

Theorem C04_fresh_registered : forall s id cap,
  1 <= cap -> s_shutdown s = false -> lookup id (s_exch s) = None ->
  exists s', step_obs true s (LNew id cap) = Some (s', [0; Z.of_nat (length (s_mexes s))]) /\
             lookup id (s_exch s') = Some (length (s_mexes s)).
Proof. exact new_fresh_registered. Qed.
Print Assumptions C04_fresh_registered.

(* NextMessageID (atomic uint32 increment): any n <= 2^32 consecutive allocations, from any
   counter value, are pairwise distinct 32-bit values, the k-th being start+1+k mod 2^32. *)
Theorem C04_ids : forall n start, Z.of_nat n <= 2 ^ 32 ->
  NoDup (alloc_ids n start) /\ Forall (fun i => 0 <= i < 2 ^ 32) (alloc_ids n start) /\
  (forall k, (k < n)%nat -> nth_error (alloc_ids n start) k = Some ((start + 1 + Z.of_nat k) mod 2 ^ 32)).
Proof. exact ids_distinct. Qed.
Print Assumptions C04_ids.

(* WHO UNREGISTERS AN EXCHANGE.
   Full statement wanted: in every reachable state, the step that takes exchange r out of the
   set is one of r's own removal steps (its shutdown, its expiry, or removeExchange of its id).
   REFUTED by the model (= by the code): removal is keyed by the message id. *)
Theorem C04_own_removal_refuted : exists ls s l s' r e e',
  run ls = Some s /\ step s l = Some s' /\
  nth_error (s_mexes s) r = Some e /\ g_to (m_g e) = None /\
  nth_error (s_mexes s') r = Some e' /\ g_to (m_g e') <> None /\
  ~ own_label l r (m_id e).
Proof. exact own_removal_refuted. Qed.
Print Assumptions C04_own_removal_refuted.

(* PARTIAL: proved under the explicit hypothesis that no message id has been used twice on the
   connection so far (true for ids drawn from NextMessageID, by C04_ids; for inbound calls it is
   an assumption on the peer).  Missing: the case of a peer re-using an id while a goroutine of
   the older call can still run shutdown()/inboundExpired() -- known finding
   c04:stale-removal-by-id. *)
Theorem C04_own_removal_partial : forall ls s l s' r e e',
  run ls = Some s -> step s l = Some s' ->
  NoDup (map m_id (s_mexes s)) ->
  nth_error (s_mexes s) r = Some e -> g_to (m_g e) = None ->
  nth_error (s_mexes s') r = Some e' -> g_to (m_g e') <> None ->
  own_label l r (m_id e).
Proof. exact own_removal_partial. Qed.
Print Assumptions C04_own_removal_partial.

(* END TO END = SHUFFLE o DEMUX/NO-GAP o C01 round trip.  Whatever the interleaving of the calls'
   fragments on the wire and whatever the schedule of the exchange set: a consumer that was
   registered before the first frame, still is, and has received as many frames as its peer's
   writer emitted for (a1,a2,a3), reads back exactly a1, a2, a3 (ArgReadHelper, any buffer sizes). *)
Theorem C04_end_to_end : forall ls s r e (payload : Z -> frag) ids seqs k S capf kind a1 a2 a3 codes wst,
  run ls = Some s -> nth_error (s_mexes s) r = Some e ->
  interleaving seqs (s_wire s) -> NoDup ids ->
  Forall2 (fun i s => Forall (fun f => f_id f = i) s) ids seqs ->
  nth_error ids k = Some (m_id e) -> nth_error seqs k = Some S ->
  g_from (m_g e) = O -> g_to (m_g e) = None ->
  3 <= capf true -> 5 <= capf false -> kind_ok kind ->
  w_run capf (script3 a1 a2 a3) (w_init (ck_fresh kind)) [] = Some (codes, wst) ->
  map payload (map f_tag S) = ws_out wst ->
  length (g_received (m_g e)) = length S ->
  forall n1 n2 n3, 0 < n1 -> 0 < n2 -> 0 < n3 ->
  exists st1 st2 st3,
    arg_helper false n1 (r_init (map payload (map f_tag (g_received (m_g e))))) = Some (0, arg_bytes a1, 0, st1) /\
    arg_helper false n2 st1 = Some (0, arg_bytes a2, 0, st2) /\
    arg_helper true n3 st2 = Some (0, arg_bytes a3, 0, st3).
Proof. exact end_to_end. Qed.
Print Assumptions C04_end_to_end.

(* ---- non-vacuity ---- *)

(* two calls (ids 5 and 9), frames interleaved on the wire, a stale lookup across a shutdown,
   both consumers reading: each gets exactly its own frames in order *)
Definition ex_trace : list label :=
  [LNew 5 2; LNew 9 2;
   LLookup (mkF 5 1); LFwdCheck; LFwdSend;
   LLookup (mkF 9 2); LFwdCheck; LFwdSend;
   LRecvCheck 1; LRecvFrame 1;
   LLookup (mkF 5 3); LFwdCheck; LFwdSend;
   LLookup (mkF 9 4);                       (* reader holds frame 4 for exchange 1 ... *)
   LShutCAS 1; LShutNotify 1; LShutRemove 1; (* ... which is shut down meanwhile *)
   LFwdCheck; LFwdErr;                       (* latch set, room in the queue: still delivered in order *)
   LRecvCheck 0; LRecvFrame 0; LRecvCheck 0; LRecvFrame 0; LRecvCheck 1; LRecvErr 1].
Example C04_example_demux :
  exists s e0 e1, run ex_trace = Some s /\
    nth_error (s_mexes s) 0 = Some e0 /\ nth_error (s_mexes s) 1 = Some e1 /\
    map f_tag (g_received (m_g e0)) = [1; 3] /\ map f_tag (g_received (m_g e1)) = [2; 4] /\
    map f_tag (s_wire s) = [1; 2; 3; 4] /\ map fst (s_exch s) = [5].
Proof. vm_compute. eexists. eexists. eexists. repeat split. Qed.

(* the hypotheses of C04_shuffle are satisfiable by a genuinely interleaved wire *)
Example C04_example_interleaving :
  interleaving [[mkF 5 1; mkF 5 3]; [mkF 9 2; mkF 9 4]] [mkF 5 1; mkF 9 2; mkF 5 3; mkF 9 4].
Proof.
  apply (il_cons [] (mkF 5 1) [mkF 5 3] [[mkF 9 2; mkF 9 4]]).
  apply (il_cons [[mkF 5 3]] (mkF 9 2) [mkF 9 4] []).
  apply (il_cons [] (mkF 5 3) [] [[mkF 9 4]]).
  apply (il_cons [[]] (mkF 9 4) [] []).
  apply il_nil. repeat constructor.
Qed.

(* ids across the 2^32 wrap-around *)
Example C04_example_ids : alloc_ids 4 4294967293 = [4294967294; 4294967295; 0; 1].
Proof. vm_compute. reflexivity. Qed.

(* the repaired code on the schedule that breaks the pinned code: the late frame is refused *)
Example C04_example_gap_repaired :
  exists s e, run_from step init (firstn 16 gap_trace) = Some s /\ nth_error (s_mexes s) 0 = Some e /\
    step_obs true s LFwdSend = None /\ s_reader s = RIdle /\
    map f_tag (g_delivered (m_g e)) = [1; 2] /\ m_dropped e = true.
Proof. exact gap_trace_repaired. Qed.

(* ================================================================== LOCK DISCIPLINE (clause (c))

   [lock_sites] (Gen/GenLockSites.v) is regenerated from the Go source on every run: one row per
   syntactic read / write site, in the non-test source of package tchannel, of the fields
   messageExchangeSet.{exchanges, expiredExchanges, shutdown}, Connection.state (stateMut),
   relayItems.{items, tombs}, PeerList.{peersByHostPort, peerHeap, scoreCalculator},
   RootPeerList.peersByHostPort, Peer.{inboundConnections, outboundConnections},
   Channel.mutable.{state, peerInfo, l, idleSweep, conns}, subChannelMap.subchannels, with the mode
   of the field's mutex held at the site ([lk_effective]: in the function itself, or on every call
   path into it).  The rules of the lock-set computation are in go2v/locksites.go.

   ESTABLISHED: a syntactic lock-set discipline.  A lock region that is removed, narrowed, or
   downgraded from Lock to RLock around a write, and a new unlocked access, change a row and break
   [C04_lock_discipline_generated].
   NOT ESTABLISHED: data-race freedom in the Go memory model.  Outside the table: fields not
   listed; values obtained under the lock and used after it is released (a map / slice header or
   pointer copied out); pointers passed on (`&p.inboundConnections` handed to removeConnection is
   one row at the call); whether the mutex reached through the same expression is the same mutex
   instance; the exception list of Model/LockDiscipline.v (8 rows: the constructor NewChannel,
   a member written once before the goroutine reading it is started, an address-of). *)

(* every site outside the exception list: a write holds the write lock, a read at least the read lock *)
Theorem C04_lock_discipline_generated : forall s, In s lock_sites -> lk_excepted lk_exceptions s = false ->
  (lk_kind s = LkWrite -> lk_effective s = LkW) /\
  (lk_kind s = LkRead -> lk_effective s = LkR \/ lk_effective s = LkW).
Proof. exact lock_discipline. Qed.
Print Assumptions C04_lock_discipline_generated.

(* no stale exception: each one matches a row of the current table that does lack the lock *)
Theorem C04_lock_exceptions_needed : forall e, In e lk_exceptions ->
  exists s, In s lock_sites /\ lk_matches e s = true /\ lk_sufficient (lk_kind s) (lk_effective s) = false.
Proof. exact lock_exceptions_needed. Qed.
Print Assumptions C04_lock_exceptions_needed.

(* the table covers the protected state: every required field was found in the source together with
   its mutex and has a site that holds it *)
Theorem C04_lock_fields_covered : forall f, In f lk_required_fields ->
  In f lock_fields /\
  exists s, In s lock_sites /\ lk_field s = f /\ lk_sufficient (lk_kind s) (lk_effective s) = true.
Proof. exact lock_fields_covered. Qed.
Print Assumptions C04_lock_fields_covered.

(* meaning of the discipline: in every reachable state of any number of threads that bracket an
   access by acquire / release of one readers-writer mutex in their mode, a thread inside a WRITE
   section is alone among the threads that took the mutex *)
Theorem C04_rw_write_section_exclusive : forall s ts, rw_reach s ts ->
  forall i j m, i <> j -> nth_error ts i = Some (LkW, true) -> nth_error ts j = Some (m, true) -> m = LkNone.
Proof. exact rw_exclusion. Qed.
Print Assumptions C04_rw_write_section_exclusive.

(* ... so two non-excepted sites of the generated table, one of them a write, are never occupied together *)
Theorem C04_lock_sites_exclusive : forall s1 s2, In s1 lock_sites -> In s2 lock_sites ->
  lk_excepted lk_exceptions s1 = false -> lk_excepted lk_exceptions s2 = false ->
  lk_kind s1 = LkWrite ->
  forall st ts, rw_reach st ts ->
  forall i j, i <> j -> nth_error ts i = Some (lk_effective s1, true) -> nth_error ts j = Some (lk_effective s2, true) -> False.
Proof. exact lock_sites_exclusive. Qed.
Print Assumptions C04_lock_sites_exclusive.

(* non-vacuity: the semantics lets a reader in and out and then a writer in *)
Example C04_example_rw : rw_reach (mkRw 0 true) [(LkR, false); (LkW, true)].
Proof. exact rw_example. Qed.
(* non-vacuity: the table contains the cancel lookup and the removal it must not race with *)
Example C04_example_lock_sites :
  existsb (fun s => lz_eqb (lk_field s) lkn_exchanges &&
                    lz_eqb (lk_fn s) lkn_handleCancel &&
                    lk_acc_eqb (lk_kind s) LkRead) lock_sites = true /\
  existsb (fun s => lz_eqb (lk_field s) lkn_exchanges &&
                    lz_eqb (lk_fn s) lkn_deleteExchange &&
                    lk_acc_eqb (lk_kind s) LkWrite) lock_sites = true.
Proof. exact lock_sites_example. Qed.

(* ------------------------------------------------------------------------------------------
   POOL DISCIPLINE (strengthening U04).

   Objects that calls take from a sync.Pool -- the running checksum of every message writer and
   reader, the typed.Reader behind thrift.ReadHeaders, the thrift protocol of ReadStruct /
   WriteStruct and of the thrift server, scratch buffers, the RequestState of RunWithRetry -- are
   the one piece of state that calls of DIFFERENT exchanges, connections and channels share: the
   pools are process-wide.  "Frames / data for an id reach that call only" and "each caller
   receives its complete, unmodified response" hold only if such an object has one holder at a
   time.  The pool itself guarantees nothing of the kind: it hands out what was put into it.

   Vocabulary: Spec/PoolTraceSpec.v.  A trace is a list of [PGet o h] / [PPut o h] (holder h was handed
   object o / put it back).  [disciplined es]: every Get returns an object of the pool or a new
   one (the pool's half, [get_legal]) and every Put is preceded by a Get of that object by that
   holder that no Put has answered yet (the users' half, [put_matched]: nobody puts an object back
   twice, nobody puts back what he does not hold).  [exclusive w]: no object is held twice, none
   is in the pool twice, none of the pool is held.

   ESTABLISHED:
     (1) pool discipline => exclusive ownership, after every prefix of every disciplined trace,
         for any number of objects and holders; and its necessity: one unmatched Put lets the pool,
         within its rights, hand one object to two holders;
     (2) the extracted checker [run_pooltrace] accepts exactly the disciplined traces and names the
         first offending event otherwise; the harness engine poolmux feeds it the traces recorded
         on the real library (tracking checksum pools; census differences of the other pools) while
         calls fail at their last flush / on truncated thrift header blocks among healthy calls;
     (3) the table of EVERY sync.Pool of the library and of every Get / Put site and every call of
         a put wrapper (a function that puts its own receiver / parameter into a pool -- detected
         from the source, not listed), with the guard it stands under, regenerated from the source
         on every run (Gen/GenSyncPools.v, go2v/syncpools.go), is the model's table
         (Model/PoolSites.v), where every row has its role in a life cycle; a new Put site, a Put
         moved out of or into a branch, a new releasing function, a new pool break
         [C04_pool_site_offenders_none] / [C04_pools_generated] with the offending row numbers;
     (4) any interleaving of holders that each take one object and give it back at most once --
         the life cycles the roles stand for -- is disciplined, hence exclusive.
   NOT ESTABLISHED by proof: that the Go control flow executes, per acquisition, at most one of
   the release sites of its life cycle.  That is read off the guards by hand (Model/PoolSites.v)
   and tested by the recorded traces of (2); the frame pool and the relay's timer pool are outside
   the census (C12 / C03, C09), their sites are in the table. *)
From Verif Require Import Spec.PoolTraceSpec Model.PoolTrace Model.PoolSites Gen.GenSyncPools
  Proofs.PoolTraceP Proofs.PoolSitesP.

(* (1) pool discipline => exclusive ownership *)
Theorem C04_pool_discipline_exclusive : forall es, disciplined es ->
  forall pre post, es = pre ++ post -> exclusive (pw_run pw_init pre).
Proof. exact pool_discipline_exclusive. Qed.
Print Assumptions C04_pool_discipline_exclusive.

(* ... in the words of the property: two holdings of one object are one holding *)
Theorem C04_pool_discipline_no_sharing : forall es, disciplined es ->
  forall pre post, es = pre ++ post ->
  forall o h1 h2, In (o, h1) (pw_held (pw_run pw_init pre)) -> In (o, h2) (pw_held (pw_run pw_init pre)) -> h1 = h2.
Proof. exact pool_discipline_no_sharing. Qed.
Print Assumptions C04_pool_discipline_no_sharing.

(* ... and what the pool can hand out next is in it once and held by nobody *)
Theorem C04_pool_discipline_bag : forall es, disciplined es ->
  forall pre post, es = pre ++ post ->
  NoDup (pw_bag (pw_run pw_init pre)) /\
  forall o h, In o (pw_bag (pw_run pw_init pre)) -> ~ In (o, h) (pw_held (pw_run pw_init pre)).
Proof. exact pool_discipline_bag. Qed.
Print Assumptions C04_pool_discipline_bag.

(* necessity: Get, Put, and the same Put again -- every later Get is legal for the pool, and two
   holders share the object *)
Theorem C04_pool_double_put_shares : forall o h h1 h2, h1 <> h2 ->
  let es := [PGet o h; PPut o h; PPut o h; PGet o h1; PGet o h2] in
  pool_legal es /\
  ~ disciplined es /\
  In (o, h1) (pw_held (pw_run pw_init es)) /\ In (o, h2) (pw_held (pw_run pw_init es)) /\
  ~ no_sharing (pw_run pw_init es).
Proof. exact double_put_shares. Qed.
Print Assumptions C04_pool_double_put_shares.

(* (2) the checker decides the discipline *)
Theorem C04_pooltrace_checker : forall es, pt_ok es = true <-> disciplined es.
Proof. exact pt_ok_iff_disciplined. Qed.
Print Assumptions C04_pooltrace_checker.

(* an accepted harness trace is disciplined, and exclusive after every prefix *)
Theorem C04_pooltrace_accepts : forall n r out, run_pooltrace (n :: r) = 1 :: out ->
  exists es, pt_decode (Z.to_nat n) r = Some es /\ disciplined es /\
    forall pre post, es = pre ++ post ->
      exclusive (pw_run pw_init pre) /\ no_sharing (pw_run pw_init pre).
Proof. exact run_pooltrace_accepts. Qed.
Print Assumptions C04_pooltrace_accepts.

(* a rejected one: the events before the reported index are disciplined, the event at the index
   breaks the discipline in the way the offence code says (1 put back while nobody holds it, 2 put
   back by a stranger, 3 handed out while held, 4 neither in the pool nor new) *)
Theorem C04_pooltrace_rejects : forall n r i c, run_pooltrace (n :: r) = [0; i; c] ->
  exists es pre e post, pt_decode (Z.to_nat n) r = Some es /\ es = pre ++ e :: post /\ i = zlen pre /\
    disciplined pre /\ offence_means (pw_run pw_init pre) e c /\ ~ disciplined es.
Proof. exact run_pooltrace_rejects. Qed.
Print Assumptions C04_pooltrace_rejects.

(* (3) the generated tables are the model's *)
Theorem C04_pool_site_offenders_none : ps_offenders syncpool_sites = [].
Proof. exact syncpool_site_offenders_none. Qed.
Print Assumptions C04_pool_site_offenders_none.

Theorem C04_pool_sites_generated : map fst pool_site_table = syncpool_sites.
Proof. exact syncpool_sites_generated. Qed.
Print Assumptions C04_pool_sites_generated.

Theorem C04_pools_generated : pd_offenders syncpool_decls = [] /\ pool_decl_table = syncpool_decls.
Proof. exact (conj syncpool_decl_offenders_none syncpool_decls_generated). Qed.
Print Assumptions C04_pools_generated.

(* every pool of the source is under census in the harness, or listed with the reason why not *)
Theorem C04_pools_covered : forall d, In d syncpool_decls -> pool_covered d = true.
Proof. exact pools_covered. Qed.
Print Assumptions C04_pools_covered.

(* the roles: Get rows begin a life cycle, Put / PutVia rows end one or hand on inside a wrapper;
   every cycle is entered and left; two release sites of one cycle inside one function only in
   thrift.Server.handle (two acquisitions) *)
Theorem C04_pool_roles : forallb ps_role_ok pool_site_table = true /\ ps_cycles_ok = true /\
  ps_same_fn_releases pool_site_table = ps_double_release_fns.
Proof. exact (conj (proj1 pool_roles_ok) (conj (proj2 pool_roles_ok) pool_double_release_fns)). Qed.
Print Assumptions C04_pool_roles.

(* (4) the life cycles: one Get, at most one Put per holder, any number of holders, any
   interleaving, objects dropped without release allowed *)
Theorem C04_pool_cycles_disciplined : forall ls evs s', lc_run lc_init ls = Some (evs, s') -> disciplined evs.
Proof. exact lc_disciplined. Qed.
Print Assumptions C04_pool_cycles_disciplined.

Theorem C04_pool_cycles_no_sharing : forall ls evs s', lc_run lc_init ls = Some (evs, s') ->
  forall pre post, evs = pre ++ post -> exclusive (pw_run pw_init pre) /\ no_sharing (pw_run pw_init pre).
Proof. exact lc_no_sharing. Qed.
Print Assumptions C04_pool_cycles_no_sharing.

(* non-vacuity *)
Example C04_example_pooltrace_ok :
  run_pooltrace [6; 0; 7; 1;  0; 8; 2;  1; 7; 1;  0; 7; 3;  1; 8; 2;  1; 7; 3] = [1; 6; 0; 2].
Proof. exact pooltrace_example_ok. Qed.
Example C04_example_pooltrace_double_put :
  run_pooltrace [5; 0; 7; 1;  1; 7; 1;  1; 7; 1;  0; 7; 2;  0; 7; 3] = [0; 2; 1].
Proof. exact pooltrace_example_double_put. Qed.
Example C04_example_pool_cycles :
  exists evs s', lc_run lc_init [LcGet 1 None; LcGet 2 None; LcPut 1; LcGet 3 (Some 1); LcDrop 2; LcPut 3] = Some (evs, s')
    /\ evs = [PGet 1 1; PGet 2 2; PPut 1 1; PGet 1 3; PPut 1 3].
Proof. exact lc_example. Qed.
Example C04_example_pool_sites :
  existsb (fun p => ps_row_eq (fst p) ps_row_writer_release) pool_site_table = true /\
  existsb (fun p => ps_row_eq (fst p) ps_row_readheaders_release) pool_site_table = true.
Proof. exact pool_sites_example. Qed.

(* ================================================================== THE READER DRAINS ITS EXCHANGE
   (strengthening W04)

   "each caller receives the complete, unmodified response produced for its own request ... with
   exchanges timing out or being cancelled while others proceed": a connection-level event (the peer
   closes the connection right after answering, a protocol error caused by another call's frame, a
   failing write of another call) notifies EVERY exchange of the connection.  It must take nothing
   away from a call whose response frames have already been delivered to its exchange.

   messageExchange.recvPeerFrame's priority (context error, delivered frames, notified error) is
   Model/Mex.v's LRecvCheck ; (LRecvFrame | LRecvCtxDone | LRecvErr), tied to the source by
   Gen/GenMexProg.v.  Here: (1) the functions ABOVE it on the reader's path put no other question to
   the exchange first -- their statement structure, regenerated on every run
   (Gen/GenC04Reader.v, go2v/c04reader.go), executes to the model's fetch; the regenerated table of
   every place of the package that consults an exchange's error channel is the expected one and
   contains no function of the reader's path; (2) in the model, from every reachable state, a reader
   with a live context receives all the frames on its queue, in order, whatever was notified, for
   every choice of the scheduler at the selects; a fetch ends with the notified error only on an
   empty queue. *)
From Verif Require Import Spec.C04ReaderSpec Gen.GenC04Reader Model.C04Reader Proofs.C04ReaderP
  Spec.ChanProg Gen.GenMexProg Model.MexProg Proofs.MexProgP.

(* reqResReader.recvNextFragment, as regenerated: the initial fragment if the reader holds one,
   else exactly one mex.recvPeerFrame (through recvPeerFrameOfType, next theorem) *)
Theorem C04_reader_fetch_generated : forall initial s r sel,
  c04r_exec c04r_recvNextFragment initial [] s r sel = c04r_fetch initial s r sel.
Proof. exact c04r_next_fragment_generated. Qed.
Print Assumptions C04_reader_fetch_generated.

(* messageExchange.recvPeerFrameOfType, as regenerated up to its type switch: one recvPeerFrame,
   its error passed on unchanged *)
Theorem C04_reader_of_type_generated : forall s r sel,
  c04r_exec c04r_recvPeerFrameOfType false [] s r sel = c04r_recv s r sel.
Proof. exact c04r_of_type_generated. Qed.
Print Assumptions C04_reader_of_type_generated.

(* ... and messageExchange.recvPeerFrame / forwardPeerFrame themselves, regenerated as channel
   programs (Gen/GenMexProg.v), are the model's steps: with the two theorems above the whole path
   recvNextFragment -> recvPeerFrameOfType -> recvPeerFrame is tied to Model/Mex.v *)
Theorem C04_recv_order_generated : forall s l,
  prog_step_obs mexForwardPeerFrame mexRecvPeerFrame s l = step_obs true s l.
Proof. exact prog_step_generated. Qed.
Print Assumptions C04_recv_order_generated.

(* every consultation of an exchange's error channel in package tchannel is one of the expected
   rows (mex.go's three functions, the writer half, the inbound watcher) ... *)
Theorem C04_errch_sites_generated :
  c04r_errch_sites = map (fun x => (c04r_s2z (fst (fst x)), snd (fst x))) c04r_expected_sites.
Proof. exact c04r_errch_sites_expected. Qed.
Print Assumptions C04_errch_sites_generated.

(* ... and none of them is in a function on the reader's path *)
Theorem C04_reader_path_silent : forall site f,
  In site c04r_errch_sites -> In f c04r_reader_path -> fst site <> c04r_s2z f.
Proof. exact c04r_reader_path_silent. Qed.
Print Assumptions C04_reader_path_silent.

(* DELIVERED BEFORE ERROR.  Reachable state, exchange r with a live context whose reader is not
   inside recvPeerFrame; NO hypothesis on its error channel.  As many fetches as there are frames
   on the queue, the scheduler choosing any select arm each time: if they all return, they return
   exactly the queued frames in order, the queue is empty afterwards and the received history grew
   by exactly those frames ... *)
Theorem C04_delivered_before_error : forall ls s r e sels s' os,
  run ls = Some s -> nth_error (s_mexes s) r = Some e -> m_cpc e = false -> m_ctx e = 0 ->
  length sels = length (m_queue e) -> Forall (c04r_sel_ok r) sels ->
  c04r_fetches s r sels = Some (s', os) ->
  os = map (fun f => [0; f_tag f]) (m_queue e) /\
  exists e', nth_error (s_mexes s') r = Some e' /\ m_queue e' = [] /\
             g_received (m_g e') = g_received (m_g e) ++ m_queue e.
Proof. exact c04r_delivered_before_error. Qed.
Print Assumptions C04_delivered_before_error.

(* ... and they can all return (the arm "a frame is ready" is enabled every time) *)
Theorem C04_delivered_before_error_enabled : forall ls s r e,
  run ls = Some s -> nth_error (s_mexes s) r = Some e -> m_cpc e = false -> m_ctx e = 0 ->
  exists s', c04r_fetches s r (map (fun _ => LRecvFrame r) (m_queue e)) =
             Some (s', map (fun f => [0; f_tag f]) (m_queue e)).
Proof. exact c04r_delivered_before_error_enabled. Qed.
Print Assumptions C04_delivered_before_error_enabled.

(* a fetch of a reader with a live context that finds the queue empty and returns, returns the
   notified error: errors of the exchange surface only after the queue *)
Theorem C04_error_only_when_empty : forall s r e sel s' o,
  nth_error (s_mexes s) r = Some e -> m_cpc e = false -> m_ctx e = 0 -> m_queue e = [] ->
  c04r_sel_ok r sel -> c04r_recv s r sel = Some (s', o) -> o = [m_err e] /\ m_err e <> 0.
Proof. exact c04r_recv_error_when_empty. Qed.
Print Assumptions C04_error_only_when_empty.

(* the writer's idiom in front of the receive is a different function: frame queued, error
   notified => the error *)
Theorem C04_check_first_differs : forall k s r e f q,
  nth_error (s_mexes s) r = Some e -> m_ctx e = 0 -> m_err e <> 0 -> m_queue e = f :: q ->
  c04r_exec (C04rIf C04rtMexCheckError (C04rRet C04rrFailed) k) false [] s r (LRecvFrame r) = Some (s, [m_err e]).
Proof. exact c04r_check_first_differs. Qed.
Print Assumptions C04_check_first_differs.

(* non-vacuity: two calls (ids 5, 9), a two-frame and a one-frame response delivered, the
   connection fails (stopExchanges 17 notifies both), THEN the callers read: each gets its own
   frames, the select taking the error-channel arm included; the next fetch gets the error *)
Definition ex_drain_trace : list label :=
  [LNew 5 2; LNew 9 2;
   LLookup (mkF 5 1); LFwdCheck; LFwdSend; LLookup (mkF 9 2); LFwdCheck; LFwdSend;
   LLookup (mkF 5 3); LFwdCheck; LFwdSend;
   LStopCopy 17; LStopNotify 0; LStopNotify 0].
Example C04_example_drain :
  exists s s1 s2 s3, run ex_drain_trace = Some s /\
    map m_err (s_mexes s) = [17; 17] /\
    c04r_fetches s 0 [LRecvErr 0; LRecvFrame 0] = Some (s1, [[0; 1]; [0; 3]]) /\
    c04r_fetches s1 1 [LRecvErr 1] = Some (s2, [[0; 2]]) /\
    c04r_fetches s2 0 [LRecvErr 0] = Some (s3, [[17]]) /\
    run_c04drain [2; 17; 2; 2; 2; 1; 1; 3; 0; 1; 0] = [2; 0; 1; 0] /\
    run_c04drain [2; 17; 2; 3; 2; 1; 0; 2; 0; 0] = [2; 17; 0; 17].
Proof. vm_compute. do 4 eexists. repeat split. Qed.
