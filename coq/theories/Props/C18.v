(* Property C18 -- Argument-scheme codecs round-trip and tolerate hostile bytes. *)
From Coq Require Import ZArith List Bool.
From Verif Require Import Base.Wrap Base.Bytes Model.TypedBuf Model.Messages Model.Codecs
  Spec.Protocol Proofs.CodecP Proofs.CodecsP.
Import ListNotations.
Local Open Scope Z_scope.

(* thrift application headers: nh:2 (k~2 v~2)*, for all maps within the 16-bit limits *)
Theorem C18_thrift_write : forall h, kvs16_ok h -> write_theaders h = Some (s_theaders h).
Proof. exact write_theaders_spec. Qed.
Theorem C18_thrift_read : forall h, kvs16_ok h -> h <> [] -> consumes r_theaders (s_theaders h) (Some h).
Proof. exact r_theaders_nonempty. Qed.
Theorem C18_thrift_empty : forall rest, r_theaders (rb (s_theaders [] ++ rest)) = (None, rb rest).
Proof. exact r_theaders_empty. Qed.
Theorem C18_thrift_toolong : forall s w, 65535 < zlen s -> werr w = 0 -> w_len16 s w = mkW (wout w) (wroom w) 2.
Proof. exact w_len16_toolong. Qed.

(* the arg2 iterator: over an encoding it yields exactly the pairs, in order, then EOF;
   over ANY byte buffer what it yields is literally present in the buffer after the count,
   in order, at most `count` pairs and exactly `count` when it ends with EOF *)
Theorem C18_kviter_complete : forall h rest, kvs16_ok h -> kv_iter (s_theaders h ++ rest) = (h, true).
Proof. exact kv_iter_complete. Qed.
Theorem C18_kviter_sound : forall buf ps fin, bytes_ok buf = true -> kv_iter buf = (ps, fin) ->
  (ps = [] /\ (length buf < 2)%nat) \/
  exists count rest, 0 <= count <= 65535 /\ buf = be 2 count ++ flat_map s_pair ps ++ rest /\
    zlen ps <= count /\ (fin = true -> zlen ps = count).
Proof. exact kv_iter_sound. Qed.

(* uvarint as used by the HTTP scheme *)
Theorem C18_uvarint : forall x rest, 0 <= x < 2 ^ 64 -> r_uvarint (rb (put_uvarint 10 x ++ rest)) = (x, rb rest).
Proof. exact uvarint_roundtrip. Qed.

(* HTTP request/response byte layer: round trip within the 10000-byte buffer, multi-valued
   headers as one pair per value in order *)
Theorem C18_http_request : forall method url h,
  zlen method <= 255 -> kvs16_ok (flat_hdrs h) -> zlen (s_http_request method url h) <= http_buf_size ->
  write_http_request method url h = (s_http_request method url h, 0) /\
  read_http_request (s_http_request method url h) = Some (method, url, flat_hdrs h, false).
Proof. exact http_request_roundtrip. Qed.
Theorem C18_http_response : forall status msg h,
  0 <= status < 65536 -> kvs16_ok (flat_hdrs h) -> zlen (s_http_response status msg h) <= http_buf_size ->
  write_http_response status msg h = (s_http_response status msg h, 0) /\
  read_http_response (s_http_response status msg h) = Some (status, msg, flat_hdrs h, false).
Proof. exact http_response_roundtrip. Qed.

(* hostile bytes: for ALL byte strings the HTTP decoders return a value or an error; the
   slice operations behind ReadBytes are guarded for every Go int, negative ones included *)
Theorem C18_total_bytes : forall n r, r_bytes_go n r <> None.
Proof. exact r_bytes_go_total. Qed.
Theorem C18_total_request : forall b, read_http_request b <> None.
Proof. exact read_http_request_total. Qed.
Theorem C18_total_response : forall b, read_http_response b <> None.
Proof. exact read_http_response_total. Qed.

Print Assumptions C18_thrift_read.
Print Assumptions C18_kviter_sound.
Print Assumptions C18_uvarint.
Print Assumptions C18_http_request.
Print Assumptions C18_total_request.

Example C18_example_varint_2_63 :   (* the hostile input that used to panic: length 2^63 *)
  read_http_request ([3; 71; 69; 84] ++ [128;128;128;128;128;128;128;128;128;1] ++ [0; 0]) = Some ([71; 69; 84], [], [], true).
Proof. vm_compute. reflexivity. Qed.
Example C18_example_kviter :
  kv_iter [0; 2; 0; 1; 97; 0; 1; 98; 0; 1; 99; 0] = ([([97], [98])], false).
Proof. vm_compute. reflexivity. Qed.

(* ======================================================================================
   Codec pieces REGENERATED from the source on every run (go2v method translator) and proved
   equal to the hand model above.  Gen/GenCodecs.v: thrift/arg2/kv_iterator.go
   (NewKeyValIterator, Next, Key, Value, Remaining) and http/buf.go readVarintString /
   writeVarintString; Gen/GenTypedBuf.v: typed.ReadBuffer.ReadBytes, NewReadBuffer,
   NewWriteBuffer.  ReadUvarint / WriteUvarint (loops inside encoding/binary) are re-modelled
   by hand over the generated ReadByte / WriteBytes (Model/UvarintG.v) and proved equal to
   r_uvarint / put_uvarint.  Vocabulary: Proofs/GenTypedBufP.v (absR, absW, wfW, viewR, stepW),
   Proofs/GenCodecsP.v (kv_result_ok: what one Next() returns against the model step kv_next:
   io.EOF when the count is exhausted, typed.ErrEOF on a short buffer, else key / value /
   count - 1 / rest of the buffer).
   First clause: the generated ReadBytes equals r_bytes_go for EVERY Go int, so C18_total_bytes
   (no slice panic, negative lengths included) is a statement about the code as it is now:
   removing the `n < 0` test from typed/buffer.go breaks this theorem.
   Still hand-written: http readHeaders / writeHeaders (http.Header = map[string][]string,
   append), thrift WriteHeaders / readHeaders (typed.Reader / io), kv_iter's outer loop (it
   is the caller's loop: Next until an error).
   ====================================================================================== *)
From Verif Require Import Base.GoSem Gen.GenTypedBuf Gen.GenCodecs Model.UvarintG Proofs.GenTypedBufP Proofs.GenCodecsP.

Theorem C18_codecs_generated :
  (forall g n, viewR bs_list (ReadBuffer_ReadBytes g n) = r_bytes_go n (absR g)) /\
  (forall b, option_map absR (NewReadBuffer b) = Some (rb (bs_list b))) /\
  (forall b, exists g, NewWriteBuffer b = Some g /\ wfW g /\ absW g = wb (bs_len b)) /\
  (forall i, bytes_ok (bs_list (KeyValIterator_remaining i)) = true -> KeyValIterator_leftPairCount i < 2 ^ 63 ->
     exists res, KeyValIterator_Next i = Some res /\
                 kv_result_ok res (kv_next (KeyValIterator_leftPairCount i) (bs_list (KeyValIterator_remaining i)))) /\
  (forall buf, bytes_ok (bs_list buf) = true ->
     NewKeyValIterator buf =
       if bs_len buf <? 2 then Some (kv_zero, e_io_EOF)
       else KeyValIterator_Next (mk_KeyValIterator (rd_drop buf 2) (unbe (firstn 2 (bs_list buf))) None None)) /\
  (forall g, viewR (fun v => v) (g_ReadUvarint g) = Some (r_uvarint (absR g))) /\
  (forall g, viewR (fun s => s) (readVarintString g) = r_varint_string (absR g)) /\
  (forall g s, wfW g -> zlen s < 2 ^ 64 -> stepW (writeVarintString g s) g (w_varint_string s)).
Proof. exact codecs_generated. Qed.

Print Assumptions C18_codecs_generated.

(* non-vacuity: the generated iterator on the buffer of C18_example_kviter *)
Example C18_example_generated :
  option_map (fun p => (bs_list (KeyValIterator_key (fst p)), bs_list (KeyValIterator_val (fst p)), snd p))
             (NewKeyValIterator (Some [0; 2; 0; 1; 97; 0; 1; 98; 0; 1; 99; 0])) = Some ([97], [98], 0) /\
  option_map snd (match NewKeyValIterator (Some [0; 2; 0; 1; 97; 0; 1; 98; 0; 1; 99; 0]) with
                  | Some (it, _) => KeyValIterator_Next it | None => None end) = Some e_typed_ErrEOF.
Proof. split; vm_compute; reflexivity. Qed.

(* ======================================================================================
   The per-context header slot: contexts that are used for SEVERAL calls.
   A ContextWithHeaders points to one container {request headers, response headers}
   (context_header.go); thrift client.Call, json Client.Call and json wrapCall store the
   response headers of a finished call there.  Spec/HdrPath.v says what a sequence of
   WithHeaders / Child / back-to-parent / call operations must show (an answered call leaves
   exactly ITS handler's response headers, empty included, and the handler sees exactly the
   request headers attached last); Model/HdrSlot.v is the code: request and response headers
   through WriteHeaders / ReadHeaders of the thrift codec above, then the clients' statement
   sequences after the retry loop.  hmap_ok h: h is within the 16-bit limits and in canonical
   form (sorted, distinct keys); [] stands for nil and for the empty map.
   ====================================================================================== *)
From Verif Require Import Base.Wire Spec.HdrPath Model.HdrSlot Proofs.HdrSlotP Gen.GenHdrPath.

(* a header map survives WriteHeaders -> ReadHeaders -> EnsureEmpty -> map *)
Theorem C18_ctx_wire : forall h, hmap_ok h -> thrift_wire h = Some h.
Proof. exact thrift_wire_ok. Qed.

(* for EVERY sequence of operations the model observes exactly what the specification says *)
Theorem C18_ctx_model_is_spec : forall ops, Forall hop_ok ops -> hrun_obs hinit ops = spec_run sinit ops.
Proof. exact hrun_obs_init_spec. Qed.
(* ... hence the harness entry point `hdrseq` computes the specified observation: an
   implementation that disagrees with it on a generated case violates the specification there *)
Theorem C18_ctx_run_is_spec : forall c, Forall hop_ok (fst (take_list take_hop c)) ->
  run_hdrseq c = flat_map put_hobs (spec_run sinit (fst (take_list take_hop c))).
Proof. exact run_hdrseq_spec. Qed.

(* an answered call (handler outcome ok / application error) after ANY earlier operations `pre`
   on the same contexts: the handler saw exactly the current request headers, the caller got the
   handler's outcome, and afterwards the context's response headers are exactly `resp` -- the
   ones THIS handler set, nothing of what earlier calls left *)
Theorem C18_ctx_call_exact : forall pre kind outcome resp,
  Forall hop_ok pre -> hmap_ok resp -> answered outcome = true ->
  let c := fst (hfinal hinit pre) in
  last_obs (hrun_obs hinit (pre ++ [HCall kind outcome resp])) =
  (Some (mkCallObs outcome true (ctx_headers c)), ctx_headers c, resp).
Proof. exact model_call_exact. Qed.

(* history independence: if the CALLER did the same things in two histories (same WithHeaders /
   Child / back-to-parent operations), then whatever calls were made in between, with whatever
   outcomes and response headers, the next answered call shows the same *)
Theorem C18_ctx_history_independent : forall pre1 pre2 kind outcome resp,
  Forall hop_ok pre1 -> Forall hop_ok pre2 -> hmap_ok resp -> answered outcome = true ->
  caller_ops pre1 = caller_ops pre2 ->
  last_obs (hrun_obs hinit (pre1 ++ [HCall kind outcome resp])) =
  last_obs (hrun_obs hinit (pre2 ++ [HCall kind outcome resp])).
Proof. exact model_history_independent. Qed.

(* REGENERATED from the source on every run (go2v statement targets with `After`, Gen/GenHdrPath.v)
   and proved equal to the model: the statements of thrift client.Call after RunWithRetry, of json
   Client.Call after RunWithRetry and of json wrapCall after makeCall (`ctx.SetResponseHeaders(
   respHeaders)` is `let slot := respHeaders`: an answered call stores unconditionally, a failed
   call does not touch the slot), and the slot itself: headerCtx.Headers / ResponseHeaders /
   SetResponseHeaders (replaces; panics without a container) / Child (copy), WrapWithHeaders
   (fresh container without response headers).  Guarding, dropping, moving or merging the store
   breaks this theorem. *)
Theorem C18_ctx_generated :
  (forall slot has_err respHeaders isOK,
     thriftCallTail slot has_err respHeaders isOK = thrift_call_tail slot has_err respHeaders isOK) /\
  (forall slot has_err respHeaders isOK,
     jsonCallTail slot has_err respHeaders isOK = json_call_tail slot has_err respHeaders isOK) /\
  (forall slot has_err respHeaders isOK,
     jsonWrapCallTail slot has_err respHeaders isOK = json_call_tail slot has_err respHeaders isOK) /\
  (forall c, ctxHeaders true (s_req c) (s_resp c) = ctx_headers c) /\
  (forall c, ctxResponseHeaders true (s_req c) (s_resp c) = ctx_resp_headers c) /\
  (forall c h, ctxSetResponseHeaders true (s_req c) (s_resp c) h = Some (s_resp (ctx_set_resp c h))) /\
  (forall c h, ctxSetResponseHeaders false (s_req c) (s_resp c) h = None) /\
  (forall h, ctxWrapWithHeaders h = (s_req (ctx_with_headers h), s_resp (ctx_with_headers h))) /\
  (forall c, ctxChild true (s_req c) (s_resp c) = (s_req (ctx_child c), s_resp (ctx_child c))).
Proof. exact hdrslot_generated. Qed.

Print Assumptions C18_ctx_model_is_spec.
Print Assumptions C18_ctx_call_exact.
Print Assumptions C18_ctx_history_independent.
Print Assumptions C18_ctx_generated.

(* non-vacuity: hmap_ok is satisfiable; the seed's scenario -- a thrift call whose handler sets
   two headers, then on the same context a call whose handler sets none -- ends with NO response
   headers, through the real codec model *)
Example C18_example_hmap_ok : hmap_ok [([97], [1; 2]); ([98], [])].
Proof. split; [split; [vm_compute; discriminate | repeat constructor; vm_compute; try discriminate; reflexivity] | vm_compute; reflexivity]. Qed.
Example C18_example_ctx_reuse :
  last_obs (hrun_obs hinit [HWith [([114], [113])]; HCall 0 0 [([97], [1; 2]); ([98], [])]; HCall 0 0 []]) =
  (Some (mkCallObs 0 true [([114], [113])]), [([114], [113])], []) /\
  last_obs (hrun_obs hinit [HWith [([114], [113])]; HCall 1 0 [([97], [1; 2])]; HCall 2 1 []]) =
  (Some (mkCallObs 1 true [([114], [113])]), [([114], [113])], []).
Proof. split; vm_compute; reflexivity. Qed.

(* ======================================================================================
   Transport-level keys on the application-header map.
   The caller's tracer serialises its span context INTO the thrift / JSON arg2 header map
   (tracing.go InjectOutboundSpan -> tracingHeadersCarrier.Set: key "$tracing$" ++ k), the callee
   hides those entries again before it builds the handler's context (ExtractInboundSpan ->
   RemoveTracingKeys).  Model/TraceHdr.v is the code; header maps are canonical association lists
   (ksorted = strictly ascending keys = what canon_map produces, C18_trace_canonical);
   app_key kv = the key does NOT start with the prefix;  sets = the pairs the caller's tracer
   passes to carrier.Set (ANY list: any tracer); has_span / nonnil / the callee's tracer: any.
   ====================================================================================== *)
From Verif Require Import Base.GoStrMap Gen.GenConsts Gen.GenTraceHdr Model.TraceHdr Proofs.StrMapP Proofs.TraceHdrP.

Theorem C18_trace_canonical : forall l, canon_map l = l <-> ksorted l.
Proof. exact (fun l => conj (canon_fix_sorted l) (canon_map_fix l)). Qed.

(* RemoveTracingKeys, in whatever order the range loop visits the keys of the map: what is left
   are exactly the entries whose key does not have the prefix *)
Theorem C18_trace_strip_any_order : forall order c,
  (forall kv, In kv c -> In (fst kv) order) -> strip_in order c = filter app_key c.
Proof. exact strip_any_order. Qed.

(* InjectOutboundSpan leaves the application's own entries as they are, whatever the tracer injects *)
Theorem C18_trace_inject_keeps_app : forall has_span sets m, ksorted m ->
  filter app_key (inject_outbound has_span sets m) = filter app_key m.
Proof. exact inject_outbound_app. Qed.

(* ... and the order in which its merge loop ranges over the caller's map does not matter *)
Theorem C18_trace_inject_any_order : forall order has_span sets m, ksorted m -> Permutation.Permutation order m ->
  inject_outbound_in order has_span sets m = inject_outbound has_span sets m.
Proof. exact inject_outbound_any_order. Qed.

(* the request path: the map the handler's context is built from = the caller's map without the
   entries whose key has the prefix -- for every tracer on the caller's side (has_span, sets) and
   independently of the callee's tracer (the result of tracer.Extract and the branch of
   ExtractInboundSpan do not occur: C18_trace_generated shows that the code has no such dependency) *)
Theorem C18_trace_extract_inject : forall has_span sets nonnil m, ksorted m ->
  (nonnil = false -> inject_outbound has_span sets m = []) ->
  extract_inbound nonnil (inject_outbound has_span sets m) = filter app_key m.
Proof. exact extract_inject. Qed.

(* application headers without the prefix reach the handler EXACTLY ... *)
Theorem C18_trace_exact : forall has_span sets nonnil m, ksorted m -> no_reserved m ->
  (nonnil = false -> inject_outbound has_span sets m = []) ->
  extract_inbound nonnil (inject_outbound has_span sets m) = m.
Proof. exact extract_inject_exact. Qed.

(* ... and the clause "exactly" is REFUTED for application keys that themselves start with the
   prefix (known finding c18:reserved-tracing-prefix): they never reach the handler, with or
   without tracers.  The prefix is a reserved name space of the header map. *)
Theorem C18_trace_reserved_refuted :
  exists m, ksorted m /\ kvs16_ok m /\ extract_inbound true (inject_outbound true [] m) <> m.
Proof. exact extract_inject_reserved_refuted. Qed.

(* the calls of the header-slot model (the C18_ctx theorems) with the tracing layer in the request path:
   under ANY tracer configuration a call does to the context and shows to the handler what the
   model without tracers does (the size limits now count the injected entries too) *)
Theorem C18_trace_call_transparent : forall t nonnil c kind outcome resp,
  hmap_ok (s_req c) -> no_reserved (s_req c) ->
  kvs16_ok (inject_outbound (t_span t) (t_sets t) (s_req c)) ->
  (nonnil = false -> inject_outbound (t_span t) (t_sets t) (s_req c) = []) ->
  do_call_tr t nonnil c kind outcome resp = do_call c kind outcome resp.
Proof. exact do_call_tr_transparent. Qed.

(* the harness entry point `tracehdr` computes "the caller's map without the keys that have the
   prefix": an implementation that disagrees with it on a generated case violates that *)
Theorem C18_trace_run_is_spec : forall c kind hs sets m r1 r2 r3 r4,
  take1 c = (kind, r1) -> take1 r1 = (hs, r2) ->
  take_list take_kv r2 = (sets, r3) -> take_list take_kv r3 = (m, r4) ->
  ksorted m -> kvs16_ok (inject_outbound (bz hs) sets m) ->
  run_tracehdr c = put_list put_kv (filter app_key m).
Proof. exact run_tracehdr_spec. Qed.

(* the key cache of tracing_keys.go returns the mapper's value (cache = m.mapping under the read
   lock, cache' under the write lock), and the decoder's slice expression is in range on every key
   that passes the guard of ForeachKey *)
Theorem C18_trace_key_cache : forall mapper cache cache' key,
  cache_sound mapper cache -> cache_sound mapper cache' ->
  snd (map_and_cache mapper cache cache' key) = mapper key /\
  cache_sound mapper (fst (map_and_cache mapper cache cache' key)).
Proof. exact map_and_cache_spec. Qed.
Theorem C18_trace_decode_in_range : forall k, reserved k = true ->
  exists r, k = encode_key r /\ decode_key k = Some r.
Proof. exact decode_reserved. Qed.

(* REGENERATED from the source on every run (go2v/tracetargets.go, Gen/GenTraceHdr.v) and proved
   equal to the model: the two key mappers, both halves of mapAndCache, carrier.Set, one iteration
   of the loops of RemoveTracingKeys / ForeachKey / InjectOutboundSpan and the statements around
   the latter, the WHOLE of ExtractInboundSpan -- for every value of has_span / nonnil /
   extract_ok and every function `strip'` in the place of carrier.RemoveTracingKeys() the result
   is `strip' h` whenever the map is not nil: the call stands on every path -- and the four call
   sites (thrift writeArgs / json makeCall write inject(headers); thrift server.handle / json
   handler.Handle build the handler's context from extract(decoded map)). *)
Theorem C18_trace_generated :
  (forall k, traceEncodeKey k = encode_key k) /\
  (forall k, traceDecodeKey k = decode_key k) /\
  (forall mapper cache cache' key,
     match mapAndCacheFast cache key with
     | Some v => (cache, v)
     | None => mapAndCacheSlow mapper cache' key
     end = map_and_cache mapper cache cache' key) /\
  (forall c k v, carrierSet c k v = carrier_set c k v) /\
  (forall c key, removeKeyStep c key = strip_step c key) /\
  (forall k, foreachKeyVisits k = foreach_visits k) /\
  (forall order has_span sets headers,
     match injectHead has_span sets headers with
     | inl r => r
     | inr nh => injectTail headers (fold_left (fun nh kv => injectMergeStep nh (fst kv) (snd kv)) order nh)
     end = inject_outbound_in order has_span sets headers) /\
  (forall (strip' : kvs -> kvs) has_span nonnil extract_ok h,
     extractInboundHeaders strip' has_span nonnil extract_ok h = if nonnil then strip' h else h) /\
  (forall has_span nonnil extract_ok h,
     extractInboundHeaders strip has_span nonnil extract_ok h = extract_inbound nonnil h) /\
  (forall (inj : kvs -> kvs) h, thriftWrittenHeaders inj h = inj h) /\
  (forall (inj : kvs -> kvs) is_map h, jsonWrittenHeaders inj is_map h = if is_map then inj h else h) /\
  (forall (ex : kvs -> kvs) h, thriftHandlerHeaders ex h = ex h) /\
  (forall (ex : kvs -> kvs) h, jsonHandlerHeaders ex h = ex h).
Proof. exact tracehdr_generated. Qed.

Print Assumptions C18_trace_extract_inject.
Print Assumptions C18_trace_exact.
Print Assumptions C18_trace_reserved_refuted.
Print Assumptions C18_trace_call_transparent.
Print Assumptions C18_trace_run_is_spec.
Print Assumptions C18_trace_generated.

(* non-vacuity: the seed's scenario -- the caller's tracer injects two ids and a baggage item, the
   application attached {"hdr": "value", "other": ""} -- the wire map has five entries, the handler
   sees the two; and an application key with the prefix is dropped *)
Example C18_example_trace :
  let m := [([104; 100; 114], [118; 97; 108; 117; 101]); ([111; 116; 104; 101; 114], [])] in
  let sets := [([97; 45; 116], [49]); ([97; 45; 115], [50]); ([98], [51])] in
  ksorted m /\ no_reserved m /\
  zlen (inject_outbound true sets m) = 5 /\
  extract_inbound true (inject_outbound true sets m) = m /\
  seen_thrift (mkT true sets false false) m = Some m /\
  seen_thrift (mkT true sets false false) ((c_tracingKeyPrefix ++ [120], [49]) :: m) = Some m.
Proof. vm_compute. repeat split; reflexivity. Qed.

(* ======================================================================================
   The arg2 iterator OFFERED TO RELAY HOSTS: the relay's lazy frame parsers (relay_messages.go).
   A relay parses every call req / call res frame lazily (newLazyCallReq / newLazyCallRes) and
   hands the RelayHost a relay.CallFrame whose Arg2Iterator() / arg2 offsets / Arg2() refer to
   the frame -- a POOLED frame: behind the sized payload the payload array holds whatever an
   earlier frame left there.  Model/RelayLazy.v lazy_callreq (the parser on f.SizedPayload()),
   Model/C18LazyFrame.v (Arg2Iterator / arg2() slice the ARRAY with the parser's 16-bit offsets;
   arg3() slices the sized payload; newLazyCallRes); go_slice = Go's slice expression with its
   panic as None, A2Panic = Arg2Iterator panics.
   Statement: an ACCEPTED frame is one in which every read succeeded, so all offsets lie inside
   the sized payload; hence the iterator cannot panic, cannot show a byte that is not in the
   frame, and yields exactly the pairs present in the arg2 region of the sized payload.
   ====================================================================================== *)
From Verif Require Import Model.RelayLazy Model.C18LazyFrame Proofs.C18LazyP
  Model.C18GoLib Gen.GenMessages Gen.GenC18Lazy Proofs.C18LazyGenP.

(* all offsets of an accepted call req lie inside the sized payload, in order *)
Theorem C18_lazy_offsets : forall p lz, bytes_ok p = true -> zlen p <= 65535 -> lazy_callreq p = (0, lz) ->
  31 <= lz_ctoff lz /\ lz_ctoff lz + 5 <= lz_a2start lz /\
  lz_a2start lz <= lz_a2end lz <= zlen p /\
  (lz_a2frag lz = true -> lz_a2end lz = zlen p /\ lz_a3start lz = 0) /\
  (lz_a2frag lz = false -> lz_a3start lz = lz_a2end lz + 2 /\ lz_a3start lz <= zlen p).
Proof. exact c18_lazy_offsets. Qed.

(* arr = the frame's payload array, n = Header.PayloadSize(): for an accepted frame arg2() and
   arg3() do not panic and ARE the slices of the sized payload; Arg2Iterator does not panic *)
Theorem C18_lazy_arg2_sized : forall arr n lz, bytes_ok arr = true -> 0 <= n <= zlen arr -> n <= 65535 ->
  lazy_callreq (firstn (Z.to_nat n) arr) = (0, lz) ->
  lazy_arg2_arr arr lz = Some (lz_arg2 (firstn (Z.to_nat n) arr) lz) /\
  lazy_arg3_sized (firstn (Z.to_nat n) arr) lz = Some (lz_arg3 (firstn (Z.to_nat n) arr) lz) /\
  lazy_arg2_iter arr lz <> A2Panic.
Proof. exact c18_lazy_arg2_sized. Qed.

(* two frames with the same sized payload offer the same, whatever lies behind it in the arrays *)
Theorem C18_lazy_stale_independent : forall arr arr' n lz, bytes_ok arr = true -> bytes_ok arr' = true ->
  0 <= n <= zlen arr -> 0 <= n <= zlen arr' -> n <= 65535 ->
  firstn (Z.to_nat n) arr = firstn (Z.to_nat n) arr' ->
  lazy_callreq (firstn (Z.to_nat n) arr) = (0, lz) ->
  lazy_arg2_iter arr lz = lazy_arg2_iter arr' lz /\ lazy_arg2_arr arr lz = lazy_arg2_arr arr' lz.
Proof. exact c18_lazy_stale_independent. Qed.

(* the pairs the relay host's iterator yields are literally inside the arg2 region of the sized
   payload, in order; at most the announced count, exactly the count when it ends with io.EOF *)
Theorem C18_lazy_iter_sound : forall arr n lz ps fin, bytes_ok arr = true -> 0 <= n <= zlen arr -> n <= 65535 ->
  lazy_callreq (firstn (Z.to_nat n) arr) = (0, lz) ->
  lazy_arg2_iter arr lz = A2Pairs ps fin ->
  let a2 := lz_arg2 (firstn (Z.to_nat n) arr) lz in
  (ps = [] /\ (length a2 < 2)%nat) \/
  exists count rest, 0 <= count <= 65535 /\ a2 = be 2 count ++ flat_map s_pair ps ++ rest /\
    zlen ps <= count /\ (fin = true -> zlen ps = count).
Proof. exact c18_lazy_iter_sound. Qed.

(* call res: the arg2 a relay host gets is a piece of the sized payload (and its tail when fragmented) *)
Theorem C18_lazyres_arg2 : forall fl p lr, lazy_callres fl p = (0, lr) ->
  exists off, 0 <= off /\ off + zlen (lr_arg2 lr) <= zlen p /\
    lr_arg2 lr = slice p off (off + zlen (lr_arg2 lr)) /\
    (lr_a2frag lr = true -> off + zlen (lr_arg2 lr) = zlen p).
Proof. exact c18_lazyres_arg2. Qed.

(* REGENERATED from the source on every run (go2v/c18lazy.go -> Gen/GenC18Lazy.v: the WHOLE of
   newLazyCallReq and newLazyCallRes with their header loops, Frame.SizedPayload,
   FrameHeader.PayloadSize, ChecksumType.ChecksumSize, hasMoreFragments, lazyCallReq.
   HasMoreFragments / arg2 / arg3 / Arg2Iterator / Arg2StartOffset / Arg2EndOffset) and proved
   equal to the models: for EVERY frame f (payload array not empty, any header size) the generated
   parser does not panic, accepts (error = nil) exactly when the model does -- i.e. exactly when
   every read of the typed.ReadBuffer succeeded, the rbuf.Err() test standing AFTER the last read
   on every path to `return cr, nil` -- and then holds the model's offsets / fields.  An edit
   that returns before the test, drops it, reorders it with a read, or computes an offset
   otherwise breaks this theorem. *)
Theorem C18_lazy_generated :
  (forall f sp, bytes_ok (bs_list (Frame_Payload f)) = true -> 1 <= bs_len (Frame_Payload f) ->
     Frame_SizedPayload f = Some sp ->
     exists cr e, newLazyCallReq f = Some (cr, e) /\
       (e =? 0) = (fst (lazy_callreq (bs_list sp)) =? 0) /\
       (e = 0 -> c18_abs_lazy cr = snd (lazy_callreq (bs_list sp)) /\ lazyCallReq_Frame cr = f)) /\
  (forall f sp, bytes_ok (bs_list (Frame_Payload f)) = true -> Frame_SizedPayload f = Some sp ->
     let fl := nth 0 (bs_list (Frame_Payload f)) 0 in
     exists cr e, newLazyCallRes f = Some (cr, e) /\
       (e =? 0) = (fst (lazy_callres fl (bs_list sp)) =? 0) /\
       (e = 0 -> c18_abs_lazyres cr = snd (lazy_callres fl (bs_list sp)) /\ lazyCallRes_Frame cr = f)) /\
  (forall f, 1 <= bs_len (Frame_Payload f) ->
     Gen.GenC18Lazy.hasMoreFragments f = Some (c18_has_more (Frame_Payload f)) /\
     forall cr, lazyCallReq_Frame cr = f -> lazyCallReq_HasMoreFragments cr = Some (c18_has_more (Frame_Payload f))).
Proof. exact (conj c18_newLazyCallReq_agrees (conj c18_newLazyCallRes_agrees c18_has_more_tie)). Qed.

(* ... hence, about the GENERATED accessors themselves: on a frame the generated parser accepted,
   the generated Arg2Iterator does not panic (None), the generated arg2() / arg3() return the
   slices of the SIZED payload; the generated call res parser's arg2 is a piece of the sized payload *)
Theorem C18_lazy_generated_safe : forall f sp cr,
  bytes_ok (bs_list (Frame_Payload f)) = true -> 1 <= bs_len (Frame_Payload f) ->
  Frame_SizedPayload f = Some sp -> newLazyCallReq f = Some (cr, 0) ->
  exists lz, lazy_callreq (bs_list sp) = (0, lz) /\ c18_abs_lazy cr = lz /\
    lazyCallReq_Arg2Iterator cr <> None /\
    option_map bs_list (lazyCallReq_arg2 cr) = Some (lz_arg2 (bs_list sp) lz) /\
    option_map bs_list (lazyCallReq_arg3 cr) = Some (lz_arg3 (bs_list sp) lz).
Proof. exact c18_gen_lazyreq_safe. Qed.
Theorem C18_lazyres_generated_safe : forall f sp cr,
  bytes_ok (bs_list (Frame_Payload f)) = true -> Frame_SizedPayload f = Some sp ->
  newLazyCallRes f = Some (cr, 0) ->
  exists off, 0 <= off /\ off + bs_len (lazyCallRes_arg2Payload cr) <= bs_len sp /\
    bs_list (lazyCallRes_arg2Payload cr) = slice (bs_list sp) off (off + bs_len (lazyCallRes_arg2Payload cr)) /\
    (lazyCallRes_arg2IsFragmented cr = true -> off + bs_len (lazyCallRes_arg2Payload cr) = bs_len sp).
Proof. exact c18_gen_lazyres_safe. Qed.

Print Assumptions C18_lazy_offsets.
Print Assumptions C18_lazy_iter_sound.
Print Assumptions C18_lazy_generated.
Print Assumptions C18_lazy_generated_safe.
Print Assumptions C18_lazyres_generated_safe.

(* non-vacuity.  The seed's frame: more-fragments flag, as=thrift, the payload ends right after an
   arg2 length of 0xFFFF: rejected (typed.ErrEOF), by the model and by the GENERATED parser; the
   same header with a complete arg2 (one pair k -> v) and the flag: accepted, arg2 fragmented,
   offsets inside, the iterator yields the pair although the array goes on with another pair *)
Definition c18_ex_head (flags : Z) : list Z :=
  [flags; 0; 0; 3; 232] ++ repeat 0 25 ++ [1; 115] ++ [1; 2; 97; 115; 6; 116; 104; 114; 105; 102; 116] ++ [0] ++ [0; 1; 109].
Definition c18_ex_stale : list Z := [0; 1; 0; 1; 88; 0; 1; 89; 7; 7].
Example C18_example_lazy_truncated :
  fst (lazy_callreq (c18_ex_head 1 ++ [255; 255])) = 11 /\
  fst (lazy_callreq (c18_ex_head 1 ++ [0; 24])) = 11 /\
  (let f := mk_Frame (mk_FrameHeader (16 + 49) 3 0 7 []) (Some (c18_ex_head 1 ++ [255; 255] ++ c18_ex_stale)) in
   option_map snd (newLazyCallReq f)) = Some e_typed_ErrEOF.
Proof. vm_compute. repeat split; reflexivity. Qed.
Example C18_example_lazy_accepted :
  let p := c18_ex_head 1 ++ [0; 8] ++ [0; 1; 0; 1; 107; 0; 1; 118] in
  exists lz, lazy_callreq p = (0, lz) /\ lz_a2frag lz = true /\ lz_a2start lz = 49 /\ lz_a2end lz = 57 /\ zlen p = 57 /\
    lazy_arg2_iter (p ++ c18_ex_stale) lz = A2Pairs [([107], [118])] true.
Proof. eexists. vm_compute. repeat split; reflexivity. Qed.
