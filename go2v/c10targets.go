package main

// C10 -- "a second responder for the same request id": the dispatch of an inbound call to ONE
// handler (inbound.go dispatchInbound, handlers.go channelHandler / userHandlerWithSkip /
// handlerMap) and the relay's decision between answering a call itself and relaying it
// (relay.go handleLocalCallReq, first statement of handleCallReq; the admission part of
// handleCallReq).  These functions have no results: every statement that hands the call to a
// responder (a handler invocation, an error frame, the relaying machinery) is a stmt-hint that
// appends its marker to the trace variable `tr`; a `return` without results yields the trace
// (Target.NakedRet).  An edit that drops a `return`, swaps a result constant or adds a second
// invocation changes the generated trace function, and Proofs/DispatchP.v (trace = hand model,
// exactly one responder on every path) stops compiling.
//
// markers: 1 internal handler   2 root handler c.handler   3 localHandler (channelHandler)
//
//	4 userHandler (ChannelOptions.Handler)   5 sub-channel handler   6 error frame "no handler"
//	7 the registered method handler   8 error frame "fragmented call to a local service"
//	9 handleFrameNoRelay (the relay channel's own dispatch)   10 control goes on to relaying
//	11.. see c10RelaySHints
func init() {
	targets = append(targets, []Target{
		// channel.go NewChannel: which root handler the options select (0 channelHandler,
		// 1 opts.Handler, 2 userHandlerWithSkip)
		{Func: "NewChannel", Out: "chanRootKind", File: "GenDispatch", Soft: true,
			Params: "(has_skip : bool) (has_handler : bool)", Ret: "Z",
			Stmt: "switch {", AssignRet: "ch.handler", Rest: "(-1)",
			Hints: map[string]string{
				"len(opts.SkipHandlerMethods) > 0": "has_skip",
				"opts.Handler != nil":              "has_handler",
				"opts.Handler":                     "1",
				"channelHandler{ch}":               "0",
				"userHandlerWithSkip{\n\tlocalHandler:\t\tchannelHandler{ch},\n\tignoreUserHandler:\tsm,\n\tuserHandler:\t\topts.Handler,\n}": "2",
			},
			SHints: map[string]string{
				"sm, err := toServiceMethodSet(opts.SkipHandlerMethods)": "",
				"if err != nil {...": "",
			}},
		// inbound.go dispatchInbound: the statements after the expiry goroutine is spawned
		{Func: "Connection.dispatchInbound", Out: "dispatchTail", File: "GenDispatch", Soft: true,
			Params: "(is_tchannel : bool) (has_internal : bool) (tr : list Z)", Ret: "list Z",
			Stmt: "go func() {", After: true, Rest: "tr", NakedRetW: "tr",
			Hints: map[string]string{
				"call.ServiceName() == \"tchannel\"":     "is_tchannel",
				"c.internalHandlers.find(call.Method())": "has_internal",
				"h != nil":                               "h",
			},
			SHints: map[string]string{
				"h.Handle(call.mex.ctx, call)":         "let tr := tr ++ [1] in",
				"c.handler.Handle(call.mex.ctx, call)": "let tr := tr ++ [2] in",
			}},
		// handlers.go userHandlerWithSkip.Handle (ChannelOptions.Handler + SkipHandlerMethods)
		{Func: "userHandlerWithSkip.Handle", Out: "skipDispatch", File: "GenDispatch", Soft: true,
			Params: "(skipped : bool) (tr : list Z)", Ret: "list Z", NakedRetW: "tr",
			Hints: map[string]string{"u.ignoreUserHandler[call.MethodString()]": "(tt, skipped)"},
			SHints: map[string]string{
				"u.localHandler.Handle(ctx, call)": "let tr := tr ++ [3] in",
				"u.userHandler.Handle(ctx, call)":  "let tr := tr ++ [4] in",
			}},
		// handlers.go channelHandler.Handle
		{Func: "channelHandler.Handle", Out: "channelDispatch", File: "GenDispatch", Soft: true,
			Params: "(tr : list Z)", Ret: "list Z", NakedRetW: "tr",
			SHints: map[string]string{
				"c.ch.GetSubChannel(call.ServiceName()).handler.Handle(ctx, call)": "let tr := tr ++ [5] in",
			}},
		// handlers.go handlerMap.Handle: registered = hmap.find(method) != nil
		{Func: "handlerMap.Handle", Out: "handlerMapDispatch", File: "GenDispatch", Soft: true,
			Params: "(registered : bool) (tr : list Z)", Ret: "list Z", NakedRetW: "tr",
			Hints: map[string]string{"h == nil": "(negb registered)"},
			SHints: map[string]string{
				"c := call.conn":                       "",
				"h := hmap.find(call.Method())":        "",
				"c.log.WithFields(...":                 "",
				"call.Response().SendSystemError(...":  "let tr := tr ++ [6] in",
				"if c.log.Enabled(LogLevelDebug) {...": "",
				"h.Handle(ctx, call)":                  "let tr := tr ++ [7] in",
			}},
		// relay.go handleLocalCallReq: the result ("handled": its only caller returns at once when
		// true and goes on to relay the call when false) ...
		{Func: "Relayer.handleLocalCallReq", Out: "relayLocalHandled", File: "GenDispatch", Soft: true,
			Params: "(is_local : bool) (fragmented : bool)", Ret: "bool",
			Hints: map[string]string{
				"r.localHandler[string(cr.Service())]": "(tt, is_local)",
				"cr.HasMoreFragments()":                "fragmented",
			},
			SHints: map[string]string{
				"f := cr.Frame":           "",
				"r.logger.WithFields(...": "",
				"r.conn.SendSystemError(f.Header.ID, cr.Span(), errRelayMethodFragmented)": "",
				"if release := r.conn.handleFrameNoRelay(f); release {...":                 "",
			}},
		// ... and its responders, per branch
		{Func: "Relayer.handleLocalCallReq", Out: "relayLocalTrace", File: "GenDispatch", Soft: true,
			Params: "(is_local : bool) (fragmented : bool) (tr : list Z)", Ret: "list Z",
			Hints: map[string]string{
				"r.localHandler[string(cr.Service())]": "(tt, is_local)",
				"cr.HasMoreFragments()":                "fragmented",
				"_relayNoRelease":                      "tr",
				"_relayShouldRelease":                  "tr",
			},
			SHints: map[string]string{
				"f := cr.Frame":           "",
				"r.logger.WithFields(...": "",
				"r.conn.SendSystemError(f.Header.ID, cr.Span(), errRelayMethodFragmented)": "let tr := tr ++ [8] in",
				"if release := r.conn.handleFrameNoRelay(f); release {...":                 "let tr := tr ++ [9] in",
			}},
		// relay.go handleCallReq, first statement: a call handled locally is not relayed
		{Func: "Relayer.handleCallReq", Out: "relayCallReqFirst", File: "GenDispatch", Soft: true,
			Params: "(handled0 : bool) (tr : list Z)", Ret: "list Z",
			Stmt: "if handled := r.handleLocalCallReq(f); handled {", Rest: "(tr ++ [10])",
			Hints: map[string]string{"r.handleLocalCallReq(f)": "handled0", "_relayNoRelease": "tr"}},
		// relay.go handleCallReq, the statements after the first one (the admission of a call to be
		// relayed): which of them hand the call to a responder.  Parameters: what the callees
		// returned.  start_err: relayHost.Start failed; drop: with a RateLimitDropError;
		// can_handle: this connection may take a new call; (dest_ok, dest_err, dest_tr) =
		// getDestination's (ok, err != nil) and the error frames it sent itself (relayGetDestTrace
		// below; its results are tied for C03 in GenRelayAdmit); remote_can: the selected
		// connection may take a new call; appends: the frame carries arg2 appends; sent: the destination accepted the frame.
		{Func: "Relayer.handleCallReq", Out: "relayCallReqAdmit", File: "GenDispatch", Soft: true,
			Params: "(start_err drop is_protocol can_handle dest_ok dest_err remote_can appends sent : bool) (dest_tr : list Z) (tr : list Z)", Ret: "list Z",
			Stmt: "if handled := r.handleLocalCallReq(f); handled {", After: true, Rest: "",
			Hints: c10RelayHints, SHints: c10RelaySHints},
		// relay.go getDestination: the error frames it sends itself, per branch (parameters as for
		// relayGetDestOk / relayGetDestErr of GenRelayAdmit)
		{Func: "Relayer.getDestination", Out: "relayGetDestTrace", File: "GenDispatch", Soft: true, RetIdx: 2,
			Params: "(found : bool) (tomb : bool) (dest_ok : bool) (conn_ok : bool) (tr : list Z)", Ret: "list Z",
			Hints: map[string]string{
				"r.outbound.Get(f.Header.ID, false)":             "(tomb, false, found)",
				"err != nil":                                     "conn_err",
				"errors.New(\"callReq with already active ID\")": "tr",
				"errBadRelayHost":                                "tr",
				"nil":                                            "tr",
			},
			SHints: map[string]string{
				"r.logger.WithFields(...":                                                                   "",
				"call.Failed(ErrCodeProtocol.relayMetricsKey())":                                            "",
				"peer, ok := call.Destination()":                                                            "let ok := dest_ok in",
				"call.Failed(\"relay-bad-relay-host\")":                                                     "",
				"r.conn.SendSystemError(f.Header.ID, f.Span(), errBadRelayHost)":                            "let tr := tr ++ [13] in",
				"remoteConn, err := peer.getConnectionRelay(f.TTL(), r.maxConnTimeout)":                     "let conn_err := negb conn_ok in",
				"call.Failed(\"relay-connection-failed\")":                                                  "",
				"r.conn.SendSystemError(f.Header.ID, f.Span(), NewWrappedSystemError(ErrCodeNetwork, err))": "let tr := tr ++ [14] in",
			}},
	}...)
}

// the results are replaced by the trace; the error value is followed as the boolean err_set
var c10RelayHints = map[string]string{
	"_relayNoRelease":        "tr",
	"_relayShouldRelease":    "tr",
	"err != nil":             "err_set",
	"err == nil":             "(negb err_set)",
	"!canHandle":             "(negb canHandle)",
	"!sent":                  "(negb sent)",
	"len(f.arg2Appends) > 0": "appends",
	"GetSystemErrorCode(err) == ErrCodeProtocol": "is_protocol",
	"r.canHandleNewCall()":                       "(can_handle, tt)",
	"remoteConn.relay.canHandleNewCall()":        "(remote_can, tt)",
}

var c10RelaySHints = map[string]string{
	"call, err := r.relayHost.Start(f, r.relayConn)": "let err_set := start_err in",
	// inside `if err != nil`: the silently dropped call gets no frame at all
	"if _, silentlyDrop := err.(relay.RateLimitDropError); silentlyDrop {...": "if drop then tr else",
	"if _, ok := err.(SystemError); !ok {...":                                 "",
	"if call != nil {...":                                "",
	"r.conn.SendSystemError(f.Header.ID, f.Span(), err)": "let tr := tr ++ [11] in",
	// the connection is not active / the selected connection is not active: declined
	"call.Failed(\"relay-client-conn-inactive\")":                                                "",
	"err := errConnNotActive{\"incoming\", state}":                                               "",
	"err = errConnNotActive{\"selected remote\", state}":                                         "let err_set := true in",
	"call.Failed(\"relay-remote-inactive\")":                                                     "",
	"r.conn.SendSystemError(f.Header.ID, f.Span(), NewWrappedSystemError(ErrCodeDeclined, err))": "let tr := tr ++ [12] in",
	// getDestination (sends its own error frame in two of its refusing branches)
	"remoteConn, ok, err := r.getDestination(f, call)": "let ok := dest_ok in let err_set := dest_err in let tr := tr ++ dest_tr in",
	"r.decrementPending()":                             "",
	"call.End()":                                       "",
	"origID := f.Header.ID":                            "",
	"destinationID := remoteConn.NextMessageID()":      "",
	"ttl := f.TTL()":                                   "",
	"if ttl > r.maxTimeout {...":                       "",
	"span := f.Span()":                                 "",
	"var mutatedChecksum Checksum":                     "",
	"if len(f.arg2Appends) > 0 {\n\tmutatedChecksum = f.checksumType.New()\n}": "",
	// from here on the relay items answer for the call (Model/RelayItems.v): one responder
	"remoteConn.relay.addRelayItem(...":                                          "",
	"relayToDest := r.addRelayItem(...":                                          "let tr := tr ++ [15] in",
	"f.Header.ID = destinationID":                                                "",
	"if err := r.fragmentingSend(call, f, relayToDest, origID); err != nil {...": "",
	"call.SentBytes(f.Frame.Header.FrameSize())":                                 "",
	"sent, failure := relayToDest.destination.Receive(f.Frame, requestFrame)":    "",
	"r.failRelayItem(r.outbound, origID, failure, errFrameNotSent)":              "",
}
