package main

// relayidsites.go (C08, clauses b and c: "which id a relay error / clean-up path uses"):
// tables of every place in the relay files (relay*.go, non-test) where a MESSAGE ID travels,
// regenerated on every run as Gen/GenRelayIdSites.v.  Rows are in source order (file, position);
// line numbers are not part of a row.
//
// A message id has type uint32.  An id expression is written as its RESOLVED TEXT:
//   X.Header.ID@pre / @post   a read of a frame header id (field ID of FrameHeader); @post when an
//                             assignment to a header id with the same base variable stands before
//                             the point of evaluation in the same function (position order), else @pre;
//                             a base that is a local variable is shown: "{f=cr.Frame}"
//   v=<text>                  a local variable defined once by := (also in a parallel definition):
//                             the resolved text of its defining expression evaluated AT the definition;
//                             "~reassigned<n>" is appended when it is assigned again
//   param:p                   a parameter of the enclosing function
//   field:T.f(text)           a read of another uint32 struct field (item.remapID, rfs.origID, rt.id)
//   fresh:text                text.NextMessageID()
//   call:text / lit:text / const:name / expr:text   anything else
//
//   relay_id_args        every call, in the relay files, of a function / method / func-typed field of
//                        package tchannel that has a uint32 parameter (verifPoint excluded), one row
//                        per such parameter: (function, callee text, parameter name, resolved argument)
//   relay_id_stores      every store into a uint32 struct field in the relay files -- assignments and
//                        keyed composite-literal fields: (function, Type.field, resolved value)
//   relay_frame_args     every call, inside a method of Relayer / relayFragmentSender, of a function DECLARED IN
//                        a relay file (or of a method named Receive) that is passed a *Frame / *lazyCallReq: (function, callee text, argument text with
//                        @pre / @post = has a header id of the argument's base variable been assigned
//                        before the call)
//   relay_fail_sites     every call with the signature of Relayer.failRelayItem (the method itself or a
//                        func-typed field): (function, callee text, items argument, resolved id, reason argument)
//                        the items argument of a local variable is "v=def" followed by ";v = e" per re-assignment
//   relay_syserr_sites   every call of Connection.SendSystemError in the relay files:
//                        (function, receiver text, resolved id)
//   relay_fragsender_lit every composite literal of relayFragmentSender: (function, field, value text)
//   relay_funcval_sites  every use, not in call position, of a method value whose signature has a uint32
//                        parameter (r.timeoutRelayItem handed to the timer pool, r.failRelayItem stored in
//                        the fragment sender): (function, method value text, the enclosing call / key)

import (
	"bytes"
	"fmt"
	"go/ast"
	"go/token"
	"go/types"
	"path/filepath"
	"sort"
	"strings"
)

type ridScan struct {
	t    *translator
	info *types.Info
	fd   *ast.FuncDecl
	// header id writes of the current function: position and base object
	hdrWrites []ridWrite
}

type ridWrite struct {
	pos  token.Pos
	base types.Object
}

func ridIsUint32(ty types.Type) bool {
	if ty == nil {
		return false
	}
	b, ok := ty.Underlying().(*types.Basic)
	return ok && b.Kind() == types.Uint32
}

func ridUnparen(e ast.Expr) ast.Expr {
	for {
		p, ok := e.(*ast.ParenExpr)
		if !ok {
			return e
		}
		e = p.X
	}
}

func (s *ridScan) text(n ast.Node) string {
	return strings.Join(strings.Fields(s.t.src(n)), " ")
}

// baseObj: the variable at the root of a selector / index / star chain
func (s *ridScan) baseObj(e ast.Expr) (types.Object, *ast.Ident) {
	for {
		switch x := ridUnparen(e).(type) {
		case *ast.SelectorExpr:
			e = x.X
		case *ast.StarExpr:
			e = x.X
		case *ast.IndexExpr:
			e = x.X
		case *ast.Ident:
			if o := s.info.Uses[x]; o != nil {
				return o, x
			}
			return s.info.Defs[x], x
		default:
			return nil, nil
		}
	}
}

// isHdrID: e is X.ID with X of type FrameHeader
func (s *ridScan) isHdrID(e ast.Expr) bool {
	sel, ok := ridUnparen(e).(*ast.SelectorExpr)
	if !ok || sel.Sel.Name != "ID" {
		return false
	}
	tv, ok := s.info.Types[sel.X]
	return ok && rsTypeName(tv.Type) == "FrameHeader"
}

func (s *ridScan) collectHdrWrites() {
	s.hdrWrites = nil
	ast.Inspect(s.fd.Body, func(n ast.Node) bool {
		switch x := n.(type) {
		case *ast.AssignStmt:
			for _, l := range x.Lhs {
				if s.isHdrID(l) {
					o, _ := s.baseObj(l)
					s.hdrWrites = append(s.hdrWrites, ridWrite{x.Pos(), o})
				}
			}
		case *ast.IncDecStmt:
			if s.isHdrID(x.X) {
				o, _ := s.baseObj(x.X)
				s.hdrWrites = append(s.hdrWrites, ridWrite{x.Pos(), o})
			}
		}
		return true
	})
}

// rewritten: has a header id with base o been assigned before position at
func (s *ridScan) rewritten(o types.Object, at token.Pos) bool {
	for _, w := range s.hdrWrites {
		if w.pos < at && (w.base == o || w.base == nil || o == nil || s.aliases(w.base, o)) {
			return true
		}
	}
	return false
}

// aliases: one of the two variables is defined from the other (f := cr.Frame)
func (s *ridScan) aliases(a, b types.Object) bool {
	da, _, _ := s.localDef(a)
	db, _, _ := s.localDef(b)
	if da != nil {
		if o, _ := s.baseObj(da); o == b {
			return true
		}
	}
	if db != nil {
		if o, _ := s.baseObj(db); o == a {
			return true
		}
	}
	return false
}

func (s *ridScan) isParam(o types.Object) bool {
	if o == nil || s.fd.Type.Params == nil {
		return false
	}
	in := func(fl *ast.FieldList) bool {
		return fl != nil && o.Pos() >= fl.Pos() && o.Pos() < fl.End()
	}
	return in(s.fd.Type.Params) || in(s.fd.Recv)
}

// localDef: the defining expression of a local variable (nil if none / not a := definition with a
// matching right-hand side), the position of the definition and the re-assignments
func (s *ridScan) localDef(o types.Object) (def ast.Expr, at token.Pos, reassigned []*ast.AssignStmt) {
	if o == nil {
		return nil, 0, nil
	}
	ast.Inspect(s.fd.Body, func(n ast.Node) bool {
		as, ok := n.(*ast.AssignStmt)
		if !ok {
			return true
		}
		for i, l := range as.Lhs {
			id, ok := l.(*ast.Ident)
			if !ok {
				continue
			}
			if as.Tok == token.DEFINE && s.info.Defs[id] == o {
				at = as.Pos()
				if len(as.Lhs) == len(as.Rhs) {
					def = as.Rhs[i]
				}
			} else if s.info.Uses[id] == o {
				reassigned = append(reassigned, as)
			}
		}
		return true
	})
	return
}

// idText: the resolved text of an id expression evaluated at position at
func (s *ridScan) idText(e ast.Expr, at token.Pos, depth int) string {
	e = ridUnparen(e)
	if depth > 6 {
		return "expr:" + s.text(e)
	}
	switch x := e.(type) {
	case *ast.SelectorExpr:
		if s.isHdrID(x) {
			o, id := s.baseObj(x)
			st := "@pre"
			if s.rewritten(o, at) {
				st = "@post"
			}
			txt := s.text(x) + st
			if o != nil && !s.isParam(o) {
				if def, _, _ := s.localDef(o); def != nil && id != nil {
					txt += "{" + id.Name + "=" + s.text(def) + "}"
				}
			}
			return txt
		}
		if sel, ok := s.info.Selections[x]; ok && sel.Kind() == types.FieldVal {
			tn := ""
			if tv, ok := s.info.Types[x.X]; ok {
				tn = rsTypeName(tv.Type)
			}
			return "field:" + tn + "." + x.Sel.Name + "(" + s.text(x) + ")"
		}
		return "expr:" + s.text(x)
	case *ast.CallExpr:
		if sel, ok := x.Fun.(*ast.SelectorExpr); ok && sel.Sel.Name == "NextMessageID" && len(x.Args) == 0 {
			return "fresh:" + s.text(sel.X)
		}
		return "call:" + s.text(x)
	case *ast.BasicLit:
		return "lit:" + x.Value
	case *ast.Ident:
		o := s.info.Uses[x]
		if o == nil {
			return "expr:" + x.Name
		}
		if _, ok := o.(*types.Const); ok {
			return "const:" + x.Name
		}
		if s.isParam(o) {
			return "param:" + x.Name
		}
		def, dat, re := s.localDef(o)
		if def == nil {
			return "var:" + x.Name
		}
		txt := x.Name + "=" + s.idText(def, dat, depth+1)
		if len(re) > 0 {
			txt += fmt.Sprintf("~reassigned%d", len(re))
		}
		return txt
	}
	return "expr:" + s.text(e)
}

// itemsText: the items argument of a fail site
func (s *ridScan) itemsText(e ast.Expr) string {
	e = ridUnparen(e)
	id, ok := e.(*ast.Ident)
	if !ok {
		return s.text(e)
	}
	o := s.info.Uses[id]
	if o == nil || s.isParam(o) {
		if o != nil {
			return "param:" + id.Name
		}
		return id.Name
	}
	def, _, re := s.localDef(o)
	if def == nil {
		return "var:" + id.Name
	}
	txt := id.Name + "=" + s.text(def)
	for _, as := range re {
		txt += ";" + s.text(as)
	}
	return txt
}

func ridRelayFile(fname string) bool {
	return strings.HasPrefix(fname, "relay") && strings.HasSuffix(fname, ".go") &&
		!strings.HasSuffix(fname, "_test.go")
}

func (t *translator) relayIdSites(w *bytes.Buffer) map[string]int {
	info := t.pkg.TypesInfo
	var idArgs, idStores, frameArgs, fails, syserrs, lits, funcvals []rsRow

	// the signature of Relayer.failRelayItem
	var failSig *types.Signature
	if o := t.pkg.Types.Scope().Lookup("Relayer"); o != nil {
		if n, ok := o.Type().(*types.Named); ok {
			for i := 0; i < n.NumMethods(); i++ {
				if m := n.Method(i); m.Name() == "failRelayItem" {
					failSig = m.Type().(*types.Signature)
				}
			}
		}
	}
	if failSig == nil {
		failf("relayidsites: method Relayer.failRelayItem not found")
	}
	sameParams := func(a, b *types.Signature) bool {
		if a.Params().Len() != b.Params().Len() || a.Results().Len() != b.Results().Len() {
			return false
		}
		for i := 0; i < a.Params().Len(); i++ {
			if !types.Identical(a.Params().At(i).Type(), b.Params().At(i).Type()) {
				return false
			}
		}
		return true
	}
	// position -> file name of the declaration of an object
	declFile := func(o types.Object) string {
		if o == nil || !o.Pos().IsValid() {
			return ""
		}
		return filepath.Base(t.fset.Position(o.Pos()).Filename)
	}
	isFrameArg := func(ty types.Type) bool {
		n := rsTypeName(ty)
		_, ptr := ty.(*types.Pointer)
		return ptr && (n == "Frame" || n == "lazyCallReq")
	}

	for _, f := range t.pkg.Syntax {
		fname := filepath.Base(t.fset.Position(f.Pos()).Filename)
		if !ridRelayFile(fname) {
			continue
		}
		for _, d := range f.Decls {
			fd, ok := d.(*ast.FuncDecl)
			if !ok || fd.Body == nil {
				continue
			}
			fn := t.rsFuncName(fd)
			s := &ridScan{t: t, info: info, fd: fd}
			s.collectHdrWrites()
			// frame hand-overs are listed for the methods of the relayer and of its fragment sender
			relayRecv := strings.HasPrefix(fn, "Relayer.") || strings.HasPrefix(fn, "relayFragmentSender.")

			// callee object of a call
			calleeObj := func(c *ast.CallExpr) types.Object {
				switch fx := ridUnparen(c.Fun).(type) {
				case *ast.SelectorExpr:
					return info.Uses[fx.Sel]
				case *ast.Ident:
					return info.Uses[fx]
				}
				return nil
			}
			inCallPos := map[ast.Expr]bool{}
			ast.Inspect(fd.Body, func(n ast.Node) bool {
				if c, ok := n.(*ast.CallExpr); ok {
					inCallPos[ridUnparen(c.Fun)] = true
				}
				return true
			})

			var stack []ast.Node
			ast.Inspect(fd.Body, func(n ast.Node) bool {
				if n == nil {
					stack = stack[:len(stack)-1]
					return true
				}
				stack = append(stack, n)
				switch x := n.(type) {
				case *ast.CallExpr:
					tv, ok := info.Types[x.Fun]
					if !ok || tv.IsType() {
						return true
					}
					sig, ok := tv.Type.Underlying().(*types.Signature)
					if !ok {
						return true
					}
					co := calleeObj(x)
					callee := s.text(x.Fun)
					inPkg := co != nil && co.Pkg() == t.pkg.Types
					name := ""
					if co != nil {
						name = co.Name()
					}
					if inPkg && name != "verifPoint" && !sig.Variadic() {
						for i := 0; i < sig.Params().Len() && i < len(x.Args); i++ {
							p := sig.Params().At(i)
							if ridIsUint32(p.Type()) {
								pn := p.Name()
								if pn == "" {
									pn = fmt.Sprintf("#%d", i)
								}
								idArgs = append(idArgs, rsRow{fname, int(x.Args[i].Pos()), []string{fn, callee, pn, s.idText(x.Args[i], x.Pos(), 0)}})
							}
						}
					}
					// frames handed on
					if inPkg && relayRecv && (ridRelayFile(declFile(co)) || name == "Receive") {
						for _, a := range x.Args {
							atv, ok := info.Types[a]
							if !ok || !isFrameArg(atv.Type) {
								continue
							}
							o, _ := s.baseObj(a)
							st := "@pre"
							if s.rewritten(o, x.Pos()) {
								st = "@post"
							}
							frameArgs = append(frameArgs, rsRow{fname, int(a.Pos()), []string{fn, callee, s.text(a) + st}})
						}
					}
					// fail sites
					if inPkg && sameParams(sig, failSig) && len(x.Args) == 4 {
						fails = append(fails, rsRow{fname, int(x.Pos()), []string{fn, callee, s.itemsText(x.Args[0]), s.idText(x.Args[1], x.Pos(), 0), s.text(x.Args[2])}})
					}
					// SendSystemError
					if sel, ok := ridUnparen(x.Fun).(*ast.SelectorExpr); ok && sel.Sel.Name == "SendSystemError" && len(x.Args) >= 1 {
						if rtv, ok := info.Types[sel.X]; ok && rsTypeName(rtv.Type) == "Connection" {
							syserrs = append(syserrs, rsRow{fname, int(x.Pos()), []string{fn, s.text(sel.X), s.idText(x.Args[0], x.Pos(), 0)}})
						}
					}
				case *ast.AssignStmt:
					for i, l := range x.Lhs {
						sel, ok := ridUnparen(l).(*ast.SelectorExpr)
						if !ok {
							continue
						}
						se, ok := info.Selections[sel]
						if !ok || se.Kind() != types.FieldVal || !ridIsUint32(se.Type()) {
							continue
						}
						tn := ""
						if tv, ok := info.Types[sel.X]; ok {
							tn = rsTypeName(tv.Type)
						}
						val := "?"
						if len(x.Lhs) == len(x.Rhs) {
							val = s.idText(x.Rhs[i], x.Pos(), 0)
							if x.Tok != token.ASSIGN {
								val = x.Tok.String() + " " + val
							}
						}
						idStores = append(idStores, rsRow{fname, int(l.Pos()), []string{fn, tn + "." + sel.Sel.Name, val}})
					}
				case *ast.IncDecStmt:
					if sel, ok := ridUnparen(x.X).(*ast.SelectorExpr); ok {
						if se, ok := info.Selections[sel]; ok && se.Kind() == types.FieldVal && ridIsUint32(se.Type()) {
							tn := ""
							if tv, ok := info.Types[sel.X]; ok {
								tn = rsTypeName(tv.Type)
							}
							idStores = append(idStores, rsRow{fname, int(x.Pos()), []string{fn, tn + "." + sel.Sel.Name, x.Tok.String()}})
						}
					}
				case *ast.CompositeLit:
					tv, ok := info.Types[x]
					if !ok {
						return true
					}
					tn := rsTypeName(tv.Type)
					for i, el := range x.Elts {
						kv, ok := el.(*ast.KeyValueExpr)
						key := fmt.Sprintf("#%d", i)
						var val ast.Expr = el
						if ok {
							key = s.text(kv.Key)
							val = kv.Value
						}
						// the declared type of the field decides (a uint32 put into an interface{} field is not an id store)
						if stt, isStruct := tv.Type.Underlying().(*types.Struct); isStruct {
							var fld *types.Var
							if ok {
								for j := 0; j < stt.NumFields(); j++ {
									if stt.Field(j).Name() == key {
										fld = stt.Field(j)
									}
								}
							} else if i < stt.NumFields() {
								fld = stt.Field(i)
							}
							if fld != nil && ridIsUint32(fld.Type()) {
								idStores = append(idStores, rsRow{fname, int(el.Pos()), []string{fn, tn + "." + fld.Name(), s.idText(val, x.Pos(), 0)}})
							}
						}
						if tn == "relayFragmentSender" {
							lits = append(lits, rsRow{fname, int(el.Pos()), []string{fn, key, s.text(val)}})
						}
					}
				case *ast.SelectorExpr:
					if inCallPos[x] {
						return true
					}
					se, ok := info.Selections[x]
					if !ok || se.Kind() != types.MethodVal {
						return true
					}
					sig, ok := se.Type().(*types.Signature)
					if !ok {
						return true
					}
					has := false
					for i := 0; i < sig.Params().Len(); i++ {
						if ridIsUint32(sig.Params().At(i).Type()) {
							has = true
						}
					}
					if !has {
						return true
					}
					ctx := ""
					for i := len(stack) - 2; i >= 0 && ctx == ""; i-- {
						switch p := stack[i].(type) {
						case *ast.CallExpr:
							ctx = "arg of " + s.text(p.Fun)
						case *ast.KeyValueExpr:
							ctx = "key " + s.text(p.Key)
						case *ast.AssignStmt:
							ctx = "assigned to " + s.text(p.Lhs[0])
						}
					}
					funcvals = append(funcvals, rsRow{fname, int(x.Pos()), []string{fn, s.text(x), ctx}})
				}
				return true
			})
		}
	}

	emit := func(name string, ncol int, rows []rsRow) {
		sort.SliceStable(rows, func(i, j int) bool {
			if rows[i].file != rows[j].file {
				return rows[i].file < rows[j].file
			}
			return rows[i].pos < rows[j].pos
		})
		ty := "list Z"
		for i := 1; i < ncol; i++ {
			ty += " * list Z"
		}
		fmt.Fprintf(w, "Definition %s : list (%s) := [\n", name, ty)
		for i, r := range rows {
			sep := ";"
			if i == len(rows)-1 {
				sep = ""
			}
			cm := r.file + " " + strings.Join(r.cols, " | ")
			cm = strings.ReplaceAll(strings.ReplaceAll(cm, "*)", "* )"), "(*", "( *")
			var ls []string
			for _, c := range r.cols {
				ls = append(ls, strlit(c))
			}
			row := strings.Join(ls, ", ")
			if ncol > 1 {
				row = "(" + row + ")"
			}
			fmt.Fprintf(w, "  (* %d: %s *)\n  %s%s\n", i+1, cm, row, sep)
		}
		fmt.Fprintf(w, "].\n\n")
	}
	emit("relay_id_args", 4, idArgs)
	emit("relay_id_stores", 3, idStores)
	emit("relay_frame_args", 3, frameArgs)
	emit("relay_fail_sites", 5, fails)
	emit("relay_syserr_sites", 3, syserrs)
	emit("relay_fragsender_lit", 3, lits)
	emit("relay_funcval_sites", 3, funcvals)
	return map[string]int{"args": len(idArgs), "stores": len(idStores), "frames": len(frameArgs), "fails": len(fails),
		"syserrs": len(syserrs), "lits": len(lits), "funcvals": len(funcvals)}
}

// relayIdSitesSafe: a failure of the extraction breaks C08 only (the file then lacks the
// definitions Proofs/RelayIdSitesP.v needs), not every property sharing the translator.
func (t *translator) relayIdSitesSafe(w *bytes.Buffer) (res map[string]int) {
	defer func() {
		if r := recover(); r != nil {
			msg := fmt.Sprint(r)
			if f, ok := r.(failure); ok {
				msg = f.msg
			}
			msg = strings.ReplaceAll(strings.ReplaceAll(msg, "*)", "* )"), "(*", "( *")
			fmt.Fprintf(w, "(* relayidsites: EXTRACTION FAILED: %s *)\n", msg)
			res = map[string]int{}
		}
	}()
	return t.relayIdSites(w)
}
