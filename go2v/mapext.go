package main

// Maps as state variables, and lock skeletons (C16: the get-or-create functions of the root
// peer list and of the peer lists).
//
// Target.Maps declares Go map-typed expressions (by source text, e.g. "l.peersByHostPort") as
// Gallina state variables of type gmap (Base/GoMap.v: Z -> option Z, keys and values are names).
// Translated natively on a declared map M (Gallina variable m):
//     M[k]                (single value)     (fst (gmap_get m k))      -- Go's zero value on a miss
//     v, ok := M[k]  /  v, ok = M[k]         let '(v, ok) := gmap_get m k in ...
//     if v, ok := M[k]; cond {               (through the multi-value if init of main.go)
//     M[k] = v                               let m := gmap_set m k v in ...
//     delete(M, k)                           let m := gmap_del m k in ...
// and, for any target:  a, b := f(x)  whose right-hand side is hinted with a Gallina tuple.
// Target.RetFmt wraps every returned value, so that a function over maps returns its final
// maps together with its result.
//
// lockSkeletons: for each function of skelTargets, the sequence (source order) of its lock
// operations, returns and branch structure as a list of small integers (GenLockSkel.v).  The
// interleaving model of Model/PeerGoc.v has one step per lock-protected region; the proofs state
// the skeleton each step structure was read from, so moving a lock operation, a return or a
// statement across a region boundary breaks an obligation.

import (
	"bytes"
	"fmt"
	"go/ast"
	"go/token"
	"go/types"
	"strings"
)

func (c *fnctx) mapVar(e ast.Expr) (string, bool) {
	if c.tg.Maps == nil {
		return "", false
	}
	v, ok := c.tg.Maps[c.t.src(stripParens(e))]
	return v, ok
}

// hintMap: an index expression on a declared map.
func (c *fnctx) hintMap(n ast.Node) (string, bool) {
	ix, ok := n.(*ast.IndexExpr)
	if !ok {
		return "", false
	}
	m, ok := c.mapVar(ix.X)
	if !ok {
		return "", false
	}
	get := "(gmap_get " + m + " " + c.expr(ix.Index) + ")"
	if tv, ok := c.t.pkg.TypesInfo.Types[ix]; ok {
		if _, isTuple := tv.Type.(*types.Tuple); isTuple {
			return get, true // comma-ok form: (value, found)
		}
	}
	return "(fst " + get + ")", true
}

func (c *fnctx) localName(e ast.Expr, s ast.Stmt) string {
	id, ok := e.(*ast.Ident)
	if !ok {
		failf("%s: unsupported left-hand side in %q", c.t.pos(s), c.t.src(s))
	}
	if id.Name == "_" {
		return "_"
	}
	if r, ok := c.tg.Renames[id.Name]; ok {
		return r
	}
	return coqIdent(id.Name)
}

func (c *fnctx) stmtMap(list []ast.Stmt, rest string) (string, bool) {
	s := list[0]
	tail := func() string { return c.stmts(list[1:], rest) }
	switch x := s.(type) {
	case *ast.AssignStmt:
		// a, b := <tuple>  (comma-ok lookup on a declared map, or a call hinted with a tuple)
		if len(x.Lhs) >= 2 && len(x.Rhs) == 1 && (x.Tok == token.DEFINE || x.Tok == token.ASSIGN) {
			h, ok := c.hint(x.Rhs[0])
			if !ok {
				return "", false
			}
			names := []string{}
			for _, l := range x.Lhs {
				names = append(names, c.localName(l, s))
			}
			return "let '(" + strings.Join(names, ", ") + ") := " + h + " in\n  " + tail(), true
		}
		// M[k] = v
		if len(x.Lhs) == 1 && len(x.Rhs) == 1 && x.Tok == token.ASSIGN {
			if ix, ok := stripParens(x.Lhs[0]).(*ast.IndexExpr); ok {
				if m, ok := c.mapVar(ix.X); ok {
					return "let " + m + " := gmap_set " + m + " " + c.expr(ix.Index) + " " + c.expr(x.Rhs[0]) + " in\n  " + tail(), true
				}
			}
		}
	case *ast.ExprStmt:
		// delete(M, k)
		if call, ok := x.X.(*ast.CallExpr); ok && len(call.Args) == 2 {
			if id, ok := call.Fun.(*ast.Ident); ok && id.Name == "delete" {
				if m, ok := c.mapVar(call.Args[0]); ok {
					return "let " + m + " := gmap_del " + m + " " + c.expr(call.Args[1]) + " in\n  " + tail(), true
				}
			}
		}
	}
	return "", false
}

// ---------------------------------------------------------------- lock skeletons

// skelTargets: function -> name of the generated list.
var skelTargets = [][2]string{
	{"RootPeerList.Add", "skel_rootAdd"},
	{"RootPeerList.Get", "skel_rootGet"},
	{"RootPeerList.GetOrAdd", "skel_rootGetOrAdd"},
	{"PeerList.Add", "skel_listAdd"},
	{"PeerList.exists", "skel_listExists"},
	{"PeerList.Remove", "skel_listRemove"},
	{"PeerList.GetOrAdd", "skel_listGetOrAdd"},
	{"RootPeerList.onClosedConnRemoved", "skel_rootCollect"},
}

const skelLegend = `(* Lock skeletons: per function, in source order,
     1 RLock   2 RUnlock   3 Lock   4 Unlock   5 defer Unlock   6 defer RUnlock      (on the receiver's own mutex;
     +100 when the lock belongs to another object)
     7 return   8 if   9 end of the if statement   10 else   11 any other simple statement
     12 loop / switch / select (followed by its body)   13 go statement
   verifPoint(...) schedule points are not listed. *)
`

func (t *translator) lockSkeletons(w *bytes.Buffer) int {
	fmt.Fprint(w, skelLegend)
	n := 0
	for _, st := range skelTargets {
		fd, ok := t.funcs[st[0]]
		if !ok || fd.Body == nil {
			fmt.Fprintf(w, "\n(* NOT GENERATED: %s -- function %s not found *)\n", st[1], st[0])
			fmt.Printf("go2v: NOT GENERATED (lock skeleton) %s: function %s not found\n", st[1], st[0])
			continue
		}
		recv := ""
		if fd.Recv != nil && len(fd.Recv.List) == 1 && len(fd.Recv.List[0].Names) == 1 {
			recv = fd.Recv.List[0].Names[0].Name
		}
		var codes []string
		t.skelStmts(fd.Body.List, recv, &codes)
		p := t.fset.Position(fd.Pos())
		e := t.fset.Position(fd.End())
		fmt.Fprintf(w, "\n(* from %s:%d-%d  func %s *)\nDefinition %s : list Z := [%s].\n",
			baseName(p.Filename), p.Line, e.Line, st[0], st[1], strings.Join(codes, "; "))
		n++
	}
	return n
}

func baseName(p string) string {
	if i := strings.LastIndexByte(p, '/'); i >= 0 {
		return p[i+1:]
	}
	return p
}

func lockCode(name string) int {
	switch name {
	case "RLock":
		return 1
	case "RUnlock":
		return 2
	case "Lock":
		return 3
	case "Unlock":
		return 4
	}
	return 0
}

// lockCall: is call `x.Lock()` / RLock / Unlock / RUnlock; returns the code (+100 when x is not recv).
func (t *translator) lockCall(call *ast.CallExpr, recv string) (int, bool) {
	sel, ok := call.Fun.(*ast.SelectorExpr)
	if !ok || len(call.Args) != 0 {
		return 0, false
	}
	code := lockCode(sel.Sel.Name)
	if code == 0 {
		return 0, false
	}
	if id, ok := sel.X.(*ast.Ident); !ok || id.Name != recv {
		code += 100
	}
	return code, true
}

func (t *translator) skelStmts(list []ast.Stmt, recv string, out *[]string) {
	add := func(c int) { *out = append(*out, fmt.Sprint(c)) }
	for _, s := range list {
		switch x := s.(type) {
		case *ast.ExprStmt:
			if call, ok := x.X.(*ast.CallExpr); ok {
				if id, ok := call.Fun.(*ast.Ident); ok && id.Name == "verifPoint" {
					continue
				}
				if code, ok := t.lockCall(call, recv); ok {
					add(code)
					continue
				}
			}
			add(11)
		case *ast.DeferStmt:
			if code, ok := t.lockCall(x.Call, recv); ok && (code%100 == 4 || code%100 == 2) {
				if code%100 == 4 {
					add(5 + code/100*100)
				} else {
					add(6 + code/100*100)
				}
				continue
			}
			add(11)
		case *ast.ReturnStmt:
			add(7)
		case *ast.BlockStmt:
			t.skelStmts(x.List, recv, out)
		case *ast.IfStmt:
			t.skelIf(x, recv, out)
			add(9)
		case *ast.ForStmt:
			add(12)
			t.skelStmts(x.Body.List, recv, out)
			add(9)
		case *ast.RangeStmt:
			add(12)
			t.skelStmts(x.Body.List, recv, out)
			add(9)
		case *ast.SwitchStmt:
			add(12)
			for _, cc := range x.Body.List {
				t.skelStmts(cc.(*ast.CaseClause).Body, recv, out)
			}
			add(9)
		case *ast.TypeSwitchStmt:
			add(12)
			for _, cc := range x.Body.List {
				t.skelStmts(cc.(*ast.CaseClause).Body, recv, out)
			}
			add(9)
		case *ast.SelectStmt:
			add(12)
			for _, cc := range x.Body.List {
				t.skelStmts(cc.(*ast.CommClause).Body, recv, out)
			}
			add(9)
		case *ast.GoStmt:
			add(13)
		default:
			add(11)
		}
	}
}

func (t *translator) skelIf(x *ast.IfStmt, recv string, out *[]string) {
	*out = append(*out, "8")
	t.skelStmts(x.Body.List, recv, out)
	switch el := x.Else.(type) {
	case *ast.BlockStmt:
		*out = append(*out, "10")
		t.skelStmts(el.List, recv, out)
	case *ast.IfStmt:
		*out = append(*out, "10")
		t.skelIf(el, recv, out)
	}
}
