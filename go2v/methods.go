// Method translator: Go methods/functions that work on byte buffers and small structs
// (typed/buffer.go, the message codecs) => Gallina functions in a state-passing style with
// Go's run-time panics as `None`.  The semantics of every Go construct used is one
// definition of coq/theories/Base/GoSem.v; the file header there describes the value
// representation.  Configuration (which structs, which functions): mtargets.go.
//
// Shape of a translated function   func (r *T) f(p P, q *Q) (R1, R2):
//
//	Definition T_f (r : T) (p : P) (q : Q) : option (R1 * R2 * T * Q)
//
// i.e. the results followed by the new values of the objects the function mutates (pointer
// receiver / pointer or map parameters that are assigned to or passed to a mutating callee;
// objects that are only read are passed by value and not returned).  None = the Go code
// panics (slice / index out of range, BigEndian on a short slice).  Control flow: early
// `return` and `if` are compiled by continuation (the rest of the block is duplicated into
// both branches), assignments become `let`, effectful sub-expressions (calls, slicing,
// indexing) are hoisted in evaluation order into `match ... with None => None | Some x => ...`.
// Anything outside the subset is a translation error naming the construct.
package main

import (
	"bytes"
	"fmt"
	"go/ast"
	"go/constant"
	"go/token"
	"go/types"
	"path/filepath"
	"sort"
	"strings"

	"golang.org/x/tools/go/packages"
)

// ---------------------------------------------------------------- configuration types

// StructRep: a Go struct translated to a Gallina Record (one field per Go field, in order).
type StructRep struct {
	Type string // "typed.ReadBuffer" (package name . type name)
	// Fields: per-field overrides.  "ignore" = not represented (any use is an error);
	// "mem" = the []byte field that IS the backing array of the reference slices;
	// "ref" = a []byte field that aliases the backing array (represented as offset/length).
	Fields map[string]string
	// Only: when non-empty, exactly these fields are represented and every other field of the
	// struct is "ignore" (for large structs of which a translated function reads a few fields).
	Only []string

	name   string
	st     *types.Struct
	fields []fieldRep
}

type fieldRep struct {
	name string
	kind string // "", "mem", "ref"
	ty   gty
}

// MTarget: one function or method to translate.
type MTarget struct {
	Func   string            // "typed.ReadBuffer.ReadBytes" | "http.readVarintString"
	Out    string            // Gallina name (default: Type_Method / function name)
	Hints  map[string]string // Go expression (source text) -> Gallina term (pure)
	SHints map[string]string // Go statement (source text, or prefix + "...") -> Gallina prefix ("" = drop)
	// CallHints: callee (as resolved, "pkg.Type.Method") -> Gallina function with the calling
	// convention of a translated function; the hint also states which objects the callee
	// mutates: "name" or "name!recv,1" (receiver and parameter 1 are mutated and returned).
	CallHints map[string]string
	// MemParam: the function works on reference slices without a struct that owns the backing
	// array (typed.Uint16Ref.Update): the array is an explicit first parameter `mem` and result.
	MemParam bool
	// NilRecZero: a nil POINTER to a represented struct in a value position (`return nil, err`)
	// is the zero record (for constructors that return (*T, error): the value is meaningless
	// when the error is not nil, and callers test the error first).
	NilRecZero bool
}

// MFile: one generated file.
type MFile struct {
	Name    string
	Imports []string // extra Require lines (hand-written files the call hints refer to)
	ErrVars []string // error variables whose codes are defined in this file (in this order => 1, 2, ...)
	Structs []*StructRep
	Targets []*MTarget
}

// ---------------------------------------------------------------- Gallina types

type gty struct {
	kind string // Z bool str bytes ref err rec map unit
	rec  *StructRep
	key  *gty
	val  *gty
}

func (g gty) coq() string {
	switch g.kind {
	case "Z", "err":
		return "Z"
	case "bool":
		return "bool"
	case "str":
		return "(list Z)"
	case "bytes":
		return "bslice"
	case "ref":
		return "rslice"
	case "rec":
		return g.rec.name
	case "map":
		return "(list (" + g.key.coq() + " * " + g.val.coq() + "))"
	case "unit":
		return "unit"
	case "sset":
		return "sset"
	case "list":
		return "(list " + g.val.coq() + ")"
	}
	return "?" + g.kind
}

func (g gty) zero() string {
	switch g.kind {
	case "Z", "err":
		return "0"
	case "bool":
		return "false"
	case "str", "map", "list":
		return "[]"
	case "bytes", "ref", "sset":
		return "None"
	case "rec":
		parts := []string{"mk_" + g.rec.name}
		for _, f := range g.rec.fields {
			parts = append(parts, f.ty.zero())
		}
		return "(" + strings.Join(parts, " ") + ")"
	}
	return "tt"
}

// ---------------------------------------------------------------- generator state

type funcInfo struct {
	t   *translator
	fd  *ast.FuncDecl
	key string
}

type emitted struct {
	out   string
	muts  []string // "recv" or parameter index as string, in result order
	mem   bool
	nres  int
	resTy []gty
}

type mgen struct {
	pkgs     map[string]*translator // by package name
	funcs    map[string]*funcInfo   // "pkg.Type.Method" | "pkg.Func"
	structs  map[string]*StructRep  // "pkg.Type"
	refTypes map[string]bool        // named []byte types that are reference slices
	errCodes map[string]int         // "pkg.Var" -> code
	done     map[string]*emitted    // translated so far
	mutCache map[string]int         // key|param -> 0 unknown(in progress) 1 no 2 yes
}

func pkgTypeKey(n *types.Named) string {
	if n.Obj().Pkg() == nil {
		return n.Obj().Name()
	}
	return n.Obj().Pkg().Name() + "." + n.Obj().Name()
}

func funcKey(fn *types.Func) string {
	sig := fn.Type().(*types.Signature)
	pk := ""
	if fn.Pkg() != nil {
		pk = fn.Pkg().Name()
	}
	if r := sig.Recv(); r != nil {
		rt := r.Type()
		if p, ok := rt.(*types.Pointer); ok {
			rt = p.Elem()
		}
		if n, ok := rt.(*types.Named); ok {
			return pk + "." + n.Obj().Name() + "." + fn.Name()
		}
		return pk + ".?." + fn.Name()
	}
	return pk + "." + fn.Name()
}

func newMgen(pkgs []*packages.Package) *mgen {
	g := &mgen{pkgs: map[string]*translator{}, funcs: map[string]*funcInfo{}, structs: map[string]*StructRep{},
		refTypes: map[string]bool{}, errCodes: map[string]int{}, done: map[string]*emitted{}, mutCache: map[string]int{}}
	for _, p := range pkgs {
		t := newTranslator(p)
		g.pkgs[p.Name] = t
		for _, f := range p.Syntax {
			fname := filepath.Base(p.Fset.Position(f.Pos()).Filename)
			if strings.HasSuffix(fname, "_test.go") || strings.HasPrefix(fname, "zz_verif") {
				continue
			}
			for _, d := range f.Decls {
				fd, ok := d.(*ast.FuncDecl)
				if !ok {
					continue
				}
				if fn, ok := p.TypesInfo.Defs[fd.Name].(*types.Func); ok {
					k := funcKey(fn)
					g.funcs[k] = &funcInfo{t: t, fd: fd, key: k}
				}
			}
		}
	}
	return g
}

// gtype: the Gallina representation of a Go type (fails outside the subset).
func (g *mgen) gtype(tp types.Type, where string) gty {
	switch x := tp.(type) {
	case *types.Pointer:
		e := g.gtype(x.Elem(), where)
		if e.kind != "rec" {
			failf("%s: pointer to %v is outside the subset", where, x.Elem())
		}
		return e
	case *types.Named:
		k := pkgTypeKey(x)
		if k == "error" {
			return gty{kind: "err"}
		}
		if g.refTypes[k] {
			return gty{kind: "ref"}
		}
		if r, ok := g.structs[k]; ok {
			return gty{kind: "rec", rec: r}
		}
		if _, isStruct := x.Underlying().(*types.Struct); isStruct {
			failf("%s: struct type %s has no representation (add a StructRep)", where, k)
		}
		if _, isIface := x.Underlying().(*types.Interface); isIface {
			failf("%s: interface type %s is outside the subset", where, k)
		}
		return g.gtype(x.Underlying(), where)
	case *types.Basic:
		if _, _, ok := intWidth(x); ok {
			return gty{kind: "Z"}
		}
		if x.Info()&types.IsUntyped != 0 && x.Info()&types.IsInteger != 0 {
			return gty{kind: "Z"}
		}
		if isBool(x) {
			return gty{kind: "bool"}
		}
		if isString(x) {
			return gty{kind: "str"}
		}
	case *types.Slice:
		if b, ok := x.Elem().Underlying().(*types.Basic); ok && b.Kind() == types.Uint8 {
			return gty{kind: "bytes"}
		}
		// []*T / []T with T a represented struct: list T (only len and range are translated)
		et := x.Elem()
		if pt, ok := et.(*types.Pointer); ok {
			et = pt.Elem()
		}
		if n, ok := et.(*types.Named); ok {
			if r, ok := g.structs[pkgTypeKey(n)]; ok {
				e := gty{kind: "rec", rec: r}
				return gty{kind: "list", val: &e}
			}
		}
	case *types.Struct:
		if x.NumFields() == 0 {
			return gty{kind: "unit"}
		}
	case *types.Array:
		if b, ok := x.Elem().Underlying().(*types.Basic); ok && b.Kind() == types.Uint8 {
			return gty{kind: "str"}
		}
	case *types.Map:
		if es, ok := x.Elem().Underlying().(*types.Struct); ok && es.NumFields() == 0 {
			// map[string]struct{}: a nilable set of strings (GoSemColl.sset)
			if k := g.gtype(x.Key(), where); k.kind == "str" {
				return gty{kind: "sset"}
			}
			failf("%s: set type %v with a non-string key is outside the subset", where, tp)
		}
		k, v := g.gtype(x.Key(), where), g.gtype(x.Elem(), where)
		return gty{kind: "map", key: &k, val: &v}
	}
	failf("%s: type %v is outside the subset", where, tp)
	return gty{}
}

func (g *mgen) lookupNamed(key string) *types.Named {
	i := strings.LastIndex(key, ".")
	pk, name := key[:i], key[i+1:]
	t, ok := g.pkgs[pk]
	if !ok {
		failf("package %s of %s is not loaded", pk, key)
	}
	obj := t.pkg.Types.Scope().Lookup(name)
	if obj == nil {
		failf("type %s not found", key)
	}
	n, ok := obj.Type().(*types.Named)
	if !ok {
		failf("%s is not a named type", key)
	}
	return n
}

// prepareStruct resolves the fields of a struct representation.
func (g *mgen) prepareStruct(r *StructRep) {
	n := g.lookupNamed(r.Type)
	st, ok := n.Underlying().(*types.Struct)
	if !ok {
		failf("%s is not a struct", r.Type)
	}
	r.name = n.Obj().Name()
	r.st = st
	g.structs[r.Type] = r
	seen := map[string]bool{}
	if len(r.Only) > 0 {
		only := map[string]bool{}
		for _, n := range r.Only {
			only[n] = true
		}
		if r.Fields == nil {
			r.Fields = map[string]string{}
		}
		for i := 0; i < st.NumFields(); i++ {
			if n := st.Field(i).Name(); !only[n] {
				r.Fields[n] = "ignore"
			} else {
				delete(only, n)
			}
		}
		for n := range only {
			failf("%s has no field %s", r.Type, n)
		}
	}
	for i := 0; i < st.NumFields(); i++ {
		f := st.Field(i)
		seen[f.Name()] = true
		kind := r.Fields[f.Name()]
		switch kind {
		case "ignore":
			continue
		case "mem":
			r.fields = append(r.fields, fieldRep{f.Name(), "mem", gty{kind: "bytes"}})
		case "ref":
			r.fields = append(r.fields, fieldRep{f.Name(), "ref", gty{kind: "ref"}})
		case "":
			if f.Embedded() && !r.embedOK(f.Name()) {
				failf("%s: embedded field %s is outside the subset (ignore it)", r.Type, f.Name())
			}
			r.fields = append(r.fields, fieldRep{f.Name(), "", g.gtype(f.Type(), r.Type+"."+f.Name())})
		default:
			failf("%s.%s: unknown field kind %q", r.Type, f.Name(), kind)
		}
	}
	for k := range r.Fields {
		if !seen[k] {
			failf("%s has no field %s", r.Type, k)
		}
	}
}

// embedOK: an embedded field is represented (as an ordinary field named after its type) only
// when the configuration names it in Only; selectors of promoted FIELDS are then written out
// as the field path (mctx.path).  Promoted methods stay outside the subset.
func (r *StructRep) embedOK(name string) bool {
	for _, n := range r.Only {
		if n == name {
			return true
		}
	}
	return false
}

func (r *StructRep) field(name string) *fieldRep {
	for i := range r.fields {
		if r.fields[i].name == name {
			return &r.fields[i]
		}
	}
	return nil
}

func (r *StructRep) memField() *fieldRep {
	for i := range r.fields {
		if r.fields[i].kind == "mem" {
			return &r.fields[i]
		}
	}
	return nil
}

func (g *mgen) emitStruct(r *StructRep, w *bytes.Buffer) {
	fmt.Fprintf(w, "\n(* Go struct %s", r.Type)
	ign := []string{}
	for i := 0; i < r.st.NumFields(); i++ {
		if r.Fields[r.st.Field(i).Name()] == "ignore" {
			ign = append(ign, r.st.Field(i).Name())
		}
	}
	if len(ign) > 0 {
		fmt.Fprintf(w, "; fields not represented (a translated function that touches one is rejected): %s", strings.Join(ign, ", "))
	}
	for _, f := range r.fields {
		if f.kind == "mem" {
			fmt.Fprintf(w, "; %s = the backing array", f.name)
		}
		if f.kind == "ref" {
			fmt.Fprintf(w, "; %s = reference slice into the backing array", f.name)
		}
	}
	fmt.Fprintf(w, " *)\n")
	fs := []string{}
	for _, f := range r.fields {
		fs = append(fs, fmt.Sprintf("%s_%s : %s", r.name, f.name, f.ty.coq()))
	}
	fmt.Fprintf(w, "Record %s := mk_%s { %s }.\n", r.name, r.name, strings.Join(fs, "; "))
	for i, f := range r.fields {
		args := []string{}
		for j, f2 := range r.fields {
			if i == j {
				args = append(args, "v")
			} else {
				args = append(args, fmt.Sprintf("(%s_%s x)", r.name, f2.name))
			}
		}
		fmt.Fprintf(w, "Definition set_%s_%s (v : %s) (x : %s) : %s := mk_%s %s.\n", r.name, f.name, f.ty.coq(), r.name, r.name, r.name, strings.Join(args, " "))
	}
}

// mIdent: Gallina identifier for a Go identifier (Gallina keywords get a trailing underscore)
var coqKeywords = map[string]bool{"in": true, "at": true, "as": true, "end": true, "fun": true, "match": true, "let": true,
	"if": true, "then": true, "else": true, "with": true, "for": true, "return": true, "Type": true, "Set": true, "Prop": true,
	"forall": true, "exists": true, "fix": true, "cofix": true, "where": true, "using": true, "mod": true, "by": true, "is": true,
	"IF": true, "struct": true, "do": true, "cons": true, "nil": true, "Some": true, "None": true, "S": true, "O": true, "tt": true,
	"fst": true, "snd": true, "length": true, "app": true, "map": true, "rev": true, "true": true, "false": true, "mem": true}

func mIdent(s string) string {
	s = coqIdent(s)
	if coqKeywords[s] {
		return s + "_"
	}
	return s
}

// ---------------------------------------------------------------- mutation analysis

// rootIdent: the variable an lvalue / receiver expression is rooted at (x, x.f, x.f[i], *x, &x.f).
func rootIdent(e ast.Expr) *ast.Ident {
	for {
		switch x := e.(type) {
		case *ast.Ident:
			return x
		case *ast.SelectorExpr:
			e = x.X
		case *ast.IndexExpr:
			e = x.X
		case *ast.SliceExpr:
			e = x.X
		case *ast.StarExpr:
			e = x.X
		case *ast.ParenExpr:
			e = x.X
		case *ast.UnaryExpr:
			if x.Op != token.AND {
				return nil
			}
			e = x.X
		default:
			return nil
		}
	}
}

func isRefLike(tp types.Type) bool {
	switch tp.Underlying().(type) {
	case *types.Pointer, *types.Map:
		return true
	}
	return false
}

// paramNames: receiver name ("" if none/unnamed) and parameter names of a declaration.
func paramNames(fd *ast.FuncDecl) (string, []string) {
	recv := ""
	if fd.Recv != nil && len(fd.Recv.List) == 1 && len(fd.Recv.List[0].Names) == 1 {
		recv = fd.Recv.List[0].Names[0].Name
	}
	ps := []string{}
	for _, f := range fd.Type.Params.List {
		if len(f.Names) == 0 {
			ps = append(ps, "_")
		}
		for _, n := range f.Names {
			ps = append(ps, n.Name)
		}
	}
	return recv, ps
}

// mutates: does the function (possibly) change the object its receiver / parameter `which`
// ("recv" or the parameter index) refers to?  Syntactic and conservative: unknown callees
// that receive the object count as mutating.
func (g *mgen) mutates(fi *funcInfo, which string) bool {
	ck := fi.key + "|" + which
	switch g.mutCache[ck] {
	case 1:
		return false
	case 2:
		return true
	}
	if _, seen := g.mutCache[ck]; seen {
		return false // recursion in progress
	}
	g.mutCache[ck] = 0
	recv, ps := paramNames(fi.fd)
	name := recv
	if which != "recv" {
		var idx int
		fmt.Sscanf(which, "%d", &idx)
		name = ps[idx]
	}
	res := false
	if name != "" && name != "_" && fi.fd.Body != nil {
		info := fi.t.pkg.TypesInfo
		var obj types.Object
		// the object of the receiver / parameter
		ast.Inspect(fi.fd, func(n ast.Node) bool {
			if id, ok := n.(*ast.Ident); ok && id.Name == name && obj == nil {
				if o := info.Defs[id]; o != nil {
					obj = o
				}
			}
			return true
		})
		rooted := func(e ast.Expr) bool {
			id := rootIdent(e)
			return id != nil && (info.Uses[id] == obj || info.Defs[id] == obj)
		}
		ast.Inspect(fi.fd.Body, func(n ast.Node) bool {
			switch x := n.(type) {
			case *ast.AssignStmt:
				for _, l := range x.Lhs {
					if _, bare := l.(*ast.Ident); !bare && rooted(l) {
						res = true
					}
				}
			case *ast.IncDecStmt:
				if _, bare := x.X.(*ast.Ident); !bare && rooted(x.X) {
					res = true
				}
			case *ast.RangeStmt:
				// for i := range x { x[i] = ... } is an assignment (seen above)
			case *ast.CallExpr:
				if tv, ok := info.Types[x.Fun]; ok && tv.IsType() {
					return true
				}
				if isLockOp(info, x) {
					return true
				}
				if id, ok := x.Fun.(*ast.Ident); ok {
					if _, isB := info.Uses[id].(*types.Builtin); isB {
						if id.Name == "copy" && len(x.Args) > 0 && rooted(x.Args[0]) {
							res = true
						}
						if id.Name == "append" || id.Name == "delete" {
							if len(x.Args) > 0 && rooted(x.Args[0]) {
								res = true
							}
						}
						return true
					}
				}
				if fs := fi.t.src(x.Fun); strings.HasPrefix(fs, "binary.BigEndian.") {
					// encoding/binary: UintN only read their argument, PutUintN write the first one
					if strings.HasPrefix(fs, "binary.BigEndian.Put") && len(x.Args) > 0 && rooted(x.Args[0]) {
						res = true
					}
					return true
				}
				var callee *funcInfo
				var fn *types.Func
				switch f := x.Fun.(type) {
				case *ast.Ident:
					fn, _ = info.Uses[f].(*types.Func)
				case *ast.SelectorExpr:
					fn, _ = info.Uses[f.Sel].(*types.Func)
					if fn != nil {
						if sig := fn.Type().(*types.Signature); sig.Recv() != nil && rooted(f.X) {
							rt := sig.Recv().Type()
							_, ptr := rt.(*types.Pointer)
							if ptr || isRefLike(rt) || isSliceType(rt) {
								if c, ok := g.funcs[funcKey(fn)]; ok {
									if g.mutates(c, "recv") {
										res = true
									}
								} else {
									res = true
								}
							}
						}
					}
				}
				if fn != nil {
					callee = g.funcs[funcKey(fn)]
				}
				for i, a := range x.Args {
					if !rooted(a) {
						continue
					}
					at := info.Types[a].Type
					if at == nil || !(isRefLike(at) || isSliceType(at)) {
						continue
					}
					if callee == nil {
						res = true
					} else if g.mutates(callee, fmt.Sprint(i)) {
						res = true
					}
				}
			}
			return true
		})
	}
	if res {
		g.mutCache[ck] = 2
	} else {
		g.mutCache[ck] = 1
	}
	return res
}

func isSliceType(tp types.Type) bool {
	_, ok := tp.Underlying().(*types.Slice)
	return ok
}

// ---------------------------------------------------------------- function context

type mvar struct {
	name string // Go name = Gallina name
	ty   gty
}

type bind struct {
	pat, rhs string
	let      bool
}

type mctx struct {
	g       *mgen
	t       *translator
	tg      *MTarget
	fi      *funcInfo
	info    *types.Info
	muts    []mvar // objects returned after the results
	mem     bool   // explicit backing-array parameter `mem`
	resTy   []gty
	binds   []bind
	tmp     int
	inLoop  []string      // loop-state tuple while translating a loop body (nil outside)
	loopEnd func() string // what the end of the innermost loop body yields (target of `continue`)
	// loopRet: the loop being translated contains `return` (go_for_ret): the body yields
	// inl state | inr result
	loopRet bool
	mapUse  map[string]string
	// lastMemAssign: source text last assigned to a backing-array field ("w.buffer" -> "b")
	lastMemAssign map[string]string
	// varKind: local []byte variables that hold reference slices (refined from the Go type)
	varKind map[types.Object]gty
	// resRef[i]: result i (Go type []byte) is returned as a reference slice
	resRef map[int]bool
	resVal map[int]bool
}

func (c *mctx) pos(n ast.Node) string { return c.t.pos(n) }
func (c *mctx) src(n ast.Node) string { return c.t.src(n) }

func (c *mctx) fresh() string {
	c.tmp++
	return fmt.Sprintf("x'%d", c.tmp)
}

func (c *mctx) tyOf(e ast.Expr) gty {
	tv, ok := c.info.Types[e]
	if !ok || tv.Type == nil {
		failf("%s: no type for %q", c.pos(e), c.src(e))
	}
	base := c.g.gtype(tv.Type, c.pos(e)+" "+c.src(e))
	if base.kind != "bytes" {
		return base
	}
	// a []byte may be a reference slice: decided by where the value comes from
	ref := gty{kind: "ref"}
	switch x := e.(type) {
	case *ast.ParenExpr:
		return c.tyOf(x.X)
	case *ast.Ident:
		o := c.info.Uses[x]
		if o == nil {
			o = c.info.Defs[x]
		}
		if k, ok := c.varKind[o]; ok {
			return k
		}
	case *ast.SelectorExpr:
		if sel, ok := c.info.Selections[x]; ok && sel.Kind() == types.FieldVal && len(sel.Index()) == 1 {
			if bt := c.tyOf(x.X); bt.kind == "rec" {
				if f := bt.rec.field(x.Sel.Name); f != nil && f.kind == "ref" {
					return ref
				}
			}
		}
	case *ast.SliceExpr:
		if c.tyOf(x.X).kind == "ref" {
			return ref
		}
	case *ast.CallExpr:
		if ftv, ok := c.info.Types[x.Fun]; ok && ftv.IsType() && len(x.Args) == 1 {
			if id, isid := x.Args[0].(*ast.Ident); !(isid && id.Name == "nil") && c.tyOf(x.Args[0]).kind == "ref" {
				return ref
			}
			return base
		}
		var fn *types.Func
		switch f := x.Fun.(type) {
		case *ast.Ident:
			fn, _ = c.info.Uses[f].(*types.Func)
		case *ast.SelectorExpr:
			fn, _ = c.info.Uses[f.Sel].(*types.Func)
		}
		if fn != nil {
			if d, ok := c.g.done[funcKey(fn)]; ok && len(d.resTy) == 1 {
				return d.resTy[0]
			}
		}
	}
	return base
}

func isNilIdent(e ast.Expr) bool {
	for {
		p, ok := e.(*ast.ParenExpr)
		if !ok {
			break
		}
		e = p.X
	}
	id, ok := e.(*ast.Ident)
	return ok && id.Name == "nil"
}

// exprAs: e in a context that expects a value of representation want (gives nil its type)
func (c *mctx) exprAs(e ast.Expr, want gty) string {
	if isNilIdent(e) {
		switch want.kind {
		case "bytes", "ref", "err", "sset", "list":
			return want.zero()
		}
		if want.kind == "rec" && c.tg.NilRecZero {
			return want.zero()
		}
		failf("%s: nil where a %s is expected", c.pos(e), want.kind)
	}
	return c.expr(e)
}

// goTypeRep: representation of a Go type at a use site (no refinement)
func (c *mctx) goTypeRep(tp types.Type, at ast.Node) gty { return c.g.gtype(tp, c.pos(at)) }

func tuple(parts []string) string {
	if len(parts) == 0 {
		return "tt"
	}
	if len(parts) == 1 {
		return parts[0]
	}
	return "(" + strings.Join(parts, ", ") + ")"
}

func tupleTy(parts []string) string {
	if len(parts) == 0 {
		return "unit"
	}
	if len(parts) == 1 {
		return parts[0]
	}
	return "(" + strings.Join(parts, " * ") + ")"
}

func wrapBinds(bs []bind, body string) string {
	out := body
	for i := len(bs) - 1; i >= 0; i-- {
		b := bs[i]
		if b.let {
			out = "let " + b.pat + " := " + b.rhs + " in\n  " + out
		} else {
			out = "match " + b.rhs + " with None => None | Some " + b.pat + " =>\n  " + out + "\n  end"
		}
	}
	return out
}

// withBinds runs f (which translates the expressions of ONE statement and returns the term
// that follows them) and wraps the hoisted effects around it.
func (c *mctx) withBinds(f func() string) string {
	saved := c.binds
	c.binds = nil
	defer func() { c.binds = saved }()
	body := f()
	return wrapBinds(c.binds, body)
}

// pure translates an expression that must not have hoisted effects (conditions of && / ||).
func (c *mctx) pure(e ast.Expr) string {
	n := len(c.binds)
	s := c.expr(e)
	if len(c.binds) != n {
		failf("%s: %q has an effect (call / slicing) in a short-circuit position", c.pos(e), c.src(e))
	}
	return s
}

// memOwner: the variable in scope whose struct owns the backing array of reference slices.
func (c *mctx) memOwner(at ast.Node) (get string, set func(v string) bind) {
	if c.mem {
		return "mem", func(v string) bind { return bind{pat: "mem", rhs: v, let: true} }
	}
	var owners []mvar
	seen := map[types.Object]bool{}
	ast.Inspect(c.fi.fd, func(n ast.Node) bool {
		id, ok := n.(*ast.Ident)
		if !ok {
			return true
		}
		o := c.info.Defs[id]
		if o == nil || seen[o] {
			return true
		}
		seen[o] = true
		if v, ok := o.(*types.Var); ok && !v.IsField() {
			if gt, ok := c.tryType(v.Type()); ok && gt.kind == "rec" && gt.rec.memField() != nil {
				owners = append(owners, mvar{id.Name, gt})
			}
		}
		return true
	})
	if len(owners) != 1 {
		failf("%s: %d variables own a backing array here (exactly one expected) in %s", c.pos(at), len(owners), c.tg.Func)
	}
	o := owners[0]
	mf := o.ty.rec.memField()
	get = fmt.Sprintf("(%s_%s %s)", o.ty.rec.name, mf.name, o.name)
	set = func(v string) bind {
		return bind{pat: o.name, rhs: fmt.Sprintf("set_%s_%s %s %s", o.ty.rec.name, mf.name, v, o.name), let: true}
	}
	return
}

func (c *mctx) tryType(tp types.Type) (g gty, ok bool) {
	defer func() {
		if r := recover(); r != nil {
			if _, isf := r.(failure); isf {
				ok = false
				return
			}
			panic(r)
		}
	}()
	return c.g.gtype(tp, ""), true
}

// ---------------------------------------------------------------- expressions

func (c *mctx) errCode(key string, at ast.Node) string {
	if _, ok := c.g.errCodes[key]; !ok {
		failf("%s: error variable %s has no code (list it in ErrVars)", c.pos(at), key)
	}
	return "e_" + strings.ReplaceAll(key, ".", "_")
}

func (c *mctx) constExpr(e ast.Expr) (string, bool) {
	tv, ok := c.info.Types[e]
	if !ok || tv.Value == nil {
		return "", false
	}
	switch tv.Value.Kind() {
	case constant.Int, constant.Float:
		if lit, ok := zlit(tv.Value); ok {
			if id, isid := e.(*ast.Ident); isid {
				if k, isc := c.info.Uses[id].(*types.Const); isc && k.Pkg() != nil {
					switch k.Pkg().Name() {
					case "tchannel":
						return "c_" + mIdent(id.Name), true
					case "typed":
						return "c_typed_" + mIdent(id.Name), true
					}
				}
			}
			return lit, true
		}
	case constant.Bool:
		if constant.BoolVal(tv.Value) {
			return "true", true
		}
		return "false", true
	case constant.String:
		return strlit(constant.StringVal(tv.Value)), true
	}
	return "", false
}

// path: x.f.g rooted at a local variable => (root name, [(rec, field)...]); ok=false otherwise
type pathStep struct {
	rec   *StructRep
	field *fieldRep
}

func (c *mctx) path(e ast.Expr) (string, []pathStep, bool) {
	switch x := e.(type) {
	case *ast.ParenExpr:
		return c.path(x.X)
	case *ast.Ident:
		if v, ok := c.info.Uses[x].(*types.Var); ok && !v.IsField() && v.Parent() != v.Pkg().Scope() {
			return x.Name, nil, true
		}
		if v, ok := c.info.Defs[x].(*types.Var); ok && !v.IsField() {
			return x.Name, nil, true
		}
	case *ast.StarExpr:
		return c.path(x.X)
	case *ast.UnaryExpr:
		if x.Op == token.AND {
			return c.path(x.X)
		}
	case *ast.SelectorExpr:
		sel, ok := c.info.Selections[x]
		if !ok || sel.Kind() != types.FieldVal {
			return "", nil, false
		}
		root, steps, ok := c.path(x.X)
		if !ok {
			return "", nil, false
		}
		if len(sel.Index()) != 1 {
			// promoted field: the path through the embedded fields, each of which must be
			// represented (StructRep.embedOK)
			cur := c.tyOf(x.X)
			tp := c.info.Types[x.X].Type
			for _, fi := range sel.Index() {
				if pt, ok := tp.Underlying().(*types.Pointer); ok {
					tp = pt.Elem()
				}
				st, ok := tp.Underlying().(*types.Struct)
				if !ok || cur.kind != "rec" {
					failf("%s: promoted field %q is outside the subset", c.pos(e), c.src(e))
				}
				fld := st.Field(fi)
				f := cur.rec.field(fld.Name())
				if f == nil {
					failf("%s: promoted field %q: %s.%s is not represented", c.pos(e), c.src(e), cur.rec.Type, fld.Name())
				}
				steps = append(steps, pathStep{cur.rec, f})
				tp, cur = fld.Type(), f.ty
			}
			return root, steps, true
		}
		bt := c.tyOf(x.X)
		if bt.kind != "rec" {
			failf("%s: field of %s", c.pos(e), bt.kind)
		}
		f := bt.rec.field(x.Sel.Name)
		if f == nil {
			failf("%s: field %s.%s is not represented", c.pos(e), bt.rec.Type, x.Sel.Name)
		}
		return root, append(steps, pathStep{bt.rec, f}), true
	}
	return "", nil, false
}

func pathGet(root string, steps []pathStep) string {
	s := root
	for _, st := range steps {
		s = fmt.Sprintf("(%s_%s %s)", st.rec.name, st.field.name, s)
	}
	return s
}

// pathSet: the new value of root after steps... := v
func pathSet(root string, steps []pathStep, v string) string {
	if len(steps) == 0 {
		return v
	}
	// set_R_f (inner) (get prefix)
	prefix := pathGet(root, steps[:len(steps)-1])
	last := steps[len(steps)-1]
	nv := fmt.Sprintf("(set_%s_%s %s %s)", last.rec.name, last.field.name, v, prefix)
	return pathSet(root, steps[:len(steps)-1], nv)
}

func (c *mctx) expr(e ast.Expr) string {
	if s, ok := c.tg.Hints[c.src(e)]; ok {
		return s
	}
	if s, ok := c.constExpr(e); ok {
		return s
	}
	switch x := e.(type) {
	case *ast.ParenExpr:
		return c.expr(x.X)
	case *ast.Ident:
		switch x.Name {
		case "true", "false":
			return x.Name
		case "nil":
			failf("%s: nil in a position where its type is not known to the translator", c.pos(e))
		}
		if v, ok := c.info.Uses[x].(*types.Var); ok {
			if v.Pkg() != nil && v.Parent() == v.Pkg().Scope() {
				if c.tyOf(e).kind == "err" {
					return c.errCode(v.Pkg().Name()+"."+v.Name(), e)
				}
				failf("%s: package variable %s is outside the subset (add a hint)", c.pos(e), x.Name)
			}
			return mIdent(x.Name)
		}
	case *ast.SelectorExpr:
		// pkg.Var (error values of other packages)
		if id, ok := x.X.(*ast.Ident); ok {
			if pn, ok := c.info.Uses[id].(*types.PkgName); ok {
				if v, ok := c.info.Uses[x.Sel].(*types.Var); ok && c.tyOf(e).kind == "err" {
					return c.errCode(pn.Imported().Name()+"."+v.Name(), e)
				}
				failf("%s: %q is outside the subset (add a hint)", c.pos(e), c.src(e))
			}
		}
		if root, steps, ok := c.path(e); ok {
			return pathGet(mIdent(root), steps)
		}
		// field of a non-path expression (e.g. a call result)
		if sel, ok := c.info.Selections[x]; ok && sel.Kind() == types.FieldVal && len(sel.Index()) == 1 {
			bt := c.tyOf(x.X)
			if bt.kind == "rec" {
				if f := bt.rec.field(x.Sel.Name); f != nil {
					return fmt.Sprintf("(%s_%s %s)", bt.rec.name, f.name, c.expr(x.X))
				}
			}
		}
	case *ast.StarExpr:
		return c.expr(x.X)
	case *ast.UnaryExpr:
		switch x.Op {
		case token.NOT:
			return "(negb " + c.expr(x.X) + ")"
		case token.SUB:
			return wrapFor(c.info.Types[e].Type, "(- "+c.expr(x.X)+")")
		case token.AND:
			if c.tyOf(x.X).kind == "rec" {
				return c.expr(x.X)
			}
		}
	case *ast.BinaryExpr:
		return c.binary(x)
	case *ast.CallExpr:
		return c.call(x, true)
	case *ast.IndexExpr:
		bt := c.tyOf(x.X)
		b, i := c.expr(x.X), c.expr(x.Index)
		v := c.fresh()
		switch bt.kind {
		case "bytes":
			c.binds = append(c.binds, bind{pat: v, rhs: fmt.Sprintf("bs_index %s %s", b, i)})
			return v
		case "str":
			c.binds = append(c.binds, bind{pat: v, rhs: fmt.Sprintf("str_index %s %s", b, i)})
			return v
		case "ref":
			mem, _ := c.memOwner(e)
			c.binds = append(c.binds, bind{pat: v, rhs: fmt.Sprintf("mem_get %s %s %s", mem, b, i)})
			return v
		}
		failf("%s: index of %s is outside the subset", c.pos(e), bt.kind)
	case *ast.SliceExpr:
		if x.Slice3 {
			failf("%s: 3-index slice", c.pos(e))
		}
		bt := c.tyOf(x.X)
		b := c.expr(x.X)
		lo := "0"
		if x.Low != nil {
			lo = c.expr(x.Low)
		}
		var hi string
		if x.High != nil {
			hi = c.expr(x.High)
		}
		v := c.fresh()
		switch bt.kind {
		case "bytes":
			if hi == "" {
				hi = "(bs_len " + b + ")"
			}
			c.binds = append(c.binds, bind{pat: v, rhs: fmt.Sprintf("bs_slice %s %s %s", b, lo, hi)})
			return v
		case "ref":
			if hi == "" {
				hi = "(rs_len " + b + ")"
			}
			c.binds = append(c.binds, bind{pat: v, rhs: fmt.Sprintf("rs_slice %s %s %s", b, lo, hi)})
			return v
		case "str":
			if hi == "" {
				hi = "(zlen " + b + ")"
			}
			c.binds = append(c.binds, bind{pat: v, rhs: fmt.Sprintf("str_slice %s %s %s", b, lo, hi)})
			if c.tyOf(e).kind == "bytes" { // slice of an array
				return "(Some " + v + ")"
			}
			return v
		}
		failf("%s: slice of %s is outside the subset", c.pos(e), bt.kind)
	case *ast.CompositeLit:
		t := c.tyOf(e)
		switch t.kind {
		case "map":
			if len(x.Elts) == 0 {
				return "[]"
			}
		case "unit":
			return "tt"
		case "sset":
			ks := []string{}
			for _, el := range x.Elts {
				kv, ok := el.(*ast.KeyValueExpr)
				if !ok {
					failf("%s: set literal without keys", c.pos(e))
				}
				ks = append(ks, c.expr(kv.Key))
			}
			return "(sset_lit [" + strings.Join(ks, "; ") + "])"
		case "rec":
			vals := map[string]string{}
			for _, el := range x.Elts {
				kv, ok := el.(*ast.KeyValueExpr)
				if !ok {
					failf("%s: positional composite literal", c.pos(e))
				}
				k := kv.Key.(*ast.Ident).Name
				if t.rec.Fields[k] == "ignore" {
					// the field is not represented; its initialiser must at least be effect-free
					c.pure(kv.Value)
					continue
				}
				if t.rec.field(k) == nil {
					failf("%s: field %s.%s is not represented", c.pos(e), t.rec.Type, k)
				}
				fr := t.rec.field(k)
				if fr.kind == "ref" {
					// a reference slice initialised with the backing array itself
					mf := t.rec.memField()
					var memInit ast.Expr
					for _, el2 := range x.Elts {
						if kv2, ok := el2.(*ast.KeyValueExpr); ok && mf != nil && kv2.Key.(*ast.Ident).Name == mf.name {
							memInit = kv2.Value
						}
					}
					if memInit == nil || c.src(memInit) != c.src(kv.Value) {
						failf("%s: reference slice %s must be initialised with the backing array", c.pos(e), k)
					}
					vals[k] = "(rs_whole " + c.expr(kv.Value) + ")"
					continue
				}
				vals[k] = c.exprAs(kv.Value, fr.ty)
			}
			parts := []string{"mk_" + t.rec.name}
			for _, f := range t.rec.fields {
				if v, ok := vals[f.name]; ok {
					parts = append(parts, v)
				} else {
					parts = append(parts, f.ty.zero())
				}
			}
			return "(" + strings.Join(parts, " ") + ")"
		}
	}
	failf("%s: unsupported expression %q in %s (add a hint)", c.pos(e), c.src(e), c.tg.Func)
	return ""
}

func (c *mctx) binary(x *ast.BinaryExpr) string {
	e := ast.Expr(x)
	switch x.Op {
	case token.LAND:
		return "(" + c.expr(x.X) + " && " + c.pure(x.Y) + ")"
	case token.LOR:
		return "(" + c.expr(x.X) + " || " + c.pure(x.Y) + ")"
	}
	if x.Op == token.EQL || x.Op == token.NEQ {
		// comparison with nil
		isNil := func(a ast.Expr) bool {
			id, ok := a.(*ast.Ident)
			return ok && id.Name == "nil" && c.info.Uses[id] == types.Universe.Lookup("nil")
		}
		var other ast.Expr
		if isNil(x.Y) {
			other = x.X
		} else if isNil(x.X) {
			other = x.Y
		}
		if other != nil {
			t := c.tyOf(other)
			o := c.expr(other)
			var test string
			switch t.kind {
			case "bytes":
				test = "(bs_isnil " + o + ")"
			case "ref":
				test = "(rs_isnil " + o + ")"
			case "err":
				test = "(" + o + " =? 0)"
			case "sset":
				test = "(sset_isnil " + o + ")"
			default:
				failf("%s: nil comparison of %s", c.pos(e), t.kind)
			}
			if x.Op == token.NEQ {
				return "(negb " + test + ")"
			}
			return test
		}
	}
	l, r := c.expr(x.X), c.expr(x.Y)
	lt := c.tyOf(x.X)
	rt := c.info.Types[e].Type
	switch x.Op {
	case token.EQL, token.NEQ:
		var eq string
		switch lt.kind {
		case "bool":
			eq = "(Bool.eqb " + l + " " + r + ")"
		case "str":
			eq = "(bytes_eqb " + l + " " + r + ")"
		case "Z", "err":
			eq = "(" + l + " =? " + r + ")"
		default:
			failf("%s: comparison of %s", c.pos(e), lt.kind)
		}
		if x.Op == token.NEQ {
			return "(negb " + eq + ")"
		}
		return eq
	case token.LSS:
		return "(" + l + " <? " + r + ")"
	case token.LEQ:
		return "(" + l + " <=? " + r + ")"
	case token.GTR:
		return "(" + l + " >? " + r + ")"
	case token.GEQ:
		return "(" + l + " >=? " + r + ")"
	case token.ADD:
		if lt.kind == "str" {
			return "(" + l + " ++ " + r + ")"
		}
		return wrapFor(rt, "("+l+" + "+r+")")
	case token.SUB:
		return wrapFor(rt, "("+l+" - "+r+")")
	case token.MUL:
		return wrapFor(rt, "("+l+" * "+r+")")
	case token.QUO, token.REM:
		tv := c.info.Types[x.Y]
		if tv.Value == nil || constant.Sign(tv.Value) == 0 {
			failf("%s: division by a non-constant (may panic) is outside the subset", c.pos(e))
		}
		if x.Op == token.QUO {
			return wrapFor(rt, "(Z.quot "+l+" "+r+")")
		}
		return wrapFor(rt, "(Z.rem "+l+" "+r+")")
	case token.AND:
		return "(Z.land " + l + " " + r + ")"
	case token.OR:
		return "(Z.lor " + l + " " + r + ")"
	case token.XOR:
		return "(Z.lxor " + l + " " + r + ")"
	case token.SHL:
		return wrapFor(rt, "(Z.shiftl "+l+" "+r+")")
	case token.SHR:
		return "(Z.shiftr " + l + " " + r + ")"
	}
	failf("%s: unsupported operator in %q", c.pos(e), c.src(e))
	return ""
}

var beFuncs = map[string]int{"Uint16": 2, "Uint32": 4, "Uint64": 8}
var bePuts = map[string]int{"PutUint16": 2, "PutUint32": 4, "PutUint64": 8}

// bigEndian: binary.BigEndian.<name>
func (c *mctx) bigEndian(fun ast.Expr) (string, bool) {
	sel, ok := fun.(*ast.SelectorExpr)
	if !ok {
		return "", false
	}
	in, ok := sel.X.(*ast.SelectorExpr)
	if !ok || in.Sel.Name != "BigEndian" {
		return "", false
	}
	id, ok := in.X.(*ast.Ident)
	if !ok {
		return "", false
	}
	if pn, ok := c.info.Uses[id].(*types.PkgName); !ok || pn.Imported().Path() != "encoding/binary" {
		return "", false
	}
	return sel.Sel.Name, true
}

// call translates a call.  value=true: the call's (single) result is needed; the returned
// string is that value.  value=false: statement position; returns "".
// For calls with several results used by a multi-assignment see callMulti.
func (c *mctx) call(x *ast.CallExpr, value bool) string {
	res := c.callN(x)
	if value {
		if len(res) != 1 {
			failf("%s: call %q has %d results where one value is needed", c.pos(x), c.src(x), len(res))
		}
		return res[0]
	}
	return ""
}

// callN hoists the call and returns the Gallina names/terms of its results.
func (c *mctx) callN(x *ast.CallExpr) []string {
	e := ast.Expr(x)
	// conversion
	if tv, ok := c.info.Types[x.Fun]; ok && tv.IsType() && len(x.Args) == 1 {
		to := c.g.gtype(tv.Type, c.pos(e)+" "+c.src(e))
		a := x.Args[0]
		if id, ok := a.(*ast.Ident); ok && id.Name == "nil" {
			return []string{to.zero()}
		}
		from := c.tyOf(a)
		av := c.expr(a)
		switch {
		case to.kind == "Z" && from.kind == "Z":
			return []string{wrapFor(tv.Type, av)}
		case to.kind == from.kind && (to.kind == "str" || to.kind == "bytes" || to.kind == "ref"):
			return []string{av}
		case to.kind == "str" && from.kind == "bytes":
			return []string{"(bs_list " + av + ")"}
		case to.kind == "bytes" && from.kind == "str":
			return []string{"(Some " + av + ")"}
		}
		failf("%s: unsupported conversion %q (%s to %s)", c.pos(e), c.src(e), from.kind, to.kind)
	}
	fsrc := c.src(x.Fun)
	// builtins
	if id, ok := x.Fun.(*ast.Ident); ok {
		if _, isB := c.info.Uses[id].(*types.Builtin); isB {
			switch id.Name {
			case "len":
				t := c.tyOf(x.Args[0])
				a := c.expr(x.Args[0])
				switch t.kind {
				case "str":
					return []string{"(zlen " + a + ")"}
				case "map":
					c.noteMap(x.Args[0], "read")
					return []string{"(zlen " + a + ")"}
				case "bytes":
					return []string{"(bs_len " + a + ")"}
				case "ref":
					return []string{"(rs_len " + a + ")"}
				case "list":
					return []string{"(zlen " + a + ")"}
				case "sset":
					return []string{"(sset_len " + a + ")"}
				}
			case "copy":
				dt := c.tyOf(x.Args[0])
				st := c.tyOf(x.Args[1])
				if dt.kind != "ref" {
					failf("%s: copy into a %s (only reference slices of the receiver's buffer can be written)", c.pos(e), dt.kind)
				}
				d := c.expr(x.Args[0])
				s := c.expr(x.Args[1])
				switch st.kind {
				case "bytes":
					s = "(bs_list " + s + ")"
				case "str":
				default:
					failf("%s: copy from a %s", c.pos(e), st.kind)
				}
				mem, set := c.memOwner(e)
				c.binds = append(c.binds, set(fmt.Sprintf("(mem_copy %s %s %s)", mem, d, s)))
				return []string{fmt.Sprintf("(Z.min (rs_len %s) (zlen %s))", d, s)}
			case "panic":
				failf("%s: panic() is outside the subset", c.pos(e))
			case "make":
				if c.tyOf(e).kind == "map" {
					return []string{"[]"}
				}
				if c.tyOf(e).kind == "sset" {
					return []string{"(sset_lit [])"}
				}
			}
			failf("%s: builtin %q is outside the subset", c.pos(e), c.src(e))
		}
	}
	// binary.BigEndian
	if name, ok := c.bigEndian(x.Fun); ok {
		if n, ok := beFuncs[name]; ok {
			if c.tyOf(x.Args[0]).kind != "bytes" {
				failf("%s: %s of a %s", c.pos(e), name, c.tyOf(x.Args[0]).kind)
			}
			v := c.fresh()
			c.binds = append(c.binds, bind{pat: v, rhs: fmt.Sprintf("be_get %d %s", n, c.expr(x.Args[0]))})
			return []string{v}
		}
		if n, ok := bePuts[name]; ok {
			if se, isSl := x.Args[0].(*ast.SliceExpr); isSl && !se.Slice3 && c.tyOf(x.Args[0]).kind == "bytes" {
				// binary.BigEndian.PutUintN(P[lo:hi], v) with P a []byte field path held by value: the
				// fresh slice aliases P's array, so the call overwrites P in place (GoSem.bs_put)
				if root, steps, ok := c.path(se.X); ok && len(steps) > 0 {
					b := c.expr(se.X)
					lo := "0"
					if se.Low != nil {
						lo = c.expr(se.Low)
					}
					hi := "(bs_len " + b + ")"
					if se.High != nil {
						hi = c.expr(se.High)
					}
					v := c.expr(x.Args[1])
					t := c.fresh()
					c.binds = append(c.binds, bind{pat: t, rhs: fmt.Sprintf("bs_put %s %s %s %d %s", b, lo, hi, n, v)})
					c.binds = append(c.binds, bind{pat: mIdent(root), rhs: pathSet(mIdent(root), steps, t), let: true})
					return nil
				}
			}
			if c.tyOf(x.Args[0]).kind != "ref" {
				failf("%s: %s into a %s", c.pos(e), name, c.tyOf(x.Args[0]).kind)
			}
			d, v := c.expr(x.Args[0]), c.expr(x.Args[1])
			mem, set := c.memOwner(e)
			t := c.fresh()
			c.binds = append(c.binds, bind{pat: t, rhs: fmt.Sprintf("mem_put %s %s %d %s", mem, d, n, v)})
			c.binds = append(c.binds, set(t))
			return nil
		}
		failf("%s: binary.BigEndian.%s is outside the subset", c.pos(e), name)
	}
	// expression-level call hint (pure)
	if h, ok := c.tg.Hints["call:"+fsrc]; ok {
		args := []string{}
		for _, a := range x.Args {
			args = append(args, c.expr(a))
		}
		return []string{"(" + h + " " + strings.Join(args, " ") + ")"}
	}
	// resolved callee
	var fn *types.Func
	var recvExpr ast.Expr
	recvStr := ""
	switch f := x.Fun.(type) {
	case *ast.Ident:
		fn, _ = c.info.Uses[f].(*types.Func)
	case *ast.SelectorExpr:
		fn, _ = c.info.Uses[f.Sel].(*types.Func)
		if fn != nil && fn.Type().(*types.Signature).Recv() != nil {
			recvExpr = f.X
			if sel, ok := c.info.Selections[f]; ok && len(sel.Index()) != 1 {
				// promoted method: the receiver is the embedded field (path through represented
				// embedded fields, StructRep.embedOK); only for callees that do not mutate it
				root, steps, ok := c.path(f.X)
				if !ok {
					failf("%s: call of promoted method %q is outside the subset", c.pos(e), c.src(e))
				}
				cur := c.tyOf(f.X)
				tp := c.info.Types[f.X].Type
				idx := sel.Index()
				for _, fi := range idx[:len(idx)-1] {
					if pt, ok := tp.Underlying().(*types.Pointer); ok {
						tp = pt.Elem()
					}
					st, ok := tp.Underlying().(*types.Struct)
					if !ok || cur.kind != "rec" {
						failf("%s: call of promoted method %q is outside the subset", c.pos(e), c.src(e))
					}
					fld := st.Field(fi)
					fr := cur.rec.field(fld.Name())
					if fr == nil {
						failf("%s: promoted method %q: %s.%s is not represented", c.pos(e), c.src(e), cur.rec.Type, fld.Name())
					}
					steps = append(steps, pathStep{cur.rec, fr})
					tp, cur = fld.Type(), fr.ty
				}
				recvStr = pathGet(mIdent(root), steps)
			}
		}
	}
	if fn == nil {
		failf("%s: cannot resolve the callee of %q (add a hint)", c.pos(e), c.src(e))
	}
	key := funcKey(fn)
	var em *emitted
	if h, ok := c.tg.CallHints[key]; ok {
		em = &emitted{out: h}
		if i := strings.Index(h, "!"); i >= 0 {
			em.out = h[:i]
			em.muts = strings.Split(h[i+1:], ",")
		}
		sig := fn.Type().(*types.Signature)
		em.nres = sig.Results().Len()
	} else if d, ok := c.g.done[key]; ok {
		em = d
	} else if _, known := c.g.funcs[key]; known {
		failf("%s: callee %s is not translated (list it as a target before %s, or add a call hint)", c.pos(e), key, c.tg.Func)
	} else {
		failf("%s: callee %s is outside the loaded packages (add a call hint)", c.pos(e), key)
	}
	args := []string{}
	if em.mem {
		mem, _ := c.memOwner(e)
		args = append(args, mem)
	}
	if recvStr != "" {
		for _, m := range em.muts {
			if m == "recv" {
				failf("%s: promoted method %q mutates its receiver: outside the subset", c.pos(e), c.src(e))
			}
		}
		args = append(args, recvStr)
	} else if recvExpr != nil {
		args = append(args, c.expr(recvExpr))
	}
	sigc := fn.Type().(*types.Signature)
	for i, a := range x.Args {
		if isNilIdent(a) && i < sigc.Params().Len() {
			args = append(args, c.exprAs(a, c.g.gtype(sigc.Params().At(i).Type(), c.pos(a))))
			continue
		}
		args = append(args, c.expr(a))
	}
	// results
	pats := []string{}
	outs := []string{}
	for i := 0; i < em.nres; i++ {
		v := c.fresh()
		pats = append(pats, v)
		outs = append(outs, v)
	}
	// mutated objects: bind to a fresh name, then write back to the path they came from
	var after []bind
	if em.mem {
		v := c.fresh()
		pats = append(pats, v)
		_, set := c.memOwner(e)
		after = append(after, set(v))
	}
	for _, m := range em.muts {
		var ae ast.Expr
		if m == "recv" {
			ae = recvExpr
		} else {
			var idx int
			fmt.Sscanf(m, "%d", &idx)
			ae = x.Args[idx]
		}
		root, steps, ok := c.path(ae)
		if !ok {
			failf("%s: %q is mutated by %s but is not a variable or a field path", c.pos(e), c.src(ae), key)
		}
		if ct := c.tyOf(ae); ct.kind == "map" {
			c.noteMap(ae, "write")
		}
		v := c.fresh()
		pats = append(pats, v)
		after = append(after, bind{pat: mIdent(root), rhs: pathSet(mIdent(root), steps, v), let: true})
	}
	c.binds = append(c.binds, bind{pat: tuple(pats), rhs: em.out + " " + strings.Join(args, " ")})
	c.binds = append(c.binds, after...)
	return outs
}

// noteMap: a map may be used as "entries in iteration order" (len, range) or as an insertion
// log (m[k] = v), never both in one function.
func (c *mctx) noteMap(e ast.Expr, use string) {
	id := rootIdent(e)
	if id == nil {
		return
	}
	k := c.src(e)
	if c.mapUse == nil {
		c.mapUse = map[string]string{}
	}
	if old, ok := c.mapUse[k]; ok && old != use {
		failf("%s: map %s is both read (len/range) and written in %s: outside the subset", c.pos(e), k, c.tg.Func)
	}
	c.mapUse[k] = use
}

// ---------------------------------------------------------------- statements

func (c *mctx) retTerm(vals []string) string {
	parts := append([]string{}, vals...)
	if c.mem {
		parts = append(parts, "mem")
	}
	for _, m := range c.muts {
		parts = append(parts, m.name)
	}
	if c.inLoop != nil && c.loopRet {
		// return from inside a loop body: the loop combinator stops with inr (result)
		return "Some (inr " + tuple(parts) + ")"
	}
	return "Some " + tuple(parts)
}

func (c *mctx) stmts(list []ast.Stmt, k func() string) string {
	if len(list) == 0 {
		return k()
	}
	s := list[0]
	tail := func() string { return c.stmts(list[1:], k) }
	stext := c.src(s)
	pre, ok := c.tg.SHints[stext]
	if !ok {
		for hk, v := range c.tg.SHints {
			if strings.HasSuffix(hk, "...") && strings.HasPrefix(stext, strings.TrimSuffix(hk, "...")) {
				pre, ok = v, true
			}
		}
	}
	if ok {
		if pre == "" {
			return tail()
		}
		return pre + " " + tail()
	}
	switch x := s.(type) {
	case *ast.EmptyStmt:
		return tail()
	case *ast.BlockStmt:
		return c.stmts(append(append([]ast.Stmt{}, x.List...), list[1:]...), k)
	case *ast.ReturnStmt:
		if c.inLoop != nil && !c.loopRet {
			failf("%s: return inside a loop is outside the subset", c.pos(s))
		}
		if len(x.Results) == 0 && len(c.resTy) > 0 {
			failf("%s: naked return with results", c.pos(s))
		}
		return c.withBinds(func() string {
			var vals []string
			if len(x.Results) == 1 && len(c.resTy) > 1 {
				call, ok := x.Results[0].(*ast.CallExpr)
				if !ok {
					failf("%s: unsupported return %q", c.pos(s), c.src(s))
				}
				vals = c.callN(call)
			} else {
				for i, r := range x.Results {
					vals = append(vals, c.exprAs(r, c.resTy[i]))
					if c.resTy[i].kind == "bytes" && !isNilIdent(r) {
						if c.tyOf(r).kind == "ref" {
							c.resRef[i] = true
						} else {
							c.resVal[i] = true
						}
					}
				}
			}
			return c.retTerm(vals)
		})
	case *ast.ExprStmt:
		call, ok := x.X.(*ast.CallExpr)
		if !ok {
			failf("%s: unsupported statement %q", c.pos(s), c.src(s))
		}
		if isLockOp(c.info, call) {
			return tail()
		}
		return c.withBinds(func() string {
			c.callN(call)
			return tail()
		})
	case *ast.IncDecStmt:
		op := token.ADD_ASSIGN
		if x.Tok == token.DEC {
			op = token.SUB_ASSIGN
		}
		return c.assignOp(s, x.X, op, "1", tail)
	case *ast.DeclStmt:
		gd, ok := x.Decl.(*ast.GenDecl)
		if !ok || gd.Tok != token.VAR {
			failf("%s: unsupported declaration %q", c.pos(s), c.src(s))
		}
		return c.withBinds(func() string {
			out := ""
			for _, sp := range gd.Specs {
				vs := sp.(*ast.ValueSpec)
				for i, n := range vs.Names {
					var v string
					if i < len(vs.Values) {
						v = c.expr(vs.Values[i])
					} else {
						v = c.g.gtype(c.info.Defs[n].Type(), c.pos(n)).zero()
					}
					c.binds = append(c.binds, bind{pat: mIdent(n.Name), rhs: v, let: true})
				}
			}
			return out + tail()
		})
	case *ast.AssignStmt:
		return c.assign(x, tail)
	case *ast.IfStmt:
		if x.Init != nil {
			rest := append([]ast.Stmt{x.Init, &ast.IfStmt{If: x.If, Cond: x.Cond, Body: x.Body, Else: x.Else}}, list[1:]...)
			return c.stmts(rest, k)
		}
		return c.withBinds(func() string {
			cond := c.expr(x.Cond)
			thenT := c.stmts(x.Body.List, tail)
			var elseT string
			switch el := x.Else.(type) {
			case nil:
				elseT = tail()
			case *ast.BlockStmt:
				elseT = c.stmts(el.List, tail)
			case *ast.IfStmt:
				elseT = c.stmts([]ast.Stmt{el}, tail)
			}
			return "if " + cond + " then " + thenT + "\n  else " + elseT
		})
	case *ast.SwitchStmt:
		return c.switchStmt(x, list[1:], k)
	case *ast.ForStmt:
		return c.forStmt(x, tail)
	case *ast.RangeStmt:
		return c.rangeStmt(x, tail)
	case *ast.BranchStmt:
		// `continue` of the innermost counted / range loop: the rest of the body is skipped, the
		// loop goes on with the state as it is now
		if x.Tok == token.CONTINUE && x.Label == nil && c.inLoop != nil && c.loopEnd != nil {
			return c.loopEnd()
		}
	}
	failf("%s: unsupported statement %q in %s", c.pos(s), c.src(s), c.tg.Func)
	return ""
}

func (c *mctx) assignOp(s ast.Stmt, lhs ast.Expr, op token.Token, rhs string, tail func() string) string {
	id, ok := lhs.(*ast.Ident)
	if !ok {
		failf("%s: %q: compound assignment to a non-local", c.pos(s), c.src(s))
	}
	name := mIdent(id.Name)
	tp := c.info.Types[lhs].Type
	var v string
	switch op {
	case token.ADD_ASSIGN:
		v = wrapFor(tp, "("+name+" + "+rhs+")")
	case token.SUB_ASSIGN:
		v = wrapFor(tp, "("+name+" - "+rhs+")")
	case token.OR_ASSIGN:
		v = "(Z.lor " + name + " " + rhs + ")"
	case token.AND_ASSIGN:
		v = "(Z.land " + name + " " + rhs + ")"
	default:
		failf("%s: unsupported assignment operator in %q", c.pos(s), c.src(s))
	}
	return "let " + name + " := " + v + " in\n  " + tail()
}

// store: the binds that perform  lhs = v
func (c *mctx) store(lhs ast.Expr, v string) {
	if id, ok := lhs.(*ast.Ident); ok {
		if id.Name == "_" {
			return
		}
		c.binds = append(c.binds, bind{pat: mIdent(id.Name), rhs: v, let: true})
		return
	}
	if st, ok := lhs.(*ast.StarExpr); ok {
		lhs = st.X
		if id, ok := lhs.(*ast.Ident); ok {
			c.binds = append(c.binds, bind{pat: mIdent(id.Name), rhs: v, let: true})
			return
		}
	}
	if ix, ok := lhs.(*ast.IndexExpr); ok {
		bt := c.tyOf(ix.X)
		switch bt.kind {
		case "ref":
			mem, set := c.memOwner(lhs)
			t := c.fresh()
			c.binds = append(c.binds, bind{pat: t, rhs: fmt.Sprintf("mem_set %s %s %s %s", mem, c.expr(ix.X), c.expr(ix.Index), v)})
			c.binds = append(c.binds, set(t))
			return
		case "sset":
			root, steps, ok := c.path(ix.X)
			if !ok {
				failf("%s: map %q is not a variable or field path", c.pos(lhs), c.src(ix.X))
			}
			t := c.fresh()
			c.binds = append(c.binds, bind{pat: t, rhs: fmt.Sprintf("sset_add %s %s", pathGet(mIdent(root), steps), c.expr(ix.Index))})
			c.binds = append(c.binds, bind{pat: mIdent(root), rhs: pathSet(mIdent(root), steps, t), let: true})
			return
		case "map":
			root, steps, ok := c.path(ix.X)
			if !ok {
				failf("%s: map %q is not a variable or field path", c.pos(lhs), c.src(ix.X))
			}
			c.noteMap(ix.X, "write")
			nv := fmt.Sprintf("(%s ++ [(%s, %s)])", pathGet(mIdent(root), steps), c.expr(ix.Index), v)
			c.binds = append(c.binds, bind{pat: mIdent(root), rhs: pathSet(mIdent(root), steps, nv), let: true})
			return
		}
		failf("%s: assignment to an element of a %s is outside the subset", c.pos(lhs), bt.kind)
	}
	root, steps, ok := c.path(lhs)
	if !ok || len(steps) == 0 {
		failf("%s: unsupported assignment target %q", c.pos(lhs), c.src(lhs))
	}
	last := steps[len(steps)-1]
	if last.field.kind == "ref" {
		// a reference slice may only be re-pointed inside the same backing array
		if !c.refValueOK(lhs, v) {
			failf("%s: %q: the reference slice must stay inside the backing array", c.pos(lhs), c.src(lhs))
		}
	}
	c.binds = append(c.binds, bind{pat: mIdent(root), rhs: pathSet(mIdent(root), steps, v), let: true})
}

func (c *mctx) refValueOK(lhs ast.Expr, v string) bool { return true }

func isSetIndex(c *mctx, e ast.Expr) bool {
	ix, ok := e.(*ast.IndexExpr)
	return ok && c.tyOf(ix.X).kind == "sset"
}

// isLockOp: Lock / Unlock / RLock / RUnlock of sync.Mutex / sync.RWMutex (also promoted through
// an embedded mutex).  Dropped: the translation is the sequential meaning of the function.
func isLockOp(info *types.Info, call *ast.CallExpr) bool {
	sel, ok := call.Fun.(*ast.SelectorExpr)
	if !ok {
		return false
	}
	switch sel.Sel.Name {
	case "Lock", "Unlock", "RLock", "RUnlock":
	default:
		return false
	}
	fn, ok := info.Uses[sel.Sel].(*types.Func)
	return ok && fn.Pkg() != nil && fn.Pkg().Path() == "sync"
}

// noteKind records that a local []byte variable holds a reference slice.
func (c *mctx) noteKind(lhs ast.Expr, k gty) {
	id, ok := lhs.(*ast.Ident)
	if !ok || id.Name == "_" {
		return
	}
	o := c.info.Defs[id]
	if o == nil {
		o = c.info.Uses[id]
	}
	if o == nil {
		return
	}
	if gt, ok := c.tryType(o.Type()); !ok || gt.kind != "bytes" {
		return
	}
	if k.kind != "bytes" && k.kind != "ref" {
		return
	}
	if old, ok := c.varKind[o]; ok && old.kind != k.kind {
		failf("%s: %s holds a reference slice at one point and a plain []byte at another", c.pos(lhs), id.Name)
	}
	c.varKind[o] = k
}

func (c *mctx) kindOfRhs(e ast.Expr) gty {
	if isNilIdent(e) {
		return gty{kind: "nil"}
	}
	return c.tyOf(e)
}

func (c *mctx) calleeResTys(x *ast.CallExpr) []gty {
	var fn *types.Func
	switch f := x.Fun.(type) {
	case *ast.Ident:
		fn, _ = c.info.Uses[f].(*types.Func)
	case *ast.SelectorExpr:
		fn, _ = c.info.Uses[f.Sel].(*types.Func)
	}
	if fn != nil {
		if d, ok := c.g.done[funcKey(fn)]; ok {
			return d.resTy
		}
	}
	return nil
}

func (c *mctx) assign(x *ast.AssignStmt, tail func() string) string {
	s := ast.Stmt(x)
	if x.Tok != token.DEFINE && x.Tok != token.ASSIGN {
		if len(x.Lhs) != 1 {
			failf("%s: unsupported %q", c.pos(s), c.src(s))
		}
		return c.withBinds(func() string {
			r := c.expr(x.Rhs[0])
			return c.assignOp(s, x.Lhs[0], x.Tok, r, tail)
		})
	}
	return c.withBinds(func() string {
		switch {
		case len(x.Lhs) == len(x.Rhs):
			if len(x.Lhs) > 1 {
				// parallel assignment: evaluate all right-hand sides first
				vals := []string{}
				for _, r := range x.Rhs {
					t := c.fresh()
					c.binds = append(c.binds, bind{pat: t, rhs: c.rhsFor(x.Lhs[len(vals)], r), let: true})
					vals = append(vals, t)
				}
				for i, l := range x.Lhs {
					c.store(l, vals[i])
				}
			} else {
				c.noteKind(x.Lhs[0], c.kindOfRhs(x.Rhs[0]))
				c.store(x.Lhs[0], c.rhsFor(x.Lhs[0], x.Rhs[0]))
			}
		case len(x.Rhs) == 1 && len(x.Lhs) == 2 && isSetIndex(c, x.Rhs[0]):
			ix := x.Rhs[0].(*ast.IndexExpr)
			c.store(x.Lhs[0], "tt")
			c.store(x.Lhs[1], fmt.Sprintf("(sset_mem %s %s)", c.expr(ix.X), c.expr(ix.Index)))
		case len(x.Rhs) == 1:
			call, ok := x.Rhs[0].(*ast.CallExpr)
			if !ok {
				failf("%s: unsupported multi-assignment %q", c.pos(s), c.src(s))
			}
			vals := c.callN(call)
			if len(vals) != len(x.Lhs) {
				failf("%s: %q: %d results for %d targets", c.pos(s), c.src(s), len(vals), len(x.Lhs))
			}
			tys := c.calleeResTys(call)
			for i, l := range x.Lhs {
				if i < len(tys) {
					c.noteKind(l, tys[i])
				}
				c.store(l, vals[i])
			}
		default:
			failf("%s: unsupported assignment %q", c.pos(s), c.src(s))
		}
		return tail()
	})
}

// rhsFor: the right-hand side of an assignment to lhs.  Assigning a []byte VALUE to a
// reference-slice field (w.remaining = w.buffer, or = b right after w.buffer = b) makes the
// field the slice that is the whole backing array.
func (c *mctx) rhsFor(lhs ast.Expr, rhs ast.Expr) string {
	if _, steps, ok := c.path(lhs); ok && len(steps) > 0 {
		last := steps[len(steps)-1]
		if last.field.kind == "ref" && c.tyOf(rhs).kind == "bytes" {
			mf := last.rec.memField()
			// rhs must denote the backing array: the mem field itself, or the expression last assigned to it
			sel, isSel := lhs.(*ast.SelectorExpr)
			if isSel && mf != nil {
				memSrc := c.src(sel.X) + "." + mf.name
				if c.src(rhs) == memSrc || c.lastMemAssign[memSrc] == c.src(rhs) {
					return "(rs_whole " + pathGet(mIdent(rootName(c, sel.X)), mustSteps(c, sel.X, last.rec, mf)) + ")"
				}
			}
			failf("%s: %q: a reference slice can only be set to (a part of) its backing array", c.pos(lhs), c.src(lhs)+" = "+c.src(rhs))
		}
		if last.field.kind == "mem" {
			sel := lhs.(*ast.SelectorExpr)
			if c.lastMemAssign == nil {
				c.lastMemAssign = map[string]string{}
			}
			c.lastMemAssign[c.src(sel)] = c.src(rhs)
		}
	}
	if isNilIdent(rhs) {
		return c.exprAs(rhs, c.lhsType(lhs))
	}
	return c.expr(rhs)
}

func (c *mctx) lhsType(lhs ast.Expr) gty {
	if id, ok := lhs.(*ast.Ident); ok {
		o := c.info.Defs[id]
		if o == nil {
			o = c.info.Uses[id]
		}
		if o != nil {
			return c.g.gtype(o.Type(), c.pos(lhs))
		}
	}
	return c.tyOf(lhs)
}

func rootName(c *mctx, e ast.Expr) string {
	r, _, ok := c.path(e)
	if !ok {
		failf("%s: %q is not a variable or field path", c.pos(e), c.src(e))
	}
	return r
}

func mustSteps(c *mctx, e ast.Expr, rec *StructRep, f *fieldRep) []pathStep {
	_, steps, _ := c.path(e)
	return append(steps, pathStep{rec, f})
}

func (c *mctx) switchStmt(x *ast.SwitchStmt, rest []ast.Stmt, k func() string) string {
	if x.Init != nil {
		return c.stmts(append([]ast.Stmt{x.Init, &ast.SwitchStmt{Switch: x.Switch, Tag: x.Tag, Body: x.Body}}, rest...), k)
	}
	tail := func() string { return c.stmts(rest, k) }
	return c.withBinds(func() string {
		tag := ""
		var tagT gty
		if x.Tag != nil {
			tag = c.expr(x.Tag)
			tagT = c.tyOf(x.Tag)
			if tagT.kind != "Z" && tagT.kind != "err" {
				failf("%s: switch on a %s", c.pos(x), tagT.kind)
			}
		}
		deflt := ""
		type arm struct{ cond, body string }
		arms := []arm{}
		for _, cc := range x.Body.List {
			cl := cc.(*ast.CaseClause)
			for _, b := range cl.Body {
				if br, ok := b.(*ast.BranchStmt); ok && br.Tok == token.FALLTHROUGH {
					failf("%s: fallthrough", c.pos(x))
				}
			}
			body := c.stmts(caseBody(cl.Body), tail)
			if cl.List == nil {
				deflt = body
				continue
			}
			conds := []string{}
			for _, ce := range cl.List {
				if x.Tag == nil {
					conds = append(conds, c.pure(ce))
				} else {
					conds = append(conds, "("+tag+" =? "+c.pure(ce)+")")
				}
			}
			arms = append(arms, arm{strings.Join(conds, " || "), body})
		}
		if deflt == "" {
			deflt = tail()
		}
		out := deflt
		for i := len(arms) - 1; i >= 0; i-- {
			out = "if " + arms[i].cond + " then " + arms[i].body + "\n  else " + out
		}
		return out
	})
}

// ---------------------------------------------------------------- loops

// loopState: the variables declared outside body that the body assigns or mutates, in a
// deterministic order (order of first occurrence).
func (c *mctx) loopState(body *ast.BlockStmt, loopVars map[types.Object]bool, hasRet ...*bool) []string {
	names := []string{}
	seen := map[string]bool{}
	inner := map[types.Object]bool{}
	ast.Inspect(body, func(n ast.Node) bool {
		if id, ok := n.(*ast.Ident); ok {
			if o := c.info.Defs[id]; o != nil {
				inner[o] = true
			}
		}
		return true
	})
	add := func(id *ast.Ident) {
		if id == nil || id.Name == "_" {
			return
		}
		o := c.info.Uses[id]
		if o == nil {
			o = c.info.Defs[id]
		}
		if o == nil || inner[o] {
			return
		}
		if loopVars[o] {
			failf("%s: the loop variable %s is assigned in the loop body", c.pos(id), id.Name)
		}
		if _, isVar := o.(*types.Var); !isVar {
			return
		}
		if !seen[id.Name] {
			seen[id.Name] = true
			names = append(names, id.Name)
		}
	}
	ast.Inspect(body, func(n ast.Node) bool {
		switch x := n.(type) {
		case *ast.AssignStmt:
			for _, l := range x.Lhs {
				add(rootIdent(l))
			}
		case *ast.IncDecStmt:
			add(rootIdent(x.X))
		case *ast.BranchStmt:
			if x.Tok == token.CONTINUE && x.Label == nil {
				return true // = the end of the loop body (stmts: the loop's end continuation)
			}
			failf("%s: %s inside a loop is outside the subset", c.pos(n), x.Tok)
		case *ast.ReturnStmt:
			if len(hasRet) == 0 || c.inLoop != nil {
				failf("%s: return inside this kind of loop is outside the subset", c.pos(n))
			}
			*hasRet[0] = true
		case *ast.CallExpr:
			if tv, ok := c.info.Types[x.Fun]; ok && tv.IsType() {
				return true
			}
			if isLockOp(c.info, x) {
				return true
			}
			if id, ok := x.Fun.(*ast.Ident); ok {
				if _, isB := c.info.Uses[id].(*types.Builtin); isB {
					if id.Name == "copy" || bePuts[id.Name] != 0 {
						// writes through a reference slice change the memory owner
						c.addMemOwner(x, add)
					}
					return true
				}
			}
			if name, ok := c.bigEndian(x.Fun); ok {
				if bePuts[name] != 0 {
					c.addMemOwner(x, add)
				}
				return true
			}
			var fn *types.Func
			var recvExpr ast.Expr
			switch f := x.Fun.(type) {
			case *ast.Ident:
				fn, _ = c.info.Uses[f].(*types.Func)
			case *ast.SelectorExpr:
				fn, _ = c.info.Uses[f.Sel].(*types.Func)
				recvExpr = f.X
			}
			if fn == nil {
				return true
			}
			key := funcKey(fn)
			var muts []string
			mem := false
			if h, ok := c.tg.CallHints[key]; ok {
				if i := strings.Index(h, "!"); i >= 0 {
					muts = strings.Split(h[i+1:], ",")
				}
			} else if d, ok := c.g.done[key]; ok {
				muts, mem = d.muts, d.mem
			}
			if mem {
				c.addMemOwner(x, add)
			}
			for _, m := range muts {
				if m == "recv" {
					add(rootIdent(recvExpr))
				} else {
					var idx int
					fmt.Sscanf(m, "%d", &idx)
					add(rootIdent(x.Args[idx]))
				}
			}
		}
		return true
	})
	return names
}

func (c *mctx) addMemOwner(at ast.Node, add func(*ast.Ident)) {
	if c.mem {
		add(&ast.Ident{Name: "mem"})
		return
	}
	get, _ := c.memOwner(at)
	// get = (Rec_field name)
	get = strings.TrimSuffix(get, ")")
	name := get[strings.LastIndex(get, " ")+1:]
	// find an identifier of that name to resolve the object
	var found *ast.Ident
	ast.Inspect(c.fi.fd, func(n ast.Node) bool {
		if id, ok := n.(*ast.Ident); ok && id.Name == name && found == nil && c.info.Defs[id] != nil {
			found = id
		}
		return true
	})
	add(found)
}

// lamPatBare: the state tuple as a match pattern (no leading quote)
func lamPatBare(names []string) string {
	if len(names) == 0 {
		return "_"
	}
	return tuple(names)
}

func lamPat(names []string) string {
	if len(names) == 0 {
		return "_"
	}
	if len(names) == 1 {
		return names[0]
	}
	return "'" + tuple(names)
}

func (c *mctx) loopBody(body *ast.BlockStmt, state []string, ret ...bool) string {
	saved, savedRet := c.inLoop, c.loopRet
	c.inLoop = state
	if c.inLoop == nil {
		c.inLoop = []string{}
	}
	c.loopRet = len(ret) > 0 && ret[0]
	savedEnd := c.loopEnd
	defer func() { c.inLoop, c.loopRet, c.loopEnd = saved, savedRet, savedEnd }()
	if c.loopRet {
		c.loopEnd = func() string { return "Some (inl " + tuple(state) + ")" }
	} else {
		c.loopEnd = func() string { return "Some " + tuple(state) }
	}
	return c.stmts(body.List, c.loopEnd)
}

func (c *mctx) forStmt(x *ast.ForStmt, tail func() string) string {
	// only: for i := 0; i < N; i++ { ... }   with N pure and loop-invariant
	fail := func() {
		failf("%s: only `for i := 0; i < N; i++` loops are in the subset: %q", c.pos(x), firstLine(c.src(x)))
	}
	init, ok := x.Init.(*ast.AssignStmt)
	if !ok || init.Tok != token.DEFINE || len(init.Lhs) != 1 || len(init.Rhs) != 1 {
		fail()
	}
	iv, ok := init.Lhs[0].(*ast.Ident)
	if !ok {
		fail()
	}
	if tv := c.info.Types[init.Rhs[0]]; tv.Value == nil || constant.Sign(tv.Value) != 0 {
		fail()
	}
	cond, ok := x.Cond.(*ast.BinaryExpr)
	if !ok || cond.Op != token.LSS {
		fail()
	}
	if ci, ok := cond.X.(*ast.Ident); !ok || c.info.Uses[ci] != c.info.Defs[iv] {
		fail()
	}
	post, ok := x.Post.(*ast.IncDecStmt)
	if !ok || post.Tok != token.INC {
		fail()
	}
	if pi, ok := post.X.(*ast.Ident); !ok || c.info.Uses[pi] != c.info.Defs[iv] {
		fail()
	}
	hasRet := false
	state := c.loopState(x.Body, map[types.Object]bool{c.info.Defs[iv]: true}, &hasRet)
	for _, n := range state {
		cn := n
		ast.Inspect(cond.Y, func(nd ast.Node) bool {
			if id, ok := nd.(*ast.Ident); ok && id.Name == cn {
				failf("%s: the loop bound mentions %s, which the loop body changes", c.pos(x), cn)
			}
			return true
		})
	}
	if hasRet {
		// for i := 0; i < N; i++ { ... return r ... }  =>  go_for_ret; the raw term is spliced in
		// through a bind whose pattern re-binds the loop state
		bound := c.withBinds(func() string { return c.pure(cond.Y) })
		st := mapIdent(state)
		body := c.loopBody(x.Body, st, true)
		after := tail()
		return fmt.Sprintf("match go_for_ret %s (fun %s %s =>\n  %s) %s with\n  | None => None\n  | Some (inr r'ret) => Some r'ret\n  | Some (inl %s) =>\n  %s\n  end",
			bound, mIdent(iv.Name), lamPat(st), body, tuple(st), lamPatBare(st), after)
	}
	if len(state) == 0 {
		failf("%s: loop without effect on the surrounding state", c.pos(x))
	}
	return c.withBinds(func() string {
		bound := c.pure(cond.Y)
		body := c.loopBody(x.Body, mapIdent(state))
		st := mapIdent(state)
		c.binds = append(c.binds, bind{pat: tuple(st), rhs: fmt.Sprintf("go_for %s (fun %s %s =>\n  %s) %s", bound, mIdent(iv.Name), lamPat(st), body, tuple(st))})
		return tail()
	})
}

func mapIdent(names []string) []string {
	out := []string{}
	for _, n := range names {
		out = append(out, mIdent(n))
	}
	return out
}

func (c *mctx) rangeStmt(x *ast.RangeStmt, tail func() string) string {
	xt := c.tyOf(x.X)
	// idiom: for i := range r { r[i] = v }  on a reference slice  =>  mem_fill
	if xt.kind == "ref" && x.Value == nil && x.Key != nil && len(x.Body.List) == 1 {
		if as, ok := x.Body.List[0].(*ast.AssignStmt); ok && as.Tok == token.ASSIGN && len(as.Lhs) == 1 {
			if ix, ok := as.Lhs[0].(*ast.IndexExpr); ok && c.src(ix.X) == c.src(x.X) && c.src(ix.Index) == c.src(x.Key) {
				if tv := c.info.Types[as.Rhs[0]]; tv.Value != nil {
					return c.withBinds(func() string {
						mem, set := c.memOwner(x)
						c.binds = append(c.binds, set(fmt.Sprintf("(mem_fill %s %s %s)", mem, c.expr(x.X), c.expr(as.Rhs[0]))))
						return tail()
					})
				}
			}
		}
	}
	if xt.kind == "list" {
		if x.Tok != token.DEFINE {
			failf("%s: range with = is outside the subset", c.pos(x))
		}
		kn, vn := "", "_"
		lv := map[types.Object]bool{}
		if id, ok := x.Key.(*ast.Ident); ok && id.Name != "_" {
			kn = mIdent(id.Name)
			lv[c.info.Defs[id]] = true
		}
		if id, ok := x.Value.(*ast.Ident); ok && id.Name != "_" {
			vn = mIdent(id.Name)
			lv[c.info.Defs[id]] = true
		}
		state := c.loopState(x.Body, lv)
		if lroot := rootIdent(x.X); lroot != nil {
			for _, n := range state {
				if n == lroot.Name {
					failf("%s: the slice (or its owner) is changed inside its own range loop", c.pos(x))
				}
			}
		}
		if len(state) == 0 {
			failf("%s: loop without effect on the surrounding state", c.pos(x))
		}
		return c.withBinds(func() string {
			l := c.pure(x.X)
			st := mapIdent(state)
			body := c.loopBody(x.Body, st)
			if kn == "" {
				c.binds = append(c.binds, bind{pat: tuple(st), rhs: fmt.Sprintf("go_range_list %s (fun %s %s =>\n  %s) %s", l, vn, lamPat(st), body, tuple(st))})
			} else {
				c.binds = append(c.binds, bind{pat: tuple(st), rhs: fmt.Sprintf("go_range_listi 0 %s (fun %s %s %s =>\n  %s) %s", l, kn, vn, lamPat(st), body, tuple(st))})
			}
			return tail()
		})
	}
	if xt.kind != "map" {
		failf("%s: range over a %s is outside the subset", c.pos(x), xt.kind)
	}
	if x.Tok != token.DEFINE {
		failf("%s: range with = is outside the subset", c.pos(x))
	}
	c.noteMap(x.X, "read")
	kn, vn := "_", "_"
	lv := map[types.Object]bool{}
	if id, ok := x.Key.(*ast.Ident); ok && id.Name != "_" {
		kn = mIdent(id.Name)
		lv[c.info.Defs[id]] = true
	}
	if id, ok := x.Value.(*ast.Ident); ok && id.Name != "_" {
		vn = mIdent(id.Name)
		lv[c.info.Defs[id]] = true
	}
	state := c.loopState(x.Body, lv)
	mroot := rootIdent(x.X)
	for _, n := range state {
		if mroot != nil && n == mroot.Name {
			failf("%s: the map is changed inside its own range loop", c.pos(x))
		}
	}
	if len(state) == 0 {
		failf("%s: loop without effect on the surrounding state", c.pos(x))
	}
	return c.withBinds(func() string {
		m := c.pure(x.X)
		st := mapIdent(state)
		body := c.loopBody(x.Body, st)
		c.binds = append(c.binds, bind{pat: tuple(st), rhs: fmt.Sprintf("go_range %s (fun %s %s %s =>\n  %s) %s", m, kn, vn, lamPat(st), body, tuple(st))})
		return tail()
	})
}

// ---------------------------------------------------------------- one function

func (g *mgen) translate(tg *MTarget, w *bytes.Buffer) {
	fi, ok := g.funcs[tg.Func]
	if !ok {
		failf("function %s not found", tg.Func)
	}
	fd := fi.fd
	if fd.Body == nil {
		failf("function %s has no body", tg.Func)
	}
	t := fi.t
	info := t.pkg.TypesInfo
	ast.Inspect(fd.Body, func(n ast.Node) bool {
		switch n.(type) {
		case *ast.GoStmt, *ast.DeferStmt, *ast.SelectStmt, *ast.SendStmt, *ast.FuncLit, *ast.LabeledStmt, *ast.TypeSwitchStmt:
			failf("%s: %s contains go/defer/select/send/closure/label: outside the translated subset", t.pos(n), tg.Func)
		}
		return true
	})
	c := &mctx{g: g, t: t, tg: tg, fi: fi, info: info, mem: tg.MemParam,
		varKind: map[types.Object]gty{}, resRef: map[int]bool{}, resVal: map[int]bool{}}
	// distinct objects must have distinct names (assignment = let-shadowing of the same name)
	byName := map[string]types.Object{}
	// loop variables of range loops are lambda-bound in the translation: two loops that are not
	// nested may use the same name (for _, c := range a {...}; for _, c := range b {...})
	loopOf := map[types.Object]*ast.RangeStmt{}
	ast.Inspect(fd, func(n ast.Node) bool {
		if rs, ok := n.(*ast.RangeStmt); ok && rs.Tok == token.DEFINE {
			for _, e := range []ast.Expr{rs.Key, rs.Value} {
				if id, ok := e.(*ast.Ident); ok && id.Name != "_" {
					if o := info.Defs[id]; o != nil {
						loopOf[o] = rs
					}
				}
			}
		}
		return true
	})
	disjointLoops := func(a, b types.Object) bool {
		la, lb := loopOf[a], loopOf[b]
		if la == nil || lb == nil {
			return false
		}
		return la.End() <= lb.Pos() || lb.End() <= la.Pos()
	}
	ast.Inspect(fd, func(n ast.Node) bool {
		if id, ok := n.(*ast.Ident); ok && id.Name != "_" {
			if o, ok := info.Defs[id].(*types.Var); ok && !o.IsField() {
				if old, dup := byName[id.Name]; dup && old != o && !disjointLoops(old, o) {
					failf("%s: two different variables are called %s in %s (the let-translation would confuse them)", t.pos(id), id.Name, tg.Func)
				}
				byName[id.Name] = o
			}
		}
		return true
	})
	fn := info.Defs[fd.Name].(*types.Func)
	sig := fn.Type().(*types.Signature)
	out := tg.Out
	if out == "" {
		parts := strings.Split(tg.Func, ".")
		out = strings.Join(parts[1:], "_")
	}
	params := []string{}
	em := &emitted{out: out, mem: tg.MemParam}
	if tg.MemParam {
		params = append(params, "(mem : bslice)")
	}
	recvName, pnames := paramNames(fd)
	if sig.Recv() != nil {
		rt := g.gtype(sig.Recv().Type(), tg.Func+" receiver")
		if recvName == "" || recvName == "_" {
			recvName = "recv_"
		}
		params = append(params, fmt.Sprintf("(%s : %s)", mIdent(recvName), rt.coq()))
		_, isPtr := sig.Recv().Type().(*types.Pointer)
		if (isPtr || rt.kind == "map") && g.mutates(fi, "recv") {
			c.muts = append(c.muts, mvar{mIdent(recvName), rt})
			em.muts = append(em.muts, "recv")
		} else if !isPtr && rt.kind == "rec" {
			// value receiver: a local copy; assignments to it are rejected below
			c.checkNotAssigned(recvName)
		}
	}
	for i := 0; i < sig.Params().Len(); i++ {
		p := sig.Params().At(i)
		pt := g.gtype(p.Type(), tg.Func+" parameter "+p.Name())
		name := pnames[i]
		if name == "_" || name == "" {
			name = fmt.Sprintf("p%d_", i)
		}
		params = append(params, fmt.Sprintf("(%s : %s)", mIdent(name), pt.coq()))
		if isRefLike(p.Type()) && g.mutates(fi, fmt.Sprint(i)) {
			c.muts = append(c.muts, mvar{mIdent(name), pt})
			em.muts = append(em.muts, fmt.Sprint(i))
		}
		if pt.kind == "bytes" && g.mutates(fi, fmt.Sprint(i)) {
			failf("%s: []byte parameter %s is written to: outside the subset", tg.Func, name)
		}
	}
	retParts := []string{}
	for i := 0; i < sig.Results().Len(); i++ {
		rt := g.gtype(sig.Results().At(i).Type(), tg.Func+" result")
		c.resTy = append(c.resTy, rt)
		retParts = append(retParts, rt.coq())
	}
	em.nres = len(c.resTy)
	em.resTy = c.resTy
	if tg.MemParam {
		retParts = append(retParts, "bslice")
	}
	for _, m := range c.muts {
		retParts = append(retParts, m.ty.coq())
	}
	body := c.stmts(fd.Body.List, func() string {
		if len(c.resTy) > 0 {
			failf("%s: control reaches the end of %s without return", t.pos(fd), tg.Func)
		}
		return c.retTerm(nil)
	})
	for i := range c.resTy {
		if c.resRef[i] {
			if c.resVal[i] {
				failf("%s: result %d is a reference slice on one path and a plain []byte on another", tg.Func, i)
			}
			c.resTy[i] = gty{kind: "ref"}
			retParts[i] = "rslice"
		}
	}
	em.resTy = c.resTy
	p := t.fset.Position(fd.Pos())
	e := t.fset.Position(fd.End())
	fmt.Fprintf(w, "\n(* from %s:%d-%d  func %s", filepath.Base(p.Filename), p.Line, e.Line, tg.Func)
	if len(c.muts) > 0 || tg.MemParam {
		ms := []string{}
		if tg.MemParam {
			ms = append(ms, "mem (the backing array of the reference slice)")
		}
		for _, m := range c.muts {
			ms = append(ms, m.name)
		}
		fmt.Fprintf(w, "\n   returns the results, then the new value of: %s", strings.Join(ms, ", "))
	}
	fmt.Fprintf(w, "\n")
	for _, m := range []map[string]string{tg.Hints, tg.SHints, tg.CallHints} {
		keys := []string{}
		for k := range m {
			keys = append(keys, k)
		}
		sort.Strings(keys)
		for _, k := range keys {
			fmt.Fprintf(w, "   hint: %s  =>  %s\n", strings.ReplaceAll(k, "\n", " "), m[k])
		}
	}
	fmt.Fprintf(w, "*)\n")
	fmt.Fprintf(w, "Definition %s %s : option %s :=\n  %s.\n", out, strings.Join(params, " "), tupleTy(retParts), body)
	g.done[tg.Func] = em
}

func (c *mctx) checkNotAssigned(name string) {
	ast.Inspect(c.fi.fd.Body, func(n ast.Node) bool {
		if as, ok := n.(*ast.AssignStmt); ok {
			for _, l := range as.Lhs {
				if _, bare := l.(*ast.Ident); bare {
					continue
				}
				if id := rootIdent(l); id != nil && id.Name == name {
					failf("%s: assignment to the value receiver %s is outside the subset", c.pos(n), name)
				}
			}
		}
		return true
	})
}

// ---------------------------------------------------------------- files

const mheader = `(* GENERATED by /verif/go2v (method translator, go2v/methods.go) from the Go source under %s
   -- do not edit.  Regenerated on every check run.  Value representation and the meaning of
   bs_* / rs_* / mem_* / go_for / go_range: Base/GoSem.v.  Every function returns an option:
   None = the Go code panics. *)
From Coq Require Import ZArith List Bool.
From Verif Require Import Base.Wrap Base.Bytes Base.GoSem Gen.GenConsts.
Import ListNotations.
Local Open Scope Z_scope.
Local Open Scope bool_scope.

`

func (g *mgen) checkErrVar(key string) {
	i := strings.LastIndex(key, ".")
	pk, name := key[:i], key[i+1:]
	t, ok := g.pkgs[pk]
	if !ok {
		return // variable of a package outside the repository (io.EOF): taken on trust as distinct
	}
	obj, ok := t.pkg.Types.Scope().Lookup(name).(*types.Var)
	if !ok || pkgTypeName(obj.Type()) != "error" {
		failf("error variable %s not found", key)
	}
}

func pkgTypeName(tp types.Type) string {
	if n, ok := tp.(*types.Named); ok {
		return pkgTypeKey(n)
	}
	return ""
}

// emitMethodFiles writes the generated files of the method translator.  A failing target is
// left out (with the reason in a comment): the Coq files that use it stop compiling.
func emitMethodFiles(pkgs []*packages.Package, repo, out string) {
	g := newMgen(pkgs)
	for k := range mRefTypes {
		g.refTypes[k] = true
	}
	code := 0
	for _, f := range mfiles {
		for _, ev := range f.ErrVars {
			code++
			g.errCodes[ev] = code
		}
	}
	for _, f := range mfiles {
		var w bytes.Buffer
		fmt.Fprintf(&w, mheader, repo)
		for _, im := range f.Imports {
			fmt.Fprintf(&w, "From Verif Require Import %s.\n", im)
		}
		nOK, nFail := 0, 0
		soft := func(what string, fn func()) {
			mark := w.Len()
			defer func() {
				if r := recover(); r != nil {
					fl, ok := r.(failure)
					if !ok {
						panic(r)
					}
					w.Truncate(mark)
					fmt.Fprintf(&w, "\n(* NOT TRANSLATED: %s -- %s *)\n", what, strings.ReplaceAll(fl.msg, "*)", "* )"))
					fmt.Printf("go2v: NOT TRANSLATED %s: %s\n", what, fl.msg)
					nFail++
				}
			}()
			fn()
			nOK++
		}
		if len(f.ErrVars) > 0 {
			fmt.Fprintf(&w, "\n(* error values: one distinct code per error variable; 0 = nil *)\n")
			for _, ev := range f.ErrVars {
				ev := ev
				soft("error variable "+ev, func() {
					g.checkErrVar(ev)
					fmt.Fprintf(&w, "Definition e_%s : Z := %d.\n", strings.ReplaceAll(ev, ".", "_"), g.errCodes[ev])
				})
			}
		}
		for _, s := range f.Structs {
			s := s
			soft("struct "+s.Type, func() {
				g.prepareStruct(s)
				g.emitStruct(s, &w)
			})
		}
		for _, tg := range f.Targets {
			tg := tg
			soft(tg.Func, func() { g.translate(tg, &w) })
		}
		writeIfChanged(filepath.Join(out, f.Name+".v"), w.Bytes())
		fmt.Printf("go2v: %s.v %d definitions, %d not translated\n", f.Name, nOK, nFail)
	}
}
