package main

// cksites.go (C02): the table of every operation on a POOLED CHECKSUM OBJECT in the non-test
// source of package tchannel, regenerated on every run as Gen/GenCkSites.ck_sites.
//
// One row per call site, in source order (file, then position), as
//     (enclosing function, kind, receiver expression, guard)
// kind:
//   New          ChecksumType.New()                       -- acquires an object from the pool
//   Release      x.Release() with x a Checksum            -- gives the object back
//   TypeRelease  ChecksumType.Release(x)                  -- the pool side of Release
//   Get / Put    sync.Pool Get/Put on a checksum pool     -- (checksum.go only)
//   Add / Sum / Reset   uses of the running state
//   Wrap         composite literal noReleaseChecksum{...} -- an alias whose Release is a no-op
//   Store        a checksum stored into a struct field (assignment or composite-literal field)
//   Pass         a checksum passed as an argument: "callee(arg)"
// guard: the conditions enclosing the call inside its function, outermost first, joined by
// " && " ("!(c)" for an else branch, "case ..." for switch/select clauses, "for", "range",
// "defer", "func" for a function literal) -- so that a Release moved out of its `if`, or made
// unconditional, changes the row.  Line numbers are not part of a row: unrelated edits do not
// disturb the table; a new, removed, moved or re-guarded pooled-checksum operation does.

import (
	"bytes"
	"fmt"
	"go/ast"
	"go/types"
	"path/filepath"
	"sort"
	"strings"
)

type ckSite struct {
	file              string
	pos               int
	fn, kind, rx, grd string
}

func (t *translator) oneLine(n ast.Node) string {
	s := t.src(n)
	s = strings.Join(strings.Fields(s), " ")
	if len(s) > 80 {
		s = s[:80]
	}
	return s
}

func (t *translator) ckSites(w *bytes.Buffer, name string) int {
	info := t.pkg.TypesInfo
	scope := t.pkg.Types.Scope()
	var ckIface *types.Interface
	if o := scope.Lookup("Checksum"); o != nil {
		if it, ok := o.Type().Underlying().(*types.Interface); ok {
			ckIface = it
		}
	}
	if ckIface == nil {
		failf("cksites: interface Checksum not found")
	}
	isChecksum := func(ty types.Type) bool {
		if ty == nil {
			return false
		}
		if types.Implements(ty, ckIface) {
			return true
		}
		if _, isPtr := ty.(*types.Pointer); !isPtr {
			if _, isIface := ty.Underlying().(*types.Interface); !isIface {
				return types.Implements(types.NewPointer(ty), ckIface)
			}
		}
		return false
	}
	typeName := func(ty types.Type) string {
		if p, ok := ty.(*types.Pointer); ok {
			ty = p.Elem()
		}
		if n, ok := ty.(*types.Named); ok {
			return n.Obj().Name()
		}
		return ""
	}

	var sites []ckSite
	for _, f := range t.pkg.Syntax {
		fname := filepath.Base(t.fset.Position(f.Pos()).Filename)
		if strings.HasSuffix(fname, "_test.go") || strings.HasPrefix(fname, "zz_verif") {
			continue
		}
		for _, d := range f.Decls {
			fd, ok := d.(*ast.FuncDecl)
			if !ok || fd.Body == nil {
				continue
			}
			fn := fd.Name.Name
			if fd.Recv != nil && len(fd.Recv.List) == 1 {
				rt := fd.Recv.List[0].Type
				if st, ok := rt.(*ast.StarExpr); ok {
					rt = st.X
				}
				if id, ok := rt.(*ast.Ident); ok {
					fn = id.Name + "." + fn
				}
			}
			add := func(n ast.Node, kind, rx string, guard []string) {
				sites = append(sites, ckSite{fname, int(n.Pos()), fn, kind, rx, strings.Join(guard, " && ")})
			}
			var walk func(n ast.Node, guard []string)
			walkList := func(l []ast.Stmt, guard []string) {
				for _, s := range l {
					walk(s, guard)
				}
			}
			with := func(guard []string, g string) []string {
				return append(append([]string{}, guard...), g)
			}
			walk = func(n ast.Node, guard []string) {
				switch x := n.(type) {
				case nil:
					return
				case *ast.IfStmt:
					walk(x.Init, guard)
					walk(x.Cond, guard)
					c := t.oneLine(x.Cond)
					walk(x.Body, with(guard, c))
					if x.Else != nil {
						walk(x.Else, with(guard, "!("+c+")"))
					}
					return
				case *ast.ForStmt:
					walk(x.Init, guard)
					g := with(guard, "for")
					if x.Cond != nil {
						walk(x.Cond, g)
					}
					walk(x.Post, g)
					walk(x.Body, g)
					return
				case *ast.RangeStmt:
					walk(x.X, guard)
					walk(x.Body, with(guard, "range"))
					return
				case *ast.CaseClause:
					g := "default"
					if len(x.List) > 0 {
						var ps []string
						for _, e := range x.List {
							walk(e, guard)
							ps = append(ps, t.oneLine(e))
						}
						g = "case " + strings.Join(ps, ", ")
					}
					walkList(x.Body, with(guard, g))
					return
				case *ast.CommClause:
					g := "default"
					if x.Comm != nil {
						walk(x.Comm, guard)
						g = "case " + t.oneLine(x.Comm)
					}
					walkList(x.Body, with(guard, g))
					return
				case *ast.DeferStmt:
					walk(x.Call, with(guard, "defer"))
					return
				case *ast.GoStmt:
					walk(x.Call, with(guard, "go"))
					return
				case *ast.FuncLit:
					walk(x.Body, with(guard, "func"))
					return
				case *ast.CompositeLit:
					if tv, ok := info.Types[x]; ok && typeName(tv.Type) == "noReleaseChecksum" {
						rx := ""
						for _, e := range x.Elts {
							if kv, ok := e.(*ast.KeyValueExpr); ok {
								rx = t.oneLine(kv.Value)
							} else {
								rx = t.oneLine(e)
							}
						}
						add(x, "Wrap", rx, guard)
					}
				case *ast.AssignStmt:
					// Store: a checksum assigned to a struct field
					for i, l := range x.Lhs {
						_ = i
						if _, isSel := l.(*ast.SelectorExpr); !isSel {
							continue
						}
						if tv, ok := info.Types[l]; ok && isChecksum(tv.Type) {
							add(l, "Store", t.oneLine(l), guard)
						}
					}
				case *ast.KeyValueExpr:
					if id, ok := x.Key.(*ast.Ident); ok {
						if tv, ok := info.Types[x.Value]; ok && isChecksum(tv.Type) {
							add(x, "Store", id.Name+": "+t.oneLine(x.Value), guard)
						}
					}
				case *ast.CallExpr:
					// Pass: a checksum handed to another function
					handled := false
					if sel, ok := x.Fun.(*ast.SelectorExpr); ok {
						if tv, ok := info.Types[sel.X]; ok && tv.Type != nil && typeName(tv.Type) == "ChecksumType" {
							handled = true
						}
					}
					if !handled {
						for _, a := range x.Args {
							if tv, ok := info.Types[a]; ok && tv.Type != nil && isChecksum(tv.Type) {
								add(a, "Pass", t.oneLine(x.Fun)+"("+t.oneLine(a)+")", guard)
							}
						}
					}
					if sel, ok := x.Fun.(*ast.SelectorExpr); ok {
						if tv, ok := info.Types[sel.X]; ok && tv.Type != nil {
							rn := typeName(tv.Type)
							m := sel.Sel.Name
							switch {
							case rn == "ChecksumType" && m == "New":
								add(x, "New", t.oneLine(sel.X), guard)
							case rn == "ChecksumType" && m == "Release":
								rx := ""
								if len(x.Args) == 1 {
									rx = t.oneLine(x.Args[0])
								}
								add(x, "TypeRelease", rx, guard)
							case rn == "Pool" && (m == "Get" || m == "Put") &&
								(strings.Contains(t.src(sel.X), "pool()") || strings.Contains(t.src(sel.X), "checksumPools")):
								add(x, m, t.oneLine(sel.X), guard)
							case isChecksum(tv.Type) && (m == "Release" || m == "Add" || m == "Sum" || m == "Reset"):
								add(x, m, t.oneLine(sel.X), guard)
							}
						}
					}
				}
				// generic descent, children in source order
				var kids []ast.Node
				first := true
				ast.Inspect(n, func(c ast.Node) bool {
					if first {
						first = false
						return true
					}
					if c != nil {
						kids = append(kids, c)
					}
					return false
				})
				for _, c := range kids {
					walk(c, guard)
				}
			}
			walk(fd.Body, nil)
		}
	}
	sort.SliceStable(sites, func(i, j int) bool {
		if sites[i].file != sites[j].file {
			return sites[i].file < sites[j].file
		}
		return sites[i].pos < sites[j].pos
	})
	fmt.Fprintf(w, "Definition %s : list (list Z * list Z * list Z * list Z) := [\n", name)
	for i, s := range sites {
		sep := ";"
		if i == len(sites)-1 {
			sep = ""
		}
		cm := fmt.Sprintf("%s %s: %s %s [%s]", s.file, s.fn, s.kind, s.rx, s.grd)
		cm = strings.ReplaceAll(strings.ReplaceAll(cm, "*)", "* )"), "(*", "( *")
		fmt.Fprintf(w, "  (* %d: %s *)\n  (%s, %s, %s, %s)%s\n", i+1, cm, strlit(s.fn), strlit(s.kind), strlit(s.rx), strlit(s.grd), sep)
	}
	fmt.Fprintf(w, "].\n")
	return len(sites)
}
