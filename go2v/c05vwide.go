package main

// Property C05 (b), WIDE wait-site table: the blocking statements in the closure of the call
// API when calls THROUGH FUNCTION VALUES stored inside the package are followed as well.
//
// waitsites.go follows declared functions, methods and package interfaces only; the caller's
// goroutine, however, also runs the package's own callbacks: the func-typed struct fields
// messageExchangeSet.onCancel / onRemoved / onAdded (set in newConnection to Connection.onCancel,
// checkExchanges, onExchangeAdded) and connectionEvents.OnActive / OnCloseStateChange /
// OnExchangeUpdated (set in Channel.Connect / Channel.serve to methods of Channel), often
// through a local variable (`if onCancel := mex.mexset.onCancel; onCancel != nil {
// onCancel(id) }`).  That is how a caller that gives up ends up in Connection.onCancel ->
// connectionError -> close -> Channel.connectionCloseStateChange -> ... in its OWN goroutine.
// A blocking statement placed anywhere in there (a blocking send of the cancel frame, a
// WaitGroup.Wait in a close callback) holds the caller beyond its deadline and is invisible to
// the narrow table.
//
// Emitted at the end of Gen/GenLockProgs.v:
//   c05v_wait_sites : list wsite    the wait sites (same vocabulary, same per-function extraction
//                                   sitesOf as waitsites.go) of the WIDE closure of waitEntries:
//                                   a call of a func-typed struct field, or of a local variable
//                                   given such a field's value, reaches every declared function /
//                                   method value stored into that field anywhere in the package
//   c05v_wait_joins : list wjoin    for each bare receive `<-x.done` in that closure that is a JOIN
//                                   of a goroutine of the package: the function it is in, the
//                                   goroutine's function (the one with `defer close(x.done)`, started
//                                   by a go statement), whether the statement right before the
//                                   receive is a call of a context.CancelFunc (the goroutine was just
//                                   told to stop), and the wait sites of the goroutine's own closure
//                                   (declared callees; each must be leavable through a context, a
//                                   timer or a connection deadline -- decided in Coq)
// Trusted (syntactic approximation): which function values are stored into a field (assignments
// `x.f = v` and composite-literal keys `f: v` with v a declared function or a method value;
// function literals stored in fields and values from outside the package are not followed); that the
// cancelled context is the one the joined goroutine selects on.

import (
	"bytes"
	"fmt"
	"go/ast"
	"go/token"
	"go/types"
	"sort"
	"strings"
)

type c05vWide struct {
	a          *wsAnalysis
	fieldFuncs map[types.Object][]*types.Func
	localField map[types.Object][]types.Object
	callees    map[*types.Func][]*types.Func
}

func c05vUnparen(e ast.Expr) ast.Expr {
	for {
		p, ok := e.(*ast.ParenExpr)
		if !ok {
			return e
		}
		e = p.X
	}
}

// declaredFuncValue: the declared function or method a function-valued expression denotes
func (x *c05vWide) declaredFuncValue(e ast.Expr) *types.Func {
	switch v := c05vUnparen(e).(type) {
	case *ast.Ident:
		if fn, ok := x.a.info.Uses[v].(*types.Func); ok {
			return fn
		}
	case *ast.SelectorExpr:
		if s, ok := x.a.info.Selections[v]; ok {
			if s.Kind() == types.MethodVal {
				if fn, ok := s.Obj().(*types.Func); ok {
					return fn
				}
			}
			return nil
		}
		if fn, ok := x.a.info.Uses[v.Sel].(*types.Func); ok {
			return fn
		}
	}
	return nil
}

// funcFieldOf: the func-typed struct field a selector expression reads, or nil
func (x *c05vWide) funcFieldOf(e ast.Expr) types.Object {
	if sel, ok := c05vUnparen(e).(*ast.SelectorExpr); ok {
		if s, ok := x.a.info.Selections[sel]; ok && s.Kind() == types.FieldVal {
			if _, isSig := s.Obj().Type().Underlying().(*types.Signature); isSig {
				return s.Obj()
			}
		}
	}
	return nil
}

func newC05vWide(a *wsAnalysis) *c05vWide {
	x := &c05vWide{a: a, fieldFuncs: map[types.Object][]*types.Func{}, localField: map[types.Object][]types.Object{}, callees: map[*types.Func][]*types.Func{}}
	addField := func(fo types.Object, v ast.Expr) {
		fn := x.declaredFuncValue(v)
		if fn == nil {
			return
		}
		for _, old := range x.fieldFuncs[fo] {
			if old == fn {
				return
			}
		}
		x.fieldFuncs[fo] = append(x.fieldFuncs[fo], fn)
	}
	bindLocal := func(id *ast.Ident, v ast.Expr) {
		obj := a.info.Defs[id]
		if obj == nil {
			obj = a.info.Uses[id]
		}
		if obj == nil {
			return
		}
		if fo := x.funcFieldOf(v); fo != nil {
			x.localField[obj] = append(x.localField[obj], fo)
		}
	}
	for _, fd := range a.decl {
		ast.Inspect(fd.Body, func(n ast.Node) bool {
			switch s := n.(type) {
			case *ast.AssignStmt:
				if len(s.Lhs) != len(s.Rhs) {
					return true
				}
				for i, r := range s.Rhs {
					if fo := x.funcFieldOf(s.Lhs[i]); fo != nil {
						addField(fo, r)
					} else if id, ok := s.Lhs[i].(*ast.Ident); ok {
						bindLocal(id, r)
					}
				}
			case *ast.ValueSpec:
				if len(s.Names) == len(s.Values) {
					for i, v := range s.Values {
						bindLocal(s.Names[i], v)
					}
				}
			case *ast.KeyValueExpr:
				if id, ok := s.Key.(*ast.Ident); ok {
					if obj, ok := a.info.Uses[id].(*types.Var); ok && obj.IsField() {
						if _, isSig := obj.Type().Underlying().(*types.Signature); isSig {
							addField(obj, s.Value)
						}
					}
				}
			}
			return true
		})
	}
	for fn, fd := range a.decl {
		seen := map[*types.Func]bool{}
		for _, c := range a.callees[fn] {
			seen[c] = true
			x.callees[fn] = append(x.callees[fn], c)
		}
		walkSameGoroutine(fd.Body, func(n ast.Node) bool {
			call, ok := n.(*ast.CallExpr)
			if !ok {
				return true
			}
			for _, c := range x.fieldCallees(call) {
				if _, ours := a.decl[c]; ours && !seen[c] {
					seen[c] = true
					x.callees[fn] = append(x.callees[fn], c)
				}
			}
			return true
		})
		sort.Slice(x.callees[fn], func(i, j int) bool { return a.name[x.callees[fn][i]] < a.name[x.callees[fn][j]] })
	}
	return x
}

// fieldCallees: the declared functions a call through a function value may reach
func (x *c05vWide) fieldCallees(call *ast.CallExpr) []*types.Func {
	fun := c05vUnparen(call.Fun)
	var out []*types.Func
	if fo := x.funcFieldOf(fun); fo != nil {
		out = append(out, x.fieldFuncs[fo]...)
	}
	if id, ok := fun.(*ast.Ident); ok {
		if obj := x.a.info.Uses[id]; obj != nil {
			for _, fo := range x.localField[obj] {
				out = append(out, x.fieldFuncs[fo]...)
			}
		}
	}
	return out
}

func (x *c05vWide) closureOf(roots []*types.Func, graph map[*types.Func][]*types.Func) []*types.Func {
	in := map[*types.Func]bool{}
	work := append([]*types.Func(nil), roots...)
	for _, r := range roots {
		in[r] = true
	}
	for len(work) > 0 {
		fn := work[len(work)-1]
		work = work[:len(work)-1]
		for _, c := range graph[fn] {
			if !in[c] {
				in[c] = true
				work = append(work, c)
			}
		}
	}
	var fns []*types.Func
	for fn := range in {
		fns = append(fns, fn)
	}
	sort.Slice(fns, func(i, j int) bool { return x.a.name[fns[i]] < x.a.name[fns[j]] })
	return fns
}

func (x *c05vWide) sitesOfAll(fns []*types.Func) []waitSite {
	var sites []waitSite
	for _, fn := range fns {
		ss := x.a.sitesOf(fn)
		sort.SliceStable(ss, func(i, j int) bool { return ss[i].at < ss[j].at })
		sites = append(sites, ss...)
	}
	return sites
}

type c05vJoin struct {
	fn, goroutine, pos string
	cancelled          bool
	sites              []waitSite
}

// isCancelCall: a call statement of a value of type context.CancelFunc
func (x *c05vWide) isCancelCall(s ast.Stmt) bool {
	es, ok := s.(*ast.ExprStmt)
	if !ok {
		return false
	}
	call, ok := es.X.(*ast.CallExpr)
	if !ok || len(call.Args) != 0 {
		return false
	}
	tp := x.a.typeOf(call.Fun)
	return tp != nil && isNamed(tp, "context", "CancelFunc")
}

// closers: channel field -> the declared functions that `defer close(x.f)` it
func (x *c05vWide) closers() map[types.Object][]*types.Func {
	out := map[types.Object][]*types.Func{}
	for fn, fd := range x.a.decl {
		for _, s := range fd.Body.List {
			d, ok := s.(*ast.DeferStmt)
			if !ok {
				continue
			}
			id, ok := d.Call.Fun.(*ast.Ident)
			if !ok || id.Name != "close" || len(d.Call.Args) != 1 {
				continue
			}
			if _, isB := x.a.info.Uses[id].(*types.Builtin); !isB {
				continue
			}
			if sel, ok := c05vUnparen(d.Call.Args[0]).(*ast.SelectorExpr); ok {
				if sl, ok := x.a.info.Selections[sel]; ok && sl.Kind() == types.FieldVal {
					out[sl.Obj()] = append(out[sl.Obj()], fn)
				}
			}
		}
	}
	return out
}

// startedByGo: the declared functions that some go statement of the package starts
func (x *c05vWide) startedByGo() map[*types.Func]bool {
	out := map[*types.Func]bool{}
	for _, fd := range x.a.decl {
		ast.Inspect(fd.Body, func(n ast.Node) bool {
			if g, ok := n.(*ast.GoStmt); ok {
				for _, c := range x.a.calleesOf(g.Call) {
					out[c] = true
				}
			}
			return true
		})
	}
	return out
}

// joins of the functions fns: bare receives on a channel field that a goroutine of the package closes when it ends
func (x *c05vWide) joins(fns []*types.Func) []c05vJoin {
	closers := x.closers()
	started := x.startedByGo()
	var out []c05vJoin
	for _, fn := range fns {
		fd := x.a.decl[fn]
		var scan func(list []ast.Stmt)
		scan = func(list []ast.Stmt) {
			for i, s := range list {
				if es, ok := s.(*ast.ExprStmt); ok {
					if u, ok := c05vUnparen(es.X).(*ast.UnaryExpr); ok && u.Op == token.ARROW {
						if sel, ok := c05vUnparen(u.X).(*ast.SelectorExpr); ok {
							if sl, ok := x.a.info.Selections[sel]; ok && sl.Kind() == types.FieldVal {
								for _, g := range closers[sl.Obj()] {
									if !started[g] {
										continue
									}
									j := c05vJoin{fn: x.a.name[fn], goroutine: x.a.name[g], pos: x.a.t.pos(s) + " " + x.a.oneLine(s)}
									j.cancelled = i > 0 && x.isCancelCall(list[i-1])
									j.sites = x.sitesOfAll(x.closureOf([]*types.Func{g}, x.a.callees))
									out = append(out, j)
								}
							}
						}
					}
				}
				ast.Inspect(s, func(n ast.Node) bool {
					if n == s {
						return true
					}
					switch b := n.(type) {
					case *ast.BlockStmt:
						scan(b.List)
						return false
					case *ast.CaseClause:
						scan(b.Body)
						return false
					case *ast.CommClause:
						scan(b.Body)
						return false
					case *ast.FuncLit:
						return false
					}
					return true
				})
			}
		}
		scan(fd.Body.List)
	}
	return out
}

func c05vEmitSites(w *bytes.Buffer, sites []waitSite, indent string) {
	for i, s := range sites {
		sep := ";"
		if i == len(sites)-1 {
			sep = ""
		}
		fmt.Fprintf(w, "%s(* %s %s: %s *)\n%smkWsite %s %s [%s]%s\n", indent, s.pos, s.fn, s.text, indent, strlit(s.fn), s.kind, strings.Join(s.exits, "; "), sep)
	}
}

// c05vWideTables appends the wide tables to Gen/GenLockProgs.v.
func (t *translator) c05vWideTables(w *bytes.Buffer) (nsites, njoins, nfuncs, nnarrow int) {
	a := newWsAnalysis(t)
	a.ioLockScan()
	a.computeClosure()
	a.computeGuarded()
	x := newC05vWide(a)
	byName := map[string]*types.Func{}
	for fn, n := range a.name {
		byName[n] = fn
	}
	var roots []*types.Func
	for _, e := range waitEntries {
		fn, ok := byName[e]
		if !ok {
			failf("wide wait sites: entry point %s not found in the source", e)
		}
		roots = append(roots, fn)
	}
	fns := x.closureOf(roots, x.callees)
	sites := x.sitesOfAll(fns)
	joins := x.joins(fns)
	var added []string
	for _, fn := range fns {
		if !a.closure[fn] {
			added = append(added, a.name[fn])
		}
	}
	var fields []string
	for fo, vals := range x.fieldFuncs {
		var names []string
		for _, v := range vals {
			names = append(names, a.name[v])
		}
		sort.Strings(names)
		fields = append(fields, fmt.Sprintf("%s = {%s}", fo.Name(), strings.Join(names, ", ")))
	}
	sort.Strings(fields)
	fmt.Fprintf(w, "\n(* ---- go2v/c05vwide.go: the wait sites of the call path WITH calls through function values followed ---- *)\n")
	fmt.Fprintf(w, "From Verif Require Import Spec.C05VWideSpec.\n\n")
	fmt.Fprintf(w, "(* function values stored into func-typed struct fields inside the package: %s\n   functions in the wide closure that the narrow one (Gen/GenWaitSites.v) lacks: %s *)\n",
		strings.ReplaceAll(strings.Join(fields, "; "), "*)", "* )"), strings.Join(added, ", "))
	fmt.Fprintf(w, "Definition c05v_wait_sites : list wsite := [\n")
	c05vEmitSites(w, sites, "  ")
	fmt.Fprintf(w, "].\n\n")
	fmt.Fprintf(w, "Definition c05v_wait_joins : list wjoin := [")
	for i, j := range joins {
		if i > 0 {
			fmt.Fprintf(w, ";")
		}
		fmt.Fprintf(w, "\n  (* %s: joins goroutine %s *)\n  mkWjoin %s %s %s [\n", j.pos, j.goroutine, strlit(j.fn), strlit(j.goroutine), lpBool(j.cancelled))
		c05vEmitSites(w, j.sites, "    ")
		fmt.Fprintf(w, "  ]")
	}
	fmt.Fprintf(w, "\n].\n\n")
	fmt.Fprintf(w, "Definition c05v_wide_root_count : Z := %d.\nDefinition c05v_narrow_root_count : Z := %d.\n", len(fns), len(a.closure))
	return len(sites), len(joins), len(fns), len(a.closure)
}

// c05vWideFallback: the tables when the extraction failed: one site without exits refutes the theorem
func c05vWideFallback(w *bytes.Buffer) {
	fmt.Fprintf(w, "From Verif Require Import Spec.C05VWideSpec.\nDefinition c05v_wait_sites : list wsite := [mkWsite [] WOther []].\nDefinition c05v_wait_joins : list wjoin := [].\nDefinition c05v_wide_root_count : Z := 0.\nDefinition c05v_narrow_root_count : Z := 0.\n")
}
