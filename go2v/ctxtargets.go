package main

// C20 (wait sites) -- the error FLOW between a context-end consumer (Gen/GenCtxSites.v) and the
// caller of the API, regenerated on every run into Gen/GenCtxErr.v.  The error type E and its
// observations are parameters; Model/CtxPath.v instantiates them with the error ADT of
// Model/ErrorPath.v and composes the pieces along the call path.
//
//	connectDialErr        Channel.Connect: what becomes of the dialer's error (`if err != nil {...}`
//	                      behind `tcpConn, err := ch.dialer(ctx, hostPort)`)
//	initErrorMap          Channel.initError: what becomes of a handshake failure (the socket
//	                      deadline set from ctx.Deadline() shows up as a net.Error with Timeout())
//	outboundHandshakeErr  Channel.outboundHandshake: the deferred `err = ch.initError(...)`
//	getConnLockErr / getConnTail            Peer.GetConnection: the error of lockNewConn / Connect
//	getConnRelayLockErr / getConnRelayTail  Peer.getConnectionRelay: the same for the relay's lookup
//	peerBeginCallErr      Peer.BeginCall: validateCall / GetConnection / beginCall errors
//
// A changed condition, a wrapped or replaced error, a dropped GetContextError: the definition
// changes (or is not generated) and Proofs/CtxPathP.v no longer compiles.
func init() {
	logS := map[string]string{"ch.log.WithFields(...": ""}
	isNil := map[string]string{"err != nil": "(negb (is_nil err))", "err == nil": "(is_nil err)"}
	targets = append(targets, []Target{
		{Func: "Channel.Connect", Out: "connectDialErr", File: "GenCtxErr", RetIdx: 1,
			Params: "{E : Type} (is_nil is_net is_net_timeout : E -> bool) (ctx_canceled : bool) (errTimeout errRequestCancelled : E) (getContextError : E -> E) (err : E)", Ret: "E",
			Stmt: "if err != nil {", Rest: "err",
			Hints: merge(isNil, map[string]string{
				"err.(net.Error)":               "(err, is_net err)",
				"ne.Timeout()":                  "(is_net_timeout ne)",
				"ctx.Err() == context.Canceled": "ctx_canceled",
				"ErrTimeout":                    "errTimeout",
				"ErrRequestCancelled":           "errRequestCancelled",
				"call:GetContextError":          "getContextError",
			}),
			SHints: logS},
		{Func: "Channel.initError", Out: "initErrorMap", File: "GenCtxErr",
			Params: "{E : Type} (is_nil is_net is_net_timeout is_eof : E -> bool) (nilE errTimeout wrappedEOF : E) (err : E)", Ret: "E",
			Hints: merge(isNil, map[string]string{
				"err.(net.Error)": "(err, is_net err)",
				"ne.Timeout()":    "(is_net_timeout ne)",
				"err == io.EOF":   "(is_eof err)",
				"ErrTimeout":      "errTimeout",
				"NewWrappedSystemError(ErrCodeNetwork, io.EOF)": "wrappedEOF",
				"nil": "nilE",
			}),
			SHints: merge(logS, map[string]string{
				"c.SetWriteDeadline(...":                         "",
				"message := err.Error()":                         "",
				"if len(message) > maxInitErrorMessageSize {...": "",
				"ch.writeMessage(c, &errorMessage{...":           "",
				"c.Close()":                                      "",
			})},
		{Func: "Channel.outboundHandshake", Out: "outboundHandshakeErr", File: "GenCtxErr",
			Params: "{E : Type} (initError : E -> E) (err : E)", Ret: "E",
			Stmt: "err = ch.initError(c, outbound, 1, err)", Rest: "err", AssignRet: "err",
			Hints: map[string]string{"ch.initError(c, outbound, 1, err)": "(initError err)"}},
		{Func: "Peer.GetConnection", Out: "getConnLockErr", File: "GenCtxErr", RetIdx: 1,
			Params: "{E : Type} (is_nil : E -> bool) (nilE lockErr : E)", Ret: "E",
			Stmt: "if err := p.lockNewConn(ctx); err != nil {", Rest: "nilE",
			Hints: merge(isNil, map[string]string{"p.lockNewConn(ctx)": "lockErr"})},
		{Func: "Peer.GetConnection", Out: "getConnTail", File: "GenCtxErr", RetIdx: 1,
			Params: "{E : Type} (nilE : E) (active2 : bool) (connectErr : E)", Ret: "E",
			Stmt: "defer p.unlockNewConn()", After: true,
			Hints: map[string]string{"p.getActiveConn()": "(tt, active2)", "nil": "nilE", "p.Connect(ctx)": "connectErr"}},
		{Func: "Peer.getConnectionRelay", Out: "getConnRelayLockErr", File: "GenCtxErr", RetIdx: 1,
			Params: "{E : Type} (is_nil : E -> bool) (nilE lockErr : E)", Ret: "E",
			Stmt: "if err := p.lockNewConn(ctx); err != nil {", Rest: "nilE",
			Hints: merge(isNil, map[string]string{"p.lockNewConn(ctx)": "lockErr"})},
		{Func: "Peer.getConnectionRelay", Out: "getConnRelayTail", File: "GenCtxErr", RetIdx: 1,
			Params: "{E : Type} (nilE : E) (active2 : bool) (connectErr : E)", Ret: "E",
			Stmt: "defer p.unlockNewConn()", After: true,
			Hints: map[string]string{"p.getActiveConn()": "(tt, active2)", "nil": "nilE", "p.Connect(ctx)": "connectErr"}},
		{Func: "Peer.BeginCall", Out: "peerBeginCallErr", File: "GenCtxErr", RetIdx: 1,
			Params: "{E : Type} (is_nil : E -> bool) (validateErr connErr beginErr : E)", Ret: "E",
			Stmt: "callOptions.RequestState.AddSelectedPeer(", After: true,
			Hints: isNil,
			SHints: map[string]string{
				"if err := validateCall(ctx, serviceName, methodName, callOptions); err != nil {...": "if negb (is_nil validateErr) then validateErr else",
				"conn, err := p.GetConnection(ctx)":                                                  "let err := connErr in",
				"call, err := conn.beginCall(ctx, serviceName, methodName, callOptions)":             "let err := beginErr in",
			}},
	}...)
}
