package main

// C10 (strengthening V10, part A) -- relay_timer_pool.go: the relayTimer protocol.
//
// The relay decides the race between a call's timeout and its last frame with ONE bit: the
// result of relayTimer.Stop (relayItems.Get(id, stopTimeout=true) returns it as `stopped`;
// Receive / handleNonCallReq / failRelayItem leave the call to the timeout handler when a
// finishing frame finds `!stopped`).  Model/RelayItems.v models the timer by hand (tm_armed /
// tm_active / tm_stopped / tm_released, timer_stop / timer_release / timer_new / ITimerRun).
// Here every method of relayTimer that reads or writes the three flags is regenerated as a
// function of
//
//	f_active f_stopped f_released   the Go fields rt.active / rt.stopped / rt.released
//	f_id f_orig                     rt.id / rt.isOriginator (the parameters handed to the trigger)
//	tstop                           the result of the underlying rt.timer.Stop(): true iff the Go
//	                                timer was still pending, i.e. the callback was prevented
//	was_active                      the result of rt.timer.Reset(d)
//
// into Gen/GenC10Timer.v; a Go panic is None.  Proofs/C10TimerP.v proves each of them equal to
// the flag-level step of Model/C10Timer.v for ALL inputs, and that step equal to what
// Model/RelayItems.v does to the timer record -- so "Stop returns true iff it prevented the
// callback or the timer had already been stopped" is a theorem about the regenerated code.
// Any edit of which flag Stop's early return tests, of what OnTimer / Start / Release / Get do to
// the flags, or of the order "parameters read, THEN markTimerInactive, THEN trigger" in OnTimer
// changes a generated definition (or leaves it untranslated) and the proofs stop compiling.
func init() {
	flags := map[string]string{
		"rt.active":       "f_active",
		"rt.stopped":      "f_stopped",
		"rt.released":     "f_released",
		"rt.id":           "f_id",
		"rt.isOriginator": "f_orig",
	}
	verify := "if (match c10TimerVerifyNotReleased f_released with None => true | Some _ => false end) then None else"
	markInactive := "let '(f_active, f_id, f_orig) := c10TimerMarkInactive f_active f_id f_orig in"
	st := "((f_active, f_stopped, f_released), (f_id, f_orig))"
	targets = append(targets, []Target{
		{Func: "relayTimer.verifyNotReleased", Out: "c10TimerVerifyNotReleased", File: "GenC10Timer", Soft: true,
			Params: "(f_released : bool)", Ret: "option unit", Panics: true, NakedRetW: "tt",
			LVals: flags},
		{Func: "relayTimer.markTimerInactive", Out: "c10TimerMarkInactive", File: "GenC10Timer", Soft: true,
			Params: "(f_active : bool) (f_id : Z) (f_orig : bool)", Ret: "bool * Z * bool",
			VoidRet: "(f_active, f_id, f_orig)", LVals: flags,
			SHints: map[string]string{"rt.items = nil": ""}},
		{Func: "relayTimer.Stop", Out: "c10TimerStop", File: "GenC10Timer", Soft: true,
			Params: "(f_active f_stopped f_released : bool) (f_id : Z) (f_orig : bool) (tstop : bool)",
			Ret:    "option (bool * ((bool * bool * bool) * (Z * bool)))", Panics: true,
			RetFmt: "(%s, " + st + ")", LVals: flags,
			Hints: map[string]string{"rt.timer.Stop()": "tstop"},
			SHints: map[string]string{
				"rt.verifyNotReleased()": verify,
				"rt.markTimerInactive()": markInactive,
			}},
		{Func: "relayTimer.Start", Out: "c10TimerStart", File: "GenC10Timer", Soft: true,
			Params: "(f_active f_stopped f_released : bool) (f_id : Z) (f_orig : bool) (id : Z) (isOriginator : bool) (was_active : bool)",
			Ret:    "option ((bool * bool * bool) * (Z * bool))", Panics: true,
			NakedRetW: st, LVals: flags,
			Hints: map[string]string{"rt.timer.Reset(d)": "was_active"},
			SHints: map[string]string{
				"rt.verifyNotReleased()": verify,
				"rt.items = items":       "",
			}},
		{Func: "relayTimer.Release", Out: "c10TimerRelease", File: "GenC10Timer", Soft: true,
			Params: "(f_active f_stopped f_released : bool) (f_id : Z) (f_orig : bool)",
			Ret:    "option ((bool * bool * bool) * (Z * bool))", Panics: true,
			NakedRetW: st, LVals: flags,
			SHints: map[string]string{
				"rt.verifyNotReleased()": verify,
				"rt.pool.Put(rt)":        "",
			}},
		// OnTimer: the callback of the Go timer.  `fired` = the parameters the trigger
		// (Relayer.timeoutRelayItem) is called with; it is bound by the trigger statement, which
		// follows the marking: a dropped trigger or a trigger hoisted above the marking leaves the
		// result unbound / changes the flags it mentions.
		{Func: "relayTimer.OnTimer", Out: "c10TimerOnTimer", File: "GenC10Timer", Soft: true,
			Params: "(f_active f_stopped f_released : bool) (f_id : Z) (f_orig : bool)",
			Ret:    "option (((bool * bool * bool) * (Z * bool)) * (bool * (Z * bool)))", Panics: true,
			NakedRetW: "(" + st + ", fired)", LVals: flags,
			SHints: map[string]string{
				"verifPoint(...":         "",
				"rt.verifyNotReleased()": verify,
				"items, id, isOriginator := rt.items, rt.id, rt.isOriginator": "let id := f_id in let isOriginator := f_orig in",
				"rt.markTimerInactive()":                   markInactive,
				"rt.pool.trigger(items, id, isOriginator)": "let fired := (f_active, (id, isOriginator)) in",
			}},
		// relayTimerPool.Get, recycled branch: the released flag is cleared (a fresh timer has
		// every flag false: Go zero values)
		{Func: "relayTimerPool.Get", Out: "c10TimerPoolGet", File: "GenC10Timer", Soft: true,
			Params: "(f_released : bool) (ok : bool)", Ret: "bool",
			Stmt: "if ok {", Rest: "false",
			LVals: map[string]string{"timer.released": "f_released"},
			Hints: map[string]string{"timer": "f_released"}},
	}...)
}
