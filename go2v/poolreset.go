package main

// poolreset.go (C03): the table of every sync.Pool of the library with what is RESET between
// two users of a pooled object, regenerated on every run as Gen/GenPoolReset.pool_reset_table
// (row types: coq/theories/Spec/PoolSpec.v).
//
// Family closed by the tie: "state surviving in a pooled object across users" -- a peer that
// makes one user of a pooled object fail (malformed input) must not be able to influence the
// next user, who may serve any other connection of the process.
//
// Per pool (package-level variable, struct field, or array of pools; `t.pool()` is resolved
// through a one-line accessor):
//   element type    from the type assertion at the Get sites
//   New             zero (returns &T{} / new(T)) | ctor | none
//   fields          of the pooled struct when it is a struct of the library; pointer / value
//                   fields whose type is again a struct of the SAME package are expanded one
//                   level ("transport.Reader").  Per field, over ALL non-test functions of the
//                   analysed packages:
//                     live     functions in which the field is read on some path before it is
//                              definitely written (definite-assignment analysis: a write kills
//                              only when it is unconditional in its block; branches, loop bodies,
//                              function literals do not kill for the code after them);
//                              promoted methods through an embedded field read that field
//                     writers  functions that assign it (a write through a local variable that
//                              was bound to a composite literal / new(T) is a constructor write
//                              and not listed)
//                     alias    the field is sliced, indexed, has its address taken or a method
//                              called on it: its content can change without an assignment
//                   an element that is not a library struct has the single pseudo field "*"
//   Get sites       enclosing function, the variable bound to the object, the reset statements
//                   that follow the Get unconditionally (v.f = e, *v = e, v.Reset(); for
//                   `v, ok := pool.Get().(*T); if ok { ... }` the body of the if), each with the
//                   class of e (param | zero | fresh | method:Reset | self | other), then the
//                   statements that mention the object afterwards (its uses in that function)
//   Put sites       enclosing function, argument, guard, the reset statements directly before it
//
// Line numbers are not part of a row.

import (
	"bytes"
	"fmt"
	"go/ast"
	"go/token"
	"go/types"
	"os"
	"path/filepath"
	"sort"
	"strings"

	"golang.org/x/tools/go/packages"
)

type prField struct {
	path, typ, kind string
	live, writers   map[string]bool
	alias           bool
}

type prReset struct{ path, class, text string }

type prGet struct {
	fn, v   string
	resets  []prReset
	uses    []string
	returns bool
	file    string
	pos     token.Pos
}

type prPut struct {
	fn, arg, guard string
	resets         []prReset
	file           string
	pos            token.Pos
}

type prPool struct {
	key, elem, newKind string
	elemType           types.Type
	fields             []*prField
	gets               []prGet
	puts               []prPut
}

type prAnalysis struct {
	pkgs   []*packages.Package
	pools  map[string]*prPool
	fields map[*types.Var][]*prField // field object -> rows (a struct can be pooled by several pools)
	// struct type -> its rows (for whole-object writes *v = T{...})
	structs map[*types.Named][]*prField
}

func prIsPool(t types.Type) bool {
	if p, ok := t.(*types.Pointer); ok {
		t = p.Elem()
	}
	n, ok := t.(*types.Named)
	return ok && n.Obj().Pkg() != nil && n.Obj().Pkg().Path() == "sync" && n.Obj().Name() == "Pool"
}

func prSkipFile(name string) bool {
	b := filepath.Base(name)
	return strings.HasSuffix(b, "_test.go") || strings.HasPrefix(b, "zz_verif")
}

func prOneLine(p *packages.Package, n ast.Node, max int) string {
	t := &translator{pkg: p, fset: p.Fset}
	s := strings.Join(strings.Fields(t.src(n)), " ")
	if len(s) > max {
		s = s[:max]
	}
	return s
}

func prFuncName(p *packages.Package, fd *ast.FuncDecl) string {
	fn := fd.Name.Name
	if fd.Recv != nil && len(fd.Recv.List) == 1 {
		rt := fd.Recv.List[0].Type
		if st, ok := rt.(*ast.StarExpr); ok {
			rt = st.X
		}
		if id, ok := rt.(*ast.Ident); ok {
			fn = id.Name + "." + fn
		}
	}
	return p.Name + "." + fn
}

// prPoolDirs: directories of the repository with non-test Go files that mention sync.Pool
// (vendored / third-party code, test utilities, examples and benchmarks excluded).
func prPoolDirs(repo string) []string {
	var dirs []string
	skip := map[string]bool{"thirdparty": true, "vendor": true, "testutils": true, "examples": true, "benchmark": true,
		"hyperbahn": true, "scripts": true, "guide": true, ".git": true, "crossdock": true, "testdata": true}
	filepath.Walk(repo, func(path string, fi os.FileInfo, err error) error {
		if err != nil {
			return nil
		}
		if fi.IsDir() {
			if skip[fi.Name()] && path != repo {
				return filepath.SkipDir
			}
			return nil
		}
		if !strings.HasSuffix(path, ".go") || prSkipFile(path) {
			return nil
		}
		b, err := os.ReadFile(path)
		if err != nil || !bytes.Contains(b, []byte("sync.Pool")) {
			return nil
		}
		rel, _ := filepath.Rel(repo, filepath.Dir(path))
		d := "./" + filepath.ToSlash(rel)
		if rel == "." {
			d = "."
		}
		for _, x := range dirs {
			if x == d {
				return nil
			}
		}
		dirs = append(dirs, d)
		return nil
	})
	sort.Strings(dirs)
	return dirs
}

// key of a pool expression
func (a *prAnalysis) poolKey(p *packages.Package, e ast.Expr, depth int) string {
	switch x := e.(type) {
	case *ast.ParenExpr:
		return a.poolKey(p, x.X, depth)
	case *ast.UnaryExpr:
		return a.poolKey(p, x.X, depth)
	case *ast.StarExpr:
		return a.poolKey(p, x.X, depth)
	case *ast.Ident:
		if o := p.TypesInfo.ObjectOf(x); o != nil {
			if o.Parent() == p.Types.Scope() {
				return p.Name + "." + x.Name
			}
			return p.Name + ".(local)." + x.Name
		}
		return p.Name + "." + x.Name
	case *ast.IndexExpr:
		return a.poolKey(p, x.X, depth) + "[]"
	case *ast.SelectorExpr:
		if sel := p.TypesInfo.Selections[x]; sel != nil && sel.Kind() == types.FieldVal {
			rt := sel.Recv()
			if pt, ok := rt.(*types.Pointer); ok {
				rt = pt.Elem()
			}
			if n, ok := rt.(*types.Named); ok {
				return p.Name + "." + n.Obj().Name() + "." + x.Sel.Name
			}
		}
		return p.Name + "." + prOneLine(p, x, 60)
	case *ast.CallExpr:
		// a one-line accessor: func (t T) pool() *sync.Pool { return &pools[int(t)] }
		if depth < 3 {
			var fobj types.Object
			switch f := x.Fun.(type) {
			case *ast.Ident:
				fobj = p.TypesInfo.ObjectOf(f)
			case *ast.SelectorExpr:
				fobj = p.TypesInfo.ObjectOf(f.Sel)
			}
			if fobj != nil {
				for _, file := range p.Syntax {
					for _, d := range file.Decls {
						fd, ok := d.(*ast.FuncDecl)
						if !ok || fd.Body == nil || p.TypesInfo.ObjectOf(fd.Name) != fobj {
							continue
						}
						if len(fd.Body.List) == 1 {
							if rs, ok := fd.Body.List[0].(*ast.ReturnStmt); ok && len(rs.Results) == 1 {
								return a.poolKey(p, rs.Results[0], depth+1)
							}
						}
					}
				}
			}
		}
		return p.Name + "." + prOneLine(p, x, 60)
	}
	return p.Name + "." + prOneLine(p, e, 60)
}

func (a *prAnalysis) pool(key string) *prPool {
	if pl, ok := a.pools[key]; ok {
		return pl
	}
	pl := &prPool{key: key, newKind: "none"}
	a.pools[key] = pl
	return pl
}

func prQual(p *types.Package) string { return p.Name() }

// classify the New function of a pool
func prNewKind(fl *ast.FuncLit) string {
	if fl == nil || fl.Body == nil {
		return "none"
	}
	if len(fl.Body.List) == 1 {
		if rs, ok := fl.Body.List[0].(*ast.ReturnStmt); ok && len(rs.Results) == 1 {
			switch r := rs.Results[0].(type) {
			case *ast.UnaryExpr:
				if cl, ok := r.X.(*ast.CompositeLit); ok && r.Op == token.AND && len(cl.Elts) == 0 {
					return "zero"
				}
			case *ast.CallExpr:
				if id, ok := r.Fun.(*ast.Ident); ok && id.Name == "new" {
					return "zero"
				}
			}
		}
	}
	return "ctor"
}

// record the New function of pools: composite literals sync.Pool{New: ...} and assignments x.New = func...
func (a *prAnalysis) findNews(p *packages.Package) {
	info := p.TypesInfo
	for _, f := range p.Syntax {
		if prSkipFile(p.Fset.Position(f.Pos()).Filename) {
			continue
		}
		var stack []ast.Node
		ast.Inspect(f, func(n ast.Node) bool {
			if n == nil {
				stack = stack[:len(stack)-1]
				return true
			}
			stack = append(stack, n)
			switch x := n.(type) {
			case *ast.CompositeLit:
				tv, ok := info.Types[x]
				if !ok || !prIsPool(tv.Type) {
					return true
				}
				var fl *ast.FuncLit
				for _, e := range x.Elts {
					if kv, ok := e.(*ast.KeyValueExpr); ok {
						if id, ok := kv.Key.(*ast.Ident); ok && id.Name == "New" {
							fl, _ = kv.Value.(*ast.FuncLit)
						}
					}
				}
				// what is the literal assigned to?
				key := ""
				for i := len(stack) - 2; i >= 0 && key == ""; i-- {
					switch par := stack[i].(type) {
					case *ast.UnaryExpr, *ast.ParenExpr:
						continue
					case *ast.ValueSpec:
						for j, v := range par.Values {
							if prContains(v, x) && j < len(par.Names) {
								key = a.poolKey(p, par.Names[j], 0)
							}
						}
					case *ast.KeyValueExpr:
						// field of an enclosing struct literal
						if i > 0 {
							if cl, ok := stack[i-1].(*ast.CompositeLit); ok {
								if tv, ok := info.Types[cl]; ok {
									t := tv.Type
									if pt, ok := t.(*types.Pointer); ok {
										t = pt.Elem()
									}
									if nm, ok := t.(*types.Named); ok {
										if id, ok := par.Key.(*ast.Ident); ok {
											key = p.Name + "." + nm.Obj().Name() + "." + id.Name
										}
									}
								}
							}
						}
					case *ast.AssignStmt:
						for j, v := range par.Rhs {
							if prContains(v, x) && j < len(par.Lhs) {
								key = a.poolKey(p, par.Lhs[j], 0)
							}
						}
					default:
						i = -1
					}
				}
				if key != "" {
					pl := a.pool(key)
					pl.newKind = prNewKind(fl)
				}
			case *ast.AssignStmt:
				// pool.New = func() interface{} {...}
				for j, l := range x.Lhs {
					se, ok := l.(*ast.SelectorExpr)
					if !ok || se.Sel.Name != "New" || j >= len(x.Rhs) {
						continue
					}
					tv, ok := info.Types[se.X]
					if !ok || !prIsPool(tv.Type) {
						continue
					}
					fl, _ := x.Rhs[j].(*ast.FuncLit)
					pl := a.pool(a.poolKey(p, se.X, 0))
					k := prNewKind(fl)
					if pl.newKind == "none" || pl.newKind == k {
						pl.newKind = k
					} else {
						pl.newKind = "ctor"
					}
				}
			}
			return true
		})
	}
	// pools declared without a literal: package-level variables and struct fields
	sc := p.Types.Scope()
	for _, name := range sc.Names() {
		switch o := sc.Lookup(name).(type) {
		case *types.Var:
			t := o.Type()
			suffix := ""
			if arr, ok := t.(*types.Array); ok {
				t, suffix = arr.Elem(), "[]"
			}
			if prIsPool(t) {
				a.pool(p.Name + "." + name + suffix)
			}
		case *types.TypeName:
			if st, ok := o.Type().Underlying().(*types.Struct); ok {
				for i := 0; i < st.NumFields(); i++ {
					if prIsPool(st.Field(i).Type()) {
						a.pool(p.Name + "." + name + "." + st.Field(i).Name())
					}
				}
			}
		}
	}
}

func prContains(outer, inner ast.Node) bool {
	return outer.Pos() <= inner.Pos() && inner.End() <= outer.End()
}

func prRootIdent(e ast.Expr) *ast.Ident {
	for {
		switch x := e.(type) {
		case *ast.Ident:
			return x
		case *ast.SelectorExpr:
			e = x.X
		case *ast.ParenExpr:
			e = x.X
		case *ast.StarExpr:
			e = x.X
		case *ast.IndexExpr:
			e = x.X
		case *ast.SliceExpr:
			e = x.X
		default:
			return nil
		}
	}
}

// path of a selector chain rooted at variable v: v -> "*", *v -> "*", v.a.b -> "a.b"
func prPathFrom(info *types.Info, e ast.Expr, v types.Object) (string, bool) {
	switch x := e.(type) {
	case *ast.ParenExpr:
		return prPathFrom(info, x.X, v)
	case *ast.StarExpr:
		if id, ok := x.X.(*ast.Ident); ok && info.ObjectOf(id) == v {
			return "*", true
		}
		return "", false
	case *ast.Ident:
		if info.ObjectOf(x) == v {
			return "*", true
		}
		return "", false
	case *ast.SelectorExpr:
		base, ok := prPathFrom(info, x.X, v)
		if !ok {
			return "", false
		}
		if base == "*" {
			return x.Sel.Name, true
		}
		return base + "." + x.Sel.Name, true
	}
	return "", false
}

func prMentions(info *types.Info, n ast.Node, v types.Object) bool {
	found := false
	ast.Inspect(n, func(c ast.Node) bool {
		if id, ok := c.(*ast.Ident); ok && info.ObjectOf(id) == v {
			found = true
		}
		return !found
	})
	return found
}

func prClass(p *packages.Package, e ast.Expr, v types.Object, params map[types.Object]bool) string {
	info := p.TypesInfo
	if v != nil && prMentions(info, e, v) {
		return "self"
	}
	switch x := e.(type) {
	case *ast.ParenExpr:
		return prClass(p, x.X, v, params)
	case *ast.Ident:
		if x.Name == "nil" || x.Name == "false" {
			if _, isNil := info.ObjectOf(x).(*types.Nil); isNil || x.Name == "false" {
				return "zero"
			}
		}
		if params[info.ObjectOf(x)] {
			return "param"
		}
		return "other"
	case *ast.BasicLit:
		if x.Value == "0" || x.Value == `""` || x.Value == "``" || x.Value == "0.0" {
			return "zero"
		}
		return "fresh"
	case *ast.CompositeLit:
		if len(x.Elts) == 0 {
			return "zero"
		}
		return "fresh"
	case *ast.UnaryExpr:
		if x.Op == token.AND {
			if _, ok := x.X.(*ast.CompositeLit); ok {
				return "fresh"
			}
		}
		return "other"
	case *ast.CallExpr:
		if id, ok := x.Fun.(*ast.Ident); ok && (id.Name == "new" || id.Name == "make") {
			return "fresh"
		}
		return "fresh"
	}
	return "other"
}

// a statement that resets (part of) the object bound to v
func (a *prAnalysis) asReset(p *packages.Package, s ast.Stmt, v types.Object, params map[types.Object]bool) ([]prReset, bool) {
	info := p.TypesInfo
	switch x := s.(type) {
	case *ast.AssignStmt:
		if x.Tok != token.ASSIGN {
			return nil, false
		}
		var out []prReset
		for i, l := range x.Lhs {
			path, ok := prPathFrom(info, l, v)
			if !ok {
				return nil, false
			}
			if _, isIdent := l.(*ast.Ident); isIdent {
				return nil, false // v = ... rebinds the variable
			}
			class := "other"
			if len(x.Rhs) == len(x.Lhs) {
				class = prClass(p, x.Rhs[i], v, params)
			}
			out = append(out, prReset{path, class, prOneLine(p, s, 100)})
		}
		return out, true
	case *ast.ExprStmt:
		call, ok := x.X.(*ast.CallExpr)
		if !ok || len(call.Args) != 0 {
			return nil, false
		}
		se, ok := call.Fun.(*ast.SelectorExpr)
		if !ok || se.Sel.Name != "Reset" {
			return nil, false
		}
		path, ok := prPathFrom(info, se.X, v)
		if !ok {
			return nil, false
		}
		return []prReset{{path, "method:Reset", prOneLine(p, s, 100)}}, true
	}
	return nil, false
}

// the simple statements (and headers of compound statements) of list that mention v, each prefixed
// with the conditions it is nested in below the Get ("[n != 0] binary.BigEndian.PutUint16(...)")
func (a *prAnalysis) usesOf(p *packages.Package, list []ast.Stmt, v types.Object, out *[]string) {
	a.usesOfG(p, list, v, out, "")
}

func (a *prAnalysis) usesOfG(p *packages.Package, list []ast.Stmt, v types.Object, out *[]string, guard string) {
	info := p.TypesInfo
	add := func(n ast.Node) {
		if len(*out) < 12 {
			*out = append(*out, guard+prOneLine(p, n, 100))
		}
	}
	in := func(g string) string { return guard + "[" + g + "] " }
	for _, s := range list {
		switch x := s.(type) {
		case *ast.BlockStmt:
			a.usesOfG(p, x.List, v, out, guard)
		case *ast.IfStmt:
			if x.Init != nil && prMentions(info, x.Init, v) {
				add(x.Init)
			}
			if prMentions(info, x.Cond, v) {
				add(x.Cond)
			}
			c := prOneLine(p, x.Cond, 60)
			a.usesOfG(p, x.Body.List, v, out, in(c))
			if x.Else != nil {
				a.usesOfG(p, []ast.Stmt{x.Else}, v, out, in("!("+c+")"))
			}
		case *ast.ForStmt:
			for _, h := range []ast.Node{x.Init, x.Cond, x.Post} {
				if h != nil && !prIsNilNode(h) && prMentions(info, h, v) {
					add(h)
				}
			}
			a.usesOfG(p, x.Body.List, v, out, in("for"))
		case *ast.RangeStmt:
			if prMentions(info, x.X, v) {
				add(x.X)
			}
			a.usesOfG(p, x.Body.List, v, out, in("range"))
		case *ast.SwitchStmt:
			if x.Tag != nil && prMentions(info, x.Tag, v) {
				add(x.Tag)
			}
			a.usesOfG(p, x.Body.List, v, out, in("switch"))
		case *ast.TypeSwitchStmt:
			if prMentions(info, x.Assign, v) {
				add(x.Assign)
			}
			a.usesOfG(p, x.Body.List, v, out, in("switch"))
		case *ast.SelectStmt:
			a.usesOfG(p, x.Body.List, v, out, in("select"))
		case *ast.CaseClause:
			a.usesOfG(p, x.Body, v, out, guard)
		case *ast.CommClause:
			if x.Comm != nil && prMentions(info, x.Comm, v) {
				add(x.Comm)
			}
			a.usesOfG(p, x.Body, v, out, guard)
		case *ast.LabeledStmt:
			a.usesOfG(p, []ast.Stmt{x.Stmt}, v, out, guard)
		default:
			if prMentions(info, s, v) {
				add(s)
			}
		}
	}
}

func prIsNilNode(n ast.Node) bool {
	switch x := n.(type) {
	case ast.Stmt:
		return x == nil
	case ast.Expr:
		return x == nil
	}
	return n == nil
}

// find the pool Get / Put call of a simple statement (function literals excluded)
func (a *prAnalysis) poolCalls(p *packages.Package, n ast.Node, fn func(call *ast.CallExpr, method string, parents []ast.Node)) {
	info := p.TypesInfo
	var stack []ast.Node
	ast.Inspect(n, func(c ast.Node) bool {
		if c == nil {
			stack = stack[:len(stack)-1]
			return true
		}
		if _, ok := c.(*ast.FuncLit); ok {
			return false
		}
		stack = append(stack, c)
		if call, ok := c.(*ast.CallExpr); ok {
			if se, ok := call.Fun.(*ast.SelectorExpr); ok && (se.Sel.Name == "Get" || se.Sel.Name == "Put") {
				if tv, ok := info.Types[se.X]; ok && prIsPool(tv.Type) {
					fn(call, se.Sel.Name, append([]ast.Node{}, stack...))
				}
			}
		}
		return true
	})
}

func (a *prAnalysis) sitesInBlock(p *packages.Package, fd *ast.FuncDecl, list []ast.Stmt, guard []string, params map[types.Object]bool) {
	info := p.TypesInfo
	fname := filepath.Base(p.Fset.Position(fd.Pos()).Filename)
	fn := prFuncName(p, fd)
	with := func(g string) []string { return append(append([]string{}, guard...), g) }
	funcLits := func(n ast.Node, g []string) {
		if n == nil || prIsNilNode(n) {
			return
		}
		ast.Inspect(n, func(c ast.Node) bool {
			if fl, ok := c.(*ast.FuncLit); ok {
				a.sitesInBlock(p, fd, fl.Body.List, append(append([]string{}, g...), "func"), params)
				return false
			}
			return true
		})
	}
	for i, s := range list {
		// compound statements: headers are inspected here, bodies recursively
		var header []ast.Node
		switch x := s.(type) {
		case *ast.BlockStmt:
			a.sitesInBlock(p, fd, x.List, guard, params)
			continue
		case *ast.IfStmt:
			if x.Init != nil {
				header = append(header, x.Init)
			}
			header = append(header, x.Cond)
			c := prOneLine(p, x.Cond, 80)
			a.sitesInBlock(p, fd, x.Body.List, with(c), params)
			if x.Else != nil {
				a.sitesInBlock(p, fd, []ast.Stmt{x.Else}, with("!("+c+")"), params)
			}
		case *ast.ForStmt:
			if x.Init != nil {
				header = append(header, x.Init)
			}
			if x.Cond != nil {
				header = append(header, x.Cond)
			}
			if x.Post != nil {
				header = append(header, x.Post)
			}
			a.sitesInBlock(p, fd, x.Body.List, with("for"), params)
		case *ast.RangeStmt:
			header = append(header, x.X)
			a.sitesInBlock(p, fd, x.Body.List, with("range"), params)
		case *ast.SwitchStmt:
			if x.Init != nil {
				header = append(header, x.Init)
			}
			if x.Tag != nil {
				header = append(header, x.Tag)
			}
			a.sitesInBlock(p, fd, x.Body.List, with("switch"), params)
		case *ast.TypeSwitchStmt:
			header = append(header, x.Assign)
			a.sitesInBlock(p, fd, x.Body.List, with("switch"), params)
		case *ast.SelectStmt:
			a.sitesInBlock(p, fd, x.Body.List, with("select"), params)
		case *ast.CaseClause:
			for _, e := range x.List {
				header = append(header, e)
			}
			a.sitesInBlock(p, fd, x.Body, with("case"), params)
		case *ast.CommClause:
			if x.Comm != nil {
				header = append(header, x.Comm)
			}
			a.sitesInBlock(p, fd, x.Body, with("case"), params)
		case *ast.LabeledStmt:
			a.sitesInBlock(p, fd, []ast.Stmt{x.Stmt}, guard, params)
			continue
		default:
			header = append(header, s)
		}
		for _, h := range header {
			g := guard
			if _, ok := s.(*ast.DeferStmt); ok {
				g = with("defer")
			}
			if _, ok := s.(*ast.GoStmt); ok {
				g = with("go")
			}
			funcLits(h, g)
			a.poolCalls(p, h, func(call *ast.CallExpr, method string, parents []ast.Node) {
				se := call.Fun.(*ast.SelectorExpr)
				pl := a.pool(a.poolKey(p, se.X, 0))
				if method == "Put" {
					put := prPut{fn: fn, guard: strings.Join(g, " && "), file: fname, pos: call.Pos()}
					if len(call.Args) == 1 {
						put.arg = prOneLine(p, call.Args[0], 60)
						if tv, ok := info.Types[call.Args[0]]; ok && pl.elemType == nil {
							pl.elemType = tv.Type
						}
						if id, ok := call.Args[0].(*ast.Ident); ok {
							v := info.ObjectOf(id)
							// the reset statements directly in front of the Put
							var rs []prReset
							for j := i - 1; j >= 0; j-- {
								r, ok := a.asReset(p, list[j], v, params)
								if !ok {
									break
								}
								rs = append(r, rs...)
							}
							put.resets = rs
						}
					}
					pl.puts = append(pl.puts, put)
					return
				}
				// Get: element type from the enclosing type assertion
				get := prGet{fn: fn, file: fname, pos: call.Pos()}
				for k := len(parents) - 2; k >= 0; k-- {
					if ta, ok := parents[k].(*ast.TypeAssertExpr); ok && ta.Type != nil {
						if tv, ok := info.Types[ta.Type]; ok {
							pl.elemType = tv.Type
						}
						break
					}
					if _, ok := parents[k].(*ast.ParenExpr); !ok {
						break
					}
				}
				var v, okv types.Object
				switch st := s.(type) {
				case *ast.AssignStmt:
					if len(st.Rhs) == 1 && prContains(st.Rhs[0], call) && h == ast.Node(s) {
						if id, ok := st.Lhs[0].(*ast.Ident); ok {
							v = info.ObjectOf(id)
							get.v = id.Name
						}
						if len(st.Lhs) == 2 {
							if id, ok := st.Lhs[1].(*ast.Ident); ok {
								okv = info.ObjectOf(id)
							}
						}
					}
				case *ast.ReturnStmt:
					get.returns = true
				}
				if v == nil {
					get.uses = []string{prOneLine(p, h, 100)}
					pl.gets = append(pl.gets, get)
					return
				}
				rest := list[i+1:]
				// v, ok := pool.Get().(*T); if ok { resets...; return v }
				if okv != nil && len(rest) > 0 {
					if ifs, ok := rest[0].(*ast.IfStmt); ok && ifs.Init == nil {
						if id, ok := ifs.Cond.(*ast.Ident); ok && info.ObjectOf(id) == okv {
							rest = ifs.Body.List
						}
					}
				}
				j := 0
				for ; j < len(rest); j++ {
					if ds, ok := rest[j].(*ast.DeferStmt); ok {
						isPut := false
						a.poolCalls(p, ds.Call, func(c *ast.CallExpr, m string, _ []ast.Node) { isPut = isPut || m == "Put" })
						if isPut {
							continue
						}
					}
					r, ok := a.asReset(p, rest[j], v, params)
					if !ok {
						break
					}
					get.resets = append(get.resets, r...)
				}
				a.usesOf(p, rest[j:], v, &get.uses)
				for _, u := range rest[j:] {
					if rs, ok := u.(*ast.ReturnStmt); ok {
						for _, r := range rs.Results {
							if id, ok := r.(*ast.Ident); ok && info.ObjectOf(id) == v {
								get.returns = true
							}
						}
					}
				}
				pl.gets = append(pl.gets, get)
			})
		}
	}
}

// ---------------------------------------------------------------- fields of the pooled structs

func (a *prAnalysis) inModule(pkg *types.Package) bool {
	if pkg == nil {
		return false
	}
	for _, p := range a.pkgs {
		if p.Types.Path() == pkg.Path() {
			return true
		}
	}
	return false
}

func (a *prAnalysis) kindOf(t types.Type, home *types.Package) string {
	if pt, ok := t.(*types.Pointer); ok {
		t = pt.Elem()
		if n, ok := t.(*types.Named); ok {
			if _, isStruct := n.Underlying().(*types.Struct); isStruct {
				if n.Obj().Pkg() == home {
					return "sub"
				}
				return "ext"
			}
		}
		switch t.Underlying().(type) {
		case *types.Array:
			return "array"
		case *types.Slice:
			return "slice"
		}
		return "ext"
	}
	if n, ok := t.(*types.Named); ok {
		if _, isStruct := n.Underlying().(*types.Struct); isStruct {
			if n.Obj().Pkg() == home {
				return "sub"
			}
			return "ext"
		}
	}
	switch t.Underlying().(type) {
	case *types.Array:
		return "array"
	case *types.Slice:
		return "slice"
	case *types.Interface:
		return "iface"
	case *types.Map, *types.Chan:
		return "ext"
	}
	return "plain"
}

func (a *prAnalysis) expand(pl *prPool, st *types.Struct, owner *types.Named, prefix string, home *types.Package, depth int) {
	for i := 0; i < st.NumFields(); i++ {
		f := st.Field(i)
		row := &prField{path: prefix + f.Name(), typ: types.TypeString(f.Type(), prQual), kind: a.kindOf(f.Type(), home),
			live: map[string]bool{}, writers: map[string]bool{}}
		pl.fields = append(pl.fields, row)
		a.fields[f] = append(a.fields[f], row)
		if owner != nil {
			a.structs[owner] = append(a.structs[owner], row)
		}
		if row.kind == "sub" && depth < 2 {
			t := f.Type()
			if pt, ok := t.(*types.Pointer); ok {
				t = pt.Elem()
			}
			n := t.(*types.Named)
			a.expand(pl, n.Underlying().(*types.Struct), n, row.path+".", home, depth+1)
		}
	}
}

func (a *prAnalysis) buildFields() {
	for _, key := range sortedPoolKeys(a.pools) {
		pl := a.pools[key]
		if pl.elemType == nil {
			pl.elem = "?"
			continue
		}
		pl.elem = types.TypeString(pl.elemType, prQual)
		t := pl.elemType
		if pt, ok := t.(*types.Pointer); ok {
			t = pt.Elem()
		}
		if n, ok := t.(*types.Named); ok && a.inModule(n.Obj().Pkg()) {
			if st, ok := n.Underlying().(*types.Struct); ok {
				a.expand(pl, st, n, "", n.Obj().Pkg(), 0)
				continue
			}
		}
		// not a library struct: the whole object is one pseudo field, live in every function
		// that uses the object after its Get
		row := &prField{path: "*", typ: pl.elem, kind: a.kindOf(pl.elemType, nil), live: map[string]bool{}, writers: map[string]bool{}, alias: true}
		for _, g := range pl.gets {
			row.live[g.fn] = true
		}
		pl.fields = append(pl.fields, row)
	}
}

func sortedPoolKeys(m map[string]*prPool) []string {
	var ks []string
	for k := range m {
		ks = append(ks, k)
	}
	sort.Strings(ks)
	return ks
}

// definite-assignment scan of one function
type prScan struct {
	a      *prAnalysis
	p      *packages.Package
	fn     string
	ctor   map[types.Object]bool
	parent map[ast.Node]ast.Node
}

func (s *prScan) fieldsOfSel(se *ast.SelectorExpr) (implicit []*types.Var, final *types.Var) {
	sel := s.p.TypesInfo.Selections[se]
	if sel == nil {
		return nil, nil
	}
	t := sel.Recv()
	idx := sel.Index()
	for k, i := range idx {
		if pt, ok := t.(*types.Pointer); ok {
			t = pt.Elem()
		}
		st, ok := t.Underlying().(*types.Struct)
		if !ok {
			break
		}
		last := k == len(idx)-1
		if last && sel.Kind() != types.FieldVal {
			break // the last index is a method
		}
		f := st.Field(i)
		if last {
			final = f
		} else {
			implicit = append(implicit, f)
		}
		t = f.Type()
	}
	return
}

func (s *prScan) read(f *types.Var, killed map[*types.Var]bool) {
	for _, row := range s.a.fields[f] {
		if !killed[f] {
			row.live[s.fn] = true
		}
	}
}

func (s *prScan) markAlias(f *types.Var) {
	for _, row := range s.a.fields[f] {
		row.alias = true
	}
}

func (s *prScan) readExpr(e ast.Node, killed map[*types.Var]bool) {
	if e == nil || prIsNilNode(e) {
		return
	}
	var stack []ast.Node
	ast.Inspect(e, func(c ast.Node) bool {
		if c == nil {
			stack = stack[:len(stack)-1]
			return true
		}
		if fl, ok := c.(*ast.FuncLit); ok {
			s.stmts(fl.Body.List, prCopy(killed))
			return false
		}
		var par ast.Node
		if len(stack) > 0 {
			par = stack[len(stack)-1]
		}
		stack = append(stack, c)
		if se, ok := c.(*ast.SelectorExpr); ok {
			implicit, final := s.fieldsOfSel(se)
			for _, f := range implicit {
				s.read(f, killed)
				s.markAlias(f) // a promoted method / field of an embedded value works on it in place
			}
			if final != nil {
				s.read(final, killed)
				switch px := par.(type) {
				case *ast.SliceExpr:
					if px.X == ast.Expr(se) {
						s.markAlias(final)
					}
				case *ast.IndexExpr:
					if px.X == ast.Expr(se) {
						s.markAlias(final)
					}
				case *ast.UnaryExpr:
					if px.Op == token.AND {
						s.markAlias(final)
					}
				case *ast.SelectorExpr:
					// a method called on the field (value with pointer methods, or a pointer)
					if sel := s.p.TypesInfo.Selections[px]; sel != nil && sel.Kind() == types.MethodVal {
						s.markAlias(final)
					}
				}
			}
		}
		return true
	})
}

func prCopy(m map[*types.Var]bool) map[*types.Var]bool {
	c := make(map[*types.Var]bool, len(m))
	for k, v := range m {
		c[k] = v
	}
	return c
}

func (s *prScan) write(l ast.Expr, killed map[*types.Var]bool, readFirst bool) {
	info := s.p.TypesInfo
	switch x := l.(type) {
	case *ast.ParenExpr:
		s.write(x.X, killed, readFirst)
		return
	case *ast.SelectorExpr:
		implicit, final := s.fieldsOfSel(x)
		if final != nil {
			s.readExpr(x.X, killed)
			for _, f := range implicit {
				s.read(f, killed)
			}
			if readFirst {
				s.read(final, killed)
			}
			root := prRootIdent(x)
			isCtor := root != nil && s.ctor[info.ObjectOf(root)]
			for _, row := range s.a.fields[final] {
				if !isCtor {
					row.writers[s.fn] = true
				}
			}
			killed[final] = true
			return
		}
	case *ast.StarExpr:
		// *v = T{...}: every field of the struct is written
		if tv, ok := info.Types[x.X]; ok {
			if pt, ok := tv.Type.(*types.Pointer); ok {
				if n, ok := pt.Elem().(*types.Named); ok {
					if rows, ok := s.a.structs[n]; ok {
						s.readExpr(x.X, killed)
						root := prRootIdent(x)
						isCtor := root != nil && s.ctor[info.ObjectOf(root)]
						for _, row := range rows {
							if !isCtor {
								row.writers[s.fn] = true
							}
						}
						if st, ok := n.Underlying().(*types.Struct); ok {
							for i := 0; i < st.NumFields(); i++ {
								killed[st.Field(i)] = true
							}
						}
						return
					}
				}
			}
		}
	}
	s.readExpr(l, killed) // v.buf[0] = x, m[k] = x, local variables ...
}

func (s *prScan) stmts(list []ast.Stmt, killed map[*types.Var]bool) {
	for _, st := range list {
		s.stmt(st, killed)
	}
}

func (s *prScan) stmt(st ast.Stmt, killed map[*types.Var]bool) {
	switch x := st.(type) {
	case nil:
	case *ast.AssignStmt:
		for _, r := range x.Rhs {
			s.readExpr(r, killed)
		}
		for _, l := range x.Lhs {
			s.write(l, killed, x.Tok != token.ASSIGN && x.Tok != token.DEFINE)
		}
	case *ast.IncDecStmt:
		s.write(x.X, killed, true)
	case *ast.ExprStmt:
		s.readExpr(x.X, killed)
	case *ast.ReturnStmt:
		for _, r := range x.Results {
			s.readExpr(r, killed)
		}
	case *ast.DeferStmt:
		s.readExpr(x.Call, killed)
	case *ast.GoStmt:
		s.readExpr(x.Call, killed)
	case *ast.SendStmt:
		s.readExpr(x.Chan, killed)
		s.readExpr(x.Value, killed)
	case *ast.DeclStmt:
		s.readExpr(x.Decl, killed)
	case *ast.BlockStmt:
		s.stmts(x.List, killed)
	case *ast.LabeledStmt:
		s.stmt(x.Stmt, killed)
	case *ast.IfStmt:
		s.stmt(x.Init, killed)
		s.readExpr(x.Cond, killed)
		s.stmts(x.Body.List, prCopy(killed))
		if x.Else != nil {
			s.stmt(x.Else, prCopy(killed))
		}
	case *ast.ForStmt:
		s.stmt(x.Init, killed)
		k := prCopy(killed)
		if x.Cond != nil {
			s.readExpr(x.Cond, k)
		}
		s.stmts(x.Body.List, k)
		s.stmt(x.Post, k)
	case *ast.RangeStmt:
		s.readExpr(x.X, killed)
		s.stmts(x.Body.List, prCopy(killed))
	case *ast.SwitchStmt:
		s.stmt(x.Init, killed)
		if x.Tag != nil {
			s.readExpr(x.Tag, killed)
		}
		for _, c := range x.Body.List {
			cc := c.(*ast.CaseClause)
			k := prCopy(killed)
			for _, e := range cc.List {
				s.readExpr(e, k)
			}
			s.stmts(cc.Body, k)
		}
	case *ast.TypeSwitchStmt:
		s.stmt(x.Init, killed)
		s.stmt(x.Assign, killed)
		for _, c := range x.Body.List {
			s.stmts(c.(*ast.CaseClause).Body, prCopy(killed))
		}
	case *ast.SelectStmt:
		for _, c := range x.Body.List {
			cc := c.(*ast.CommClause)
			k := prCopy(killed)
			s.stmt(cc.Comm, k)
			s.stmts(cc.Body, k)
		}
	default:
		s.readExpr(st, killed)
	}
}

func (a *prAnalysis) scanFunc(p *packages.Package, fd *ast.FuncDecl) {
	info := p.TypesInfo
	s := &prScan{a: a, p: p, fn: prFuncName(p, fd), ctor: map[types.Object]bool{}}
	// locals bound to a fresh composite literal / new(T) / declared by var: constructor writes
	ast.Inspect(fd.Body, func(c ast.Node) bool {
		switch x := c.(type) {
		case *ast.AssignStmt:
			if x.Tok == token.DEFINE && len(x.Lhs) == len(x.Rhs) {
				for i, l := range x.Lhs {
					id, ok := l.(*ast.Ident)
					if !ok {
						continue
					}
					r := x.Rhs[i]
					if u, ok := r.(*ast.UnaryExpr); ok && u.Op == token.AND {
						r = u.X
					}
					fresh := false
					switch rr := r.(type) {
					case *ast.CompositeLit:
						fresh = true
					case *ast.CallExpr:
						if f, ok := rr.Fun.(*ast.Ident); ok && f.Name == "new" {
							fresh = true
						}
					}
					if fresh {
						s.ctor[info.ObjectOf(id)] = true
					}
				}
			}
		case *ast.ValueSpec:
			if len(x.Values) == 0 {
				for _, id := range x.Names {
					s.ctor[info.ObjectOf(id)] = true
				}
			}
		}
		return true
	})
	s.stmts(fd.Body.List, map[*types.Var]bool{})
}

// ---------------------------------------------------------------- driver

func poolResetTable(w *bytes.Buffer, repo string, all []*packages.Package) (npools, nget, nput, nfields int) {
	a := &prAnalysis{pools: map[string]*prPool{}, fields: map[*types.Var][]*prField{}, structs: map[*types.Named][]*prField{}}
	byDir := map[string]*packages.Package{}
	for _, p := range all {
		if len(p.GoFiles) > 0 {
			byDir[filepath.Dir(p.GoFiles[0])] = p
		}
	}
	var extra []string
	for _, d := range prPoolDirs(repo) {
		abs := filepath.Clean(filepath.Join(repo, d))
		if p, ok := byDir[abs]; ok {
			a.pkgs = append(a.pkgs, p)
		} else {
			extra = append(extra, d)
		}
	}
	if len(extra) > 0 {
		a.pkgs = append(a.pkgs, loadMany(repo, extra)...)
	}
	sort.Slice(a.pkgs, func(i, j int) bool { return a.pkgs[i].PkgPath < a.pkgs[j].PkgPath })
	for _, p := range a.pkgs {
		a.findNews(p)
	}
	for _, p := range a.pkgs {
		for _, f := range p.Syntax {
			if prSkipFile(p.Fset.Position(f.Pos()).Filename) {
				continue
			}
			for _, d := range f.Decls {
				fd, ok := d.(*ast.FuncDecl)
				if !ok || fd.Body == nil {
					continue
				}
				params := map[types.Object]bool{}
				if fd.Type.Params != nil {
					for _, fl := range fd.Type.Params.List {
						for _, id := range fl.Names {
							params[p.TypesInfo.ObjectOf(id)] = true
						}
					}
				}
				a.sitesInBlock(p, fd, fd.Body.List, nil, params)
			}
		}
	}
	a.buildFields()
	for _, p := range a.pkgs {
		for _, f := range p.Syntax {
			if prSkipFile(p.Fset.Position(f.Pos()).Filename) {
				continue
			}
			for _, d := range f.Decls {
				if fd, ok := d.(*ast.FuncDecl); ok && fd.Body != nil {
					a.scanFunc(p, fd)
				}
			}
		}
	}

	// a pointer field that is assigned outside constructors is replaced as a whole (it must be
	// reset itself): what it points to is not state of the pooled object, its expansion is dropped
	for _, pl := range a.pools {
		var drop []string
		for _, f := range pl.fields {
			if f.kind == "sub" && strings.HasPrefix(f.typ, "*") && len(f.writers) > 0 {
				drop = append(drop, f.path+".")
			}
		}
		if len(drop) == 0 {
			continue
		}
		var keep []*prField
		for _, f := range pl.fields {
			dropped := false
			for _, d := range drop {
				dropped = dropped || strings.HasPrefix(f.path, d)
			}
			if !dropped {
				keep = append(keep, f)
			}
		}
		pl.fields = keep
	}

	strs := func(l []string) string {
		var ps []string
		for _, s := range l {
			ps = append(ps, strlit(s))
		}
		return "[" + strings.Join(ps, "; ") + "]"
	}
	setList := func(m map[string]bool) []string {
		var l []string
		for k := range m {
			l = append(l, k)
		}
		sort.Strings(l)
		return l
	}
	cm := func(s string) string {
		return strings.ReplaceAll(strings.ReplaceAll(s, "*)", "* )"), "(*", "( *")
	}
	resets := func(rs []prReset, indent string) string {
		if len(rs) == 0 {
			return "[]"
		}
		var ps []string
		for _, r := range rs {
			ps = append(ps, fmt.Sprintf("%s(* %s : %s *) mkPrReset %s %s %s", indent, cm(r.text), r.class, strlit(r.path), strlit(r.class), strlit(r.text)))
		}
		return "[\n" + strings.Join(ps, ";\n") + "]"
	}
	b2 := func(b bool) string {
		if b {
			return "true"
		}
		return "false"
	}
	keys := sortedPoolKeys(a.pools)
	fmt.Fprintf(w, "Definition pool_reset_table : list pr_pool := [\n")
	for pi, key := range keys {
		pl := a.pools[key]
		sort.SliceStable(pl.gets, func(i, j int) bool {
			if pl.gets[i].file != pl.gets[j].file {
				return pl.gets[i].file < pl.gets[j].file
			}
			return pl.gets[i].pos < pl.gets[j].pos
		})
		sort.SliceStable(pl.puts, func(i, j int) bool {
			if pl.puts[i].file != pl.puts[j].file {
				return pl.puts[i].file < pl.puts[j].file
			}
			return pl.puts[i].pos < pl.puts[j].pos
		})
		fmt.Fprintf(w, "  (* ==== pool %s of %s, New: %s *)\n", cm(pl.key), cm(pl.elem), pl.newKind)
		fmt.Fprintf(w, "  mkPrPool %s %s %s\n", strlit(pl.key), strlit(pl.elem), strlit(pl.newKind))
		fmt.Fprintf(w, "   [")
		for i, f := range pl.fields {
			if i > 0 {
				fmt.Fprintf(w, ";")
			}
			fmt.Fprintf(w, "\n    (* field %s %s (%s) live in %v, written by %v, alias %v *)\n", cm(f.path), cm(f.typ), f.kind, setList(f.live), setList(f.writers), f.alias)
			fmt.Fprintf(w, "    mkPrField %s %s %s %s %s %s", strlit(f.path), strlit(f.typ), strlit(f.kind), strs(setList(f.live)), strs(setList(f.writers)), b2(f.alias))
			nfields++
		}
		fmt.Fprintf(w, "]\n   [")
		for i, g := range pl.gets {
			if i > 0 {
				fmt.Fprintf(w, ";")
			}
			fmt.Fprintf(w, "\n    (* Get in %s (%s), object %q, %d resets, uses %q *)\n", g.fn, g.file, g.v, len(g.resets), cm(strings.Join(g.uses, " | ")))
			fmt.Fprintf(w, "    mkPrGet %s %s %s %s %s", strlit(g.fn), strlit(g.v), resets(g.resets, "      "), strs(g.uses), b2(g.returns))
			nget++
		}
		fmt.Fprintf(w, "]\n   [")
		for i, pt := range pl.puts {
			if i > 0 {
				fmt.Fprintf(w, ";")
			}
			fmt.Fprintf(w, "\n    (* Put in %s (%s) of %s [%s], %d resets *)\n", pt.fn, pt.file, cm(pt.arg), cm(pt.guard), len(pt.resets))
			fmt.Fprintf(w, "    mkPrPut %s %s %s %s", strlit(pt.fn), strlit(pt.arg), strlit(pt.guard), resets(pt.resets, "      "))
			nput++
		}
		fmt.Fprintf(w, "]")
		if pi < len(keys)-1 {
			fmt.Fprintf(w, ";")
		}
		fmt.Fprintf(w, "\n")
	}
	fmt.Fprintf(w, "].\n")
	return len(keys), nget, nput, nfields
}

func poolResetSafe(w *bytes.Buffer, repo string, all []*packages.Package) (npools, nget, nput, nfields int) {
	defer func() {
		if r := recover(); r != nil {
			f, ok := r.(failure)
			if !ok {
				panic(r)
			}
			w.Reset()
			fmt.Fprintf(w, header, repo)
			fmt.Fprintf(w, "From Verif Require Import Spec.PoolSpec.\n\n(* EXTRACTION FAILED: %s *)\n", strings.ReplaceAll(f.msg, "*)", "* )"))
			fmt.Fprintf(w, "Definition pool_reset_table : list pr_pool := [].\n")
			fmt.Printf("go2v: POOL-RESET EXTRACTION FAILED: %s\n", f.msg)
			npools, nget, nput, nfields = 0, 0, 0, 0
		}
	}()
	return poolResetTable(w, repo, all)
}
