package main

// syncpools.go (C04, pool discipline): the table of every sync.Pool of the library and of every
// site that takes an object out of one or puts one back, regenerated on every run as
// Gen/GenSyncPools.v.
//
//   syncpool_decls   one row per declared sync.Pool: (name, how it is declared)
//                      package-level variable        "typed.readerPool"            "var sync.Pool"
//                      array of pools                "tchannel.checksumPools"      "var [checksumCount]sync.Pool"
//                      struct field                  "tchannel.relayTimerPool.pool" "field sync.Pool"
//                      composite literal             "tchannel.NewSyncFramePool"   "literal &sync.Pool{...}"
//   syncpool_sites   one row per call site, in source order (package, file, position):
//                      (function, kind, pool or callee, object, guard)
//                    kind
//                      Get      p.Get()  with p a sync.Pool               object = ""
//                      Put      p.Put(x) with p a sync.Pool               object = x
//                      PutVia   a call of a PUT WRAPPER: a function or method that puts its own
//                               receiver or one of its parameters into a pool, directly or
//                               through another wrapper (typed.Reader.Release,
//                               ChecksumType.Release, hashChecksum.Release, relayTimer.Release,
//                               relayTimerPool.Put ...), or a call of an interface method one of
//                               whose implementations is such a wrapper (Checksum.Release);
//                               pool = the callee, object = the receiver / argument handed over
//                    guard = the conditions enclosing the call inside its function, outermost
//                    first, joined by " && " (as in cksites.go: "!(c)" for an else branch, "case
//                    ..." for switch / select clauses, "for", "range", "defer", "go", "func").
// The wrappers are DETECTED from the source (fixed point over the call graph of the loaded
// packages), not listed by hand: a new function that releases its argument makes its call sites
// rows.  Wrappers whose object is a *Frame are left out: the frame pool is an application-chosen
// FramePool, and property C12 owns the table of its Get / Release sites (GenSites.pool_sites,
// GenFrameUse).  Line numbers are not part of a row: unrelated edits do not disturb the table; a
// new, removed, moved or re-guarded Get / Put / release site does.
//
// Packages: everything under the repository root except examples, benchmarks, crossdock, test
// utilities, scripts, generated code and the vendored thrift library.

import (
	"bytes"
	"fmt"
	"go/ast"
	"go/printer"
	"go/token"
	"go/types"
	"os"
	"path/filepath"
	"runtime/debug"
	"sort"
	"strings"

	"golang.org/x/tools/go/packages"
)

const spRootPath = "github.com/uber/tchannel-go"

var spSkipPrefixes = []string{"benchmark", "crossdock", "examples", "testutils", "thirdparty", "scripts", "internal/testcert",
	"thrift/thrift-gen", "thrift/gen-go", "thrift/mocks", "hyperbahn/gen-go"}

type spSite struct {
	pkg, file         string
	pos               int
	fn, kind, pool    string
	obj, grd, comment string
}

type spDecl struct{ name, how string }

func spIsPool(ty types.Type) bool {
	if ty == nil {
		return false
	}
	if p, ok := ty.(*types.Pointer); ok {
		ty = p.Elem()
	}
	n, ok := ty.(*types.Named)
	return ok && n.Obj().Pkg() != nil && n.Obj().Pkg().Path() == "sync" && n.Obj().Name() == "Pool"
}

// spHoldsPool: the type is a sync.Pool, a pointer to one, or an array / slice of them.
func spHoldsPool(ty types.Type) bool {
	switch t := ty.(type) {
	case *types.Array:
		return spHoldsPool(t.Elem())
	case *types.Slice:
		return spHoldsPool(t.Elem())
	}
	return spIsPool(ty)
}

type spCtx struct {
	pkgs  []*packages.Package
	fset  *token.FileSet
	short map[string]string // package path -> package name
}

func (c *spCtx) oneLine(p *packages.Package, n ast.Node) string {
	var b bytes.Buffer
	printer.Fprint(&b, p.Fset, n)
	s := strings.Join(strings.Fields(b.String()), " ")
	if len(s) > 80 {
		s = s[:80]
	}
	return s
}

func spFuncName(fd *ast.FuncDecl) string {
	fn := fd.Name.Name
	if fd.Recv != nil && len(fd.Recv.List) == 1 {
		rt := fd.Recv.List[0].Type
		if st, ok := rt.(*ast.StarExpr); ok {
			rt = st.X
		}
		if id, ok := rt.(*ast.Ident); ok {
			fn = id.Name + "." + fn
		}
	}
	return fn
}

// spObjName: "pkg.Recv.name" / "pkg.name" of a function object.
func spObjName(f *types.Func) string {
	pkg := ""
	if f.Pkg() != nil {
		pkg = f.Pkg().Name() + "."
	}
	sig, _ := f.Type().(*types.Signature)
	if sig != nil && sig.Recv() != nil {
		rt := sig.Recv().Type()
		if p, ok := rt.(*types.Pointer); ok {
			rt = p.Elem()
		}
		if n, ok := rt.(*types.Named); ok {
			return pkg + n.Obj().Name() + "." + f.Name()
		}
	}
	return pkg + f.Name()
}

// poolName names the pool an expression denotes, independently of local variable names where the
// expression ends in a declared object.
func (c *spCtx) poolName(p *packages.Package, e ast.Expr) string {
	info := p.TypesInfo
	switch x := e.(type) {
	case *ast.ParenExpr:
		return c.poolName(p, x.X)
	case *ast.UnaryExpr:
		return c.poolName(p, x.X)
	case *ast.StarExpr:
		return c.poolName(p, x.X)
	case *ast.IndexExpr:
		return c.poolName(p, x.X) + "[]"
	case *ast.Ident:
		if v, ok := info.Uses[x].(*types.Var); ok && v.Pkg() != nil && v.Parent() == v.Pkg().Scope() {
			return v.Pkg().Name() + "." + v.Name()
		}
	case *ast.SelectorExpr:
		if sel, ok := info.Selections[x]; ok && sel.Kind() == types.FieldVal {
			rt := sel.Recv()
			if pt, ok := rt.(*types.Pointer); ok {
				rt = pt.Elem()
			}
			if n, ok := rt.(*types.Named); ok && n.Obj().Pkg() != nil {
				return n.Obj().Pkg().Name() + "." + n.Obj().Name() + "." + x.Sel.Name
			}
		}
		if v, ok := info.Uses[x.Sel].(*types.Var); ok && v.Pkg() != nil && v.Parent() == v.Pkg().Scope() {
			return v.Pkg().Name() + "." + v.Name() // qualified package-level variable
		}
	case *ast.CallExpr:
		if f := spCallee(info, x); f != nil {
			return spObjName(f) + "()"
		}
	}
	return c.oneLine(p, e)
}

func spCallee(info *types.Info, call *ast.CallExpr) *types.Func {
	switch f := ast.Unparen(call.Fun).(type) {
	case *ast.Ident:
		if fn, ok := info.Uses[f].(*types.Func); ok {
			return fn
		}
	case *ast.SelectorExpr:
		if fn, ok := info.Uses[f.Sel].(*types.Func); ok {
			return fn
		}
	}
	return nil
}

// spWalk visits every call expression of a function body with the guard under which it runs.
func (c *spCtx) spWalk(p *packages.Package, body ast.Node, visit func(call *ast.CallExpr, guard []string)) {
	with := func(guard []string, g string) []string { return append(append([]string{}, guard...), g) }
	var walk func(n ast.Node, guard []string)
	walkList := func(l []ast.Stmt, guard []string) {
		for _, s := range l {
			walk(s, guard)
		}
	}
	walk = func(n ast.Node, guard []string) {
		switch x := n.(type) {
		case nil:
			return
		case *ast.IfStmt:
			walk(x.Init, guard)
			walk(x.Cond, guard)
			cond := c.oneLine(p, x.Cond)
			if x.Init != nil {
				cond = c.oneLine(p, x.Init) + "; " + cond
			}
			walk(x.Body, with(guard, cond))
			if x.Else != nil {
				walk(x.Else, with(guard, "!("+cond+")"))
			}
			return
		case *ast.ForStmt:
			walk(x.Init, guard)
			g := with(guard, "for")
			if x.Cond != nil {
				walk(x.Cond, g)
			}
			walk(x.Post, g)
			walk(x.Body, g)
			return
		case *ast.RangeStmt:
			walk(x.X, guard)
			walk(x.Body, with(guard, "range"))
			return
		case *ast.CaseClause:
			g := "default"
			if len(x.List) > 0 {
				var ps []string
				for _, e := range x.List {
					walk(e, guard)
					ps = append(ps, c.oneLine(p, e))
				}
				g = "case " + strings.Join(ps, ", ")
			}
			walkList(x.Body, with(guard, g))
			return
		case *ast.CommClause:
			g := "default"
			if x.Comm != nil {
				walk(x.Comm, guard)
				g = "case " + c.oneLine(p, x.Comm)
			}
			walkList(x.Body, with(guard, g))
			return
		case *ast.DeferStmt:
			walk(x.Call, with(guard, "defer"))
			return
		case *ast.GoStmt:
			walk(x.Call, with(guard, "go"))
			return
		case *ast.FuncLit:
			walk(x.Body, with(guard, "func"))
			return
		case *ast.CallExpr:
			visit(x, guard)
		}
		var kids []ast.Node
		first := true
		ast.Inspect(n, func(k ast.Node) bool {
			if first {
				first = false
				return true
			}
			if k != nil {
				kids = append(kids, k)
			}
			return false
		})
		for _, k := range kids {
			walk(k, guard)
		}
	}
	walk(body, nil)
}

type spFn struct {
	p    *packages.Package
	fd   *ast.FuncDecl
	obj  *types.Func
	file string
}

func syncPoolSites(w *bytes.Buffer, repo string) (ndecl, nsites, nwrap int) {
	cfg := &packages.Config{
		Mode: packages.NeedName | packages.NeedFiles | packages.NeedSyntax | packages.NeedTypes | packages.NeedTypesInfo | packages.NeedImports | packages.NeedDeps,
		Dir:  repo,
	}
	all, err := packages.Load(cfg, "./...")
	if err != nil {
		failf("syncpools: load ./...: %v", err)
	}
	c := &spCtx{}
	for _, p := range all {
		rel := strings.TrimPrefix(strings.TrimPrefix(p.PkgPath, spRootPath), "/")
		skip := !strings.HasPrefix(p.PkgPath, spRootPath)
		for _, pre := range spSkipPrefixes {
			if rel == pre || strings.HasPrefix(rel, pre+"/") {
				skip = true
			}
		}
		if skip {
			continue
		}
		if len(p.Errors) > 0 {
			failf("syncpools: load %s: %v", p.PkgPath, p.Errors[0])
		}
		c.pkgs = append(c.pkgs, p)
	}
	sort.Slice(c.pkgs, func(i, j int) bool { return c.pkgs[i].PkgPath < c.pkgs[j].PkgPath })
	if len(c.pkgs) == 0 {
		failf("syncpools: no package loaded")
	}

	// ---- functions of the non-test source
	var fns []*spFn
	byObj := map[string]*spFn{} // full name -> function
	for _, p := range c.pkgs {
		for _, f := range p.Syntax {
			fname := filepath.Base(p.Fset.Position(f.Pos()).Filename)
			if strings.HasSuffix(fname, "_test.go") || strings.HasPrefix(fname, "zz_verif") {
				continue
			}
			for _, d := range f.Decls {
				fd, ok := d.(*ast.FuncDecl)
				if !ok || fd.Body == nil {
					continue
				}
				obj, _ := p.TypesInfo.Defs[fd.Name].(*types.Func)
				if obj == nil {
					continue
				}
				sf := &spFn{p: p, fd: fd, obj: obj, file: fname}
				fns = append(fns, sf)
				byObj[obj.FullName()] = sf
			}
		}
	}

	// ---- declarations
	var decls []spDecl
	for _, p := range c.pkgs {
		scope := p.Types.Scope()
		names := scope.Names()
		sort.Strings(names)
		for _, name := range names {
			switch o := scope.Lookup(name).(type) {
			case *types.Var:
				if spHoldsPool(o.Type()) {
					decls = append(decls, spDecl{p.Name + "." + name, "var " + types.TypeString(o.Type(), func(q *types.Package) string { return q.Name() })})
				}
			case *types.TypeName:
				if st, ok := o.Type().Underlying().(*types.Struct); ok && !o.IsAlias() {
					for i := 0; i < st.NumFields(); i++ {
						if f := st.Field(i); spHoldsPool(f.Type()) {
							decls = append(decls, spDecl{p.Name + "." + name + "." + f.Name(), "field " + types.TypeString(f.Type(), func(q *types.Package) string { return q.Name() })})
						}
					}
				}
			}
		}
	}
	for _, sf := range fns {
		ast.Inspect(sf.fd.Body, func(n ast.Node) bool {
			if cl, ok := n.(*ast.CompositeLit); ok {
				if tv, ok := sf.p.TypesInfo.Types[cl]; ok && spIsPool(tv.Type) {
					decls = append(decls, spDecl{sf.p.Name + "." + spFuncName(sf.fd), "literal sync.Pool{...}"})
				}
			}
			return true
		})
	}

	// ---- put wrappers: function full name -> index of the parameter it puts (-1 = receiver)
	wrappers := map[string]int{}
	wrapObjType := map[string]types.Type{}
	paramIndex := func(sf *spFn, e ast.Expr) (int, bool) {
		id, ok := ast.Unparen(e).(*ast.Ident)
		if !ok {
			return 0, false
		}
		v, ok := sf.p.TypesInfo.Uses[id].(*types.Var)
		if !ok {
			return 0, false
		}
		sig := sf.obj.Type().(*types.Signature)
		if sig.Recv() != nil && sig.Recv() == v {
			return -1, true
		}
		for i := 0; i < sig.Params().Len(); i++ {
			if sig.Params().At(i) == v {
				return i, true
			}
		}
		return 0, false
	}
	// the object a call hands to a wrapper: receiver expression or k-th argument
	handed := func(call *ast.CallExpr, k int) ast.Expr {
		if k == -1 {
			if sel, ok := ast.Unparen(call.Fun).(*ast.SelectorExpr); ok {
				return sel.X
			}
			return nil
		}
		if k < len(call.Args) {
			return call.Args[k]
		}
		return nil
	}
	// implementers: interface method full name -> concrete method full names (loaded packages)
	var namedTypes []*types.Named
	for _, p := range c.pkgs {
		scope := p.Types.Scope()
		for _, name := range scope.Names() {
			if tn, ok := scope.Lookup(name).(*types.TypeName); ok && !tn.IsAlias() {
				if n, ok := tn.Type().(*types.Named); ok {
					namedTypes = append(namedTypes, n)
				}
			}
		}
	}
	wrapperOf := func(f *types.Func) (int, bool) {
		if k, ok := wrappers[f.FullName()]; ok {
			return k, true
		}
		// interface method: a wrapper if one implementation is a receiver-wrapper
		sig, _ := f.Type().(*types.Signature)
		if sig == nil || sig.Recv() == nil {
			return 0, false
		}
		it, ok := sig.Recv().Type().Underlying().(*types.Interface)
		if !ok {
			return 0, false
		}
		for _, n := range namedTypes {
			for _, ty := range []types.Type{n, types.NewPointer(n)} {
				if _, isIface := n.Underlying().(*types.Interface); isIface || !types.Implements(ty, it) {
					continue
				}
				ms := types.NewMethodSet(ty)
				if m := ms.Lookup(f.Pkg(), f.Name()); m != nil {
					if mf, ok := m.Obj().(*types.Func); ok {
						if k, ok := wrappers[mf.FullName()]; ok && k == -1 {
							if _, seen := wrapObjType[f.FullName()]; !seen {
								wrapObjType[f.FullName()] = wrapObjType[mf.FullName()]
							}
							return -1, true
						}
					}
				}
			}
		}
		return 0, false
	}
	for changed := true; changed; {
		changed = false
		for _, sf := range fns {
			if _, ok := wrappers[sf.obj.FullName()]; ok {
				continue
			}
			c.spWalk(sf.p, sf.fd.Body, func(call *ast.CallExpr, guard []string) {
				if _, ok := wrappers[sf.obj.FullName()]; ok {
					return
				}
				info := sf.p.TypesInfo
				var put ast.Expr
				if sel, ok := ast.Unparen(call.Fun).(*ast.SelectorExpr); ok && sel.Sel.Name == "Put" && len(call.Args) == 1 {
					if tv, ok := info.Types[sel.X]; ok && spIsPool(tv.Type) {
						put = call.Args[0]
					}
				}
				if put == nil {
					if f := spCallee(info, call); f != nil {
						if k, ok := wrapperOf(f); ok {
							put = handed(call, k)
						}
					}
				}
				if put == nil {
					return
				}
				if k, ok := paramIndex(sf, put); ok {
					wrappers[sf.obj.FullName()] = k
					if tv, ok := info.Types[put]; ok {
						wrapObjType[sf.obj.FullName()] = tv.Type
					}
					changed = true
				}
			})
		}
	}
	isFrame := func(ty types.Type) bool {
		if ty == nil {
			return false
		}
		if p, ok := ty.(*types.Pointer); ok {
			ty = p.Elem()
		}
		n, ok := ty.(*types.Named)
		return ok && n.Obj().Name() == "Frame" && n.Obj().Pkg() != nil && n.Obj().Pkg().Path() == spRootPath
	}

	// ---- sites
	var sites []spSite
	for _, sf := range fns {
		fn := sf.p.Name + "." + spFuncName(sf.fd)
		c.spWalk(sf.p, sf.fd.Body, func(call *ast.CallExpr, guard []string) {
			info := sf.p.TypesInfo
			add := func(kind, pool, obj string) {
				sites = append(sites, spSite{pkg: sf.p.PkgPath, file: sf.file, pos: int(call.Pos()), fn: fn, kind: kind, pool: pool, obj: obj, grd: strings.Join(guard, " && ")})
			}
			if sel, ok := ast.Unparen(call.Fun).(*ast.SelectorExpr); ok && (sel.Sel.Name == "Put" || sel.Sel.Name == "Get") {
				if tv, ok := info.Types[sel.X]; ok && spIsPool(tv.Type) {
					obj := ""
					if sel.Sel.Name == "Put" && len(call.Args) == 1 {
						obj = c.oneLine(sf.p, call.Args[0])
					}
					add(sel.Sel.Name, c.poolName(sf.p, sel.X), obj)
					return
				}
			}
			if f := spCallee(info, call); f != nil {
				if k, ok := wrapperOf(f); ok {
					if isFrame(wrapObjType[f.FullName()]) {
						return
					}
					obj := ""
					if e := handed(call, k); e != nil {
						obj = c.oneLine(sf.p, e)
					}
					add("PutVia", spObjName(f), obj)
				}
			}
		})
	}
	sort.SliceStable(sites, func(i, j int) bool {
		a, b := sites[i], sites[j]
		if a.pkg != b.pkg {
			return a.pkg < b.pkg
		}
		if a.file != b.file {
			return a.file < b.file
		}
		return a.pos < b.pos
	})
	sort.SliceStable(decls, func(i, j int) bool { return decls[i].name < decls[j].name })

	fmt.Fprintf(w, "Definition syncpool_decls : list (list Z * list Z) := [\n")
	for i, d := range decls {
		sep := ";"
		if i == len(decls)-1 {
			sep = ""
		}
		fmt.Fprintf(w, "  (* %d: %s : %s *)\n  (%s, %s)%s\n", i+1, d.name, spComment(d.how), strlit(d.name), strlit(d.how), sep)
	}
	fmt.Fprintf(w, "].\n\n")
	var wnames []string
	for name, k := range wrappers {
		if !isFrame(wrapObjType[name]) {
			wnames = append(wnames, fmt.Sprintf("%s puts %s", byObjName(byObj, name), map[bool]string{true: "its receiver", false: fmt.Sprintf("its parameter %d", k)}[k == -1]))
		}
	}
	sort.Strings(wnames)
	fmt.Fprintf(w, "(* put wrappers detected (frame wrappers left out): %s *)\n", spComment(strings.Join(wnames, "; ")))
	fmt.Fprintf(w, "Definition syncpool_sites : list (list Z * list Z * list Z * list Z * list Z) := [\n")
	for i, s := range sites {
		sep := ";"
		if i == len(sites)-1 {
			sep = ""
		}
		cm := fmt.Sprintf("%s %s: %s %s (%s) [%s]", s.file, s.fn, s.kind, s.pool, s.obj, s.grd)
		fmt.Fprintf(w, "  (* %d: %s *)\n  (%s, %s, %s, %s, %s)%s\n", i+1, spComment(cm), strlit(s.fn), strlit(s.kind), strlit(s.pool), strlit(s.obj), strlit(s.grd), sep)
	}
	fmt.Fprintf(w, "].\n")
	return len(decls), len(sites), len(wnames)
}

func byObjName(byObj map[string]*spFn, full string) string {
	if sf, ok := byObj[full]; ok {
		return sf.p.Name + "." + spFuncName(sf.fd)
	}
	return full
}

func spComment(s string) string {
	return strings.ReplaceAll(strings.ReplaceAll(s, "*)", "* )"), "(*", "( *")
}

// syncPoolSitesSafe: a failure of the extraction must break the proof obligation, not the whole
// translator run.
func syncPoolSitesSafe(w *bytes.Buffer, repo string) (ndecl, nsites, nwrap int) {
	mark := w.Len()
	defer func() {
		if r := recover(); r != nil {
			f, ok := r.(failure)
			if !ok {
				// (main's deferred os.Exit would swallow a re-panic together with its message)
				f = failure{fmt.Sprintf("panic: %v\n%s", r, debug.Stack())}
				fmt.Fprintf(os.Stderr, "go2v: syncpools: %s\n", f.msg)
			}
			w.Truncate(mark)
			fmt.Fprintf(w, "(* syncpools.go could not extract the tables: %s *)\n", spComment(f.msg))
			fmt.Fprintf(w, "Definition syncpool_decls : list (list Z * list Z) := [].\n")
			fmt.Fprintf(w, "Definition syncpool_sites : list (list Z * list Z * list Z * list Z * list Z) := [].\n")
			ndecl, nsites, nwrap = 0, 0, 0
		}
	}()
	return syncPoolSites(w, repo)
}
