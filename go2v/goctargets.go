package main

// C16 -- the get-or-create functions of the peer bookkeeping (Gen/GenPeerGoc.v).
//
// root_peer_list.go RootPeerList.Add / Get / GetOrAdd and peer.go PeerList.Add / exists / Remove /
// GetOrAdd look a host:port up under a read lock, look it up AGAIN under the write lock and only
// then create / insert; every caller must leave with the object that is stored in the map.
// Translated here on every run, one definition per lock-protected region (statement targets; the
// placement of the regions is pinned by the lock skeletons of mapext.go):
//   * the maps are state variables (Target.Maps): peersByHostPort : gmap (host:port name -> object
//     name; a *peerScore is identified with its Peer), scCount : Z -> Z (reference count per object);
//   * newPeer(l.channel, hostPort, l.onPeerStatusChanged, l.onClosedConnRemoved) is the parameter
//     `fresh` (the name of the object this call allocates); the hint is keyed on the full call text,
//     so a Peer created with other callbacks is not translated;
//   * p.addSC() / p.delSC() are `sc_add scCount p (+-1)`; heap operations are dropped (C15).
// Proofs/PeerGocGenP.v proves each definition equal to the step function of the interleaving
// model Model/PeerGoc.v, so returning a private object, storing another object than the returned
// one, dropping the re-check, counting a reference on another object ... breaks an obligation.

var gocMaps = map[string]string{"l.peersByHostPort": "peersByHostPort"}

func init() {
	targetImports["GenPeerGoc"] = []string{"Base.GoMap"}
	lockDrop := map[string]string{"l.RLock()": "", "l.RUnlock()": ""}
	goc := []Target{
		// RootPeerList.Get: the read-locked lookup, both results
		{Func: "RootPeerList.Get", Out: "rootGetVal", File: "GenPeerGoc", Soft: true, RetIdx: 0,
			Params: "(peersByHostPort : gmap) (hostPort : Z)", Ret: "Z", Maps: gocMaps, SHints: lockDrop},
		{Func: "RootPeerList.Get", Out: "rootGetOk", File: "GenPeerGoc", Soft: true, RetIdx: 1,
			Params: "(peersByHostPort : gmap) (hostPort : Z)", Ret: "bool", Maps: gocMaps, SHints: lockDrop},
		// RootPeerList.Add, region 1 (read lock): Some p = return p; None = miss, go on to region 2
		{Func: "RootPeerList.Add", Out: "rootAddFast", File: "GenPeerGoc", Soft: true, Panics: true,
			Params: "(peersByHostPort : gmap) (hostPort : Z)", Ret: "option Z", Maps: gocMaps,
			Stmt: "if p, ok := l.peersByHostPort[hostPort]; ok {\n\tl.RUnlock()", Rest: "None", SHints: lockDrop},
		// RootPeerList.Add, region 2 (write lock, everything after `defer l.Unlock()`): (new map, returned object)
		{Func: "RootPeerList.Add", Out: "rootAddSlow", File: "GenPeerGoc", Soft: true,
			Params: "(peersByHostPort : gmap) (hostPort : Z) (fresh : Z)", Ret: "gmap * Z", Maps: gocMaps,
			Stmt: "defer l.Unlock()", After: true, RetFmt: "(peersByHostPort, %s)",
			Hints:  map[string]string{"newPeer(l.channel, hostPort, l.onPeerStatusChanged, l.onClosedConnRemoved)": "fresh"},
			SHints: map[string]string{"var p *Peer": "let p := 0 in"}},
		// RootPeerList.GetOrAdd: (x, false) = return the object x; (x, true) = return l.Add(x)
		{Func: "RootPeerList.GetOrAdd", Out: "rootGetOrAdd", File: "GenPeerGoc", Soft: true,
			Params: "(peersByHostPort : gmap) (hostPort : Z)", Ret: "Z * bool", Maps: gocMaps,
			Hints: map[string]string{
				"l.Get(hostPort)": "(rootGetVal peersByHostPort hostPort, rootGetOk peersByHostPort hostPort)",
				"peer":            "(peer, false)",
				"l.Add(hostPort)": "(hostPort, true)",
			}},
		// PeerList.exists: the read-locked lookup of a peer list
		{Func: "PeerList.exists", Out: "listExistsVal", File: "GenPeerGoc", Soft: true, RetIdx: 0,
			Params: "(peersByHostPort : gmap) (hostPort : Z)", Ret: "Z", Maps: gocMaps, SHints: lockDrop},
		{Func: "PeerList.exists", Out: "listExistsOk", File: "GenPeerGoc", Soft: true, RetIdx: 1,
			Params: "(peersByHostPort : gmap) (hostPort : Z)", Ret: "bool", Maps: gocMaps, SHints: lockDrop},
		// PeerList.Add, region 1 (l.exists): Some p = return p; None = miss
		{Func: "PeerList.Add", Out: "listAddFast", File: "GenPeerGoc", Soft: true, Panics: true,
			Params: "(peersByHostPort : gmap) (hostPort : Z)", Ret: "option Z", Maps: gocMaps,
			Stmt: "if ps, ok := l.exists(hostPort); ok {", Rest: "None",
			Hints: map[string]string{
				"l.exists(hostPort)": "(listExistsVal peersByHostPort hostPort, listExistsOk peersByHostPort hostPort)",
				"ps.Peer":            "ps",
			}},
		// PeerList.Add, region 2 (write lock): the re-check
		{Func: "PeerList.Add", Out: "listAddRecheck", File: "GenPeerGoc", Soft: true, Panics: true,
			Params: "(peersByHostPort : gmap) (hostPort : Z)", Ret: "option Z", Maps: gocMaps,
			Stmt: "if p, ok := l.peersByHostPort[hostPort]; ok {", Rest: "None",
			Hints: map[string]string{"p.Peer": "p"}},
		// PeerList.Add, still under the write lock: what follows `p := l.parent.Add(hostPort)`:
		// (new list map, new reference counts, returned object); p = what the root list returned
		{Func: "PeerList.Add", Out: "listAddTail", File: "GenPeerGoc", Soft: true,
			Params: "(peersByHostPort : gmap) (scCount : Z -> Z) (hostPort : Z) (p : Z)", Ret: "gmap * (Z -> Z) * Z", Maps: gocMaps,
			Stmt: "p := l.parent.Add(hostPort)", After: true, RetFmt: "(peersByHostPort, scCount, %s)",
			Hints: map[string]string{"newPeerScore(p, l.scoreCalculator.GetScore(p))": "p"},
			SHints: map[string]string{
				"verifPoint(...":         "",
				"p.addSC()":              "let scCount := sc_add scCount p 1 in",
				"l.peerHeap.addPeer(ps)": "",
			}},
		// PeerList.Remove (one write-locked region): (new list map, new reference counts, found?)
		{Func: "PeerList.Remove", Out: "listRemove", File: "GenPeerGoc", Soft: true,
			Params: "(peersByHostPort : gmap) (scCount : Z -> Z) (hostPort : Z)", Ret: "gmap * (Z -> Z) * bool", Maps: gocMaps,
			Stmt: "defer l.Unlock()", After: true, RetFmt: "(peersByHostPort, scCount, %s)",
			Hints: map[string]string{"ErrPeerNotFound": "false", "nil": "true"},
			SHints: map[string]string{
				"p.delSC()":                "let scCount := sc_add scCount p (-1) in",
				"l.peerHeap.removePeer(p)": "",
			}},
		// RootPeerList.onClosedConnRemoved (the collector; three regions: l.Get, p.canRemove, the locked
		// delete): the final root map.  can_remove = Peer.canRemove of an object; peer_hp = peer.HostPort()
		{Func: "RootPeerList.onClosedConnRemoved", Out: "rootCollect", File: "GenPeerGoc", Soft: true,
			Params: "(peersByHostPort : gmap) (can_remove : Z -> bool) (peer_hp : Z)", Ret: "gmap", Maps: gocMaps,
			VoidRet: "peersByHostPort",
			Hints: map[string]string{
				"peer.HostPort()": "peer_hp",
				"l.Get(hostPort)": "(rootGetVal peersByHostPort hostPort, rootGetOk peersByHostPort hostPort)",
				"p.canRemove()":   "(can_remove p)",
			},
			SHints: map[string]string{"l.Lock()": "", "l.Unlock()": "", "l.channel.Logger().WithFields(...": ""}},
		// PeerList.GetOrAdd = Add on the same host:port
		{Func: "PeerList.GetOrAdd", Out: "listGetOrAddArg", File: "GenPeerGoc", Soft: true,
			Params: "(hostPort : Z)", Ret: "Z",
			Hints: map[string]string{"l.Add(hostPort)": "hostPort"}},
	}
	targets = append(targets, goc...)
}
