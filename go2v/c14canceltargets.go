package main

// C14 -- the path of a caller's cancel, hop by hop (Gen/GenC14Cancel.v).
//
// "With cancel propagation enabled on both ends, the caller cancels => the handler's context is
// cancelled" rests on five small functions, each of which may decide to drop the cancel:
//
//	c14OnCancel         connection.go Connection.onCancel (caller's connection): 6 = the cancel
//	                    message is handed to sendMessage, 7 = connectionError
//	c14RelayCancelRoute connection.go Connection.handleFrameRelay (each relay hop): 0 = frame
//	                    ignored, 1 = Relayer.Relay(frame), 2 = handleFrameNoRelay(frame)
//	c14HandleCancel     inbound.go Connection.handleCancel (server's connection): 1 = counted as
//	                    requested, 2 = counted as honoured, 3 = inbound.handleCancel(frame)
//	c14MexsetCancel     mex.go messageExchangeSet.handleCancel: 4 = mex.handleCancel(frame)
//	c14MexCancel        mex.go messageExchange.handleCancel: 5 = mex.ctxCancel()
//
// They are regenerated as TRACES of the calls they make (Target.CallTrace, calltrace.go) as
// functions of the option (SendCancelOnContextCanceled / PropagateCancel), of the CONNECTION
// STATE (`state`: what c.readState() returns; c.IsActive() is state = connectionActive) and of
// the channel state (`chstate`), although the code as it is consults neither state: a condition
// on them that an edit adds (`|| !c.IsActive()`, `c.readState() != connectionActive`, a test of
// the channel's state) is translated, and Proofs/C14DrainCancelP.v -- which proves every trace
// independent of both states and equal to the cancel step of Model/Cancel.v -- stops compiling.
// Any other added condition (an expression without a hint) fails the translation of the target:
// it is Soft, so the definition disappears and the same proofs stop compiling.
func init() {
	stateHints := map[string]string{
		"c.IsActive()":                       "(state =? c_connectionActive)",
		"c.readState()":                      "state",
		"c.state":                            "state",
		"c.opts.PropagateCancel":             "propagateCancel",
		"c.opts.SendCancelOnContextCanceled": "sendCancel",
		"c.connections.ChannelState()":       "chstate",
		"c.closeNetworkCalled.Load()":        "(state =? c_connectionClosed)",
		"c.stoppedExchanges.Load()":          "(state =? c_connectionClosed)",
	}
	targets = append(targets, []Target{
		{Func: "Connection.onCancel", Out: "c14OnCancel", File: "GenC14Cancel", Soft: true,
			Params: "(sendCancel : bool) (state chstate : Z) (serr : bool) (tr : list Z)", Ret: "list Z", NakedRetW: "tr",
			Hints: merge(stateHints, map[string]string{
				"c.sendMessage(cancelMsg)": "serr",
				"err != nil":               "err",
			}),
			SHints:    map[string]string{"cancelMsg := &cancelMessage{...": ""},
			CallTrace: map[string]string{"c.sendMessage(cancelMsg)": "6", "c.connectionError(\"send cancel\", err)": "7"}},
		{Func: "Connection.handleFrameRelay", Out: "c14RelayCancelRoute", File: "GenC14Cancel", Soft: true,
			Params: "(mt : Z) (propagateCancel : bool) (state chstate : Z)", Ret: "Z",
			Hints: merge(stateHints, map[string]string{
				"frame.Header.messageType": "mt", "true": "0", "shouldRelease": "1", "c.handleFrameNoRelay(frame)": "2"}),
			SHints: map[string]string{
				"if c.log.Enabled(LogLevelDebug) {...":       "",
				"shouldRelease, err := c.relay.Relay(frame)": "",
				"if err != nil {...":                         "",
			}},
		{Func: "Connection.handleCancel", Out: "c14HandleCancel", File: "GenC14Cancel", Soft: true,
			Params: "(propagateCancel : bool) (state chstate : Z) (tr : list Z)", Ret: "list Z * bool", RetFmt: "(tr, %s)",
			Hints:  stateHints,
			SHints: map[string]string{"if c.log.Enabled(LogLevelDebug) {...": ""},
			CallTrace: map[string]string{
				"c.statsReporter.IncCounter(\"inbound.cancels.requested\", c.commonStatsTags, 1)": "1",
				"c.statsReporter.IncCounter(\"inbound.cancels.honored\", c.commonStatsTags, 1)":   "2",
				"c.inbound.handleCancel(frame)": "3",
			}},
		{Func: "messageExchangeSet.handleCancel", Out: "c14MexsetCancel", File: "GenC14Cancel", Soft: true,
			Params: "(registered : bool) (tr : list Z)", Ret: "list Z", NakedRetW: "tr",
			Hints: map[string]string{"mex == nil": "(negb registered)", "mex != nil": "registered"},
			SHints: map[string]string{
				"if mexset.log.Enabled(LogLevelDebug) {...": "",
				"mexset.RLock()":                           "",
				"mexset.RUnlock()":                         "",
				"mex := mexset.exchanges[frame.Header.ID]": "",
				"mexset.log.WithFields(...":                "",
			},
			CallTrace: map[string]string{"mex.handleCancel(frame)": "4"}},
		{Func: "messageExchange.handleCancel", Out: "c14MexCancel", File: "GenC14Cancel", Soft: true,
			Params: "(hasCancel : bool) (tr : list Z)", Ret: "list Z", NakedRetW: "tr",
			Hints:     map[string]string{"mex.ctxCancel != nil": "hasCancel"},
			CallTrace: map[string]string{"mex.ctxCancel()": "5"}},
	}...)
}
