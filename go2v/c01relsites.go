package main

// c01relsites.go (C01): WHO GIVES BACK THE FRAME A REQUEST / RESPONSE READER IS PARSED INTO.
//
// The fragmentingReader's curChunk / remainingChunks are slices of the payload of the frame of its
// current readableFragment; readableFragment.done() runs the fragment's onDone (FramePool.Release
// of that frame).  Bytes a handler reads are the bytes its caller sent only as long as nobody gives
// that frame back while the reader still has unread chunks in it.  The reader itself does so when
// it has consumed the fragment (fragmentingReader.Close / recvAndParseNextFragment); outside the
// reader only the paths that FAIL the call do (InboundCallResponse.SendSystemError, a call whose
// method could not be read), through reqResReader.releasePreviousFragment.
//
// Regenerated on every run as Gen/GenC01RelSites.c01_release_sites: one row per call, in the
// non-test source of package tchannel, whose callee can release a reader's fragment:
//
//	(enclosing function, callee, receiver expression, guard)
//
// callee is
//   - the field call  f.onDone()  of a readableFragment                   ("readableFragment.onDone")
//   - a function of the RELEASING set Rel: the least set of functions that contain such a call or a
//     call of a member of Rel -- static calls, methods through embedding, interface calls (matched
//     by method name against the members of Rel), calls inside function literals (guard "func").
//
// The closure is cut at the reader's own API (methods of fragmentingReader: a call of Read / Close
// is the application consuming its argument), at InboundCallResponse.SendSystemError (the
// exported "fail this call" operation) and at Connection.dispatchInbound (the body of a call's
// handler goroutine: its callers START a call): calls OF these are not rows and do not propagate.
// guard: the enclosing conditions as in cksites.go.  Line numbers are not part of a row.

import (
	"bytes"
	"fmt"
	"go/ast"
	"go/types"
	"path/filepath"
	"sort"
	"strings"
)

type c01relCall struct {
	file         string
	pos          int
	caller       string
	callee       string // "T.m", "f", "iface:m", "field:T.f"
	rx, grd      string
	callerIsStop bool
}

func c01relNamed(ty types.Type) string {
	for {
		if p, ok := ty.(*types.Pointer); ok {
			ty = p.Elem()
			continue
		}
		break
	}
	if n, ok := ty.(*types.Named); ok {
		return n.Obj().Name()
	}
	return ""
}

func (t *translator) c01RelSites(w *bytes.Buffer) (int, int) {
	info := t.pkg.TypesInfo
	var calls []c01relCall
	for _, f := range t.pkg.Syntax {
		fname := filepath.Base(t.fset.Position(f.Pos()).Filename)
		if strings.HasSuffix(fname, "_test.go") || strings.HasPrefix(fname, "zz_verif") {
			continue
		}
		for _, d := range f.Decls {
			fd, ok := d.(*ast.FuncDecl)
			if !ok || fd.Body == nil {
				continue
			}
			fn := fd.Name.Name
			if fd.Recv != nil && len(fd.Recv.List) == 1 {
				rt := fd.Recv.List[0].Type
				if st, ok := rt.(*ast.StarExpr); ok {
					rt = st.X
				}
				if id, ok := rt.(*ast.Ident); ok {
					fn = id.Name + "." + fn
				}
			}
			with := func(guard []string, g string) []string { return append(append([]string{}, guard...), g) }
			var walk func(n ast.Node, guard []string)
			walk = func(n ast.Node, guard []string) {
				switch x := n.(type) {
				case nil:
					return
				case *ast.IfStmt:
					walk(x.Init, guard)
					walk(x.Cond, guard)
					c := t.oneLine(x.Cond)
					walk(x.Body, with(guard, c))
					if x.Else != nil {
						walk(x.Else, with(guard, "!("+c+")"))
					}
					return
				case *ast.ForStmt:
					walk(x.Init, guard)
					g := with(guard, "for")
					if x.Cond != nil {
						walk(x.Cond, g)
					}
					walk(x.Post, g)
					walk(x.Body, g)
					return
				case *ast.RangeStmt:
					walk(x.X, guard)
					walk(x.Body, with(guard, "range"))
					return
				case *ast.CaseClause:
					g := "default"
					if len(x.List) > 0 {
						var ps []string
						for _, e := range x.List {
							walk(e, guard)
							ps = append(ps, t.oneLine(e))
						}
						g = "case " + strings.Join(ps, ", ")
					}
					for _, s := range x.Body {
						walk(s, with(guard, g))
					}
					return
				case *ast.CommClause:
					g := "default"
					if x.Comm != nil {
						walk(x.Comm, guard)
						g = "case " + t.oneLine(x.Comm)
					}
					for _, s := range x.Body {
						walk(s, with(guard, g))
					}
					return
				case *ast.DeferStmt:
					walk(x.Call, with(guard, "defer"))
					return
				case *ast.GoStmt:
					walk(x.Call, with(guard, "go"))
					return
				case *ast.FuncLit:
					walk(x.Body, with(guard, "func"))
					return
				case *ast.CallExpr:
					callee, rx := "", ""
					switch fun := x.Fun.(type) {
					case *ast.Ident:
						if o, ok := info.Uses[fun].(*types.Func); ok && o.Pkg() == t.pkg.Types {
							callee = o.Name()
						}
					case *ast.SelectorExpr:
						rx = t.oneLine(fun.X)
						if sel, ok := info.Selections[fun]; ok {
							switch sel.Kind() {
							case types.MethodVal:
								o := sel.Obj().(*types.Func)
								sig := o.Type().(*types.Signature)
								if sig.Recv() != nil {
									if _, isIface := sig.Recv().Type().Underlying().(*types.Interface); isIface {
										callee = "iface:" + o.Name()
									} else if o.Pkg() == t.pkg.Types {
										callee = c01relNamed(sig.Recv().Type()) + "." + o.Name()
									}
								}
							case types.FieldVal:
								// a call of a func-typed field: owner = the struct that declares it
								if v, ok := sel.Obj().(*types.Var); ok && v.Pkg() == t.pkg.Types {
									owner := c01relNamed(sel.Recv())
									// through embedding: find the declaring struct among the package's types
									for _, nm := range t.pkg.Types.Scope().Names() {
										if tn, ok := t.pkg.Types.Scope().Lookup(nm).(*types.TypeName); ok {
											if st, ok := tn.Type().Underlying().(*types.Struct); ok {
												for i := 0; i < st.NumFields(); i++ {
													if st.Field(i) == v {
														owner = tn.Name()
													}
												}
											}
										}
									}
									callee = "field:" + owner + "." + v.Name()
								}
							}
						}
					}
					if callee != "" {
						calls = append(calls, c01relCall{file: fname, pos: int(x.Pos()), caller: fn, callee: callee, rx: rx, grd: strings.Join(guard, " && ")})
					}
				}
				var kids []ast.Node
				first := true
				ast.Inspect(n, func(c ast.Node) bool {
					if first {
						first = false
						return true
					}
					if c != nil {
						kids = append(kids, c)
					}
					return false
				})
				for _, c := range kids {
					walk(c, guard)
				}
			}
			walk(fd.Body, nil)
		}
	}
	const base = "field:readableFragment.onDone"
	isStop := func(fn string) bool {
		return strings.HasPrefix(fn, "fragmentingReader.") || fn == "InboundCallResponse.SendSystemError" || fn == "Connection.dispatchInbound"
	}
	rel := map[string]bool{}
	// does a call of `callee` reach a release (through a member of Rel that is not cut off)?
	reaches := func(callee string) bool {
		if callee == base {
			return true
		}
		if strings.HasPrefix(callee, "iface:") {
			m := callee[len("iface:"):]
			for g := range rel {
				if !isStop(g) && strings.HasSuffix(g, "."+m) {
					return true
				}
			}
			return false
		}
		return rel[callee] && !isStop(callee)
	}
	for changed := true; changed; {
		changed = false
		for _, c := range calls {
			if !rel[c.caller] && reaches(c.callee) {
				rel[c.caller] = true
				changed = true
			}
		}
	}
	var rows []c01relCall
	for _, c := range calls {
		if reaches(c.callee) {
			rows = append(rows, c)
		}
	}
	sort.SliceStable(rows, func(i, j int) bool {
		if rows[i].file != rows[j].file {
			return rows[i].file < rows[j].file
		}
		return rows[i].pos < rows[j].pos
	})
	fmt.Fprintf(w, "(* every call that can give back the frame a reader is parsed into (go2v/c01relsites.go):\n   (enclosing function, callee, receiver, guard), in source order *)\n")
	fmt.Fprintf(w, "Definition c01_release_sites : list (list Z * list Z * list Z * list Z) := [\n")
	for i, s := range rows {
		sep := ";"
		if i == len(rows)-1 {
			sep = ""
		}
		callee := strings.TrimPrefix(strings.TrimPrefix(s.callee, "field:"), "iface:")
		cm := fmt.Sprintf("%s %s: %s -> %s() [%s]", s.file, s.caller, s.rx, callee, s.grd)
		cm = strings.ReplaceAll(strings.ReplaceAll(cm, "*)", "* )"), "(*", "( *")
		fmt.Fprintf(w, "  (* %d: %s *)\n  (%s, %s, %s, %s)%s\n", i+1, cm, strlit(s.caller), strlit(callee), strlit(s.rx), strlit(s.grd), sep)
	}
	fmt.Fprintf(w, "].\n\n")
	// the releasing set, sorted
	var names []string
	for g := range rel {
		names = append(names, g)
	}
	sort.Strings(names)
	fmt.Fprintf(w, "(* the functions from which such a call is reachable (closure cut at the reader's own API,\n   InboundCallResponse.SendSystemError and Connection.dispatchInbound) *)\n")
	fmt.Fprintf(w, "Definition c01_releasing_functions : list (list Z) := [\n")
	for i, g := range names {
		sep := ";"
		if i == len(names)-1 {
			sep = ""
		}
		fmt.Fprintf(w, "  (* %s *) %s%s\n", g, strlit(g), sep)
	}
	fmt.Fprintf(w, "].\n")
	return len(rows), len(names)
}
