package main

// c04reader.go (C04, strengthening W04): the READER half of a call and the exchange's error channel.
//
// messageExchange.recvPeerFrame (mex.go) hands out what its exchange holds in a fixed priority:
// context error, then every frame already delivered to recvCh, and only then the error the
// connection / the other half of the call notified on errCh (Gen/GenMexProg.v is that function,
// Proofs/MexProgP.v ties it to Model/Mex.v).  That priority is only worth something when the code
// ABOVE it -- reqResReader.recvNextFragment, messageExchange.recvPeerFrameOfType -- goes to
// recvPeerFrame without looking at the error channel first: a `mex.checkError()` in front of the
// receive (the idiom of the WRITER half) makes a notified error win over delivered frames, and
// callers whose complete response sits in their exchange when the connection ends lose it.
//
// Regenerated on every run into Gen/GenC04Reader.v:
//
//	c04r_recvNextFragment, c04r_recvPeerFrameOfType : c04r_prog (Spec/C04ReaderSpec.v)
//	    the statement structure of the two functions: every `if` (its "init; cond" text through
//	    the test table), every simple statement (statement table), every return (result table), in
//	    source order.  recvPeerFrameOfType is cut at its type switch (terminal C04rrDecode).
//	    A statement / condition that is in no table but mentions the exchange (`.mex.` / `mex.`)
//	    becomes C04roMexOther / C04rtMexOther (no semantics: the tie cannot be proved); anything
//	    else outside the tables leaves the definition out (NOT TRANSLATED, the proofs stop compiling).
//	c04r_errch_sites : list (list Z * Z)
//	    every place of package tchannel (non-test) that CONSULTS an exchange's error channel, as
//	    (enclosing function, kind): 1 = call of checkError(), 2 = call of errCh.checkErr(),
//	    3 = receive from errCh.c (select case or plain), 4 = read of errCh.err.
//	    Model/C04Reader.v lists the expected rows; a new consulting site anywhere (a reader-side
//	    accessor, InboundCall / OutboundCallResponse, the fragment reader, the relay) changes the
//	    table and breaks c04r_errch_sites_expected.

import (
	"bytes"
	"fmt"
	"go/ast"
	"go/token"
	"path/filepath"
	"sort"
	"strings"
)

type c04rTarget struct {
	Func     string
	Out      string
	Tests    map[string]string
	Stmts    map[string]string
	Rets     map[string]string
	Switches map[string]string // tag text of a switch that ends the translated region => terminal result
}

var c04rTargets = []c04rTarget{
	{
		Func: "reqResReader.recvNextFragment", Out: "c04r_recvNextFragment",
		Tests: map[string]string{
			"r.initialFragment != nil":              "C04rtInitial",
			"err != nil":                            "C04rtErr",
			"err, ok := err.(errorMessage); ok":     "C04rtErrIsMsg",
			"err := r.mex.checkError(); err != nil": "C04rtMexCheckError",
		},
		Stmts: map[string]string{
			"fragment := r.initialFragment":                                          "C04roTakeInitial",
			"r.initialFragment = nil":                                                "C04roClearInitial",
			"r.previousFragment = fragment":                                          "C04roSetPrev",
			"message := r.messageForFragment(initial)":                               "C04roMessage",
			"frame, err := r.mex.recvPeerFrameOfType(message.messageType())":         "C04roRecvOfType",
			"r.err = err.AsSystemError()":                                            "C04roSetErrMsg",
			"fragment, err := parseInboundFragment(r.mex.framePool, frame, message)": "C04roParse",
		},
		Rets: map[string]string{
			"fragment, nil":      "C04rrFragment",
			"nil, err":           "C04rrErrMsg",
			"nil, r.failed(err)": "C04rrFailed",
		},
	},
	{
		Func: "messageExchange.recvPeerFrameOfType", Out: "c04r_recvPeerFrameOfType",
		Tests: map[string]string{
			"err != nil":                          "C04rtErr",
			"err := mex.checkError(); err != nil": "C04rtMexCheckError",
		},
		Stmts: map[string]string{
			"frame, err := mex.recvPeerFrame()": "C04roRecvPeerFrame",
		},
		Rets: map[string]string{
			"nil, err": "C04rrErr",
		},
		Switches: map[string]string{"frame.Header.messageType": "C04rrDecode"},
	},
}

type c04rCtx struct {
	t    *translator
	tg   *c04rTarget
	note []string
}

func c04rMentionsMex(s string) bool {
	return strings.Contains(s, ".mex.") || strings.HasPrefix(s, "mex.") || strings.Contains(s, " mex.") ||
		strings.Contains(s, "(mex.") || strings.Contains(s, "errCh")
}

func (c *c04rCtx) stmts(list []ast.Stmt, rest string) string {
	if len(list) == 0 {
		if rest == "" {
			failf("%s: control reaches the end of a block without return", c.tg.Func)
		}
		return rest
	}
	s := list[0]
	tail := func() string { return c.stmts(list[1:], rest) }
	switch x := s.(type) {
	case *ast.ReturnStmt:
		var parts []string
		for _, r := range x.Results {
			parts = append(parts, c.t.src(r))
		}
		key := strings.Join(parts, ", ")
		v, ok := c.tg.Rets[key]
		if !ok {
			failf("%s: %s: return value %q is not in the result table", c.t.pos(s), c.tg.Func, key)
		}
		return "(C04rRet " + v + ")"
	case *ast.IfStmt:
		key := c.t.src(x.Cond)
		if x.Init != nil {
			key = c.t.src(x.Init) + "; " + key
		}
		v, ok := c.tg.Tests[key]
		if !ok {
			if !c04rMentionsMex(key) {
				failf("%s: %s: condition %q is not in the test table", c.t.pos(s), c.tg.Func, key)
			}
			v = "C04rtMexOther"
			c.note = append(c.note, fmt.Sprintf("%s: condition on the exchange outside the table: %s", c.t.pos(s), key))
		}
		restTerm := ""
		if !terminates(x.Body.List) || x.Else == nil || !terminatesStmt(x.Else) {
			restTerm = tail()
		}
		thenT := c.stmts(x.Body.List, restTerm)
		var elseT string
		switch el := x.Else.(type) {
		case nil:
			elseT = restTerm
		case *ast.BlockStmt:
			elseT = c.stmts(el.List, restTerm)
		case *ast.IfStmt:
			elseT = c.stmts([]ast.Stmt{el}, restTerm)
		}
		return "(C04rIf " + v + "\n      " + thenT + "\n      " + elseT + ")"
	case *ast.SwitchStmt:
		if x.Tag != nil && x.Init == nil {
			if v, ok := c.tg.Switches[c.t.src(x.Tag)]; ok {
				return "(C04rRet " + v + ")"
			}
		}
		failf("%s: %s: switch %q is outside the subset", c.t.pos(s), c.tg.Func, firstLine(c.t.src(s)))
	case *ast.BlockStmt:
		return c.stmts(append(append([]ast.Stmt{}, x.List...), list[1:]...), rest)
	case *ast.AssignStmt, *ast.ExprStmt, *ast.DeclStmt, *ast.IncDecStmt, *ast.DeferStmt, *ast.GoStmt:
		key := c.t.src(s)
		v, ok := c.tg.Stmts[key]
		if !ok {
			if !c04rMentionsMex(key) {
				failf("%s: %s: statement %q is not in the statement table", c.t.pos(s), c.tg.Func, key)
			}
			v = "C04roMexOther"
			c.note = append(c.note, fmt.Sprintf("%s: statement on the exchange outside the table: %s", c.t.pos(s), key))
		}
		return "(C04rDo " + v + " " + tail() + ")"
	}
	failf("%s: %s: statement %q is outside the subset", c.t.pos(s), c.tg.Func, firstLine(c.t.src(s)))
	return ""
}

func (t *translator) c04rEmitProg(tg *c04rTarget, w *bytes.Buffer) {
	fd, ok := t.funcs[tg.Func]
	if !ok || fd.Body == nil {
		failf("function %s not found in package %s", tg.Func, t.pkg.PkgPath)
	}
	c := &c04rCtx{t: t, tg: tg}
	body := c.stmts(fd.Body.List, "")
	p := t.fset.Position(fd.Pos())
	e := t.fset.Position(fd.End())
	fmt.Fprintf(w, "\n(* from %s:%d-%d  func %s\n", filepath.Base(p.Filename), p.Line, e.Line, tg.Func)
	dump := func(kind string, m map[string]string) {
		keys := make([]string, 0, len(m))
		for k := range m {
			keys = append(keys, k)
		}
		sort.Strings(keys)
		for _, k := range keys {
			fmt.Fprintf(w, "   %s: %s  =>  %s\n", kind, k, m[k])
		}
	}
	dump("test", tg.Tests)
	dump("statement", tg.Stmts)
	dump("result", tg.Rets)
	dump("switch", tg.Switches)
	for _, n := range c.note {
		fmt.Fprintf(w, "   NOTE %s\n", strings.ReplaceAll(strings.ReplaceAll(n, "*)", "* )"), "\"", "'"))
	}
	fmt.Fprintf(w, "*)\nDefinition %s : c04r_prog :=\n  %s.\n", tg.Out, body)
}

func c04rBytes(s string) string {
	parts := make([]string, 0, len(s))
	for _, b := range []byte(s) {
		parts = append(parts, fmt.Sprint(int(b)))
	}
	return "[" + strings.Join(parts, "; ") + "]"
}

// c04rSelPath renders a selector chain a.b.c as "a.b.c" ("" when it is not a pure chain).
func c04rSelPath(e ast.Expr) string {
	switch x := e.(type) {
	case *ast.Ident:
		return x.Name
	case *ast.SelectorExpr:
		p := c04rSelPath(x.X)
		if p == "" {
			return ""
		}
		return p + "." + x.Sel.Name
	case *ast.ParenExpr:
		return c04rSelPath(x.X)
	}
	return ""
}

type c04rSite struct {
	fn   string
	kind int
	pos  token.Position
	text string
}

// c04rErrSites lists every consultation of an exchange's error channel in the package.
func (t *translator) c04rErrSites() []c04rSite {
	var sites []c04rSite
	for _, f := range t.pkg.Syntax {
		fname := t.fset.Position(f.Pos()).Filename
		if strings.HasSuffix(fname, "_test.go") || strings.HasPrefix(filepath.Base(fname), "zz_verif") {
			continue
		}
		for _, d := range f.Decls {
			fd, ok := d.(*ast.FuncDecl)
			if !ok || fd.Body == nil {
				continue
			}
			name := fd.Name.Name
			if fd.Recv != nil && len(fd.Recv.List) == 1 {
				rt := fd.Recv.List[0].Type
				if st, ok := rt.(*ast.StarExpr); ok {
					rt = st.X
				}
				if id, ok := rt.(*ast.Ident); ok {
					name = id.Name + "." + name
				}
			}
			add := func(kind int, n ast.Node) {
				sites = append(sites, c04rSite{fn: name, kind: kind, pos: t.fset.Position(n.Pos()), text: firstLine(t.src(n))})
			}
			recvOperand := map[ast.Expr]bool{}
			ast.Inspect(fd.Body, func(n ast.Node) bool {
				switch x := n.(type) {
				case *ast.CallExpr:
					if se, ok := x.Fun.(*ast.SelectorExpr); ok {
						switch se.Sel.Name {
						case "checkError":
							add(1, x)
						case "checkErr":
							add(2, x)
						}
					}
				case *ast.UnaryExpr:
					if x.Op == token.ARROW {
						if p := c04rSelPath(x.X); strings.HasSuffix(p, "errCh.c") {
							recvOperand[x.X] = true
							add(3, x)
						}
					}
				case *ast.SelectorExpr:
					if p := c04rSelPath(x); strings.HasSuffix(p, "errCh.err") {
						add(4, x)
					} else if strings.HasSuffix(p, "errCh.c") && !recvOperand[x] {
						// the channel handed on as a value (a new way of waiting on it)
						add(3, x)
					}
				}
				return true
			})
		}
	}
	sort.SliceStable(sites, func(i, j int) bool {
		if sites[i].fn != sites[j].fn {
			return sites[i].fn < sites[j].fn
		}
		if sites[i].kind != sites[j].kind {
			return sites[i].kind < sites[j].kind
		}
		return sites[i].pos.Line < sites[j].pos.Line
	})
	return sites
}

// c04ReaderSafe writes the body of Gen/GenC04Reader.v; a target that cannot be translated is left out.
func (t *translator) c04ReaderSafe(w *bytes.Buffer) (nprog, nsites int) {
	for i := range c04rTargets {
		tg := &c04rTargets[i]
		func() {
			var tmp bytes.Buffer
			defer func() {
				if r := recover(); r != nil {
					f, ok := r.(failure)
					if !ok {
						f = failure{fmt.Sprint(r)}
					}
					fmt.Fprintf(w, "\n(* NOT TRANSLATED: %s -- %s *)\n", tg.Out, strings.ReplaceAll(strings.ReplaceAll(f.msg, "*)", "* )"), "\"", "'"))
					fmt.Printf("go2v: NOT TRANSLATED (reader program) %s: %s\n", tg.Out, f.msg)
				}
			}()
			t.c04rEmitProg(tg, &tmp)
			w.Write(tmp.Bytes())
			nprog++
		}()
	}
	func() {
		defer func() {
			if r := recover(); r != nil {
				fmt.Fprintf(w, "\n(* NOT TRANSLATED: c04r_errch_sites -- %s *)\n", strings.ReplaceAll(strings.ReplaceAll(fmt.Sprint(r), "*)", "* )"), "\"", "'"))
				fmt.Printf("go2v: NOT TRANSLATED c04r_errch_sites: %v\n", r)
			}
		}()
		sites := t.c04rErrSites()
		var tmp bytes.Buffer
		fmt.Fprintf(&tmp, "\n(* every consultation of an exchange's error channel in package tchannel (non-test):\n   (enclosing function, kind)  1 checkError()  2 errCh.checkErr()  3 <-errCh.c  4 errCh.err *)\nDefinition c04r_errch_sites : list (list Z * Z) := [\n")
		for i, s := range sites {
			sep := ";"
			if i == len(sites)-1 {
				sep = ""
			}
			txt := strings.ReplaceAll(strings.ReplaceAll(s.text, "*)", "* )"), "\"", "'")
			fmt.Fprintf(&tmp, "  (* %s:%d %s: %s *) (%s, %d)%s\n", filepath.Base(s.pos.Filename), s.pos.Line, s.fn, txt, c04rBytes(s.fn), s.kind, sep)
		}
		fmt.Fprintf(&tmp, "].\n")
		w.Write(tmp.Bytes())
		nsites = len(sites)
	}()
	return
}
