package main

// chanprog.go (C05): the control skeleton of messageExchange.forwardPeerFrame and
// messageExchange.recvPeerFrame (mex.go) as terms of Spec/ChanProg.v, regenerated on every run
// as Gen/GenMexProg.v.  The functions are outside the subset of targets.go (select statements,
// channel sends), so they get a translator of their own: every statement must be
//   - `if [init;] cond { ... } [else ...]` whose "init; cond" text is in the target's test table,
//   - `select { case comm: ... [default: ...] }` whose comm clauses are in the guard table
//     (arms keep their source order; falling out of the select continues with the statements
//     after it),
//   - an expression statement in the statement table (a constructor wrapping the rest, or "" = dropped),
//   - `return results` whose result list is in the result table.
// Anything else -- a new statement, a changed condition, a reordered test, a new case -- either
// changes the generated term or makes the target untranslatable (the definition is then left out,
// with the reason in a comment, and the Coq files that use it stop compiling).

import (
	"bytes"
	"fmt"
	"go/ast"
	"path/filepath"
	"sort"
	"strings"
)

type cpTarget struct {
	Func   string
	Out    string
	Tests  map[string]string
	Guards map[string]string
	Rets   map[string]string
	Stmts  map[string]string
}

var cpGuards = map[string]string{
	"mex.recvCh <- frame":   "GSend",
	"frame := <-mex.recvCh": "GRecv",
	"<-mex.ctx.Done()":      "GCtxDone",
	"<-mex.errCh.c":         "GErrCh",
}

var cpTargets = []cpTarget{
	{
		Func: "messageExchange.forwardPeerFrame", Out: "mexForwardPeerFrame",
		Tests: map[string]string{
			"err := mex.ctx.Err(); err != nil": "TCtxErr",
			"mex.frameDropped.Load()":          "TDropped",
		},
		Guards: cpGuards,
		Rets: map[string]string{
			"nil":                            "RNil",
			"GetContextError(err)":           "RCtxErr",
			"GetContextError(mex.ctx.Err())": "RCtxErr",
			"mex.errCh.err":                  "RLatched",
		},
		Stmts: map[string]string{"mex.frameDropped.Store(true)": "PSetDropped"},
	},
	{
		Func: "messageExchange.recvPeerFrame", Out: "mexRecvPeerFrame",
		Tests: map[string]string{
			"err := mex.ctx.Err(); err != nil":         "TCtxErr",
			"err := mex.checkFrame(frame); err != nil": "TBadFrame",
		},
		Guards: cpGuards,
		Rets: map[string]string{
			"frame, nil":                          "RFrame",
			"nil, err":                            "RUnexpected",
			"nil, GetContextError(err)":           "RCtxErr",
			"nil, GetContextError(mex.ctx.Err())": "RCtxErr",
			"nil, mex.errCh.err":                  "RLatched",
		},
		Stmts: map[string]string{
			"mex.onCtxErr(err)":           "PCtxHook",
			"mex.onCtxErr(mex.ctx.Err())": "PCtxHook",
		},
	},
}

type cpCtx struct {
	t  *translator
	tg *cpTarget
}

func (c *cpCtx) stmts(list []ast.Stmt, rest string) string {
	if len(list) == 0 {
		if rest == "" {
			failf("%s: control reaches the end of a block without return", c.tg.Func)
		}
		return rest
	}
	s := list[0]
	tail := func() string { return c.stmts(list[1:], rest) }
	switch x := s.(type) {
	case *ast.ReturnStmt:
		var parts []string
		for _, r := range x.Results {
			parts = append(parts, c.t.src(r))
		}
		key := strings.Join(parts, ", ")
		v, ok := c.tg.Rets[key]
		if !ok {
			failf("%s: %s: return value %q is not in the result table", c.t.pos(s), c.tg.Func, key)
		}
		return "(PRet " + v + ")"
	case *ast.ExprStmt:
		key := c.t.src(x.X)
		v, ok := c.tg.Stmts[key]
		if !ok {
			failf("%s: %s: statement %q is not in the statement table", c.t.pos(s), c.tg.Func, key)
		}
		if v == "" {
			return tail()
		}
		return "(" + v + " " + tail() + ")"
	case *ast.IfStmt:
		key := c.t.src(x.Cond)
		if x.Init != nil {
			key = c.t.src(x.Init) + "; " + key
		}
		v, ok := c.tg.Tests[key]
		if !ok {
			failf("%s: %s: condition %q is not in the test table", c.t.pos(s), c.tg.Func, key)
		}
		restTerm := ""
		if !terminates(x.Body.List) || x.Else == nil || !terminatesStmt(x.Else) {
			restTerm = tail()
		}
		thenT := c.stmts(x.Body.List, restTerm)
		var elseT string
		switch el := x.Else.(type) {
		case nil:
			elseT = restTerm
		case *ast.BlockStmt:
			elseT = c.stmts(el.List, restTerm)
		case *ast.IfStmt:
			elseT = c.stmts([]ast.Stmt{el}, restTerm)
		}
		return "(PIf " + v + " " + thenT + "\n    " + elseT + ")"
	case *ast.SelectStmt:
		need := false
		for _, cl := range x.Body.List {
			if !terminates(cl.(*ast.CommClause).Body) {
				need = true
			}
		}
		restTerm := ""
		if need {
			restTerm = tail()
		}
		var arms []string
		dflt := "None"
		for _, cl := range x.Body.List {
			cc := cl.(*ast.CommClause)
			body := c.stmts(cc.Body, restTerm)
			if cc.Comm == nil {
				dflt = "(Some " + body + ")"
				continue
			}
			key := c.t.src(cc.Comm)
			g, ok := c.tg.Guards[key]
			if !ok {
				failf("%s: %s: select case %q is not in the guard table", c.t.pos(cc), c.tg.Func, key)
			}
			arms = append(arms, "("+g+", "+body+")")
		}
		return "(PSel [" + strings.Join(arms, ";\n      ") + "]\n     " + dflt + ")"
	case *ast.BlockStmt:
		return c.stmts(append(append([]ast.Stmt{}, x.List...), list[1:]...), rest)
	}
	failf("%s: %s: statement %q is outside the channel-program subset", c.t.pos(s), c.tg.Func, firstLine(c.t.src(s)))
	return ""
}

func (t *translator) emitChanProg(tg *cpTarget, w *bytes.Buffer) {
	fd, ok := t.funcs[tg.Func]
	if !ok || fd.Body == nil {
		failf("function %s not found in package %s", tg.Func, t.pkg.PkgPath)
	}
	c := &cpCtx{t: t, tg: tg}
	body := c.stmts(fd.Body.List, "")
	p := t.fset.Position(fd.Pos())
	e := t.fset.Position(fd.End())
	fmt.Fprintf(w, "\n(* from %s:%d-%d  func %s\n", filepath.Base(p.Filename), p.Line, e.Line, tg.Func)
	dump := func(kind string, m map[string]string) {
		keys := make([]string, 0, len(m))
		for k := range m {
			keys = append(keys, k)
		}
		sort.Strings(keys)
		for _, k := range keys {
			fmt.Fprintf(w, "   %s: %s  =>  %s\n", kind, k, m[k])
		}
	}
	dump("test", tg.Tests)
	dump("guard", tg.Guards)
	dump("result", tg.Rets)
	dump("statement", tg.Stmts)
	fmt.Fprintf(w, "*)\nDefinition %s : cprog :=\n  %s.\n", tg.Out, body)
}

// chanProgsSafe emits every channel program; a target that cannot be translated is left out.
func (t *translator) chanProgsSafe(w *bytes.Buffer) int {
	n := 0
	for i := range cpTargets {
		tg := &cpTargets[i]
		func() {
			var tmp bytes.Buffer
			defer func() {
				if r := recover(); r != nil {
					f, ok := r.(failure)
					if !ok {
						panic(r)
					}
					fmt.Fprintf(w, "\n(* NOT TRANSLATED: %s -- %s *)\n", tg.Out, strings.ReplaceAll(f.msg, "*)", "* )"))
					fmt.Printf("go2v: NOT TRANSLATED (channel program) %s: %s\n", tg.Out, f.msg)
				}
			}()
			t.emitChanProg(tg, &tmp)
			w.Write(tmp.Bytes())
			n++
		}()
	}
	return n
}
