package main

// C06: the SECONDARY, in-place decoders / encoders of message fields -- functions that read or
// write a field straight at an offset of a frame's payload instead of going through the message's
// read / write method: messages.go callReqSpan, relay_messages.go lazyCallReq.Span / TTL / SetTTL /
// Service / HasMoreFragments, lazyError.Code, lazyCallRes.OK, isCallResOK, hasMoreFragments,
// finishesCall, frame.go SizedPayload / messageType.  Translated by the method translator
// (methods.go) into Gen/GenC06InPlace.v; Proofs/C06InPlaceP.v proves each equal to the field of the
// message at the offset the specification encoder (Spec/Protocol.v) puts it.
//
// Representation: a Frame is its Header and its Payload ([]byte held by value; buffer /
// headerBuffer alias the same array and are not represented); the lazy wrappers are their
// embedded *Frame (other fields are results of the parsing constructors, modelled in
// Model/RelayLazy.v, property C08).

func init() {
	mfiles = append(mfiles, &MFile{
		Name:    "GenC06InPlace",
		Imports: []string{"Gen.GenTypedBuf", "Gen.GenMessages"},
		Structs: []*StructRep{
			{Type: "tchannel.Frame", Only: []string{"Header", "Payload"}},
			{Type: "tchannel.lazyCallReq", Only: []string{"Frame"}},
			{Type: "tchannel.lazyCallRes", Only: []string{"Frame"}},
			{Type: "tchannel.lazyError", Only: []string{"Frame"}},
		},
		Targets: []*MTarget{
			{Func: "tchannel.FrameHeader.PayloadSize", Out: "ip_FrameHeader_PayloadSize"},
			{Func: "tchannel.Frame.SizedPayload", Out: "ip_Frame_SizedPayload"},
			{Func: "tchannel.Frame.messageType", Out: "ip_Frame_messageType"},
			{Func: "tchannel.callReqSpan", Out: "ip_callReqSpan"},
			{Func: "tchannel.lazyCallReq.Span", Out: "ip_lazyCallReq_Span"},
			{Func: "tchannel.lazyCallReq.TTL", Out: "ip_lazyCallReq_TTL"},
			{Func: "tchannel.lazyCallReq.SetTTL", Out: "ip_lazyCallReq_SetTTL"},
			{Func: "tchannel.lazyCallReq.Service", Out: "ip_lazyCallReq_Service"},
			{Func: "tchannel.lazyCallReq.HasMoreFragments", Out: "ip_lazyCallReq_HasMoreFragments"},
			{Func: "tchannel.lazyError.Code", Out: "ip_lazyError_Code"},
			{Func: "tchannel.isCallResOK", Out: "ip_isCallResOK"},
			{Func: "tchannel.lazyCallRes.OK", Out: "ip_lazyCallRes_OK"},
			{Func: "tchannel.hasMoreFragments", Out: "ip_hasMoreFragments"},
			{Func: "tchannel.finishesCall", Out: "ip_finishesCall"},
		},
	})
}
