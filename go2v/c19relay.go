package main

// C19, relay strengthening (Gen/GenIdleRelay.v): the counter the idle sweep consults on a relay
// connection.  Connection.hasPendingCalls reaches the relay through Relayer.canClose only
// (GenHealthIdle.v: hasPendingCalls takes canClose's result as its operand; any other mention of
// c.relay in hasPendingCalls has no hint and aborts the translation), canClose reads the counter
// through countPending, and the counter moves in canHandleNewCall (+1 per admitted side of a
// relayed call) and decrementPending (-1) only.  Translated here, as "the counter after the
// function":
//   - every function that ENDS a relay item (timeoutRelayItem, failRelayItem, finishRelayItem) and
//     the rejection branch of handleCallReq: the unit taken at admission is given back exactly
//     when the function took the item, whichever side of the call the connection is on
//     (isOriginator) and whatever the failure reason;
//   - countPending (the value canClose compares with 0), decrementPending, and the increment of
//     canHandleNewCall.
//
// Proofs/IdleRelayP.v proves them equal to the steps of the relay model of C09
// (Model/RelayItems.v: IEntomb / IDelete / IGetDest / IRemoteCan push IDec exactly then), whose
// invariant C09_pending_exact then gives: no live item and no held unit => countPending = 0 =>
// canClose => the sweep closes the connection.
func init() {
	endSHints := map[string]string{
		"verifPoint(...":                              "",
		"items.logger.WithFields(...":                 "",
		"item, ok := items.Entomb(id, _relayTombTTL)": "",
		"r.conn.SendSystemError(...":                  "",
		"item.call.Failed(\"timeout\")":               "",
		"item.call.Failed(reason)":                    "",
		"item.call.End()":                             "",
		"r.decrementPending()":                        "let pending := pending - 1 in",
	}
	targets = append(targets, []Target{
		{Func: "Relayer.timeoutRelayItem", Out: "sweepRelayTimeoutPending", File: "GenIdleRelay", Soft: true,
			Params: "(ok : bool) (isOriginator : bool) (pending : Z)", Ret: "Z",
			Stmt: "item, ok := items.Entomb(id, _relayTombTTL)", After: true, Rest: "pending", NakedRetW: "pending",
			SHints: endSHints},
		{Func: "Relayer.failRelayItem", Out: "sweepRelayFailPending", File: "GenIdleRelay", Soft: true,
			Params: "(found : bool) (stopped : bool) (ok : bool) (isOriginator : bool) (slow : bool) (pending : Z)", Ret: "Z",
			Stmt: "item, stopped, found := items.Get(id, true", After: true, Rest: "pending", NakedRetW: "pending",
			Hints:  map[string]string{"item.isOriginator": "isOriginator", "reason != _relayErrorSourceConnSlow": "(negb slow)"},
			SHints: endSHints},
		{Func: "Relayer.finishRelayItem", Out: "sweepRelayFinishPending", File: "GenIdleRelay", Soft: true,
			Params: "(ok : bool) (isOriginator : bool) (pending : Z)", Ret: "Z",
			Stmt: "item, ok := items.deleteCall(id, lookedUp)", After: true, Rest: "pending", NakedRetW: "pending",
			Hints:  map[string]string{"item.isOriginator": "isOriginator"},
			SHints: endSHints},
		{Func: "Relayer.handleCallReq", Out: "sweepRelayNoDestPending", File: "GenIdleRelay", Soft: true, RetIdx: 0,
			Params: "(no_dest : bool) (pending : Z)", Ret: "Z",
			Stmt: "if err != nil || !ok {", Rest: "pending",
			Hints: map[string]string{"err != nil || !ok": "no_dest", "_relayShouldRelease": "pending"},
			SHints: map[string]string{
				"r.decrementPending()": "let pending := pending - 1 in",
				"call.End()":           "",
			}},
		// the counter itself: read (countPending, the operand of canClose), decrement, increment
		{Func: "Relayer.countPending", Out: "sweepRelayCountPending", File: "GenIdleRelay", Soft: true,
			Params: "(pending : Z)", Ret: "Z",
			Hints: map[string]string{"r.pending.Load()": "pending"}},
		{Func: "Relayer.decrementPending", Out: "sweepRelayDecrement", File: "GenIdleRelay", Soft: true,
			Params: "(pending : Z)", Ret: "Z", VoidRet: "(pending + checked)",
			SHints: map[string]string{
				"r.pending.Dec()":         "let pending := pending - 1 in",
				"r.conn.checkExchanges()": "let checked := 0 in",
			}},
		{Func: "Relayer.canHandleNewCall", Out: "sweepRelayAdmitPending", File: "GenIdleRelay", Soft: true,
			Params: "(canHandle : bool) (pending : Z)", Ret: "Z",
			Stmt: "if canHandle {", Rest: "pending",
			SHints: map[string]string{"r.pending.Inc()": "let pending := pending + 1 in"}},
	}...)
}
