package main

// replyids.go -- property C06, family "the header id / type of a RESPONSE message is that of the
// request it answers" (Gen/GenReplySites.v, regenerated on every run).
//
// Every message the library sends in answer to a frame gets its id through a short chain of
// plain value hand-overs: the id read from the request frame is passed as an ARGUMENT
// (getInitMessage(ctx, id), SendSystemError(id, ..), protocolError(id, ..), newExchange(.., id, ..)),
// stored under a KEY of a composite literal (pingRes{id: ..}, errorMessage{id: ..},
// messageExchange{msgID: ..}), ASSIGNED to a header field (frame.Header.ID = w.mex.msgID) or
// used as a map INDEX (exchanges[frame.Header.ID]).  For each function of that chain this file
// extracts ALL sites of the named kind (nested closures included, source order) and emits
//
//     Definition <Out> <Params> : list Z := [e1; e2; ...].
//
// where e_i is the Gallina translation (fnctx.expr: constants, arithmetic, hints by source text)
// of the id expression at site i.  Proofs/ReplyHdrP.v proves every list equal to copies of "the
// id of the frame being answered" (the identity on the id parameter): a literal, another
// variable, arithmetic on the id, a missing or an extra site changes the list and the proof breaks.
//
// Local variables are RESOLVED, not trusted by name: an identifier that is neither hinted nor a
// parameter is replaced by the right-hand side of its last assignment, which must be the
// textually last assignment to that variable in the function, precede the use and sit in a block
// enclosing the use (for a use inside a deferred closure: a top-level statement of the body with
// no return before it).  `a, b = f(..)` resolves to the hint "result:<f>:<index>".  A parameter
// must never be assigned.  Anything else is left out with the reason (soft), so only the C06
// proofs stop compiling.
//
// Selectors:  call:<fun source text>:<arg index>   key:<literal type name>:<key>
//             assign:<lvalue source text>          index:<indexed expression source text>
//             funclit:<lvalue source text>         (the body of the func literal assigned to the
//                                                   lvalue, translated as a function: Ret/Params/SHints)

import (
	"bytes"
	"fmt"
	"go/ast"
	"go/token"
	"go/types"
	"path/filepath"
	"sort"
	"strings"
)

type ridSite struct {
	Func   string
	Out    string
	Params string
	Sel    string
	Hints  map[string]string
	SHints map[string]string // funclit only
	Ret    string            // funclit only
}

var ridFid = map[string]string{"frame.Header.ID": "fid"}

var ridSites = []ridSite{
	// ---- handshake, listening side (preinit_connection.go)
	{Func: "Channel.inboundHandshake", Out: "inboundInitResIds", Params: "(init_req_id : Z)", Sel: "call:ch.getInitMessage:1",
		Hints: map[string]string{"result:ch.readMessage:0": "init_req_id"}},
	{Func: "Channel.inboundHandshake", Out: "inboundInitErrIds", Params: "(init_req_id : Z)", Sel: "call:ch.initError:2",
		Hints: map[string]string{"result:ch.readMessage:0": "init_req_id"}},
	{Func: "Channel.getInitMessage", Out: "getInitMessageIds", Params: "(id : Z)", Sel: "key:initMessage:id"},
	{Func: "Channel.initError", Out: "initErrorIds", Params: "(id : Z)", Sel: "key:errorMessage:id"},
	// ---- handshake, connecting side: the id of the init req the library sends, of its error frame
	{Func: "Channel.outboundHandshake", Out: "outboundInitReqIds", Params: "", Sel: "call:ch.getInitMessage:1"},
	{Func: "Channel.outboundHandshake", Out: "outboundInitErrIds", Params: "", Sel: "call:ch.initError:2"},
	// ---- ping (connection.go)
	{Func: "Connection.handlePingReq", Out: "pingResIds", Params: "(fid : Z)", Sel: "key:pingRes:id", Hints: ridFid},
	{Func: "Connection.handlePingReq", Out: "pingReqProtoErrIds", Params: "(fid : Z)", Sel: "call:c.protocolError:0", Hints: ridFid},
	// ---- error frames (connection.go)
	{Func: "Connection.SendSystemError", Out: "sendSystemErrorIds", Params: "(id : Z)", Sel: "key:errorMessage:id"},
	{Func: "Connection.protocolError", Out: "protocolErrorIds", Params: "(id : Z)", Sel: "call:c.SendSystemError:0"},
	// ---- call req (inbound.go): the refusals, and the id the exchange (hence every response frame) is created with
	{Func: "Connection.handleCallReq", Out: "callReqRefusalIds", Params: "(fid : Z)", Sel: "call:c.SendSystemError:0", Hints: ridFid},
	{Func: "Connection.handleCallReq", Out: "callReqProtoErrIds", Params: "(fid : Z)", Sel: "call:c.protocolError:0", Hints: ridFid},
	{Func: "Connection.handleCallReq", Out: "callReqExchangeIds", Params: "(fid : Z)", Sel: "call:c.inbound.newExchange:4", Hints: ridFid},
	{Func: "Connection.handleCallReq", Out: "callReqMsgIds", Params: "(fid : Z)", Sel: "assign:callReq.id", Hints: ridFid},
	// the message a response fragment is built from: call res for the first, call res continue for every other
	{Func: "Connection.handleCallReq", Out: "inboundResMsgType", Params: "(initial : bool)", Sel: "funclit:response.messageForFragment", Ret: "Z",
		Hints: map[string]string{"new(callRes)": "callRes_messageType", "new(callResContinue)": "callResContinue_messageType"},
		SHints: map[string]string{
			"callRes.Headers = response.headers": "",
			"callRes.ResponseCode = responseOK":  "",
			"if response.applicationError {...":  "",
		}},
	{Func: "messageExchangeSet.newExchange", Out: "newExchangeIds", Params: "(msgID : Z)", Sel: "key:messageExchange:msgID"},
	{Func: "InboundCallResponse.SendSystemError", Out: "handlerErrIds", Params: "(mex_id : Z)", Sel: "call:response.conn.SendSystemError:0",
		Hints: map[string]string{"response.mex.msgID": "mex_id"}},
	// ---- call res / call res continue / call req / call req continue fragments (reqres.go)
	{Func: "reqResWriter.newFragment", Out: "fragmentIds", Params: "(mex_id : Z)", Sel: "assign:frame.Header.ID",
		Hints: map[string]string{"w.mex.msgID": "mex_id"}},
	{Func: "reqResWriter.newFragment", Out: "fragmentTypes", Params: "(msg_type : Z)", Sel: "assign:frame.Header.messageType",
		Hints: map[string]string{"message.messageType()": "msg_type"}},
	// ---- cancel: which exchange an inbound cancel frame cancels; the id of the cancel frame the library sends
	{Func: "messageExchangeSet.handleCancel", Out: "cancelLookupIds", Params: "(fid : Z)", Sel: "index:mexset.exchanges", Hints: ridFid},
	{Func: "messageExchange.onCtxErr", Out: "cancelNotifyIds", Params: "(mex_id : Z)", Sel: "call:onCancel:0",
		Hints: map[string]string{"mex.msgID": "mex_id"}},
	{Func: "Connection.onCancel", Out: "cancelMsgIds", Params: "(msgID : Z)", Sel: "key:cancelMessage:id"},
}

// ridCtx: one function under extraction.
type ridCtx struct {
	t      *translator
	c      *fnctx
	fd     *ast.FuncDecl
	parent map[ast.Node]ast.Node
}

func (r *ridCtx) buildParents() {
	r.parent = map[ast.Node]ast.Node{}
	var stack []ast.Node
	ast.Inspect(r.fd, func(n ast.Node) bool {
		if n == nil {
			stack = stack[:len(stack)-1]
			return true
		}
		if len(stack) > 0 {
			r.parent[n] = stack[len(stack)-1]
		}
		stack = append(stack, n)
		return true
	})
}

func (r *ridCtx) ancestors(n ast.Node) []ast.Node {
	var out []ast.Node
	for p := r.parent[n]; p != nil; p = r.parent[p] {
		out = append(out, p)
	}
	return out
}

// inDeferredClosure: n sits in a func literal that is the callee of a defer statement.
func (r *ridCtx) inDeferredClosure(n ast.Node) bool {
	for _, a := range r.ancestors(n) {
		if fl, ok := a.(*ast.FuncLit); ok {
			if call, ok := r.parent[fl].(*ast.CallExpr); ok && call.Fun == fl {
				if _, ok := r.parent[call].(*ast.DeferStmt); ok {
					return true
				}
			}
		}
	}
	return false
}

type ridDef struct {
	stmt ast.Node // *ast.AssignStmt or *ast.ValueSpec
	pos  token.Pos
	lhs  int
}

// defsOf: every place of the function that gives obj a value (or could).
func (r *ridCtx) defsOf(obj types.Object) []ridDef {
	info := r.t.pkg.TypesInfo
	is := func(e ast.Expr) bool {
		id, ok := e.(*ast.Ident)
		if !ok {
			return false
		}
		return info.Defs[id] == obj || info.Uses[id] == obj
	}
	var out []ridDef
	ast.Inspect(r.fd.Body, func(n ast.Node) bool {
		switch x := n.(type) {
		case *ast.AssignStmt:
			for i, l := range x.Lhs {
				if is(l) {
					out = append(out, ridDef{x, x.Pos(), i})
				}
			}
		case *ast.ValueSpec:
			for i, nm := range x.Names {
				if info.Defs[nm] == obj {
					out = append(out, ridDef{x, x.Pos(), i})
				}
			}
		case *ast.IncDecStmt:
			if is(x.X) {
				failf("%s: %s is changed by %q", r.t.pos(x), obj.Name(), r.t.src(x))
			}
		case *ast.UnaryExpr:
			if x.Op == token.AND && is(x.X) {
				failf("%s: the address of %s is taken", r.t.pos(x), obj.Name())
			}
		case *ast.RangeStmt:
			if (x.Key != nil && is(x.Key)) || (x.Value != nil && is(x.Value)) {
				failf("%s: %s is a range variable", r.t.pos(x), obj.Name())
			}
		}
		return true
	})
	return out
}

func (r *ridCtx) isParam(obj types.Object) bool {
	info := r.t.pkg.TypesInfo
	check := func(fl *ast.FieldList) bool {
		if fl == nil {
			return false
		}
		for _, f := range fl.List {
			for _, nm := range f.Names {
				if info.Defs[nm] == obj {
					return true
				}
			}
		}
		return false
	}
	return check(r.fd.Recv) || check(r.fd.Type.Params)
}

// resolve registers, for every identifier of e that denotes a local variable or a parameter, the
// Gallina term of the value it holds at the use (fnctx.override), then translates e.
func (r *ridCtx) value(e ast.Expr, use ast.Node, depth int) string {
	if depth > 8 {
		failf("%s: definition chain too deep at %q", r.t.pos(e), r.t.src(e))
	}
	info := r.t.pkg.TypesInfo
	var walk func(n ast.Node) bool
	walk = func(n ast.Node) bool {
		ex, ok := n.(ast.Expr)
		if !ok {
			return true
		}
		if _, hinted := r.c.hint(ex); hinted {
			return false
		}
		if sel, ok := ex.(*ast.SelectorExpr); ok {
			// x.f: only x can be a variable
			ast.Inspect(sel.X, walk)
			return false
		}
		if kv, ok := ex.(*ast.KeyValueExpr); ok {
			ast.Inspect(kv.Value, walk)
			return false
		}
		id, ok := ex.(*ast.Ident)
		if !ok {
			return true
		}
		obj, ok := info.Uses[id].(*types.Var)
		if !ok || obj.Pkg() != r.t.pkg.Types || obj.Parent() == r.t.pkg.Types.Scope() || obj.IsField() {
			return true
		}
		r.c.override[id] = r.varValue(id, obj, use, depth)
		return true
	}
	ast.Inspect(e, walk)
	return r.c.expr(e)
}

func (r *ridCtx) varValue(id *ast.Ident, obj *types.Var, use ast.Node, depth int) string {
	defs := r.defsOf(obj)
	if r.isParam(obj) {
		if len(defs) > 0 {
			failf("%s: parameter %s is assigned (%s)", r.t.pos(defs[0].stmt), obj.Name(), r.t.src(defs[0].stmt))
		}
		return coqIdent(obj.Name())
	}
	if len(defs) == 0 {
		failf("%s: no definition of %s found", r.t.pos(id), obj.Name())
	}
	sort.Slice(defs, func(i, j int) bool { return defs[i].pos < defs[j].pos })
	last := defs[len(defs)-1]
	deferred := r.inDeferredClosure(use)
	if deferred {
		// the closure runs when the function returns: the last assignment must be a top-level
		// statement of the body and nothing may return before it
		if r.parent[last.stmt] != ast.Node(r.fd.Body) {
			failf("%s: %s is read by a deferred closure and its last assignment %q is not a top-level statement", r.t.pos(id), obj.Name(), r.t.src(last.stmt))
		}
		ast.Inspect(r.fd.Body, func(n ast.Node) bool {
			if _, ok := n.(*ast.FuncLit); ok {
				return false
			}
			if rs, ok := n.(*ast.ReturnStmt); ok && rs.Pos() < last.pos {
				failf("%s: %s is read by a deferred closure and a return precedes its last assignment", r.t.pos(rs), obj.Name())
			}
			return true
		})
	} else {
		if last.pos >= use.Pos() {
			failf("%s: %s is assigned after this use (%s)", r.t.pos(id), obj.Name(), r.t.pos(last.stmt))
		}
		owner := r.parent[last.stmt]
		if _, isDecl := owner.(*ast.GenDecl); isDecl {
			owner = r.parent[r.parent[owner]] // ValueSpec -> GenDecl -> DeclStmt -> block
		}
		ok := false
		for _, a := range r.ancestors(use) {
			if a == owner {
				ok = true
			}
		}
		if !ok {
			failf("%s: the last assignment of %s (%s) does not dominate this use", r.t.pos(id), obj.Name(), r.t.pos(last.stmt))
		}
	}
	switch d := last.stmt.(type) {
	case *ast.AssignStmt:
		if d.Tok != token.DEFINE && d.Tok != token.ASSIGN {
			failf("%s: %s is changed by %q", r.t.pos(d), obj.Name(), r.t.src(d))
		}
		if len(d.Lhs) == len(d.Rhs) {
			return r.value(d.Rhs[last.lhs], d, depth+1)
		}
		if call, ok := d.Rhs[0].(*ast.CallExpr); ok && len(d.Rhs) == 1 {
			key := fmt.Sprintf("result:%s:%d", r.t.src(call.Fun), last.lhs)
			if g, ok := r.c.tg.Hints[key]; ok {
				return g
			}
			failf("%s: %s holds result %d of %s (add the hint %q)", r.t.pos(d), obj.Name(), last.lhs, r.t.src(call.Fun), key)
		}
		failf("%s: unsupported definition %q", r.t.pos(d), r.t.src(d))
	case *ast.ValueSpec:
		if last.lhs < len(d.Values) && len(d.Values) == len(d.Names) {
			return r.value(d.Values[last.lhs], d, depth+1)
		}
		failf("%s: %s is declared without a value", r.t.pos(d), obj.Name())
	}
	failf("%s: unsupported definition of %s", r.t.pos(id), obj.Name())
	return ""
}

func ridNamed(tp types.Type) string {
	if tp == nil {
		return ""
	}
	if p, ok := tp.(*types.Pointer); ok {
		tp = p.Elem()
	}
	if n, ok := tp.(*types.Named); ok {
		return n.Obj().Name()
	}
	return ""
}

// sites: the id expressions selected by s.Sel in source order, each with the node it is used at.
func (r *ridCtx) sites(s *ridSite) (exprs []ast.Expr, missing []ast.Node) {
	parts := strings.SplitN(s.Sel, ":", 3)
	info := r.t.pkg.TypesInfo
	ast.Inspect(r.fd.Body, func(n ast.Node) bool {
		switch parts[0] {
		case "call":
			if x, ok := n.(*ast.CallExpr); ok && r.t.src(x.Fun) == parts[1] {
				var idx int
				fmt.Sscanf(parts[2], "%d", &idx)
				if idx >= len(x.Args) {
					failf("%s: call %q has no argument %d", r.t.pos(x), r.t.src(x), idx)
				}
				exprs = append(exprs, x.Args[idx])
			}
		case "key":
			if x, ok := n.(*ast.CompositeLit); ok && ridNamed(info.TypeOf(x)) == parts[1] {
				found := false
				for _, el := range x.Elts {
					kv, ok := el.(*ast.KeyValueExpr)
					if !ok {
						failf("%s: positional literal %q", r.t.pos(x), r.t.src(x))
					}
					if k, ok := kv.Key.(*ast.Ident); ok && k.Name == parts[2] {
						exprs = append(exprs, kv.Value)
						found = true
					}
				}
				if !found {
					missing = append(missing, x)
				}
			}
		case "assign":
			if x, ok := n.(*ast.AssignStmt); ok {
				for i, l := range x.Lhs {
					if r.t.src(l) == parts[1] {
						if x.Tok != token.ASSIGN || len(x.Lhs) != len(x.Rhs) {
							failf("%s: unsupported assignment %q", r.t.pos(x), r.t.src(x))
						}
						exprs = append(exprs, x.Rhs[i])
					}
				}
			}
			if x, ok := n.(*ast.IncDecStmt); ok && r.t.src(x.X) == parts[1] {
				failf("%s: %s is changed by %q", r.t.pos(x), parts[1], r.t.src(x))
			}
		case "index":
			if x, ok := n.(*ast.IndexExpr); ok && r.t.src(x.X) == parts[1] {
				exprs = append(exprs, x.Index)
			}
		}
		return true
	})
	return
}

func (t *translator) emitRidSite(s *ridSite, w *bytes.Buffer) {
	fd, ok := t.funcs[s.Func]
	if !ok || fd.Body == nil {
		failf("function %s not found in package %s", s.Func, t.pkg.PkgPath)
	}
	tg := &Target{Func: s.Func, Out: s.Out, Params: s.Params, Hints: s.Hints, SHints: s.SHints, Ret: s.Ret}
	if tg.Hints == nil {
		tg.Hints = map[string]string{}
	}
	r := &ridCtx{t: t, c: newFnctx(t, tg, fd), fd: fd}
	r.buildParents()
	p := t.fset.Position(fd.Pos())
	e := t.fset.Position(fd.End())
	var cm bytes.Buffer
	fmt.Fprintf(&cm, "\n(* from %s:%d-%d  func %s   selector %s\n", filepath.Base(p.Filename), p.Line, e.Line, s.Func, s.Sel)
	keys := sortedKeys(tg.Hints)
	for _, k := range keys {
		fmt.Fprintf(&cm, "   hint: %s  =>  %s\n", k, tg.Hints[k])
	}
	for _, k := range sortedKeys(tg.SHints) {
		fmt.Fprintf(&cm, "   stmt-hint: %s  =>  %s\n", strings.ReplaceAll(k, "\n", " "), tg.SHints[k])
	}
	if strings.HasPrefix(s.Sel, "funclit:") {
		lhs := strings.TrimPrefix(s.Sel, "funclit:")
		var lits []*ast.FuncLit
		ast.Inspect(fd.Body, func(n ast.Node) bool {
			if as, ok := n.(*ast.AssignStmt); ok {
				for i, l := range as.Lhs {
					if t.src(l) == lhs && len(as.Lhs) == len(as.Rhs) {
						fl, ok := as.Rhs[i].(*ast.FuncLit)
						if !ok {
							failf("%s: %s is assigned something that is not a func literal", t.pos(as), lhs)
						}
						lits = append(lits, fl)
					}
				}
			}
			return true
		})
		if len(lits) != 1 {
			failf("%s: %d func literals are assigned to %s in %s (exactly one expected)", t.pos(fd), len(lits), lhs, s.Func)
		}
		ast.Inspect(lits[0].Body, func(n ast.Node) bool {
			switch n.(type) {
			case *ast.ForStmt, *ast.RangeStmt, *ast.GoStmt, *ast.DeferStmt, *ast.SelectStmt, *ast.SendStmt:
				failf("%s: the func literal contains a loop/go/defer/select/send", t.pos(n))
			}
			return true
		})
		body := r.c.stmts(lits[0].Body.List, "")
		fmt.Fprintf(&cm, "   the body of the func literal at line %d\n*)\n", t.fset.Position(lits[0].Pos()).Line)
		w.Write(cm.Bytes())
		fmt.Fprintf(w, "Definition %s %s : %s :=\n  %s.\n", s.Out, s.Params, s.Ret, body)
		return
	}
	exprs, missing := r.sites(s)
	terms := []string{}
	for _, x := range exprs {
		term := r.value(x, x, 0)
		fmt.Fprintf(&cm, "   line %d: %s  =>  %s\n", t.fset.Position(x.Pos()).Line, t.src(x), term)
		terms = append(terms, term)
	}
	for _, m := range missing {
		// a literal of the type without the key: the field keeps its zero value
		fmt.Fprintf(&cm, "   line %d: %s (key absent: zero value)  =>  0\n", t.fset.Position(m.Pos()).Line, strings.ReplaceAll(t.src(m), "\n", " "))
		terms = append(terms, "0")
	}
	fmt.Fprintf(&cm, "*)\n")
	w.Write(cm.Bytes())
	fmt.Fprintf(w, "Definition %s %s : list Z :=\n  [%s].\n", s.Out, s.Params, strings.Join(terms, "; "))
}

// emitRidSites writes Gen/GenReplySites.v; a site that cannot be extracted is left out with the reason.
func (t *translator) emitRidSites(w *bytes.Buffer) (n, skipped int) {
	for i := range ridSites {
		s := &ridSites[i]
		var tmp bytes.Buffer
		func() {
			defer func() {
				if rec := recover(); rec != nil {
					f, ok := rec.(failure)
					if !ok {
						panic(rec)
					}
					tmp.Reset()
					fmt.Fprintf(&tmp, "\n(* NOT TRANSLATED: %s -- %s *)\n", s.Out, strings.ReplaceAll(f.msg, "*)", "* )"))
					fmt.Printf("go2v: NOT TRANSLATED (reply-id site) %s: %s\n", s.Out, f.msg)
					skipped++
					n--
				}
			}()
			t.emitRidSite(s, &tmp)
		}()
		n++
		w.Write(tmp.Bytes())
	}
	return
}

// ---------------------------------------------------------------- the table of ALL id-writing sites

// emitRidTable lists every place of the root package (non-test files) that can put an id or a
// type into the header of an outgoing frame:
//
//	kind 1  a write (assignment, op-assignment, ++/--) to the ID or messageType field of a FrameHeader
//	kind 2  a call of (*Connection).SendSystemError or (*Connection).protocolError
//	kind 3  a composite literal of a message struct with an id field (initMessage, callReq, ...,
//	        pingRes, errorMessage, cancelMessage)
//
// as rows (file, function, kind, source text).  Proofs/ReplyHdrP.v proves that every row lies
// in a function whose sites are covered by a hand-over chain above, or in one listed there as
// receive-side / request-side / relay (the relay's id mapping belongs to C08-C10): a NEW site in
// any other function leaves the table outside the covered set.
func (t *translator) emitRidTable(w *bytes.Buffer) int {
	info := t.pkg.TypesInfo
	type row struct {
		file, fn string
		kind     int
		text     string
		pos      token.Pos
	}
	var rows []row
	q := func(s string) string {
		s = strings.Join(strings.Fields(s), " ")
		if len(s) > 120 {
			s = s[:120]
		}
		return strings.ReplaceAll(s, "\"", "\"\"")
	}
	isHdrField := func(e ast.Expr) bool {
		sel, ok := e.(*ast.SelectorExpr)
		if !ok || (sel.Sel.Name != "ID" && sel.Sel.Name != "messageType") {
			return false
		}
		return ridNamed(info.TypeOf(sel.X)) == "FrameHeader"
	}
	isMsgStruct := func(tp types.Type) bool {
		n, ok := tp.(*types.Named)
		if !ok || n.Obj().Pkg() != t.pkg.Types {
			return false
		}
		st, ok := n.Underlying().(*types.Struct)
		if !ok {
			return false
		}
		hasID := false
		for i := 0; i < st.NumFields(); i++ {
			if st.Field(i).Name() == "id" {
				hasID = true
			}
		}
		if !hasID {
			return false
		}
		ms := types.NewMethodSet(types.NewPointer(n))
		return ms.Lookup(t.pkg.Types, "ID") != nil
	}
	names := []string{}
	for k := range t.funcs {
		names = append(names, k)
	}
	sort.Strings(names)
	for _, name := range names {
		fd := t.funcs[name]
		if fd.Body == nil {
			continue
		}
		file := filepath.Base(t.fset.Position(fd.Pos()).Filename)
		if strings.HasSuffix(file, "_test.go") || strings.HasPrefix(file, "zz_verif") {
			continue
		}
		add := func(kind int, n ast.Node) {
			rows = append(rows, row{file, name, kind, q(t.src(n)), n.Pos()})
		}
		ast.Inspect(fd.Body, func(n ast.Node) bool {
			switch x := n.(type) {
			case *ast.AssignStmt:
				for _, l := range x.Lhs {
					if isHdrField(l) {
						add(1, x)
					}
				}
			case *ast.IncDecStmt:
				if isHdrField(x.X) {
					add(1, x)
				}
			case *ast.CallExpr:
				if sel, ok := x.Fun.(*ast.SelectorExpr); ok && (sel.Sel.Name == "SendSystemError" || sel.Sel.Name == "protocolError") {
					if ridNamed(info.TypeOf(sel.X)) == "Connection" {
						add(2, x)
					}
				}
			case *ast.CompositeLit:
				if tp := info.TypeOf(x); tp != nil && isMsgStruct(tp) {
					add(3, x)
				}
			}
			return true
		})
	}
	sort.SliceStable(rows, func(i, j int) bool {
		if rows[i].file != rows[j].file {
			return rows[i].file < rows[j].file
		}
		return rows[i].pos < rows[j].pos
	})
	fmt.Fprintf(w, "\n(* every write to FrameHeader.ID / .messageType (1), every call of Connection.SendSystemError /\n   protocolError (2), every literal of an id-carrying message struct (3) in the root package *)\n")
	fmt.Fprintf(w, "Definition reply_id_table : list (string * string * Z * string) := [\n")
	for i, r := range rows {
		sep := ";"
		if i == len(rows)-1 {
			sep = ""
		}
		fmt.Fprintf(w, "  (\"%s\", \"%s\", %d, \"%s\")%s (* line %d *)\n", r.file, r.fn, r.kind, r.text, sep, t.fset.Position(r.pos).Line)
	}
	fmt.Fprintf(w, "]%%string.\n")
	return len(rows)
}
