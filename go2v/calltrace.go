package main

// Target.CallTrace (C10, "helper layers above the arg writers"): the calls a small function
// makes on an object it was handed (the arg writer, the response), in execution order, as a
// trace variable `tr : list Z` threaded STATEMENT BY STATEMENT.
//
// CallTrace maps the source text of a call expression to its marker.  When a statement is
// translated, the traced calls that occur in the expressions the statement itself evaluates (the
// init of an `if v := call(); cond`, the condition of a plain `if`, the results of a `return`,
// the right-hand side of an assignment, a call used as a statement, the init / tag of a switch)
// are collected in source order and the statement's translation is prefixed with
//
//	let tr := tr ++ [m1; ...; mk] in
//
// The value of the call is whatever the expression hint says (usually a free boolean parameter:
// "did it fail").  Because the trace is attached to the statement and not to the value, an edit
// that moves a call to another path (`err := f(); if cerr := w.Close(); err == nil {...}`,
// a call added in a branch, a call dropped) changes the generated trace on that path even when
// the returned value is the same.  Not supported (translation failure, so the proof obligation
// of a Soft target disappears with a message): a traced call under the right operand of && / ||
// (conditional evaluation), in a case expression, inside a func literal, in a defer / go / loop.
//
// A traced call used as a statement (`call.Response().SendSystemError(err)`) is translated to
// its marker alone.  An `if v := tracedCall(); cond {` is translated here (let for the trace,
// let for v) with the scoping check of multi-value inits (checkNoCapture): a later
// `if v := ...` that re-declares the same name re-binds it first.

import (
	"go/ast"
	"go/token"
	"strings"
)

var tracedStmts = map[*fnctx]map[ast.Stmt]bool{} // per translation: statements whose calls were already collected

// traceMarkers: the markers of the traced calls inside n, in source order.
func (c *fnctx) traceMarkers(n ast.Node) []string {
	var out []string
	if n == nil {
		return out
	}
	var walk func(n ast.Node, cond bool)
	walk = func(n ast.Node, cond bool) {
		ast.Inspect(n, func(m ast.Node) bool {
			switch x := m.(type) {
			case *ast.FuncLit:
				// the body does not run here; a traced call inside it would be lost
				ast.Inspect(x.Body, func(k ast.Node) bool {
					if call, ok := k.(*ast.CallExpr); ok {
						if _, ok := c.tg.CallTrace[c.t.src(call)]; ok {
							failf("%s: traced call %q inside a func literal in %s", c.t.pos(call), c.t.src(call), c.tg.Func)
						}
					}
					return true
				})
				return false
			case *ast.BinaryExpr:
				if x.Op == token.LAND || x.Op == token.LOR {
					walk(x.X, cond)
					walk(x.Y, true)
					return false
				}
			case *ast.CallExpr:
				if mk, ok := c.tg.CallTrace[c.t.src(x)]; ok {
					if cond {
						failf("%s: traced call %q is evaluated conditionally (right operand of && / ||) in %s", c.t.pos(x), c.t.src(x), c.tg.Func)
					}
					// arguments first (Go evaluates them before the call)
					for _, a := range x.Args {
						walk(a, cond)
					}
					walk(x.Fun, cond)
					out = append(out, mk)
					return false
				}
			}
			return true
		})
	}
	walk(n, false)
	return out
}

func (c *fnctx) stmtTrace(list []ast.Stmt, rest string) (string, bool) {
	if c.tg.CallTrace == nil || len(list) == 0 {
		return "", false
	}
	s := list[0]
	if tracedStmts[c] == nil {
		tracedStmts[c] = map[ast.Stmt]bool{}
	}
	if tracedStmts[c][s] {
		return "", false
	}
	var marks []string
	switch x := s.(type) {
	case *ast.IfStmt:
		if x.Init != nil {
			marks = c.traceMarkers(x.Init) // the synthetic init-less copy made by stmts is scanned for Cond
		} else {
			marks = c.traceMarkers(x.Cond)
		}
	case *ast.ReturnStmt:
		for _, r := range x.Results {
			marks = append(marks, c.traceMarkers(r)...)
		}
	case *ast.AssignStmt:
		for _, r := range x.Rhs {
			marks = append(marks, c.traceMarkers(r)...)
		}
		for _, l := range x.Lhs {
			if len(c.traceMarkers(l)) > 0 {
				failf("%s: traced call on the left-hand side of %q", c.t.pos(s), c.t.src(s))
			}
		}
	case *ast.ExprStmt:
		marks = c.traceMarkers(x.X)
	case *ast.SwitchStmt:
		if x.Init != nil {
			marks = c.traceMarkers(x.Init)
		}
		if x.Tag != nil {
			marks = append(marks, c.traceMarkers(x.Tag)...)
		}
		for _, cc := range x.Body.List {
			for _, ce := range cc.(*ast.CaseClause).List {
				if len(c.traceMarkers(ce)) > 0 {
					failf("%s: traced call in a case expression of %s", c.t.pos(ce), c.tg.Func)
				}
			}
		}
	case *ast.BlockStmt:
		return "", false
	default:
		if len(c.traceMarkers(s)) > 0 {
			failf("%s: traced call in an unsupported statement %q of %s", c.t.pos(s), c.t.src(s), c.tg.Func)
		}
		return "", false
	}
	tracedStmts[c][s] = true
	if len(marks) == 0 {
		return "", false
	}
	pre := "let tr := tr ++ [" + strings.Join(marks, "; ") + "] in\n  "
	switch x := s.(type) {
	case *ast.ExprStmt:
		// a traced call used as a statement: its marker is its whole translation
		if call, ok := x.X.(*ast.CallExpr); ok {
			if _, ok := c.tg.CallTrace[c.t.src(call)]; ok {
				return pre + c.stmts(list[1:], rest), true
			}
		}
	case *ast.IfStmt:
		if as, ok := x.Init.(*ast.AssignStmt); ok && as.Tok == token.DEFINE && len(as.Lhs) == 1 && len(as.Rhs) == 1 {
			if id, ok := as.Lhs[0].(*ast.Ident); ok {
				c.checkNoCapture(id, list[1:])
				name := coqIdent(id.Name)
				if r, ok := c.tg.Renames[id.Name]; ok {
					name = r
				}
				synth := &ast.IfStmt{If: x.If, Cond: x.Cond, Body: x.Body, Else: x.Else}
				return pre + "let " + name + " := " + c.expr(as.Rhs[0]) + " in\n  " +
					c.stmts(append([]ast.Stmt{synth}, list[1:]...), rest), true
			}
		}
	}
	return pre + c.stmts(list, rest), true
}
