package main

// C02 -- family "the checksum type of a message is fixed by its first fragment" (Gen/GenC02TypeCk.v).
//
//	c02ReaderTypeCk   fragmenting_reader.go recvAndParseNextFragment: EVERYTHING between the receipt of
//	                  the next fragment (`r.curFragment, r.err = r.receiver.recvNextFragment(initial)`)
//	                  and the first statement of the chunk loop (`r.hasMoreFragments = ...`): the
//	                  receiver-error return, the creation of the message's checksum from the type byte
//	                  of the FIRST fragment, and the comparison of every later fragment's type byte with
//	                  the type code of that checksum.
//
// Result (newed, code): newed = the type byte a new checksum object was created for (-1: none was
// created, the reader keeps the one it has); code = the error returned before the chunk loop
// (0: control reaches the chunk loop; 7 = errMismatchedChecksumTypes; recv_err = the receiver's error).
// has_ck = (r.checksum != nil), ck_type = r.checksum.TypeCode(), ftype = r.curFragment.checksumType.
//
// Proofs/C02TypeCkP.v proves the reader step of Model/Frag.v (r_recv) equal to the step that takes
// this decision from the generated definition (c02_r_recv_generated), and sweeps it over all 256
// values of the type byte for each base type.  An extra conjunct / disjunct in the comparison, a
// comparison against something else, a checksum re-created mid-message, a dropped or conditional
// return, a statement inserted between receipt and the chunk loop: the definition changes (or is
// not translated) and the obligations fail.
func init() {
	targets = append(targets, Target{
		Func: "fragmentingReader.recvAndParseNextFragment", Out: "c02ReaderTypeCk", File: "GenC02TypeCk", Soft: true,
		Params: "(recv_err : Z) (has_ck : bool) (ck_type ftype : Z)", Ret: "Z * Z",
		Stmt: "r.curFragment, r.err = r.receiver.recvNextFragment(initial)", After: true, Until: "r.hasMoreFragments = ",
		Pre: "let newed := (-1) in", Rest: "(newed, 0)", RetFmt: "(newed, %s)", KeepRets: true,
		Hints: map[string]string{
			"r.err != nil":                "(negb (recv_err =? 0))",
			"r.err":                       "recv_err",
			"r.checksum == nil":           "(negb has_ck)",
			"r.checksum.TypeCode()":       "ck_type",
			"r.curFragment.checksumType":  "ftype",
			"errMismatchedChecksumTypes":  "7",
			"errMismatchedChecksums":      "8",
			"errChunkExceedsFragmentSize": "10",
		},
		SHints: map[string]string{
			// a serialized system error from the peer is reported to the receiver; the error is returned either way
			"if err, ok := r.err.(errorMessage); ok {...":   "",
			"r.checksum = r.curFragment.checksumType.New()": "let newed := ftype in",
		},
	})
}
