package main

// lockprogs.go -- property C05 (b), second table: MUTEX ACQUISITIONS as blocking sites.
//
// A sync.Mutex / sync.RWMutex acquisition offers no exit at all: the waiter leaves it only
// when the holder releases.  It is bounded iff (1) every function that takes the mutex
// releases it on EVERY path to every return (lock balance), (2) no critical section of that
// mutex contains a blocking statement, and (3) mutexes taken inside a critical section are
// themselves of that kind and taken in a fixed order (no cycle).
//
// The translator does NOT decide any of that.  It emits, for every function (or function
// literal that runs as a unit of its own) of package tchannel that performs a lock
// operation, its LOCK PROGRAM: the control-flow skeleton of the body reduced to
//
//   SLock m rd / SUnlock m rd / SDefer m rd     X.Lock() X.RLock() / X.Unlock() X.RUnlock() / defer X.Unlock()
//   SBlock                                       a blocking statement right here (select without default,
//                                                bare channel operation, net.Conn I/O, dial, WaitGroup.Wait, Sleep)
//   SCall blk [m...]                             a call into the package whose callee (closure under the static
//                                                call graph) may block / may acquire the listed mutexes
//   SRet SPanic SBreak SCont                     return, panic(...), break, continue
//   SAlt a b                                     if / else, switch and select clauses (one of the branches)
//   SLoop b   SCatch b                           for / range;   switch / select (a `break` inside ends it)
//
// Gen/GenLockProgs.v holds these programs (lockp_progs), the mutex table with the rank of
// every mutex (lockp_mutexes; the rank is only a witness, Coq checks that nested acquisitions
// go strictly down) and the lock acquisitions met on the call path (lockp_sites).  Balance,
// the contents of the critical sections and the lock order are computed IN COQ from the
// programs by a checker that is proved sound for every execution of a program
// (Model/LockProg.v, Proofs/LockProgP.v); an edit that returns with a lock held, blocks
// inside a critical section or nests two mutexes the other way round changes the program
// and breaks the proof obligation.
//
// Units.  Every function literal is a unit of its own (named F$n after the enclosing function F); it is
//   - a callee of the enclosing unit at the place it is written when it is called at once
//     (`func(){..}()`, `defer func(){..}()`),
//   - a callee of every call of the func-typed PARAMETER it is passed for
//     (c.withStateLock(func() error {..}): the literal runs inside withStateLock's region),
//   - a callee of every call of the local variable it is assigned to,
//   - a callee of every call of the func-typed struct FIELD it is stored into
//     (mexset.onRemoved = c.checkExchanges; messageExchangeSet{onAdded: ...}),
//   - a goroutine root (`go func(){..}()`) or a callback handed to another package otherwise.
// Declared functions and method values passed / stored the same way are resolved likewise.
// Function values that come from OUTSIDE the package (user callbacks in options, handlers,
// loggers) are not followed -- as in waitsites.go; interface methods of the package are
// resolved to every implementation in the package.
//
// The one-slot channel semaphore of peer.go (lockNewConn / unlockNewConn) is treated as a
// lock whose acquisition may fail: `if err := p.lockNewConn(ctx); err != nil { A }; B`
// is SAlt [A] [SLock sem; B].  Its acquisition is a wait site with a ctx exit (waitsites.go),
// so blocking under it is allowed; balance is checked like for a mutex.

import (
	"bytes"
	"fmt"
	"go/ast"
	"go/token"
	"go/types"
	"path/filepath"
	"sort"
	"strings"
)

// entry points, in addition to waitEntries, whose closure is searched for lock
// acquisitions: the connection's own goroutines, the inbound side of a call, the relay.
var lockProgEntries = []string{
	"Connection.readFrames", "Connection.writeFrames", "Connection.dispatchInbound",
	"Connection.connectionError", "Connection.close", "Connection.Close",
	"InboundCall.Arg2Reader", "InboundCall.Arg3Reader", "InboundCall.Response",
	"InboundCallResponse.Arg2Writer", "InboundCallResponse.Arg3Writer",
	"InboundCallResponse.SendSystemError", "InboundCallResponse.SetApplicationError",
	"Relayer.Relay", "Relayer.Receive", "relayTimerPool.Get", "Channel.Ping", "Connection.ping",
}

// semaphore helpers: function name -> (acquire?)   (shape checked in lpCheckSem)
const (
	lpSemAcquire = "Peer.lockNewConn"
	lpSemRelease = "Peer.unlockNewConn"
	lpSemName    = "Peer.newConnLock"
)

type lpMutex struct {
	name string
	sem  bool
	rank int
}

type lpStmt struct {
	op      string // lock unlock defer block call ret panic break cont alt loop catch
	m       *lpMutex
	rd      bool
	callees []*lpUnit
	blk     bool
	acq     []*lpMutex
	a, b    []lpStmt
	note    string
	pOwner  *lpUnit // paramcall: the unit whose parameter is called, and its index
	pIdx    int
	fObj    types.Object // fieldcall: the field
}

type lpUnit struct {
	name     string
	fn       *types.Func
	body     *ast.BlockStmt
	ftype    *ast.FuncType
	pos      token.Pos
	params   map[types.Object]int
	raw      []lpStmt
	mayBlock bool
	why      string
	acq      map[*lpMutex]bool
	hasLock  bool
	nlit     int
	parent   *lpUnit
}

type lpAnalysis struct {
	a         *wsAnalysis
	t         *translator
	units     []*lpUnit
	byFn      map[*types.Func]*lpUnit
	byLit     map[*ast.FuncLit]*lpUnit
	localFn   map[types.Object][]*lpUnit
	paramArgs map[*lpUnit]map[int][]*lpUnit
	fieldFn   map[types.Object][]*lpUnit // func-typed struct field -> the function values stored into it anywhere in the package
	// local variable -> the func-typed struct fields whose value it was given (`if f := x.onEvent; f != nil { f() }`):
	// a call of the variable is a call of those fields
	localField map[types.Object][]types.Object
	mutexes    map[string]*lpMutex
	sem        *lpMutex
}

func (l *lpAnalysis) mutex(name string) *lpMutex {
	if m, ok := l.mutexes[name]; ok {
		return m
	}
	m := &lpMutex{name: name}
	l.mutexes[name] = m
	return m
}

func lpTypeName(tp types.Type) string {
	if tp == nil {
		return ""
	}
	if p, ok := tp.(*types.Pointer); ok {
		tp = p.Elem()
	}
	if n, ok := tp.(*types.Named); ok {
		return n.Obj().Name()
	}
	return ""
}

func lpIsSyncMutex(tp types.Type) bool {
	return tp != nil && (isNamed(tp, "sync", "Mutex") || isNamed(tp, "sync", "RWMutex"))
}

// fieldOfAnon: the "Type.field" of the package whose type is identical to the anonymous struct tp
func (l *lpAnalysis) fieldOfAnon(tp types.Type) string {
	if p, ok := tp.(*types.Pointer); ok {
		tp = p.Elem()
	}
	found := ""
	for _, n := range l.a.named {
		st, ok := n.Underlying().(*types.Struct)
		if !ok {
			continue
		}
		for i := 0; i < st.NumFields(); i++ {
			if types.Identical(st.Field(i).Type(), tp) {
				if found != "" {
					return ""
				}
				found = n.Obj().Name() + "." + st.Field(i).Name()
			}
		}
	}
	return found
}

// mutexOp: X.Lock() / X.RLock() / X.Unlock() / X.RUnlock() on a sync mutex
func (l *lpAnalysis) mutexOp(call *ast.CallExpr) (m *lpMutex, op string, rd bool, ok bool) {
	sel, isSel := call.Fun.(*ast.SelectorExpr)
	if !isSel {
		return nil, "", false, false
	}
	switch sel.Sel.Name {
	case "Lock", "RLock", "Unlock", "RUnlock":
	default:
		return nil, "", false, false
	}
	s, hasSel := l.a.info.Selections[sel]
	if !hasSel {
		return nil, "", false, false
	}
	fn, isFn := s.Obj().(*types.Func)
	if !isFn || fn.Pkg() == nil || fn.Pkg().Path() != "sync" {
		return nil, "", false, false
	}
	op = "lock"
	if strings.HasSuffix(sel.Sel.Name, "Unlock") {
		op = "unlock"
	}
	rd = strings.HasPrefix(sel.Sel.Name, "R")
	tx := l.a.typeOf(sel.X)
	name := ""
	if lpIsSyncMutex(tx) {
		switch x := sel.X.(type) {
		case *ast.SelectorExpr:
			if owner := lpTypeName(l.a.typeOf(x.X)); owner != "" {
				name = owner + "." + x.Sel.Name
			}
		case *ast.Ident:
			if obj := l.a.info.Uses[x]; obj != nil && obj.Parent() == l.t.pkg.Types.Scope() {
				name = "var." + x.Name
			}
		}
	} else if n := lpTypeName(tx); n != "" {
		name = n // embedded mutex of a named type
	} else if tx != nil {
		if x, isX := sel.X.(*ast.SelectorExpr); isX {
			if owner := lpTypeName(l.a.typeOf(x.X)); owner != "" {
				name = owner + "." + x.Sel.Name
			}
		}
		if x, isX := sel.X.(*ast.Ident); isX && name == "" {
			if obj := l.a.info.Uses[x]; obj != nil && obj.Parent() == l.t.pkg.Types.Scope() {
				name = "var." + x.Name
			}
		}
		if name == "" {
			name = l.fieldOfAnon(tx)
		}
	}
	if name == "" {
		failf("lock sites: cannot name the mutex of %s at %s", l.t.src(call), l.t.pos(call))
	}
	return l.mutex(name), op, rd, true
}

func (l *lpAnalysis) newUnit(name string, fn *types.Func, ftype *ast.FuncType, body *ast.BlockStmt, parent *lpUnit) *lpUnit {
	u := &lpUnit{name: name, fn: fn, body: body, ftype: ftype, pos: body.Pos(), params: map[types.Object]int{}, acq: map[*lpMutex]bool{}, parent: parent}
	i := 0
	if ftype.Params != nil {
		for _, f := range ftype.Params.List {
			if len(f.Names) == 0 {
				i++
				continue
			}
			for _, nm := range f.Names {
				if obj := l.a.info.Defs[nm]; obj != nil {
					if _, isSig := obj.Type().Underlying().(*types.Signature); isSig {
						u.params[obj] = i
					}
				}
				i++
			}
		}
	}
	l.units = append(l.units, u)
	return u
}

func (l *lpAnalysis) litUnit(u *lpUnit, lit *ast.FuncLit) *lpUnit {
	if x, ok := l.byLit[lit]; ok {
		return x
	}
	root := u
	for root.parent != nil {
		root = root.parent
	}
	root.nlit++
	x := l.newUnit(fmt.Sprintf("%s$%d", root.name, root.nlit), nil, lit.Type, lit.Body, u)
	l.byLit[lit] = x
	x.raw = l.stmts(x, lit.Body.List)
	return x
}

// the unit a function-valued expression denotes (literal, declared function, method value)
func (l *lpAnalysis) funcValue(u *lpUnit, e ast.Expr) []*lpUnit {
	switch x := e.(type) {
	case *ast.ParenExpr:
		return l.funcValue(u, x.X)
	case *ast.FuncLit:
		return []*lpUnit{l.litUnit(u, x)}
	case *ast.Ident:
		if fn, ok := l.a.info.Uses[x].(*types.Func); ok {
			if t, ok := l.byFn[fn]; ok {
				return []*lpUnit{t}
			}
		}
		if obj := l.a.info.Uses[x]; obj != nil {
			return l.localFn[obj]
		}
	case *ast.SelectorExpr:
		if s, ok := l.a.info.Selections[x]; ok && s.Kind() == types.MethodVal {
			if fn, ok := s.Obj().(*types.Func); ok {
				if t, ok := l.byFn[fn]; ok {
					return []*lpUnit{t}
				}
			}
		}
	}
	return nil
}

// funcField: the func-typed struct field a (parenthesised) selector expression reads, or nil
func (l *lpAnalysis) funcField(e ast.Expr) types.Object {
	for {
		p, ok := e.(*ast.ParenExpr)
		if !ok {
			break
		}
		e = p.X
	}
	if sel, ok := e.(*ast.SelectorExpr); ok {
		if s, ok := l.a.info.Selections[sel]; ok && s.Kind() == types.FieldVal && lpIsFuncTyped(s.Obj().Type()) {
			return s.Obj()
		}
	}
	return nil
}

// bindLocal records what a func-typed local variable is given: the value of a func-typed
// struct field, or a function value known inside the package (method value, declared
// function, another local closure).  true: nothing else to record for this right-hand side.
func (l *lpAnalysis) bindLocal(u *lpUnit, obj types.Object, r ast.Expr) bool {
	if obj == nil || !lpIsFuncTyped(l.a.typeOf(r)) {
		return false
	}
	if fo := l.funcField(r); fo != nil {
		l.localField[obj] = append(l.localField[obj], fo)
		return false // the selector's operand is still evaluated here
	}
	if _, isLit := r.(*ast.FuncLit); isLit {
		return false // handled by the caller
	}
	if vals := l.funcValue(u, r); len(vals) > 0 {
		l.localFn[obj] = append(l.localFn[obj], vals...)
		return true
	}
	return false
}

func lpIsFuncTyped(tp types.Type) bool {
	if tp == nil {
		return false
	}
	_, ok := tp.Underlying().(*types.Signature)
	return ok
}

// exprEvents: the events of evaluating node n (no statements inside except in literals)
func (l *lpAnalysis) exprEvents(u *lpUnit, n ast.Node) []lpStmt {
	var out []lpStmt
	if n == nil {
		return nil
	}
	ast.Inspect(n, func(x ast.Node) bool {
		switch e := x.(type) {
		case *ast.KeyValueExpr:
			if id, ok := e.Key.(*ast.Ident); ok && lpIsFuncTyped(l.a.typeOf(e.Value)) {
				if obj, ok := l.a.info.Uses[id].(*types.Var); ok && obj.IsField() {
					if vals := l.funcValue(u, e.Value); len(vals) > 0 {
						l.fieldFn[obj] = append(l.fieldFn[obj], vals...)
						return false
					}
				}
			}
		case *ast.FuncLit:
			// a literal that is neither called at once nor passed to a call: a stored callback
			l.litUnit(u, e)
			return false
		case *ast.UnaryExpr:
			if e.Op == token.ARROW {
				out = append(out, lpStmt{op: "block", note: l.t.pos(e) + " " + l.a.oneLine(e)})
			}
		case *ast.CallExpr:
			out = append(out, l.callEvents(u, e)...)
			// children: walk Fun and the arguments ourselves (literal arguments are bound above)
			if _, isLit := e.Fun.(*ast.FuncLit); !isLit {
				out = append(out, l.exprEvents(u, e.Fun)...)
			}
			for _, arg := range e.Args {
				if lpIsFuncTyped(l.a.typeOf(arg)) {
					if _, isLit := arg.(*ast.FuncLit); isLit {
						continue
					}
				}
				out = append(out, l.exprEvents(u, arg)...)
			}
			return false
		}
		return true
	})
	return out
}

func (l *lpAnalysis) callEvents(u *lpUnit, call *ast.CallExpr) []lpStmt {
	pos := l.t.pos(call)
	if m, op, rd, ok := l.mutexOp(call); ok {
		return []lpStmt{{op: op, m: m, rd: rd, note: pos + " " + l.a.oneLine(call)}}
	}
	if id, ok := call.Fun.(*ast.Ident); ok && id.Name == "panic" {
		if _, isB := l.a.info.Uses[id].(*types.Builtin); isB {
			return []lpStmt{{op: "panic", note: pos}}
		}
	}
	var out []lpStmt
	// literal called at once
	if lit, ok := call.Fun.(*ast.FuncLit); ok {
		x := l.litUnit(u, lit)
		return []lpStmt{{op: "call", callees: []*lpUnit{x}, note: pos + " func literal"}}
	}
	if k := l.a.netKind(call); k != "" {
		out = append(out, lpStmt{op: "block", note: pos + " " + k + " " + l.a.oneLine(call)})
	}
	var cs []*lpUnit
	declared := l.a.calleesOf(call)
	for _, c := range declared {
		if c.Pkg() != nil && ((c.Pkg().Path() == "sync" && c.Name() == "Wait") || (c.Pkg().Path() == "time" && c.Name() == "Sleep")) {
			out = append(out, lpStmt{op: "block", note: pos + " " + l.a.oneLine(call)})
		}
		if t, ok := l.byFn[c]; ok {
			switch t.name {
			case lpSemRelease:
				out = append(out, lpStmt{op: "unlock", m: l.sem, note: pos + " " + l.a.oneLine(call)})
				continue
			case lpSemAcquire:
				failf("lock sites: %s is used at %s outside the form `if err := p.lockNewConn(ctx); err != nil {...}`", lpSemAcquire, pos)
			}
			cs = append(cs, t)
		}
	}
	if len(declared) == 0 {
		// a call of a func-typed struct field: every function value stored into that field
		if sel, ok := call.Fun.(*ast.SelectorExpr); ok {
			if s, ok := l.a.info.Selections[sel]; ok && s.Kind() == types.FieldVal {
				out = append(out, lpStmt{op: "fieldcall", fObj: s.Obj(), note: pos + " " + l.a.oneLine(call)})
			}
		}
		// a call of a local closure variable or of a func-typed parameter
		if id, ok := call.Fun.(*ast.Ident); ok {
			if obj := l.a.info.Uses[id]; obj != nil {
				cs = append(cs, l.localFn[obj]...)
				for _, fo := range l.localField[obj] {
					out = append(out, lpStmt{op: "fieldcall", fObj: fo, note: pos + " " + l.a.oneLine(call) + " (local variable holding the value of field " + fo.Name() + ")"})
				}
				for w := u; w != nil; w = w.parent {
					if i, isParam := w.params[obj]; isParam {
						// resolved after all units are known
						out = append(out, lpStmt{op: "paramcall", pOwner: w, pIdx: i, note: fmt.Sprintf("%s parameter %d of %s", pos, i, w.name)})
					}
				}
			}
		}
	}
	// function values handed to a callee of the package: bound to its parameter
	for i, arg := range call.Args {
		if !lpIsFuncTyped(l.a.typeOf(arg)) {
			continue
		}
		vals := l.funcValue(u, arg)
		if len(vals) == 0 {
			continue
		}
		for _, c := range declared {
			if t, ok := l.byFn[c]; ok {
				if l.paramArgs[t] == nil {
					l.paramArgs[t] = map[int][]*lpUnit{}
				}
				l.paramArgs[t][i] = append(l.paramArgs[t][i], vals...)
			}
		}
	}
	if len(cs) > 0 {
		out = append(out, lpStmt{op: "call", callees: cs, note: pos + " " + l.a.oneLine(call)})
	}
	return out
}

func (l *lpAnalysis) stmts(u *lpUnit, list []ast.Stmt) []lpStmt {
	var out []lpStmt
	for _, s := range list {
		out = append(out, l.stmt(u, s)...)
	}
	return out
}

// semAcquireIf: `if err := p.lockNewConn(ctx); err != nil { A }` -> (call, true)
func (l *lpAnalysis) semAcquireIf(s *ast.IfStmt) bool {
	as, ok := s.Init.(*ast.AssignStmt)
	if !ok || len(as.Rhs) != 1 || len(as.Lhs) != 1 {
		return false
	}
	call, ok := as.Rhs[0].(*ast.CallExpr)
	if !ok {
		return false
	}
	isAcq := false
	for _, c := range l.a.calleesOf(call) {
		if t, ok := l.byFn[c]; ok && t.name == lpSemAcquire {
			isAcq = true
		}
	}
	if !isAcq {
		return false
	}
	be, ok := s.Cond.(*ast.BinaryExpr)
	lhs, ok2 := as.Lhs[0].(*ast.Ident)
	if !ok || !ok2 || be.Op != token.NEQ || s.Else != nil {
		failf("lock sites: unexpected use of %s at %s", lpSemAcquire, l.t.pos(s))
	}
	x, okx := be.X.(*ast.Ident)
	y, oky := be.Y.(*ast.Ident)
	if !okx || !oky || x.Name != lhs.Name || y.Name != "nil" {
		failf("lock sites: unexpected use of %s at %s", lpSemAcquire, l.t.pos(s))
	}
	return true
}

func (l *lpAnalysis) stmt(u *lpUnit, s ast.Stmt) []lpStmt {
	switch x := s.(type) {
	case nil:
		return nil
	case *ast.BlockStmt:
		return l.stmts(u, x.List)
	case *ast.ExprStmt:
		return l.exprEvents(u, x.X)
	case *ast.AssignStmt:
		var out []lpStmt
		for i, r := range x.Rhs {
			if len(x.Lhs) == len(x.Rhs) && lpIsFuncTyped(l.a.typeOf(r)) {
				if sel, ok := x.Lhs[i].(*ast.SelectorExpr); ok {
					if s, ok := l.a.info.Selections[sel]; ok && s.Kind() == types.FieldVal {
						if vals := l.funcValue(u, r); len(vals) > 0 {
							l.fieldFn[s.Obj()] = append(l.fieldFn[s.Obj()], vals...)
							continue
						}
					}
				}
			}
			if lit, ok := r.(*ast.FuncLit); ok && len(x.Lhs) == len(x.Rhs) {
				if id, ok := x.Lhs[i].(*ast.Ident); ok {
					obj := l.a.info.Defs[id]
					if obj == nil {
						obj = l.a.info.Uses[id]
					}
					if obj != nil {
						l.localFn[obj] = append(l.localFn[obj], l.litUnit(u, lit))
						continue
					}
				}
			}
			if len(x.Lhs) == len(x.Rhs) {
				if id, ok := x.Lhs[i].(*ast.Ident); ok {
					obj := l.a.info.Defs[id]
					if obj == nil {
						obj = l.a.info.Uses[id]
					}
					if l.bindLocal(u, obj, r) {
						continue
					}
				}
			}
			out = append(out, l.exprEvents(u, r)...)
		}
		for _, lh := range x.Lhs {
			out = append(out, l.exprEvents(u, lh)...)
		}
		return out
	case *ast.DeclStmt:
		var out []lpStmt
		if gd, ok := x.Decl.(*ast.GenDecl); ok {
			for _, sp := range gd.Specs {
				if vs, ok := sp.(*ast.ValueSpec); ok {
					for i, v := range vs.Values {
						if lit, ok := v.(*ast.FuncLit); ok && i < len(vs.Names) {
							if obj := l.a.info.Defs[vs.Names[i]]; obj != nil {
								l.localFn[obj] = append(l.localFn[obj], l.litUnit(u, lit))
								continue
							}
						}
						if i < len(vs.Names) && len(vs.Names) == len(vs.Values) {
							if l.bindLocal(u, l.a.info.Defs[vs.Names[i]], v) {
								continue
							}
						}
						out = append(out, l.exprEvents(u, v)...)
					}
				}
			}
		}
		return out
	case *ast.IncDecStmt:
		return l.exprEvents(u, x.X)
	case *ast.SendStmt:
		out := l.exprEvents(u, x.Chan)
		out = append(out, l.exprEvents(u, x.Value)...)
		return append(out, lpStmt{op: "block", note: l.t.pos(x) + " " + l.a.oneLine(x)})
	case *ast.GoStmt:
		// the call runs in another goroutine; its arguments are evaluated here
		var out []lpStmt
		if lit, ok := x.Call.Fun.(*ast.FuncLit); ok {
			l.litUnit(u, lit)
		} else {
			out = append(out, l.exprEvents(u, x.Call.Fun)...)
		}
		for _, arg := range x.Call.Args {
			out = append(out, l.exprEvents(u, arg)...)
		}
		return out
	case *ast.DeferStmt:
		if m, op, rd, ok := l.mutexOp(x.Call); ok {
			if op != "unlock" {
				failf("lock sites: deferred %s at %s", l.t.src(x.Call), l.t.pos(x))
			}
			return []lpStmt{{op: "defer", m: m, rd: rd, note: l.t.pos(x) + " " + l.a.oneLine(x)}}
		}
		for _, c := range l.a.calleesOf(x.Call) {
			if t, ok := l.byFn[c]; ok && t.name == lpSemRelease {
				return []lpStmt{{op: "defer", m: l.sem, note: l.t.pos(x) + " " + l.a.oneLine(x)}}
			}
		}
		// any other deferred call: its events are placed here (it runs at the exits; a
		// deferred call that blocks or locks while a lock is still held at the exit is
		// attributed to the region open at the defer statement -- an approximation)
		return l.exprEvents(u, x.Call)
	case *ast.ReturnStmt:
		var out []lpStmt
		for _, r := range x.Results {
			out = append(out, l.exprEvents(u, r)...)
		}
		return append(out, lpStmt{op: "ret", note: l.t.pos(x)})
	case *ast.BranchStmt:
		if x.Label != nil || x.Tok == token.GOTO {
			return []lpStmt{{op: "unsupported", note: l.t.pos(x) + " labelled branch"}}
		}
		switch x.Tok {
		case token.BREAK:
			return []lpStmt{{op: "break", note: l.t.pos(x)}}
		case token.CONTINUE:
			return []lpStmt{{op: "cont", note: l.t.pos(x)}}
		}
		return []lpStmt{{op: "unsupported", note: l.t.pos(x) + " fallthrough"}}
	case *ast.LabeledStmt:
		return append([]lpStmt{{op: "unsupported", note: l.t.pos(x) + " label"}}, l.stmt(u, x.Stmt)...)
	case *ast.IfStmt:
		if l.semAcquireIf(x) {
			then := l.stmts(u, x.Body.List)
			return []lpStmt{{op: "semif", a: then, m: l.sem, note: l.t.pos(x) + " " + l.a.oneLine(x.Init)}}
		}
		out := l.stmt(u, x.Init)
		out = append(out, l.exprEvents(u, x.Cond)...)
		then := l.stmts(u, x.Body.List)
		var els []lpStmt
		if x.Else != nil {
			els = l.stmt(u, x.Else)
		}
		return append(out, lpStmt{op: "alt", a: then, b: els})
	case *ast.SwitchStmt:
		out := l.stmt(u, x.Init)
		out = append(out, l.exprEvents(u, x.Tag)...)
		return append(out, l.clauses(u, x.Body.List)...)
	case *ast.TypeSwitchStmt:
		out := l.stmt(u, x.Init)
		out = append(out, l.stmt(u, x.Assign)...)
		return append(out, l.clauses(u, x.Body.List)...)
	case *ast.SelectStmt:
		var out []lpStmt
		hasDefault := false
		for _, c := range x.Body.List {
			if c.(*ast.CommClause).Comm == nil {
				hasDefault = true
			}
		}
		if !hasDefault {
			out = append(out, lpStmt{op: "block", note: l.t.pos(x) + " select"})
		}
		return append(out, l.clauses(u, x.Body.List)...)
	case *ast.ForStmt:
		out := l.stmt(u, x.Init)
		body := l.exprEvents(u, x.Cond)
		// the condition may end the loop before the body: an exit is the zero-iteration / Fall case
		inner := l.stmts(u, x.Body.List)
		post := l.stmt(u, x.Post)
		// continue jumps to the post statement: post has no lock events in this code base;
		// refuse otherwise
		for _, p := range post {
			if p.op != "call" && p.op != "block" {
				return append(out, lpStmt{op: "unsupported", note: l.t.pos(x) + " loop post statement with lock events"})
			}
		}
		body = append(body, lpStmt{op: "alt", a: append(inner, post...), b: []lpStmt{{op: "break"}}})
		return append(out, lpStmt{op: "loop", a: body})
	case *ast.RangeStmt:
		out := l.exprEvents(u, x.X)
		var body []lpStmt
		if tp := l.a.typeOf(x.X); tp != nil {
			if _, isCh := tp.Underlying().(*types.Chan); isCh {
				body = append(body, lpStmt{op: "block", note: l.t.pos(x) + " range over channel"})
			}
		}
		body = append(body, lpStmt{op: "alt", a: l.stmts(u, x.Body.List), b: []lpStmt{{op: "break"}}})
		return append(out, lpStmt{op: "loop", a: body})
	case *ast.EmptyStmt:
		return nil
	}
	return []lpStmt{{op: "unsupported", note: fmt.Sprintf("%s statement %T", l.t.pos(s), s)}}
}

// clauses of a switch / select: one of the clause bodies (or none when there is no default);
// a break inside ends the statement
func (l *lpAnalysis) clauses(u *lpUnit, list []ast.Stmt) []lpStmt {
	var pre []lpStmt
	var alts [][]lpStmt
	hasDefault := false
	for _, c := range list {
		switch cc := c.(type) {
		case *ast.CaseClause:
			if cc.List == nil {
				hasDefault = true
			}
			for _, e := range cc.List {
				pre = append(pre, l.exprEvents(u, e)...)
			}
			alts = append(alts, l.stmts(u, cc.Body))
		case *ast.CommClause:
			if cc.Comm == nil {
				hasDefault = true
			} else {
				// the communication itself is the select's wait; calls inside it are evaluated first
				var evs []lpStmt
				for _, e := range l.stmt(u, cc.Comm) {
					if e.op != "block" {
						evs = append(evs, e)
					}
				}
				pre = append(pre, evs...)
			}
			alts = append(alts, l.stmts(u, cc.Body))
		}
	}
	if !hasDefault {
		alts = append(alts, nil)
	}
	var tree []lpStmt
	for i := len(alts) - 1; i >= 0; i-- {
		if i == len(alts)-1 {
			tree = alts[i]
		} else {
			tree = []lpStmt{{op: "alt", a: alts[i], b: tree}}
		}
	}
	return append(pre, lpStmt{op: "catch", a: tree})
}

// ---------------------------------------------------------------- summaries

func (l *lpAnalysis) eachStmt(list []lpStmt, f func(s *lpStmt)) {
	for i := range list {
		f(&list[i])
		l.eachStmt(list[i].a, f)
		l.eachStmt(list[i].b, f)
	}
}

func (l *lpAnalysis) resolveParamCalls() {
	for _, u := range l.units {
		l.eachStmt(u.raw, func(s *lpStmt) {
			if s.op == "fieldcall" {
				s.op = "call"
				s.callees = append([]*lpUnit(nil), l.fieldFn[s.fObj]...)
			}
			if s.op == "paramcall" {
				s.op = "call"
				s.callees = append([]*lpUnit(nil), l.paramArgs[s.pOwner][s.pIdx]...)
			}
		})
	}
}

func (l *lpAnalysis) summaries() {
	for _, u := range l.units {
		l.eachStmt(u.raw, func(s *lpStmt) {
			switch s.op {
			case "block":
				if !u.mayBlock {
					u.mayBlock, u.why = true, s.note
				}
			case "lock", "semif":
				u.acq[s.m] = true
				u.hasLock = true
			case "unlock", "defer":
				u.hasLock = true
			}
		})
	}
	for changed := true; changed; {
		changed = false
		for _, u := range l.units {
			l.eachStmt(u.raw, func(s *lpStmt) {
				if s.op != "call" {
					return
				}
				for _, c := range s.callees {
					if c.mayBlock && !u.mayBlock {
						u.mayBlock, u.why = true, "via "+c.name+": "+c.why
						changed = true
					}
					for m := range c.acq {
						if !u.acq[m] {
							u.acq[m] = true
							changed = true
						}
					}
				}
			})
		}
	}
}

func lpSortedMutexes(set map[*lpMutex]bool) []*lpMutex {
	var out []*lpMutex
	for m := range set {
		out = append(out, m)
	}
	sort.Slice(out, func(i, j int) bool { return out[i].name < out[j].name })
	return out
}

// finalise resolves call events to (blk, acq) and prunes what carries no event
func (l *lpAnalysis) finalise(list []lpStmt) []lpStmt {
	var out []lpStmt
	for _, s := range list {
		switch s.op {
		case "call":
			set := map[*lpMutex]bool{}
			why := ""
			for _, c := range s.callees {
				if c.mayBlock {
					s.blk = true
					if why == "" {
						why = " BLOCKS " + c.why
					}
				}
				for m := range c.acq {
					set[m] = true
				}
			}
			s.acq = lpSortedMutexes(set)
			if !s.blk && len(s.acq) == 0 {
				continue
			}
			s.note += why
			out = append(out, s)
		case "alt":
			s.a, s.b = l.finalise(s.a), l.finalise(s.b)
			if len(s.a) == 0 && len(s.b) == 0 {
				continue
			}
			out = append(out, s)
		case "loop", "catch":
			s.a = l.finalise(s.a)
			if len(s.a) == 0 {
				continue
			}
			if s.op == "loop" && len(s.a) == 1 && s.a[0].op == "alt" && len(s.a[0].a) == 0 && len(s.a[0].b) == 1 && s.a[0].b[0].op == "break" {
				continue // an event-free loop
			}
			out = append(out, s)
		case "semif":
			s.a = l.finalise(s.a)
			out = append(out, s)
		default:
			out = append(out, s)
		}
	}
	return out
}

// ---------------------------------------------------------------- the translator's own run
// (rank witness and a readable report only; the decision is Coq's)

type lpState struct{ held, dfr string }
type lpOut struct {
	ctl string
	st  lpState
}

func lpPush(s, item string) string { return item + "," + s }
func lpRemove(s, item string) (string, bool) {
	parts := strings.Split(s, ",")
	for i, p := range parts {
		if p == item {
			return strings.Join(append(parts[:i:i], parts[i+1:]...), ","), true
		}
	}
	return s, false
}

type lpRun struct {
	l      *lpAnalysis
	unit   *lpUnit
	edges  map[[2]*lpMutex]string // (outer, inner) -> where
	blocks map[*lpMutex]string    // mutex -> blocking event under it
	errs   []string
}

func lpItem(m *lpMutex, rd bool) string {
	if rd {
		return m.name + ":r"
	}
	return m.name + ":w"
}

func (r *lpRun) heldMutexes(held string) []*lpMutex {
	var out []*lpMutex
	for _, p := range strings.Split(held, ",") {
		if p == "" {
			continue
		}
		out = append(out, r.l.mutexes[p[:len(p)-2]])
	}
	return out
}

func (r *lpRun) exec(list []lpStmt, st lpState) []lpOut {
	cur := []lpState{st}
	var outs []lpOut
	seen := map[lpOut]bool{}
	add := func(o lpOut) {
		if !seen[o] {
			seen[o] = true
			outs = append(outs, o)
		}
	}
	for _, s := range list {
		var next []lpState
		nseen := map[lpState]bool{}
		fall := func(x lpState) {
			if !nseen[x] {
				nseen[x] = true
				next = append(next, x)
			}
		}
		for _, c := range cur {
			switch s.op {
			case "lock":
				for _, h := range r.heldMutexes(c.held) {
					r.edges[[2]*lpMutex{h, s.m}] = r.unit.name + " " + s.note
				}
				fall(lpState{lpPush(c.held, lpItem(s.m, s.rd)), c.dfr})
			case "unlock":
				h, ok := lpRemove(c.held, lpItem(s.m, s.rd))
				if !ok {
					r.errs = append(r.errs, fmt.Sprintf("%s: %s releases a lock that is not held", r.unit.name, s.note))
					add(lpOut{"panic", c})
					continue
				}
				fall(lpState{h, c.dfr})
			case "defer":
				fall(lpState{c.held, lpPush(c.dfr, lpItem(s.m, s.rd))})
			case "block":
				for _, h := range r.heldMutexes(c.held) {
					if _, ok := r.blocks[h]; !ok {
						r.blocks[h] = r.unit.name + " " + s.note
					}
				}
				fall(c)
			case "call":
				for _, h := range r.heldMutexes(c.held) {
					if s.blk {
						if _, ok := r.blocks[h]; !ok {
							r.blocks[h] = r.unit.name + " " + s.note
						}
					}
					for _, m := range s.acq {
						r.edges[[2]*lpMutex{h, m}] = r.unit.name + " " + s.note
					}
				}
				fall(c)
			case "ret", "panic", "break", "cont":
				add(lpOut{s.op, c})
			case "alt":
				for _, o := range append(r.exec(s.a, c), r.exec(s.b, c)...) {
					if o.ctl == "fall" {
						fall(o.st)
					} else {
						add(o)
					}
				}
			case "semif":
				for _, o := range r.exec(s.a, c) {
					if o.ctl == "fall" {
						fall(o.st)
					} else {
						add(o)
					}
				}
				for _, h := range r.heldMutexes(c.held) {
					r.edges[[2]*lpMutex{h, s.m}] = r.unit.name + " " + s.note
				}
				fall(lpState{lpPush(c.held, lpItem(s.m, false)), c.dfr})
			case "catch":
				for _, o := range r.exec(s.a, c) {
					if o.ctl == "fall" || o.ctl == "break" {
						fall(o.st)
					} else {
						add(o)
					}
				}
			case "loop":
				fall(c)
				for _, o := range r.exec(s.a, c) {
					switch o.ctl {
					case "fall", "cont":
						if o.st != c {
							r.errs = append(r.errs, fmt.Sprintf("%s: a loop iteration changes the set of held locks", r.unit.name))
						}
					case "break":
						fall(o.st)
					default:
						add(o)
					}
				}
			default:
				r.errs = append(r.errs, fmt.Sprintf("%s: unsupported: %s", r.unit.name, s.note))
				fall(c)
			}
		}
		cur = next
	}
	for _, c := range cur {
		add(lpOut{"fall", c})
	}
	return outs
}

func (r *lpRun) runUnit(u *lpUnit, prog []lpStmt) {
	r.unit = u
	for _, o := range r.exec(prog, lpState{}) {
		switch o.ctl {
		case "panic":
			continue
		case "break", "cont":
			r.errs = append(r.errs, fmt.Sprintf("%s: break/continue outside a loop", u.name))
			continue
		}
		held := o.st.held
		for _, d := range strings.Split(o.st.dfr, ",") {
			if d == "" {
				continue
			}
			var ok bool
			if held, ok = lpRemove(held, d); !ok {
				r.errs = append(r.errs, fmt.Sprintf("%s: a deferred unlock of %s finds it not held", u.name, d))
			}
		}
		if strings.Trim(held, ",") != "" {
			r.errs = append(r.errs, fmt.Sprintf("%s: an exit (%s) is reached with %s still held", u.name, o.ctl, strings.Trim(held, ",")))
		}
	}
}

// ---------------------------------------------------------------- output

func lpCoqBlock(list []lpStmt, indent string, w *bytes.Buffer) {
	if len(list) == 0 {
		w.WriteString("BNil")
		return
	}
	w.WriteString("B[\n")
	for i, s := range list {
		sep := ";"
		if i == len(list)-1 {
			sep = ""
		}
		w.WriteString(indent + "  ")
		lpCoqStmt(s, indent+"  ", w)
		w.WriteString(sep)
		if s.note != "" && s.op != "alt" && s.op != "loop" && s.op != "catch" {
			fmt.Fprintf(w, " (* %s *)", strings.ReplaceAll(strings.ReplaceAll(s.note, "(*", "( *"), "*)", "* )"))
		}
		w.WriteString("\n")
	}
	w.WriteString(indent + "]")
}

func lpBool(b bool) string {
	if b {
		return "true"
	}
	return "false"
}

func lpCoqStmt(s lpStmt, indent string, w *bytes.Buffer) {
	switch s.op {
	case "lock":
		fmt.Fprintf(w, "SLock %d %s", s.m.rank, lpBool(s.rd))
	case "unlock":
		fmt.Fprintf(w, "SUnlock %d %s", s.m.rank, lpBool(s.rd))
	case "defer":
		fmt.Fprintf(w, "SDefer %d %s", s.m.rank, lpBool(s.rd))
	case "block":
		w.WriteString("SBlock")
	case "call":
		var ids []string
		for _, m := range s.acq {
			ids = append(ids, fmt.Sprint(m.rank))
		}
		fmt.Fprintf(w, "SCall %s [%s]", lpBool(s.blk), strings.Join(ids, "; "))
	case "ret":
		w.WriteString("SRet")
	case "panic":
		w.WriteString("SPanic")
	case "break":
		w.WriteString("SBreak")
	case "cont":
		w.WriteString("SCont")
	case "alt":
		w.WriteString("SAlt (")
		lpCoqBlock(s.a, indent, w)
		w.WriteString(") (")
		lpCoqBlock(s.b, indent, w)
		w.WriteString(")")
	case "semif":
		// the acquisition failed: the then-branch; it succeeded: the semaphore is held from here on
		w.WriteString("SAlt (")
		lpCoqBlock(s.a, indent, w)
		fmt.Fprintf(w, ") (B[ SLock %d false ])", s.m.rank)
	case "loop":
		w.WriteString("SLoop (")
		lpCoqBlock(s.a, indent, w)
		w.WriteString(")")
	case "catch":
		w.WriteString("SCatch (")
		lpCoqBlock(s.a, indent, w)
		w.WriteString(")")
	default:
		// an unsupported statement in a function that takes locks: a release of a mutex that
		// nobody holds, which no checker accepts
		w.WriteString("SUnlock (-1) false")
	}
}

// lockSites writes Gen/GenLockProgs.v.
func (t *translator) lockProgs(w *bytes.Buffer) (nprogs, nmutex, nsites int) {
	a := newWsAnalysis(t)
	a.computeClosure()
	l := &lpAnalysis{a: a, t: t, byFn: map[*types.Func]*lpUnit{}, byLit: map[*ast.FuncLit]*lpUnit{}, localFn: map[types.Object][]*lpUnit{},
		paramArgs: map[*lpUnit]map[int][]*lpUnit{}, fieldFn: map[types.Object][]*lpUnit{}, localField: map[types.Object][]types.Object{}, mutexes: map[string]*lpMutex{}}
	l.sem = l.mutex(lpSemName)
	l.sem.sem = true
	var fns []*types.Func
	for fn := range a.decl {
		fns = append(fns, fn)
	}
	sort.Slice(fns, func(i, j int) bool { return a.name[fns[i]] < a.name[fns[j]] })
	for _, fn := range fns {
		fd := a.decl[fn]
		l.byFn[fn] = l.newUnit(a.name[fn], fn, fd.Type, fd.Body, nil)
	}
	if _, ok := t.funcs[lpSemAcquire]; !ok {
		failf("lock sites: %s not found", lpSemAcquire)
	}
	if _, ok := t.funcs[lpSemRelease]; !ok {
		failf("lock sites: %s not found", lpSemRelease)
	}
	for _, fn := range fns {
		u := l.byFn[fn]
		u.raw = l.stmts(u, u.body.List)
	}
	l.resolveParamCalls()
	l.summaries()
	// the semaphore helpers themselves are wait sites (waitsites.go), not lock programs
	type prog struct {
		u    *lpUnit
		body []lpStmt
	}
	var progs []prog
	for _, u := range l.units {
		if !u.hasLock || u.name == lpSemAcquire || u.name == lpSemRelease {
			continue
		}
		progs = append(progs, prog{u, l.finalise(u.raw)})
	}
	sort.SliceStable(progs, func(i, j int) bool { return progs[i].u.name < progs[j].u.name })
	// rank witness: topological order of "inner is taken while outer is held"
	run := &lpRun{l: l, edges: map[[2]*lpMutex]string{}, blocks: map[*lpMutex]string{}}
	for _, p := range progs {
		run.runUnit(p.u, p.body)
	}
	var ms []*lpMutex
	for _, m := range l.mutexes {
		ms = append(ms, m)
	}
	sort.Slice(ms, func(i, j int) bool { return ms[i].name < ms[j].name })
	inner := map[*lpMutex][]*lpMutex{}
	for e := range run.edges {
		inner[e[0]] = append(inner[e[0]], e[1])
	}
	depth := map[*lpMutex]int{}
	var visit func(m *lpMutex, path map[*lpMutex]bool) int
	visit = func(m *lpMutex, path map[*lpMutex]bool) int {
		if d, ok := depth[m]; ok {
			return d
		}
		if path[m] {
			return 0 // a cycle: no rank exists, the Coq check of the order fails
		}
		path[m] = true
		d := 0
		for _, x := range inner[m] {
			if x == m {
				continue
			}
			if dx := visit(x, path) + 1; dx > d {
				d = dx
			}
		}
		delete(path, m)
		depth[m] = d
		return d
	}
	for _, m := range ms {
		visit(m, map[*lpMutex]bool{})
	}
	sort.SliceStable(ms, func(i, j int) bool { return depth[ms[i]] < depth[ms[j]] })
	for i, m := range ms {
		m.rank = i
	}

	fmt.Fprintf(w, "From Verif Require Import Spec.WaitSpec Spec.LockProgSpec.\n\n")
	fmt.Fprintf(w, "(* Mutexes of package tchannel (go2v/lockprogs.go), numbered so that a mutex taken inside a critical\n   section has a SMALLER number than every mutex held there (a witness; checked in Coq).\n   is_sem: the channel semaphore of peer.go, whose acquisition has a ctx exit. *)\n")
	fmt.Fprintf(w, "Definition lockp_mutexes : list lmutex := [\n")
	for i, m := range ms {
		sep := ";"
		if i == len(ms)-1 {
			sep = ""
		}
		fmt.Fprintf(w, "  (* %s *) mkLmutex %d %s %s%s\n", m.name, m.rank, strlit(m.name), lpBool(m.sem), sep)
	}
	fmt.Fprintf(w, "].\n\n")
	var report []string
	for e, where := range run.edges {
		report = append(report, fmt.Sprintf("%s is taken while %s is held: %s", e[1].name, e[0].name, where))
	}
	for m, where := range run.blocks {
		report = append(report, fmt.Sprintf("BLOCKING under %s: %s", m.name, where))
	}
	report = append(report, run.errs...)
	sort.Strings(report)
	fmt.Fprintf(w, "(* the translator's own reading of the programs below (not used by any proof):\n")
	for _, r := range report {
		fmt.Fprintf(w, "   %s\n", strings.ReplaceAll(strings.ReplaceAll(r, "(*", "( *"), "*)", "* )"))
	}
	fmt.Fprintf(w, "*)\n\n")
	fmt.Fprintf(w, "(* Lock programs: every function / function literal of the package that performs a lock operation. *)\n")
	fmt.Fprintf(w, "Definition lockp_progs : list lfunc := [\n")
	for i, p := range progs {
		sep := ";"
		if i == len(progs)-1 {
			sep = ""
		}
		pp := t.fset.Position(p.u.pos)
		fmt.Fprintf(w, "  (* %s:%d %s *)\n  mkLfunc %s (", filepath.Base(pp.Filename), pp.Line, p.u.name, strlit(p.u.name))
		lpCoqBlock(p.body, "  ", w)
		fmt.Fprintf(w, ")%s\n", sep)
	}
	fmt.Fprintf(w, "].\n\n")

	// lock acquisitions on the call path: closure of waitEntries (the caller's goroutine) and of
	// lockProgEntries (connection goroutines, inbound side, relay)
	byName := map[string]*types.Func{}
	for fn, n := range a.name {
		byName[n] = fn
	}
	closure := func(entries []string) map[*lpUnit]bool {
		out := map[*lpUnit]bool{}
		var work []*lpUnit
		for _, e := range entries {
			fn, ok := byName[e]
			if !ok {
				failf("lock sites: entry point %s not found in the source", e)
			}
			if u := l.byFn[fn]; !out[u] {
				out[u] = true
				work = append(work, u)
			}
		}
		for len(work) > 0 {
			u := work[len(work)-1]
			work = work[:len(work)-1]
			l.eachStmt(u.raw, func(s *lpStmt) {
				if s.op != "call" {
					return
				}
				for _, c := range s.callees {
					if !out[c] {
						out[c] = true
						work = append(work, c)
					}
				}
			})
		}
		return out
	}
	callerSet := closure(waitEntries)
	connSet := closure(append(append([]string(nil), waitEntries...), lockProgEntries...))
	emitSites := func(name string, set map[*lpUnit]bool, comment string) int {
		n := 0
		fmt.Fprintf(w, "(* %s *)\nDefinition %s : list lsite := [", comment, name)
		first := true
		for _, p := range progs {
			if !set[p.u] {
				continue
			}
			l.eachStmt(p.body, func(s *lpStmt) {
				if s.op != "lock" {
					return
				}
				if !first {
					fmt.Fprintf(w, ";")
				}
				first = false
				fmt.Fprintf(w, "\n  (* %s *)\n  mkLsite %s %d %s", strings.ReplaceAll(strings.ReplaceAll(s.note, "(*", "( *"), "*)", "* )"), strlit(p.u.name), s.m.rank, lpBool(s.rd))
				n++
			})
		}
		fmt.Fprintf(w, "\n].\n\n")
		return n
	}
	nsites = emitSites("lockp_sites", callerSet, "lock acquisitions in the closure of the caller-side entry points of waitsites.go (the goroutine of the caller of an outbound call, and forwardPeerFrame)")
	emitSites("lockp_sites_conn", connSet, "... and in the closure of the connection goroutines, the inbound side of a call, the relay and the connection failure path: "+strings.Join(lockProgEntries, ", "))
	for _, e := range run.errs {
		fmt.Printf("go2v: lock programs: %s\n", e)
	}
	for m, where := range run.blocks {
		if !m.sem {
			fmt.Printf("go2v: lock programs: a blocking statement is reached while %s is held: %s\n", m.name, where)
		}
	}
	for e, where := range run.edges {
		if e[1].rank >= e[0].rank {
			fmt.Printf("go2v: lock programs: %s is taken while %s is held, against the lock order (or re-entrant): %s\n", e[1].name, e[0].name, where)
		}
	}
	// the wait sites of the call path with calls through function values followed (c05vwide.go)
	ws, wj, wf, wn := t.c05vWideTables(w)
	fmt.Printf("go2v: GenLockProgs.v (wide wait sites) %d wait sites, %d joins in %d functions (narrow closure: %d)\n", ws, wj, wf, wn)
	return len(progs), len(ms), nsites
}

func (t *translator) lockProgsSafe(w *bytes.Buffer, repo string) (nprogs, nmutex, nsites int) {
	defer func() {
		if r := recover(); r != nil {
			f, ok := r.(failure)
			if !ok {
				panic(r)
			}
			w.Reset()
			fmt.Fprintf(w, header, repo)
			fmt.Fprintf(w, "From Verif Require Import Spec.WaitSpec Spec.LockProgSpec.\n\n(* EXTRACTION FAILED: %s *)\n", strings.ReplaceAll(f.msg, "*)", "* )"))
			fmt.Fprintf(w, "Definition lockp_mutexes : list lmutex := [].\nDefinition lockp_progs : list lfunc := [mkLfunc [] (B[ SUnlock (-1) false ])].\nDefinition lockp_sites : list lsite := [mkLsite [] (-1) false].\nDefinition lockp_sites_conn : list lsite := [mkLsite [] (-1) false].\n")
			c05vWideFallback(w)
			fmt.Printf("go2v: LOCK-SITE EXTRACTION FAILED: %s\n", f.msg)
			nprogs, nmutex, nsites = 0, 0, 0
		}
	}()
	return t.lockProgs(w)
}
