package main

// C06 -- family "the header id / type of a RESPONSE message is that of the request it answers"
// (Gen/GenReplyIds.v; the call sites of the chain are in replyids.go -> Gen/GenReplySites.v).
//
//	<T>_ID, <T>_messageType   messages.go: what Frame.write asks every message struct for
//	frameWriteId / -Type      frame.go Frame.write: the header id / type of a control message
//	                          (None = the body did not fit; nothing is sent)
//	readMessageId             preinit_connection.go readMessage: the id handed to the handshake for
//	                          the frame just read (every return after a successful ReadIn)
//	outboundInitResAccept     outboundHandshake: the connecting side insists on its own id in the init res
//
// Proofs/ReplyHdrP.v proves each the identity on the id (resp. the literal type code of the
// protocol document), and composes them with the site lists into the reply headers of
// Model/MsgRun.v.
func init() {
	f := "GenReplyIds"
	ts := []Target{}
	for _, m := range []string{"initMessage", "callReq", "callReqContinue", "callRes", "callResContinue", "errorMessage", "cancelMessage", "pingReq", "pingRes"} {
		ts = append(ts, Target{Func: m + ".ID", Out: m + "_ID", File: f, Soft: true, Params: "(m_id : Z)", Ret: "Z",
			Hints: map[string]string{"m.id": "m_id", "c.id": "m_id"}})
	}
	for _, m := range []string{"initReq", "initRes", "callReq", "callReqContinue", "callRes", "callResContinue", "errorMessage", "cancelMessage", "pingReq", "pingRes"} {
		ts = append(ts, Target{Func: m + ".messageType", Out: m + "_messageType", File: f, Soft: true, Params: "", Ret: "Z"})
	}
	fw := map[string]string{
		"var wbuf typed.WriteBuffer":                  "",
		"wbuf.Wrap(f.Payload[:])":                     "",
		"if err := msg.write(&wbuf); err != nil {...": "if write_failed then None else",
	}
	ts = append(ts,
		Target{Func: "Frame.write", Out: "frameWriteId", File: f, Soft: true, Panics: true,
			Params: "(write_failed : bool) (msg_id : Z)", Ret: "option Z", AssignRet: "f.Header.ID",
			Hints: map[string]string{"msg.ID()": "msg_id"}, SHints: fw},
		Target{Func: "Frame.write", Out: "frameWriteType", File: f, Soft: true, Panics: true,
			Params: "(write_failed : bool) (msg_type : Z)", Ret: "option Z", AssignRet: "f.Header.messageType",
			Hints:  map[string]string{"msg.messageType()": "msg_type"},
			SHints: merge(fw, map[string]string{"f.Header.ID = msg.ID()": "", "f.Header.reserved1 = 0": ""})},
		Target{Func: "Channel.readMessage", Out: "readMessageId", File: f, Soft: true, RetIdx: 0,
			Params: "(read_failed type_mismatch is_error : bool) (fid : Z)", Ret: "Z",
			Stmt: "defer ch.connectionOptions.FramePool.Release(frame)", After: true,
			Hints: map[string]string{
				"frame.ReadIn(c)": "0",
				"err != nil":      "read_failed",
				"frame.Header.messageType != msg.messageType()": "type_mismatch",
				"frame.Header.messageType == messageTypeError":  "is_error",
				"frame.Header.ID": "fid",
			}},
		Target{Func: "Channel.outboundHandshake", Out: "outboundInitResAccept", File: f, Soft: true, RetIdx: 1,
			Params: "(id req_id : Z)", Ret: "bool",
			Stmt: "if id != msg.id {", Rest: "true",
			Hints: map[string]string{"msg.id": "req_id", "call:NewSystemError": "(fun _ _ _ _ => false)"}},
	)
	targets = append(targets, ts...)
}
