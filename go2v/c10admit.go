package main

// C10 (strengthening V10, part B) -- inbound.go Connection.handleCallReq, the WHOLE function:
// every branch that refuses a call req answers it (or not) and RETURNS; only the last path hands
// the call to a handler goroutine.  The function is regenerated into Gen/GenC10Admit.v as
//
//	c10HandleCallReq st1 parse_ok mex_ok st2 tr : option (list Z * bool)
//
//	st1       the connection state read by the switch at the top
//	parse_ok  parseInboundFragment succeeded
//	mex_ok    inbound.newExchange succeeded
//	st2       the connection state read by the re-check after the exchange was registered
//	tr        trace of RESPONDER actions, appended to statement by statement:
//	          1 = c.SendSystemError(id, .., ErrChannelClosed)   (one error frame for the id)
//	          2 = mex.shutdown()                                 (the exchange is removed)
//	          3 = go c.dispatchInbound(..)                       (a handler will answer the id)
//	          4 = c.protocolError(id, ..)                        (one protocol error frame, connection torn down)
//	result    (trace, the function's bool result = "the frame may be released by the reader");
//	          None = the panic of the switch's default branch.
//
// A `return` dropped from a refusing branch lets control reach the statements after it: the trace
// of that path gains the markers of the later statements (e.g. [1; 2; 3]: the call is declined AND
// dispatched -- with a handler that answers with a system error the wire carries two error
// frames for the id).  Proofs/C10AdmitP.v proves the generated function equal to the hand model of
// Model/C10Admit.v for all inputs, "at most one of {error frame, protocol error, dispatch} on every
// path, dispatch only as the last action of the one accepting path", and that the reader steps
// RdCallReq1/2/3 of Model/RespWire.v take exactly the branch the generated trace names.
//
// Statements that only build the InboundCall / InboundCallResponse objects are dropped by
// stmt-hints keyed by the assigned field (`response.x = ...`): an added CALL on these objects in
// this function (`response.SendSystemError(..)`) has no hint and makes the target untranslatable;
// KeepRets: no dropped statement may contain a return.
func init() {
	sh := map[string]string{
		"now := c.timeNow()":           "",
		"verifPoint(...":               "",
		"callReq := new(callReq)":      "",
		"callReq.id = frame.Header.ID": "",
		"c.log.WithFields(...":         "",
		"call := new(InboundCall)":     "",
		"call.conn = c":                "",
		"ctx, cancel := newIncomingContext(c.baseContext, call, callReq.TimeToLive)":                 "",
		"initialFragment, err := parseInboundFragment(c.opts.FramePool, frame, callReq)":             "let err := negb parse_ok in",
		"mex, err := c.inbound.newExchange(ctx, cancel, c.opts.FramePool, callReq.messageType(),...": "let err := negb mex_ok in",
		"if err == errDuplicateMex {...":                                           "",
		"c.protocolError(frame.Header.ID, errInboundRequestAlreadyActive)":         "let tr := tr ++ [4] in",
		"c.SendSystemError(frame.Header.ID, callReqSpan(frame), ErrChannelClosed)": "let tr := tr ++ [1] in",
		"mex.shutdown()":                                     "let tr := tr ++ [2] in",
		"response := new(InboundCallResponse)":               "",
		"if response.span != nil {...":                       "",
		"setResponseHeaders(call.headers, response.headers)": "",
		"call.createStatsTags(c.commonStatsTags)":            "",
	}
	for _, f := range []string{"call", "calledAt", "timeNow", "span", "mex", "conn", "cancel", "log", "contents", "headers",
		"messageForFragment", "statsReporter", "commonStatsTags"} {
		sh["response."+f+" = ..."] = ""
	}
	for _, f := range []string{"mex", "initialFragment", "serviceName", "headers", "response", "log", "messageForFragment",
		"contents", "statsReporter"} {
		sh["call."+f+" = ..."] = ""
	}
	// the translator does not take `go` statements: the function is cut in two at its only one.
	// c10CallReqAfterDispatch = the statements AFTER `go c.dispatchInbound(..)` (the result of the
	// accepting path); c10HandleCallReq = every statement from the first one up to the `go`
	// statement, where reaching it stands for marker 3 and the result of the tail.
	targets = append(targets, Target{
		Func: "Connection.handleCallReq", Out: "c10CallReqAfterDispatch", File: "GenC10Admit", Soft: true,
		Params: "", Ret: "bool", Stmt: "go c.dispatchInbound(c.connID, callReq.ID(), call, frame)", After: true,
	}, Target{
		Func: "Connection.handleCallReq", Out: "c10HandleCallReq", File: "GenC10Admit", Soft: true,
		Params: "(st1 : Z) (parse_ok : bool) (mex_ok : bool) (st2 : Z) (tr : list Z)",
		Ret:    "option (list Z * bool)", Panics: true, RetFmt: "(tr, %s)", KeepRets: true,
		Stmt: "now := c.timeNow()", After: true, Until: "go c.dispatchInbound(c.connID, callReq.ID(), call, frame)",
		Rest: "(Some (tr ++ [3], c10CallReqAfterDispatch))",
		Hints: map[string]string{
			"c.readState() != connectionActive": "(negb (st2 =? c_connectionActive))",
			"c.readState()":                     "st1",
			"err != nil":                        "err",
		},
		SHints: sh,
	})
}
