package main

// C01 -- the loops of the io.Writer / io.Reader implementations of the argument streams
// (fragmentingWriter.Write, fragmentingReader.Read): ONE ITERATION of the loop as a statement
// target, so that the statements that maintain the returned byte count (`totalWritten +=
// bytesWritten`, `totalRead += n`), the re-slicing of the caller's buffer and every `return n, err`
// of the loop are regenerated from the source on every run and proved equal to the iteration the
// hand models (Model/FragIO.v) repeat.
//
// Additions to the statement translator, all opt-in by Target.IO (and Target.LoopBody):
//
//   for { body }  selected by Stmt   => the body (LoopBody); the end of the body = Target.Rest
//   return a, b                      => the tuple (a, b) of the translated results (through RetFmt)
//   v += e / v -= e (local v)        => let v := wrap(v + e) in      (fixed-width arithmetic of v's type)
//   s = s[e:]                        => let s := skipn (Z.to_nat e) s in     for Hints["slice:s"] = "list"
//                                       let s := (s - e) in                   for Hints["slice:s"] = "len"
//                                       (the variable stands for the slice / for its length; s a local or
//                                       a declared lvalue)
//   if L = e; cond { .. }            => let L := e in if cond ..     (L a declared lvalue, Target.LVals)

import (
	"go/ast"
	"go/token"
	"strings"
)

func (t *translator) loopBodyOf(sel ast.Stmt, tg *Target) ([]ast.Stmt, ast.Node) {
	fs, ok := sel.(*ast.ForStmt)
	if !ok || fs.Init != nil || fs.Cond != nil || fs.Post != nil {
		failf("%s: LoopBody target %s: the selected statement is not a condition-less `for {` loop", t.pos(sel), tg.Func)
	}
	for _, st := range fs.Body.List {
		ast.Inspect(st, func(n ast.Node) bool {
			if br, ok := n.(*ast.BranchStmt); ok && (br.Tok == token.BREAK || br.Tok == token.GOTO) {
				failf("%s: LoopBody target %s: break/goto inside the loop body", t.pos(n), tg.Func)
			}
			return true
		})
	}
	return fs.Body.List, fs.Body
}

func (c *fnctx) sliceRepr(e ast.Expr) (name, repr string, ok bool) {
	nm, isL := c.lvalName(e)
	if !isL {
		return "", "", false
	}
	r, has := c.tg.Hints["slice:"+c.t.src(stripParens(e))]
	if !has {
		return "", "", false
	}
	return nm, r, true
}

func (c *fnctx) stmtIOExt(list []ast.Stmt, rest string) (string, bool) {
	if !c.tg.IO {
		return "", false
	}
	s := list[0]
	tail := func() string { return c.stmts(list[1:], rest) }
	switch x := s.(type) {
	case *ast.ReturnStmt:
		if len(x.Results) < 2 {
			return "", false
		}
		parts := []string{}
		for _, r := range x.Results {
			parts = append(parts, c.expr(r))
		}
		return c.ret("(" + strings.Join(parts, ", ") + ")"), true
	case *ast.AssignStmt:
		if len(x.Lhs) != 1 || len(x.Rhs) != 1 {
			return "", false
		}
		switch x.Tok {
		case token.ADD_ASSIGN, token.SUB_ASSIGN:
			id, ok := x.Lhs[0].(*ast.Ident)
			if !ok {
				return "", false
			}
			name, _ := c.lvalName(id)
			op := " + "
			if x.Tok == token.SUB_ASSIGN {
				op = " - "
			}
			return "let " + name + " := " + wrapFor(c.typeOf(id), "("+name+op+c.expr(x.Rhs[0])+")") + " in\n  " + tail(), true
		case token.ASSIGN:
			sl, ok := stripParens(x.Rhs[0]).(*ast.SliceExpr)
			if !ok {
				return "", false
			}
			name, repr, ok := c.sliceRepr(x.Lhs[0])
			if !ok || c.t.src(stripParens(sl.X)) != c.t.src(stripParens(x.Lhs[0])) {
				return "", false
			}
			if sl.Low == nil || sl.High != nil || sl.Max != nil {
				failf("%s: re-slicing %q: only s = s[e:] is in the translated subset", c.t.pos(s), c.t.src(s))
			}
			lo := c.expr(sl.Low)
			switch repr {
			case "list":
				return "let " + name + " := skipn (Z.to_nat " + lo + ") " + name + " in\n  " + tail(), true
			case "len":
				return "let " + name + " := (" + name + " - " + lo + ") in\n  " + tail(), true
			}
			failf("%s: slice representation %q of %s (list | len)", c.t.pos(s), repr, name)
		}
	case *ast.IfStmt:
		as, ok := x.Init.(*ast.AssignStmt)
		if x.Init == nil || !ok || as.Tok != token.ASSIGN || len(as.Lhs) != 1 || len(as.Rhs) != 1 {
			return "", false
		}
		name, isL := c.tg.LVals[c.t.src(stripParens(as.Lhs[0]))]
		if !isL {
			return "", false
		}
		return "let " + name + " := " + c.expr(as.Rhs[0]) + " in\n  " +
			c.stmts(append([]ast.Stmt{&ast.IfStmt{If: x.If, Cond: x.Cond, Body: x.Body, Else: x.Else}}, list[1:]...), rest), true
	}
	return "", false
}

func init() {
	targets = append(targets, []Target{
		// fragmenting_writer.go Write: one iteration of `for { ... }`.
		// fits b = what w.curChunk.writeAsFits(b) returns (the bytes of b that went into the current
		// chunk); flush_err = what w.Flush() returns (0 = nil); b = the part of the caller's slice
		// still to be written; totalWritten = the running count.
		// Result (how, (n, err), totalWritten, b): how = 1 Write RETURNS (n, err); how = 0 the loop
		// goes round again with the new totalWritten and b.
		{Func: "fragmentingWriter.Write", Out: "fragWriteIter", File: "GenFragIO", Soft: true, IO: true, LoopBody: true,
			Params: "(fits : list Z -> Z) (flush_err : Z) (totalWritten : Z) (b : list Z)",
			Ret:    "Z * (Z * Z) * Z * list Z",
			Stmt:   "for {", Rest: "(0, (0, 0), totalWritten, b)",
			RetFmt: "(1, %s, totalWritten, b)",
			LVals:  map[string]string{"w.err": "werr"},
			ErrNil: "Z.eqb 0",
			Hints: map[string]string{
				"w.curChunk.writeAsFits(b)": "(fits b)",
				"len(b)":                    "(zlen b)",
				"w.Flush()":                 "flush_err",
				"nil":                       "0",
				"slice:b":                   "list",
			}},
		// fragmenting_reader.go Read: one iteration of `for { ... }`.
		// b = len of the part of the caller's buffer still to be filled, cur = len(r.curChunk),
		// rem_chunks = len(r.remainingChunks), more = r.hasMoreFragments, recv_err = what
		// recvAndParseNextFragment returns (0 = nil); io.EOF = 12 (the reader model's code).
		// Result (how, (n, err), totalRead, b, cur): how = 1 Read RETURNS (n, err); how = 0 the loop
		// goes round again (after the next fragment has been received).
		{Func: "fragmentingReader.Read", Out: "fragReadIter", File: "GenFragIO", Soft: true, IO: true, LoopBody: true,
			Params: "(cur rem_chunks : Z) (more : bool) (recv_err : Z) (totalRead : Z) (b : Z)",
			Ret:    "Z * (Z * Z) * Z * Z * Z",
			Stmt:   "for {", Rest: "(0, (0, 0), totalRead, b, cur)",
			RetFmt: "(1, %s, totalRead, b, cur)",
			LVals:  map[string]string{"r.err": "rerr", "r.curChunk": "cur"},
			ErrNil: "Z.eqb 0",
			Hints: map[string]string{
				"copy(b, r.curChunk)":               "(Z.min b cur)",
				"len(b)":                            "b",
				"len(r.remainingChunks)":            "rem_chunks",
				"r.hasMoreFragments":                "more",
				"r.recvAndParseNextFragment(false)": "recv_err",
				"nil":                               "0",
				"io.EOF":                            "12",
				"slice:b":                           "len",
				"slice:r.curChunk":                  "len",
			}},
	}...)
}
