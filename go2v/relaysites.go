package main

// relaysites.go (C09): site tables of the relay bookkeeping, regenerated on every run as
// Gen/GenRelaySites.v.  Rows are in source order (file, position); line numbers are not part
// of a row.  guard = the conditions enclosing the site inside its function, outermost first,
// joined by " && " (same convention as cksites.go).
//
//   relay_get_sites         every call of (*relayItems).Get:  (function, receiver, stopTimeout argument)
//                           the argument is its source text (comments dropped); an identifier that is
//                           defined once in the function by `x := e` is written "x=e"
//   relay_stop_sites        every call of (*relayTimer).Stop: (function, receiver)
//   relay_pending_sites     every use of the field Relayer.pending: (function, operation, guard);
//                           operation = the method called on it, or "use" for any other use
//   relay_decpending_body   the statements of Relayer.decrementPending, one row each
//   relay_decpending_calls  every call of Relayer.decrementPending: (function, guard)
//   relay_checkex_sites     every call of Connection.checkExchanges inside relay.go: (function, guard)
//   relay_get_body          the statements of relayItems.Get, one row each, complete text on one line;
//                           statements that only take or release the items lock (r.RLock(), defer r.RUnlock(),
//                           r.Lock(), r.Unlock(), an if whose branches are only such statements) are left out:
//                           one lock region is one atomic action of the model whatever the lock kind
//   relay_deletetomb_body   the statements of relayItems.deleteTomb (the scheduled tombstone collection)
//   relay_gc_sites          every time.AfterFunc call in relay.go: (function, the scheduled function literal / value)
//   relay_deletecall_body   the statements of relayItems.deleteCall (finishRelayItem's identity-checked Delete)
//   relay_finish_sites      every call of Relayer.finishRelayItem: (function, arguments)
//   relay_delete_sites      every call of relayItems.Delete / deleteCall / deleteTomb: (function, method, arguments)

import (
	"bytes"
	"fmt"
	"go/ast"
	"go/types"
	"path/filepath"
	"sort"
	"strings"
)

type rsRow struct {
	file string
	pos  int
	cols []string
}

func (t *translator) rsFuncName(fd *ast.FuncDecl) string {
	fn := fd.Name.Name
	if fd.Recv != nil && len(fd.Recv.List) == 1 {
		rt := fd.Recv.List[0].Type
		if st, ok := rt.(*ast.StarExpr); ok {
			rt = st.X
		}
		if id, ok := rt.(*ast.Ident); ok {
			fn = id.Name + "." + fn
		}
	}
	return fn
}

// rsWalk visits every node of body with the guard it is under.
func (t *translator) rsWalk(body ast.Node, visit func(n ast.Node, guard []string)) {
	with := func(guard []string, g string) []string { return append(append([]string{}, guard...), g) }
	var walk func(n ast.Node, guard []string)
	walkList := func(l []ast.Stmt, guard []string) {
		for _, s := range l {
			walk(s, guard)
		}
	}
	walk = func(n ast.Node, guard []string) {
		switch x := n.(type) {
		case nil:
			return
		case *ast.IfStmt:
			walk(x.Init, guard)
			walk(x.Cond, guard)
			c := t.oneLine(x.Cond)
			walk(x.Body, with(guard, c))
			if x.Else != nil {
				walk(x.Else, with(guard, "!("+c+")"))
			}
			return
		case *ast.ForStmt:
			walk(x.Init, guard)
			g := with(guard, "for")
			if x.Cond != nil {
				walk(x.Cond, g)
			}
			walk(x.Post, g)
			walk(x.Body, g)
			return
		case *ast.RangeStmt:
			walk(x.X, guard)
			walk(x.Body, with(guard, "range"))
			return
		case *ast.CaseClause:
			g := "default"
			if len(x.List) > 0 {
				var ps []string
				for _, e := range x.List {
					walk(e, guard)
					ps = append(ps, t.oneLine(e))
				}
				g = "case " + strings.Join(ps, ", ")
			}
			walkList(x.Body, with(guard, g))
			return
		case *ast.CommClause:
			g := "default"
			if x.Comm != nil {
				walk(x.Comm, guard)
				g = "case " + t.oneLine(x.Comm)
			}
			walkList(x.Body, with(guard, g))
			return
		case *ast.DeferStmt:
			walk(x.Call, with(guard, "defer"))
			return
		case *ast.GoStmt:
			walk(x.Call, with(guard, "go"))
			return
		case *ast.FuncLit:
			walk(x.Body, with(guard, "func"))
			return
		}
		visit(n, guard)
		var kids []ast.Node
		first := true
		ast.Inspect(n, func(c ast.Node) bool {
			if first {
				first = false
				return true
			}
			if c != nil {
				kids = append(kids, c)
			}
			return false
		})
		for _, c := range kids {
			walk(c, guard)
		}
	}
	walk(body, nil)
}

// rsLockOnly: the statement only takes / releases a lock
func (t *translator) rsLockOnly(s ast.Stmt) bool {
	isLockCall := func(e ast.Expr) bool {
		c, ok := e.(*ast.CallExpr)
		if !ok || len(c.Args) != 0 {
			return false
		}
		sel, ok := c.Fun.(*ast.SelectorExpr)
		if !ok {
			return false
		}
		switch sel.Sel.Name {
		case "Lock", "Unlock", "RLock", "RUnlock":
			return true
		}
		return false
	}
	switch x := s.(type) {
	case *ast.ExprStmt:
		return isLockCall(x.X)
	case *ast.DeferStmt:
		return isLockCall(x.Call)
	case *ast.BlockStmt:
		for _, y := range x.List {
			if !t.rsLockOnly(y) {
				return false
			}
		}
		return true
	case *ast.IfStmt:
		if x.Init != nil || !t.rsLockOnly(x.Body) {
			return false
		}
		if x.Else != nil {
			return t.rsLockOnly(x.Else)
		}
		return true
	}
	return false
}

func rsTypeName(ty types.Type) string {
	if ty == nil {
		return ""
	}
	if p, ok := ty.(*types.Pointer); ok {
		ty = p.Elem()
	}
	if n, ok := ty.(*types.Named); ok {
		return n.Obj().Name()
	}
	return ""
}

// rsArgText: the source text of a call argument; an identifier defined exactly once in the
// function by a short variable declaration is followed by "=" and the defining expression.
func (t *translator) rsArgText(fd *ast.FuncDecl, a ast.Expr) string {
	txt := t.oneLine(a)
	id, ok := a.(*ast.Ident)
	if !ok || id.Name == "true" || id.Name == "false" {
		return txt
	}
	var defs []string
	assigns := 0
	ast.Inspect(fd.Body, func(n ast.Node) bool {
		as, ok := n.(*ast.AssignStmt)
		if !ok {
			return true
		}
		for i, l := range as.Lhs {
			if li, ok := l.(*ast.Ident); ok && li.Name == id.Name {
				assigns++
				if len(as.Lhs) == len(as.Rhs) {
					defs = append(defs, t.oneLine(as.Rhs[i]))
				} else {
					defs = append(defs, "?")
				}
			}
		}
		return true
	})
	if assigns == 1 {
		return txt + "=" + defs[0]
	}
	return fmt.Sprintf("%s=?%d", txt, assigns)
}

func (t *translator) relaySites(w *bytes.Buffer) map[string]int {
	info := t.pkg.TypesInfo
	var gets, stops, pend, body, calls, chk, getBody, tombBody, gcs, dcBody, fins, dels []rsRow
	argsOf := func(c *ast.CallExpr) string {
		var as []string
		for _, a := range c.Args {
			as = append(as, strings.Join(strings.Fields(t.src(a)), " "))
		}
		return strings.Join(as, ", ")
	}
	full := func(n ast.Node) string { return strings.Join(strings.Fields(t.src(n)), " ") }
	for _, f := range t.pkg.Syntax {
		fname := filepath.Base(t.fset.Position(f.Pos()).Filename)
		if strings.HasSuffix(fname, "_test.go") || strings.HasPrefix(fname, "zz_verif") {
			continue
		}
		for _, d := range f.Decls {
			fd, ok := d.(*ast.FuncDecl)
			if !ok || fd.Body == nil {
				continue
			}
			fn := t.rsFuncName(fd)
			if fn == "Relayer.decrementPending" {
				for _, s := range fd.Body.List {
					body = append(body, rsRow{fname, int(s.Pos()), []string{t.oneLine(s)}})
				}
			}
			if fn == "relayItems.Get" {
				for _, s := range fd.Body.List {
					if !t.rsLockOnly(s) {
						getBody = append(getBody, rsRow{fname, int(s.Pos()), []string{full(s)}})
					}
				}
			}
			if fn == "relayItems.deleteCall" {
				for _, s := range fd.Body.List {
					if !t.rsLockOnly(s) {
						dcBody = append(dcBody, rsRow{fname, int(s.Pos()), []string{full(s)}})
					}
				}
			}
			if fn == "relayItems.deleteTomb" {
				for _, s := range fd.Body.List {
					if !t.rsLockOnly(s) {
						tombBody = append(tombBody, rsRow{fname, int(s.Pos()), []string{full(s)}})
					}
				}
			}
			// selector expressions that are the Fun of a call (so that a bare use can be told apart)
			called := map[*ast.SelectorExpr]string{}
			ast.Inspect(fd.Body, func(n ast.Node) bool {
				if c, ok := n.(*ast.CallExpr); ok {
					if sel, ok := c.Fun.(*ast.SelectorExpr); ok {
						if inner, ok := sel.X.(*ast.SelectorExpr); ok {
							called[inner] = sel.Sel.Name
						}
					}
				}
				return true
			})
			t.rsWalk(fd.Body, func(n ast.Node, guard []string) {
				g := strings.Join(guard, " && ")
				switch x := n.(type) {
				case *ast.CallExpr:
					sel, ok := x.Fun.(*ast.SelectorExpr)
					if !ok {
						return
					}
					if id, ok := sel.X.(*ast.Ident); ok && id.Name == "time" && sel.Sel.Name == "AfterFunc" && fname == "relay.go" && len(x.Args) == 2 {
						gcs = append(gcs, rsRow{fname, int(x.Pos()), []string{fn, full(x.Args[1])}})
						return
					}
					tv, ok := info.Types[sel.X]
					if !ok {
						return
					}
					rn := rsTypeName(tv.Type)
					switch {
					case rn == "relayItems" && sel.Sel.Name == "Get":
						arg := "?"
						if len(x.Args) == 2 {
							arg = t.rsArgText(fd, x.Args[1])
						}
						gets = append(gets, rsRow{fname, int(x.Pos()), []string{fn, t.oneLine(sel.X), arg}})
					case rn == "relayTimer" && sel.Sel.Name == "Stop":
						stops = append(stops, rsRow{fname, int(x.Pos()), []string{fn, t.oneLine(sel.X)}})
					case rn == "Relayer" && sel.Sel.Name == "finishRelayItem":
						fins = append(fins, rsRow{fname, int(x.Pos()), []string{fn, argsOf(x)}})
					case rn == "relayItems" && (sel.Sel.Name == "Delete" || sel.Sel.Name == "deleteCall" || sel.Sel.Name == "deleteTomb"):
						dels = append(dels, rsRow{fname, int(x.Pos()), []string{fn, sel.Sel.Name, argsOf(x)}})
					case rn == "Relayer" && sel.Sel.Name == "decrementPending":
						calls = append(calls, rsRow{fname, int(x.Pos()), []string{fn, g}})
					case rn == "Connection" && sel.Sel.Name == "checkExchanges" && fname == "relay.go":
						chk = append(chk, rsRow{fname, int(x.Pos()), []string{fn, g}})
					}

				case *ast.SelectorExpr:
					if x.Sel.Name != "pending" {
						return
					}
					tv, ok := info.Types[x.X]
					if !ok || rsTypeName(tv.Type) != "Relayer" {
						return
					}
					op := "use"
					if m, ok := called[x]; ok {
						op = m
					}
					pend = append(pend, rsRow{fname, int(x.Pos()), []string{fn, op, g}})
				}
			})
		}
	}
	emit := func(name string, ncol int, rows []rsRow) {
		sort.SliceStable(rows, func(i, j int) bool {
			if rows[i].file != rows[j].file {
				return rows[i].file < rows[j].file
			}
			return rows[i].pos < rows[j].pos
		})
		ty := "list Z"
		for i := 1; i < ncol; i++ {
			ty += " * list Z"
		}
		fmt.Fprintf(w, "Definition %s : list (%s) := [\n", name, ty)
		for i, r := range rows {
			sep := ";"
			if i == len(rows)-1 {
				sep = ""
			}
			cm := r.file + " " + strings.Join(r.cols, " | ")
			cm = strings.ReplaceAll(strings.ReplaceAll(cm, "*)", "* )"), "(*", "( *")
			var lits []string
			for _, c := range r.cols {
				lits = append(lits, strlit(c))
			}
			row := strings.Join(lits, ", ")
			if ncol > 1 {
				row = "(" + row + ")"
			}
			fmt.Fprintf(w, "  (* %d: %s *)\n  %s%s\n", i+1, cm, row, sep)
		}
		fmt.Fprintf(w, "].\n\n")
	}
	emit("relay_get_sites", 3, gets)
	emit("relay_stop_sites", 2, stops)
	emit("relay_pending_sites", 3, pend)
	emit("relay_decpending_body", 1, body)
	emit("relay_decpending_calls", 2, calls)
	emit("relay_checkex_sites", 2, chk)
	emit("relay_get_body", 1, getBody)
	emit("relay_deletetomb_body", 1, tombBody)
	emit("relay_gc_sites", 2, gcs)
	emit("relay_deletecall_body", 1, dcBody)
	emit("relay_finish_sites", 2, fins)
	emit("relay_delete_sites", 3, dels)
	return map[string]int{"get": len(gets), "stop": len(stops), "pending": len(pend), "body": len(body), "calls": len(calls), "checkex": len(chk)}
}
