package main

// C18 -- transport-level (tracing) keys on the application-header map (Gen/GenTraceHdr.v).
//
// The caller's tracer piggy-backs its span context on the thrift / JSON arg2 header map
// (InjectOutboundSpan -> tracingHeadersCarrier.Set: key "$tracing$" + k); the callee hides those
// entries again before the handler's context is built (ExtractInboundSpan ->
// tracingHeadersCarrier.RemoveTracingKeys).  Translated here, on every run:
//   * tracing_keys.go: the two key mappers (func literals in the composite literals of the package
//     variables tracingKeyEncoding / tracingKeyDecoding, registered as "var.field"), the two halves
//     of tracingKeysMapping.mapAndCache (read-locked look-up; write-locked look-up / map / store),
//     tracingHeadersCarrier.Set, the body of the range loop of RemoveTracingKeys (one key) and the
//     guard of the range loop of ForeachKey;
//   * tracing.go InjectOutboundSpan: the statements before the merge loop, the body of the merge
//     loop (one application header) and the statements after it;
//   * tracing.go ExtractInboundSpan: the WHOLE function as a function of (was a span created from
//     the frame's Zipkin field?, headers != nil?, did tracer.Extract succeed?, the header map):
//     the result is the map the handler's context is built from.  carrier.RemoveTracingKeys() is
//     `let headers := strip headers in` on the path where the statement stands: Proofs/TraceHdrP.v
//     proves the definition equal to `if headers_nonnil then strip headers else headers` for all
//     values of the other parameters, so moving the call under the `err == nil` branch, dropping it
//     from one branch or guarding it breaks a proof obligation.
// Header maps are canonical association lists (Base/GoStrMap.v: hm_get / hm_mem / hm_set / hm_del);
// carrier and the map it was converted from are the same object (a Go map is a reference).

import (
	"go/ast"
	"go/token"
)

const hmT = "list (list Z * list Z)"

func (t *translator) registerVarFuncs() {
	for _, f := range t.pkg.Syntax {
		for _, d := range f.Decls {
			gd, ok := d.(*ast.GenDecl)
			if !ok || gd.Tok != token.VAR {
				continue
			}
			for _, sp := range gd.Specs {
				vs, ok := sp.(*ast.ValueSpec)
				if !ok {
					continue
				}
				for i, id := range vs.Names {
					if i >= len(vs.Values) {
						continue
					}
					e := vs.Values[i]
					if u, ok := e.(*ast.UnaryExpr); ok && u.Op == token.AND {
						e = u.X
					}
					cl, ok := e.(*ast.CompositeLit)
					if !ok {
						continue
					}
					for _, el := range cl.Elts {
						kv, ok := el.(*ast.KeyValueExpr)
						if !ok {
							continue
						}
						k, ok := kv.Key.(*ast.Ident)
						if !ok {
							continue
						}
						fl, ok := kv.Value.(*ast.FuncLit)
						if !ok {
							continue
						}
						name := id.Name + "." + k.Name
						if _, dup := t.funcs[name]; !dup {
							t.funcs[name] = &ast.FuncDecl{Name: ast.NewIdent(k.Name), Type: fl.Type, Body: fl.Body}
						}
					}
				}
			}
		}
	}
}

func init() {
	targetImports["GenTraceHdr"] = []string{"Base.Wire", "Base.GoStrMap"}
	prefixCall := map[string]string{"call:strings.HasPrefix": "str_has_prefix"}
	tr := []Target{
		// tracing_keys.go: key mappers
		{Func: "tracingKeyEncoding.mapper", Out: "traceEncodeKey", File: "GenTraceHdr", Soft: true,
			Params: "(key : list Z)", Ret: "list Z",
			Hints: map[string]string{"tracingKeyPrefix + key": "(c_tracingKeyPrefix ++ key)"}},
		// None = the slice expression panics (key shorter than the prefix)
		{Func: "tracingKeyDecoding.mapper", Out: "traceDecodeKey", File: "GenTraceHdr", Soft: true,
			Params: "(key : list Z)", Ret: "option (list Z)",
			Hints: map[string]string{"key[len(tracingKeyPrefix):]": "(str_from key (zlen c_tracingKeyPrefix))"}},
		// mapAndCache, read-locked half: Some v = found in the cache, None = go on to the write-locked half
		{Func: "tracingKeysMapping.mapAndCache", Out: "mapAndCacheFast", File: "GenTraceHdr", Soft: true,
			Params: "(cache : " + hmT + ") (key : list Z)", Ret: "option (list Z)",
			Stmt: "m.RLock()", After: true, Until: "m.Lock()", Rest: "None", RetFmt: "(Some %s)",
			Hints:  map[string]string{"m.mapping[key]": "(hm_get cache key)"},
			SHints: map[string]string{"m.RUnlock()": ""}},
		// mapAndCache, write-locked half: (new cache, result)
		{Func: "tracingKeysMapping.mapAndCache", Out: "mapAndCacheSlow", File: "GenTraceHdr", Soft: true,
			Params: "(mapper : list Z -> list Z) (cache : " + hmT + ") (key : list Z)", Ret: hmT + " * list Z",
			Stmt: "defer m.Unlock()", After: true, RetFmt: "(cache, %s)",
			Hints: map[string]string{
				"m.mapping[key]": "(hm_get cache key)",
				"m.mapper(key)":  "(mapper key)",
				"len(m.mapping)": "(zlen cache)",
			},
			SHints: map[string]string{"m.mapping[key] = mappedKey": "let cache := hm_set cache key mappedKey in"}},
		// tracingHeadersCarrier.Set: the new map
		{Func: "tracingHeadersCarrier.Set", Out: "carrierSet", File: "GenTraceHdr", Soft: true,
			Params: "(c : " + hmT + ") (key val : list Z)", Ret: hmT, VoidRet: "c",
			Hints:  map[string]string{"tracingKeyEncoding.mapAndCache(key)": "(traceEncodeKey key)"},
			SHints: map[string]string{"c[prefixedKey] = val": "let c := hm_set c prefixedKey val in"}},
		// RemoveTracingKeys: one iteration of `for key := range c`
		{Func: "tracingHeadersCarrier.RemoveTracingKeys", Out: "removeKeyStep", File: "GenTraceHdr", Soft: true,
			Params: "(c : " + hmT + ") (key : list Z)", Ret: hmT,
			Stmt: "if strings.HasPrefix(key, tracingKeyPrefix) {", Rest: "c",
			Hints:  prefixCall,
			SHints: map[string]string{"delete(c, key)": "let c := hm_del c key in"}},
		// ForeachKey: is the handler called for key k (false = `continue`)
		{Func: "tracingHeadersCarrier.ForeachKey", Out: "foreachKeyVisits", File: "GenTraceHdr", Soft: true,
			Params: "(k : list Z)", Ret: "bool",
			Stmt: "if !strings.HasPrefix(k, tracingKeyPrefix) {", Rest: "true",
			Hints: merge(prefixCall, map[string]string{"stmt:continue": "false"})},

		// tracing.go InjectOutboundSpan, up to the merge loop: inl m = `return m`, inr newHeaders = the
		// loop is entered with this newHeaders.  sets = the (key, value) pairs the tracer's Inject passes
		// to carrier.Set, in order (a TextMapWriter has no other method).
		{Func: "InjectOutboundSpan", Out: "injectHead", File: "GenTraceHdr", Soft: true,
			Params: "(has_span : bool) (sets : " + hmT + ") (headers : " + hmT + ")", Ret: hmT + " + " + hmT,
			Stmt: "span := response.span", After: true, Until: "for k, v := range headers",
			Rest: "(inr newHeaders)", RetFmt: "(inl %s)",
			Hints: map[string]string{
				"span == nil":             "(negb has_span)",
				"make(map[string]string)": "(@nil (list Z * list Z))",
				"len(newHeaders)":         "(zlen newHeaders)",
			},
			SHints: map[string]string{
				"carrier := tracingHeadersCarrier(newHeaders)":                                                  "",
				"if err := span.Tracer().Inject(span.Context(), opentracing.TextMap, carrier); err != nil {...": "let newHeaders := fold_left (fun c kv => carrierSet c (fst kv) (snd kv)) sets newHeaders in",
			}},
		// ... one iteration of `for k, v := range headers`
		{Func: "InjectOutboundSpan", Out: "injectMergeStep", File: "GenTraceHdr", Soft: true,
			Params: "(newHeaders : " + hmT + ") (k v : list Z)", Ret: hmT,
			Stmt: "if _, ok := newHeaders[k]; !ok {", Rest: "newHeaders",
			Hints:  map[string]string{"newHeaders[k]": "(tt, hm_mem newHeaders k)"},
			SHints: map[string]string{"newHeaders[k] = v": "let newHeaders := hm_set newHeaders k v in"}},
		// ... and what follows the loop
		{Func: "InjectOutboundSpan", Out: "injectTail", File: "GenTraceHdr", Soft: true,
			Params: "(headers newHeaders : " + hmT + ")", Ret: hmT,
			Stmt: "for k, v := range headers", After: true},

		// tracing.go ExtractInboundSpan, the whole function: the header map the handler's context is
		// built from (the map is mutated in place; server.handle / handler.Handle pass the same map to
		// WithHeaders).  strip = carrier.RemoveTracingKeys().
		{Func: "ExtractInboundSpan", Out: "extractInboundHeaders", File: "GenTraceHdr", Soft: true,
			Params: "(strip : " + hmT + " -> " + hmT + ") (has_span headers_nonnil extract_ok : bool) (headers : " + hmT + ")", Ret: hmT,
			Hints: map[string]string{
				"span != nil":    "has_span",
				"headers != nil": "headers_nonnil",
				"tracer.Extract(opentracing.TextMap, carrier)": "(tt, extract_ok)",
				"err == nil":                             "err",
				"opentracing.ContextWithSpan(ctx, span)": "headers",
			},
			SHints: map[string]string{
				"var span = call.Response().span":           "",
				"carrier := tracingHeadersCarrier(headers)": "",
				"sc.ForeachBaggageItem(...":                 "",
				"carrier.RemoveTracingKeys()":               "let headers := strip headers in",
				"var parent opentracing.SpanContext":        "let parent := tt in",
				"span = tracer.StartSpan(...":               "",
				"ext.PeerService.Set(...":                   "",
				"ext.Component.Set(...":                     "",
				"span.SetTag(...":                           "",
				"call.conn.setPeerHostPort(span)":           "",
				"call.Response().span = span":               "",
			}},

		// The four call sites.  thrift/client.go writeArgs: the map that WriteHeaders encodes as arg2
		// (inject = tchannel.InjectOutboundSpan(call.Response(), .)).
		{Func: "writeArgs", Pkg: "thrift", Out: "thriftWrittenHeaders", File: "GenTraceHdr", Soft: true,
			Params: "(inject : " + hmT + " -> " + hmT + ") (headers : " + hmT + ")", Ret: hmT,
			Stmt: "writer, err := call.Arg2Writer()", After: true, Until: "if err := writer.Close(); err != nil {",
			Rest:  "written",
			Hints: map[string]string{"tchannel.InjectOutboundSpan(call.Response(), headers)": "(inject headers)"},
			SHints: map[string]string{
				"if err != nil {...": "",
				"if err := WriteHeaders(writer, headers); err != nil {...": "let written := headers in",
			}},
		// json/call.go makeCall: the value WriteJSON encodes as arg2 (is_map: the headers value is a map[string]string)
		{Func: "makeCall", Pkg: "json", Out: "jsonWrittenHeaders", File: "GenTraceHdr", Soft: true,
			Params: "(inject : " + hmT + " -> " + hmT + ") (is_map : bool) (headers : " + hmT + ")", Ret: hmT,
			Stmt: "if mapHeaders, ok := headers.(map[string]string); ok {", Rest: "headers",
			Hints: map[string]string{
				"headers.(map[string]string)":                              "(headers, is_map)",
				"tchannel.InjectOutboundSpan(call.Response(), mapHeaders)": "(inject mapHeaders)",
			}},
		// thrift/server.go handle: the headers of the handler's context (extract = what ExtractInboundSpan
		// leaves in the decoded map; ctxFn is WithHeaders unless the application replaced it)
		{Func: "Server.handle", Pkg: "thrift", Out: "thriftHandlerHeaders", File: "GenTraceHdr", Soft: true,
			Params: "(extract : " + hmT + " -> " + hmT + ") (headers : " + hmT + ")", Ret: hmT,
			Stmt: "tracer := tchannel.TracerFromRegistrar(s.ch)", After: true, Until: "wp := getProtocolReader(reader)",
			Rest:  "ctx",
			Hints: map[string]string{"s.ctxFn(origCtx, method, headers)": "headers"},
			SHints: map[string]string{
				"origCtx = tchannel.ExtractInboundSpan(origCtx, call, headers, tracer)": "let headers := extract headers in",
			}},
		// json/handler.go Handle: the same for the JSON handler
		{Func: "handler.Handle", Pkg: "json", Out: "jsonHandlerHeaders", File: "GenTraceHdr", Soft: true,
			Params: "(extract : " + hmT + " -> " + hmT + ") (headers : " + hmT + ")", Ret: hmT,
			Stmt: "if err := tchannel.NewArgReader(call.Arg2Reader()).ReadJSON(&headers); err != nil {", After: true, Until: "var arg3 reflect.Value",
			Rest:  "ctx",
			Hints: map[string]string{"WithHeaders(tctx, headers)": "headers"},
			SHints: map[string]string{
				"tctx = tchannel.ExtractInboundSpan(tctx, call, headers, h.tracer())": "let headers := extract headers in",
			}},
	}
	targets = append(targets, tr...)
}
