package main

// ctxflow.go (C14): two families of site tables, regenerated on every run as Gen/GenCtxFlow.v.
//
// (A) ctxflow_sites -- WHICH CONTEXT the retrying clients hand down.
//     Channel.RunWithRetry calls its argument once per attempt with the context of THAT attempt
//     (the caller's context, or a child that expires after RetryOptions.TimeoutPerAttempt).  The
//     attempt function has to hand that context on: the time-to-live of the call req, the waits of
//     the caller and the deadline of the handler all derive from the context given to BeginCall.
//     One row per (call expression, context-typed argument) found in
//       * Channel.RunWithRetry itself,
//       * every function literal / named function passed to RunWithRetry anywhere in the
//         non-test source of the module (all packages are loaded),
//       * every function of the same package that is called from such a function with a context
//         argument (transitively: startCall, ...).
//     Row: (package, function, context parameter of the function, callee, argument, guard, origin)
//       function   "client.Call/func1" for the first function literal inside client.Call
//       parameter  name of the innermost function's own context parameter ("" if it has none,
//                  "_" if it is blank)
//       argument   source text; for a variable defined once by `x, ... := e` it is "x := e"
//       guard      enclosing conditions, outermost first, joined by " && " (cksites.go convention;
//                  an `if c { ...; return }` without else guards the statements after it by "!(c)")
//       origin     0  the innermost function's own context parameter
//                  1  derived from it: f(param, ...) for a function whose first parameter is a
//                     context (context.WithTimeout, Wrap, ...), directly or through `x := ...`
//                  2  a context variable of an ENCLOSING function captured by a function literal
//                     that has a context parameter of its own
//                  3  anything else (context.Background(), a struct field, a global, ...)
//
// (B) the connection-failure path (connection.go, mex.go, inbound.go):
//     stop_sites    every call of (*messageExchangeSet).stopExchanges in package tchannel:
//                   (function, receiver, argument, guard)
//     notify_sites  inside messageExchangeSet.stopExchanges: every call and every assignment
//                   (function, statement text, guard)
//     watch_sites   inside Connection.dispatchInbound: every call made inside a `select` clause of
//                   a `go` statement (the goroutine that turns an exchange error / an expired
//                   context into the cancellation of the handler's context): (function, call, guard)
// Rows are in source order; line numbers are not part of a row.

import (
	"bytes"
	"fmt"
	"go/ast"
	"go/token"
	"go/types"
	"path/filepath"
	"sort"
	"strings"

	"golang.org/x/tools/go/packages"
)

type cflRow struct {
	pkg, file string
	pos       int
	cols      []string
	origin    int
}

func cflOneLine(fset *token.FileSet, n ast.Node) string {
	s := (&translator{fset: fset}).src(n)
	s = strings.Join(strings.Fields(s), " ")
	if len(s) > 120 {
		s = s[:120]
	}
	return s
}

func cflFuncName(fd *ast.FuncDecl) string {
	fn := fd.Name.Name
	if fd.Recv != nil && len(fd.Recv.List) == 1 {
		rt := fd.Recv.List[0].Type
		if st, ok := rt.(*ast.StarExpr); ok {
			rt = st.X
		}
		if id, ok := rt.(*ast.Ident); ok {
			fn = id.Name + "." + fn
		}
	}
	return fn
}

func cflTerminates(b *ast.BlockStmt) bool {
	if b == nil || len(b.List) == 0 {
		return false
	}
	switch x := b.List[len(b.List)-1].(type) {
	case *ast.ReturnStmt:
		return true
	case *ast.BranchStmt:
		return x.Tok == token.CONTINUE || x.Tok == token.BREAK || x.Tok == token.GOTO
	case *ast.ExprStmt:
		if c, ok := x.X.(*ast.CallExpr); ok {
			if id, ok := c.Fun.(*ast.Ident); ok && id.Name == "panic" {
				return true
			}
		}
	}
	return false
}

// cflWalk visits every node below body with its guard.  Function literals are entered with the
// guard element "func" unless enterLit returns false for them.
func cflWalk(fset *token.FileSet, body ast.Node, enterLit func(*ast.FuncLit) bool, visit func(n ast.Node, guard []string)) {
	with := func(guard []string, g string) []string { return append(append([]string{}, guard...), g) }
	var walk func(n ast.Node, guard []string)
	walkList := func(l []ast.Stmt, guard []string) {
		g := guard
		for _, s := range l {
			walk(s, g)
			if is, ok := s.(*ast.IfStmt); ok && is.Else == nil && cflTerminates(is.Body) {
				g = with(g, "!("+cflOneLine(fset, is.Cond)+")")
			}
		}
	}
	walk = func(n ast.Node, guard []string) {
		switch x := n.(type) {
		case nil:
			return
		case *ast.BlockStmt:
			if x == nil {
				return
			}
			walkList(x.List, guard)
			return
		case *ast.IfStmt:
			walk(x.Init, guard)
			walk(x.Cond, guard)
			c := cflOneLine(fset, x.Cond)
			walk(x.Body, with(guard, c))
			if x.Else != nil {
				walk(x.Else, with(guard, "!("+c+")"))
			}
			return
		case *ast.ForStmt:
			walk(x.Init, guard)
			g := with(guard, "for")
			if x.Cond != nil {
				walk(x.Cond, g)
			}
			walk(x.Post, g)
			walk(x.Body, g)
			return
		case *ast.RangeStmt:
			walk(x.X, guard)
			walk(x.Body, with(guard, "range"))
			return
		case *ast.CaseClause:
			g := "default"
			if len(x.List) > 0 {
				var ps []string
				for _, e := range x.List {
					walk(e, guard)
					ps = append(ps, cflOneLine(fset, e))
				}
				g = "case " + strings.Join(ps, ", ")
			}
			walkList(x.Body, with(guard, g))
			return
		case *ast.CommClause:
			g := "default"
			if x.Comm != nil {
				walk(x.Comm, guard)
				g = "case " + cflOneLine(fset, x.Comm)
			}
			walkList(x.Body, with(guard, g))
			return
		case *ast.SelectStmt:
			walk(x.Body, with(guard, "select"))
			return
		case *ast.DeferStmt:
			walk(x.Call, with(guard, "defer"))
			return
		case *ast.GoStmt:
			walk(x.Call, with(guard, "go"))
			return
		case *ast.FuncLit:
			visit(x, guard)
			if enterLit == nil || enterLit(x) {
				walk(x.Body, with(guard, "func"))
			}
			return
		}
		visit(n, guard)
		var kids []ast.Node
		first := true
		ast.Inspect(n, func(c ast.Node) bool {
			if first {
				first = false
				return true
			}
			if c != nil {
				kids = append(kids, c)
			}
			return false
		})
		for _, c := range kids {
			walk(c, guard)
		}
	}
	walk(body, nil)
}

// ---------------------------------------------------------------------------------------------
// (A) context flow
// ---------------------------------------------------------------------------------------------

// functions of the core package whose callees are followed (the path of an outbound call)
var cflFollowInRoot = map[string]bool{"Channel.BeginCall": true, "SubChannel.BeginCall": true, "Peer.BeginCall": true, "Connection.beginCall": true}

type cflUnit struct { // one function body to analyse
	pkg   *packages.Package
	file  string
	name  string
	ftype *ast.FuncType
	body  *ast.BlockStmt
	outer ast.Node // for a function literal: the literal itself
}

func cflIsContext(ty types.Type) bool {
	if ty == nil {
		return false
	}
	// structurally: an interface (or a type implementing one) with Deadline/Done/Err/Value
	ms := types.NewMethodSet(ty)
	need := map[string]bool{"Deadline": false, "Done": false, "Err": false, "Value": false}
	for i := 0; i < ms.Len(); i++ {
		if _, ok := need[ms.At(i).Obj().Name()]; ok {
			need[ms.At(i).Obj().Name()] = true
		}
	}
	for _, v := range need {
		if !v {
			return false
		}
	}
	return true
}

func cflLoadAll(repo string) []*packages.Package {
	cfg := &packages.Config{
		Mode: packages.NeedName | packages.NeedFiles | packages.NeedSyntax | packages.NeedTypes | packages.NeedTypesInfo | packages.NeedImports | packages.NeedDeps,
		Dir:  repo,
	}
	pkgs, err := packages.Load(cfg, "./...")
	if err != nil {
		failf("ctxflow: load ./...: %v", err)
	}
	var out []*packages.Package
	for _, p := range pkgs {
		if strings.Contains(p.PkgPath, "/vendor/") || strings.Contains(p.PkgPath, "/thirdparty/") {
			continue
		}
		if len(p.Errors) > 0 {
			failf("ctxflow: load %s: %v", p.PkgPath, p.Errors[0])
		}
		out = append(out, p)
	}
	sort.Slice(out, func(i, j int) bool { return out[i].PkgPath < out[j].PkgPath })
	return out
}

func cflShortPkg(p *packages.Package, rootPath string) string {
	if p.PkgPath == rootPath {
		return "."
	}
	return strings.TrimPrefix(p.PkgPath, rootPath+"/")
}

func ctxFlowSites(w *bytes.Buffer, repo string, rootPath string) (int, int) {
	pkgs := cflLoadAll(repo)
	var rows []cflRow
	closures := 0
	var attemptFns [][2]string

	for _, p := range pkgs {
		info := p.TypesInfo
		fset := p.Fset
		decls := map[types.Object]*ast.FuncDecl{}
		fileOf := map[*ast.FuncDecl]string{}
		for _, f := range p.Syntax {
			fname := filepath.Base(fset.Position(f.Pos()).Filename)
			if strings.HasSuffix(fname, "_test.go") || strings.HasPrefix(fname, "zz_verif") {
				continue
			}
			for _, d := range f.Decls {
				if fd, ok := d.(*ast.FuncDecl); ok && fd.Body != nil {
					if o := info.Defs[fd.Name]; o != nil {
						decls[o] = fd
						fileOf[fd] = fname
					}
				}
			}
		}
		isRunWithRetry := func(c *ast.CallExpr) bool {
			sel, ok := c.Fun.(*ast.SelectorExpr)
			if !ok || sel.Sel.Name != "RunWithRetry" {
				return false
			}
			o := info.Uses[sel.Sel]
			return o != nil && o.Pkg() != nil && o.Pkg().Path() == rootPath
		}

		var queue []cflUnit
		seen := map[ast.Node]bool{}
		push := func(u cflUnit) {
			if u.body == nil || seen[u.body] {
				return
			}
			seen[u.body] = true
			queue = append(queue, u)
		}
		// roots: RunWithRetry itself, and everything passed to it
		for o, fd := range decls {
			if p.PkgPath == rootPath && o.Name() == "RunWithRetry" && fd.Recv != nil {
				push(cflUnit{p, fileOf[fd], cflFuncName(fd), fd.Type, fd.Body, nil})
			}
			// the call primitives the clients end in, down to Connection.beginCall
			if p.PkgPath == rootPath && (o.Name() == "BeginCall" || o.Name() == "beginCall") && fd.Recv != nil {
				push(cflUnit{p, fileOf[fd], cflFuncName(fd), fd.Type, fd.Body, nil})
			}
		}
		var fds []*ast.FuncDecl
		for _, fd := range decls {
			fds = append(fds, fd)
		}
		sort.Slice(fds, func(i, j int) bool { return fds[i].Pos() < fds[j].Pos() })
		for _, fd := range fds {
			nlit := 0
			litName := map[*ast.FuncLit]string{}
			ast.Inspect(fd.Body, func(n ast.Node) bool {
				if fl, ok := n.(*ast.FuncLit); ok {
					nlit++
					litName[fl] = fmt.Sprintf("%s/func%d", cflFuncName(fd), nlit)
				}
				return true
			})
			ast.Inspect(fd.Body, func(n ast.Node) bool {
				c, ok := n.(*ast.CallExpr)
				if !ok || !isRunWithRetry(c) {
					return true
				}
				for _, a := range c.Args {
					tv, ok := info.Types[a]
					if !ok {
						continue
					}
					if _, isSig := tv.Type.Underlying().(*types.Signature); !isSig {
						continue
					}
					closures++
					switch x := a.(type) {
					case *ast.FuncLit:
						attemptFns = append(attemptFns, [2]string{cflShortPkg(p, rootPath), litName[x]})
						push(cflUnit{p, fileOf[fd], litName[x], x.Type, x.Body, x})
					case *ast.Ident, *ast.SelectorExpr:
						var id *ast.Ident
						if i, ok := x.(*ast.Ident); ok {
							id = i
						} else {
							id = x.(*ast.SelectorExpr).Sel
						}
						if d, ok := decls[info.Uses[id]]; ok {
							attemptFns = append(attemptFns, [2]string{cflShortPkg(p, rootPath), cflFuncName(d)})
							push(cflUnit{p, fileOf[d], cflFuncName(d), d.Type, d.Body, nil})
						} else {
							attemptFns = append(attemptFns, [2]string{cflShortPkg(p, rootPath), cflFuncName(fd) + "/?"})
							// a function value whose body cannot be found: no context discipline can be read off
							rows = append(rows, cflRow{cflShortPkg(p, rootPath), fileOf[fd], int(a.Pos()),
								[]string{cflShortPkg(p, rootPath), cflFuncName(fd), "", "RunWithRetry", cflOneLine(fset, a), ""}, 3})
						}
					default:
						attemptFns = append(attemptFns, [2]string{cflShortPkg(p, rootPath), cflFuncName(fd) + "/?"})
						rows = append(rows, cflRow{cflShortPkg(p, rootPath), fileOf[fd], int(a.Pos()),
							[]string{cflShortPkg(p, rootPath), cflFuncName(fd), "", "RunWithRetry", cflOneLine(fset, a), ""}, 3})
					}
				}
				return true
			})
		}

		for len(queue) > 0 {
			u := queue[0]
			queue = queue[1:]
			// the unit's own context parameter
			var param types.Object
			paramName := ""
			if u.ftype.Params != nil {
			findParam:
				for _, fld := range u.ftype.Params.List {
					tv, ok := info.Types[fld.Type]
					if !ok || !cflIsContext(tv.Type) {
						continue
					}
					if len(fld.Names) == 0 {
						paramName = "_"
						break
					}
					for _, nm := range fld.Names {
						paramName = nm.Name
						if nm.Name != "_" {
							param = info.Defs[nm]
						}
						break findParam
					}
				}
			}
			lo, hi := u.body.Pos(), u.body.End()
			if u.outer != nil {
				lo, hi = u.outer.Pos(), u.outer.End()
			}
			// single definitions `x, ... := e` / `x = e` / `var x = e` inside the unit
			defs := map[types.Object][]ast.Expr{}
			ast.Inspect(u.body, func(n ast.Node) bool {
				switch x := n.(type) {
				case *ast.AssignStmt:
					for i, l := range x.Lhs {
						id, ok := l.(*ast.Ident)
						if !ok {
							continue
						}
						o := info.Defs[id]
						if o == nil {
							o = info.Uses[id]
						}
						if o == nil {
							continue
						}
						var rhs ast.Expr
						if len(x.Rhs) == len(x.Lhs) {
							rhs = x.Rhs[i]
						} else if len(x.Rhs) == 1 {
							rhs = x.Rhs[0]
						}
						defs[o] = append(defs[o], rhs)
					}
				case *ast.ValueSpec:
					for i, id := range x.Names {
						if o := info.Defs[id]; o != nil {
							var rhs ast.Expr
							if i < len(x.Values) {
								rhs = x.Values[i]
							}
							defs[o] = append(defs[o], rhs)
						}
					}
				}
				return true
			})
			inParamDefs := false
			var origin func(e ast.Expr, depth int) (int, string)
			origin = func(e ast.Expr, depth int) (int, string) {
				txt := cflOneLine(fset, e)
				if depth > 6 {
					return 3, txt
				}
				switch x := e.(type) {
				case *ast.ParenExpr:
					return origin(x.X, depth+1)
				case *ast.Ident:
					o := info.Uses[x]
					if o == nil {
						return 3, txt
					}
					if param != nil && o == param {
						// a parameter that is assigned to inside the function is only as good as
						// what it is assigned: derived from itself (ctx = Wrap(ctx)) or not
						if ds := defs[o]; len(ds) > 0 && !inParamDefs {
							inParamDefs = true
							worst := 1
							for _, d := range ds {
								k := 3
								if d != nil {
									k, _ = origin(d, depth+1)
								}
								if k > worst {
									worst = k
								}
							}
							inParamDefs = false
							return worst, txt + " (reassigned)"
						}
						return 0, txt
					}
					if o.Pos() >= lo && o.Pos() < hi {
						// a local of this unit: follow its single definition
						if ds := defs[o]; len(ds) == 1 && ds[0] != nil {
							k, _ := origin(ds[0], depth+1)
							if k == 0 {
								k = 1
							}
							return k, x.Name + " := " + cflOneLine(fset, ds[0])
						}
						return 3, txt
					}
					if _, isVar := o.(*types.Var); isVar && o.Parent() != nil && o.Parent() != p.Types.Scope() && u.outer != nil {
						return 2, txt // a variable of an enclosing function
					}
					return 3, txt
				case *ast.CallExpr:
					// f(ctx, ...) with a context first parameter: derived from that argument
					if tv, ok := info.Types[x.Fun]; ok {
						if sig, ok := tv.Type.Underlying().(*types.Signature); ok && sig.Params().Len() > 0 &&
							cflIsContext(sig.Params().At(0).Type()) && len(x.Args) > 0 {
							k, _ := origin(x.Args[0], depth+1)
							if k == 0 {
								k = 1
							}
							return k, txt
						}
					}
					return 3, txt
				}
				return 3, txt
			}
			cflWalk(fset, u.body, nil, func(n ast.Node, guard []string) {
				c, ok := n.(*ast.CallExpr)
				if !ok {
					return
				}
				if tv, ok := info.Types[c.Fun]; ok && tv.IsType() {
					return // a conversion
				}
				for _, a := range c.Args {
					tv, ok := info.Types[a]
					if !ok || !cflIsContext(tv.Type) {
						continue
					}
					k, txt := origin(a, 0)
					// inside a nested function literal with a context parameter of its own the
					// unit's parameter is an outer variable: such literals are separate units only
					// when they are passed to RunWithRetry; elsewhere the guard shows "func"
					rows = append(rows, cflRow{cflShortPkg(p, rootPath), u.file, int(a.Pos()),
						[]string{cflShortPkg(p, rootPath), u.name, paramName, cflOneLine(fset, c.Fun), txt, strings.Join(guard, " && ")}, k})
					// follow the callee inside the package
					var id *ast.Ident
					switch f := c.Fun.(type) {
					case *ast.Ident:
						id = f
					case *ast.SelectorExpr:
						id = f.Sel
					}
					if id != nil {
						if d, ok := decls[info.Uses[id]]; ok && (p.PkgPath != rootPath || cflFollowInRoot[u.name]) {
							push(cflUnit{p, fileOf[d], cflFuncName(d), d.Type, d.Body, nil})
						}
					}
				}
			})
		}
	}
	sort.SliceStable(rows, func(i, j int) bool {
		if rows[i].pkg != rows[j].pkg {
			return rows[i].pkg < rows[j].pkg
		}
		if rows[i].file != rows[j].file {
			return rows[i].file < rows[j].file
		}
		return rows[i].pos < rows[j].pos
	})
	fmt.Fprintf(w, "(* (package, function, context parameter, callee, context argument, guard, origin) *)\n")
	fmt.Fprintf(w, "Definition ctxflow_sites : list (list Z * list Z * list Z * list Z * list Z * list Z * Z) := [\n")
	for i, r := range rows {
		sep := ";"
		if i == len(rows)-1 {
			sep = ""
		}
		cm := fmt.Sprintf("%s %s %s(%s): %s(.. %s ..) [%s] origin %d", r.cols[0], r.file, r.cols[1], r.cols[2], r.cols[3], r.cols[4], r.cols[5], r.origin)
		cm = strings.ReplaceAll(strings.ReplaceAll(cm, "*)", "* )"), "(*", "( *")
		fmt.Fprintf(w, "  (* %d: %s *)\n  (%s, %s, %s, %s, %s, %s, %d)%s\n", i+1, cm,
			strlit(r.cols[0]), strlit(r.cols[1]), strlit(r.cols[2]), strlit(r.cols[3]), strlit(r.cols[4]), strlit(r.cols[5]), r.origin, sep)
	}
	fmt.Fprintf(w, "].\n\n")
	sort.Slice(attemptFns, func(i, j int) bool {
		if attemptFns[i][0] != attemptFns[j][0] {
			return attemptFns[i][0] < attemptFns[j][0]
		}
		return attemptFns[i][1] < attemptFns[j][1]
	})
	fmt.Fprintf(w, "(* (package, function): the attempt functions handed to Channel.RunWithRetry *)\n")
	fmt.Fprintf(w, "Definition retry_attempt_fns : list (list Z * list Z) := [\n")
	for i, a := range attemptFns {
		sep := ";"
		if i == len(attemptFns)-1 {
			sep = ""
		}
		fmt.Fprintf(w, "  (* %s %s *)\n  (%s, %s)%s\n", a[0], a[1], strlit(a[0]), strlit(a[1]), sep)
	}
	fmt.Fprintf(w, "].\n\n")
	return len(rows), closures
}

// ---------------------------------------------------------------------------------------------
// (B) connection-failure path
// ---------------------------------------------------------------------------------------------

func (t *translator) cflEmit3(w *bytes.Buffer, name, doc string, rows []cflRow, ncol int) {
	sort.SliceStable(rows, func(i, j int) bool {
		if rows[i].file != rows[j].file {
			return rows[i].file < rows[j].file
		}
		return rows[i].pos < rows[j].pos
	})
	ty := "list Z"
	for i := 1; i < ncol; i++ {
		ty += " * list Z"
	}
	fmt.Fprintf(w, "(* %s *)\nDefinition %s : list (%s) := [\n", doc, name, ty)
	for i, r := range rows {
		sep := ";"
		if i == len(rows)-1 {
			sep = ""
		}
		cm := r.file + " " + strings.Join(r.cols, " | ")
		cm = strings.ReplaceAll(strings.ReplaceAll(cm, "*)", "* )"), "(*", "( *")
		var lits []string
		for _, c := range r.cols {
			lits = append(lits, strlit(c))
		}
		fmt.Fprintf(w, "  (* %d: %s *)\n  (%s)%s\n", i+1, cm, strings.Join(lits, ", "), sep)
	}
	fmt.Fprintf(w, "].\n\n")
}

func (t *translator) connFailSites(w *bytes.Buffer) (int, int, int) {
	fset := t.fset
	var stops, notifies, watches []cflRow
	for _, f := range t.pkg.Syntax {
		fname := filepath.Base(fset.Position(f.Pos()).Filename)
		if strings.HasSuffix(fname, "_test.go") || strings.HasPrefix(fname, "zz_verif") {
			continue
		}
		for _, d := range f.Decls {
			fd, ok := d.(*ast.FuncDecl)
			if !ok || fd.Body == nil {
				continue
			}
			fn := cflFuncName(fd)
			cflWalk(fset, fd.Body, nil, func(n ast.Node, guard []string) {
				g := strings.Join(guard, " && ")
				switch x := n.(type) {
				case *ast.CallExpr:
					if sel, ok := x.Fun.(*ast.SelectorExpr); ok && sel.Sel.Name == "stopExchanges" {
						arg := ""
						if len(x.Args) > 0 {
							arg = cflOneLine(fset, x.Args[0])
						}
						stops = append(stops, cflRow{"", fname, int(x.Pos()), []string{fn, cflOneLine(fset, sel.X), arg, g}, 0})
					}
					if fn == "messageExchangeSet.stopExchanges" {
						notifies = append(notifies, cflRow{"", fname, int(x.Pos()), []string{fn, cflOneLine(fset, x), g}, 0})
					}
					if fn == "Connection.dispatchInbound" {
						inGo, inSel := false, false
						for _, e := range guard {
							if e == "go" {
								inGo = true
							}
							if inGo && e == "select" {
								inSel = true
							}
						}
						if inGo && inSel {
							watches = append(watches, cflRow{"", fname, int(x.Pos()), []string{fn, cflOneLine(fset, x), g}, 0})
						}
					}
				case *ast.AssignStmt:
					if fn == "messageExchangeSet.stopExchanges" {
						notifies = append(notifies, cflRow{"", fname, int(x.Pos()), []string{fn, cflOneLine(fset, x), g}, 0})
					}
				case *ast.ReturnStmt:
					if fn == "messageExchangeSet.stopExchanges" {
						notifies = append(notifies, cflRow{"", fname, int(x.Pos()), []string{fn, cflOneLine(fset, x), g}, 0})
					}
				}
			})
		}
	}
	t.cflEmit3(w, "stop_sites", "(function, receiver, argument, guard) of every stopExchanges call", stops, 4)
	t.cflEmit3(w, "notify_sites", "(function, statement, guard): calls, assignments and returns of messageExchangeSet.stopExchanges", notifies, 3)
	t.cflEmit3(w, "watch_sites", "(function, call, guard): calls inside the select of the goroutine started by Connection.dispatchInbound", watches, 3)
	return len(stops), len(notifies), len(watches)
}
