package main

import (
	"bytes"
	"fmt"
	"go/ast"
	"path/filepath"
	"strings"

	"golang.org/x/tools/go/packages"
)

// C10 -- "helper layers above the arg writers that can complete a response on an error path".
//
// The response grammar (one terminal frame per request id) rests on a contract between the layers
// above reqres.go: Close() of the LAST arg writer is not a resource release, it finishes the
// response (flushes the final fragment without the more-fragments flag and runs doneSending), and
// InboundCallResponse.SendSystemError is guarded by response.err only, which a COMPLETED response
// leaves nil.  So every layer that reports a failure to its caller -- who answers it with a system
// error -- must not have closed the last arg writer on that path.  The layers of the library are
// regenerated here as TRACES of the calls they make on the writer / the response (Target.CallTrace,
// calltrace.go: the trace variable is threaded statement by statement), into Gen/GenArgHelper.v,
// and proved equal to the hand models of Model/ArgHelper.v in Proofs/ArgHelperP.v:
//
//	argWriteHelperWrite     arguments.go ArgWriteHelper.write (behind Write / WriteJSON of raw, json,
//	                        hyperbahn, user handlers): 1 = f() ran, 2 = writer.Close() ran
//	argReadHelperRead       arguments.go ArgReadHelper.read: 1 = f(), 2 = EnsureEmpty, 3 = reader.Close()
//	errorHandlerFuncHandle  handlers.go ErrorHandlerFunc.Handle: 1 = the handler function ran,
//	                        2 = call.Response().SendSystemError(err)
//	rawWriteResponse        raw/handler.go WriteResponse: 9 SendSystemError, 8 SetApplicationError,
//	                        2 helper write of arg2, 3 helper write of arg3
//	jsonHandleWriteTail     json/handler.go handler.Handle, the statements after the error
//	                        conversion: 2 helper WriteJSON of arg2, 3 helper WriteJSON of arg3
//	thriftHandleWriteTail   thrift/server.go Server.handle, the statements after the arg3 writer was
//	                        obtained: 1 resp.Write(protocol), 2 SendSystemError, 3 writer.Close()
//
// An edit that closes the writer on the failed path (`err := f(); if cerr := w.writer.Close(); ...`,
// `defer w.writer.Close()`, a Close() added in the error branch), sends the system error AND goes on
// to Close, or calls SendSystemError without an error changes the generated trace (or leaves the
// subset: the definition is not generated) and Proofs/ArgHelperP.v stops compiling.
func init() {
	mPackages = append(mPackages, "./raw")
	res := "list Z * bool"
	targets = append(targets, []Target{
		{Func: "ArgWriteHelper.write", Out: "argWriteHelperWrite", File: "GenArgHelper", Soft: true,
			Params: "(werr ferr cerr : bool) (tr : list Z)", Ret: res, RetFmt: "(tr, %s)",
			Hints: map[string]string{
				"w.err != nil":     "werr",
				"w.err":            "true",
				"f()":              "ferr",
				"err != nil":       "err",
				"err == nil":       "(negb err)", // (not used by the code as it is: lets a restructured variant translate, so that the proof shows the difference)
				"w.writer.Close()": "cerr",
			},
			CallTrace: map[string]string{"f()": "1", "w.writer.Close()": "2"}},
		{Func: "ArgReadHelper.read", Out: "argReadHelperRead", File: "GenArgHelper", Soft: true,
			Params: "(rerr ferr eerr cerr : bool) (tr : list Z)", Ret: res, RetFmt: "(tr, %s)",
			Hints: map[string]string{
				"r.err != nil": "rerr",
				"r.err":        "true",
				"f()":          "ferr",
				"err != nil":   "err",
				"err == nil":   "(negb err)",
				"argreader.EnsureEmpty(r.reader, \"read arg\")": "eerr",
				"r.reader.Close()": "cerr",
			},
			CallTrace: map[string]string{"f()": "1", "argreader.EnsureEmpty(r.reader, \"read arg\")": "2", "r.reader.Close()": "3"}},
		{Func: "ErrorHandlerFunc.Handle", Out: "errorHandlerFuncHandle", File: "GenArgHelper", Soft: true,
			Params: "(herr : bool) (tr : list Z)", Ret: "list Z", NakedRetW: "tr",
			Hints:     map[string]string{"f(ctx, call)": "herr", "err != nil": "err"},
			SHints:    map[string]string{"if GetSystemErrorCode(err) == ErrCodeUnexpected {...": ""},
			CallTrace: map[string]string{"f(ctx, call)": "1", "call.Response().SendSystemError(err)": "2"}},
		{Func: "WriteResponse", Pkg: "raw", Out: "rawWriteResponse", File: "GenArgHelper", Soft: true,
			Params: "(has_sys is_err serr aerr e2 e3 : bool) (tr : list Z)", Ret: res, RetFmt: "(tr, %s)",
			Hints: map[string]string{
				"resp.SystemErr != nil":                    "has_sys",
				"response.SendSystemError(resp.SystemErr)": "serr",
				"resp.IsErr":                     "is_err",
				"response.SetApplicationError()": "aerr",
				"err != nil":                     "err",
				"tchannel.NewArgWriter(response.Arg2Writer()).Write(resp.Arg2)": "e2",
				"tchannel.NewArgWriter(response.Arg3Writer()).Write(resp.Arg3)": "e3",
			},
			CallTrace: map[string]string{
				"response.SendSystemError(resp.SystemErr)":                      "9",
				"response.SetApplicationError()":                                "8",
				"tchannel.NewArgWriter(response.Arg2Writer()).Write(resp.Arg2)": "2",
				"tchannel.NewArgWriter(response.Arg3Writer()).Write(resp.Arg3)": "3",
			}},
		{Func: "handler.Handle", Pkg: "json", Out: "jsonHandleWriteTail", File: "GenArgHelper", Soft: true,
			Params: "(e2 e3 : bool) (tr : list Z)", Ret: res, RetFmt: "(tr, %s)",
			Stmt: "if err != nil {", After: true, Rest: "",
			Hints: map[string]string{
				"err != nil": "err",
				"tchannel.NewArgWriter(call.Response().Arg2Writer()).WriteJSON(ctx.ResponseHeaders())": "e2",
				"tchannel.NewArgWriter(call.Response().Arg3Writer()).WriteJSON(res)":                   "e3",
			},
			CallTrace: map[string]string{
				"tchannel.NewArgWriter(call.Response().Arg2Writer()).WriteJSON(ctx.ResponseHeaders())": "2",
				"tchannel.NewArgWriter(call.Response().Arg3Writer()).WriteJSON(res)":                   "3",
			}},
		{Func: "Server.handle", Pkg: "thrift", Out: "thriftHandleWriteTail", File: "GenArgHelper", Soft: true,
			Params: "(serr cerr : bool) (tr : list Z)", Ret: res, RetFmt: "(tr, %s)",
			Stmt: "defer thriftProtocolPool.Put(wp)", After: true, Rest: "",
			Hints: map[string]string{
				"resp.Write(wp.protocol)": "serr",
				"err != nil":              "err",
				"writer.Close()":          "cerr",
			},
			CallTrace: map[string]string{
				"resp.Write(wp.protocol)":              "1",
				"call.Response().SendSystemError(err)": "2",
				"writer.Close()":                       "3",
			}},
	}...)
}

// ---------------------------------------------------------------- census of the helper layers
//
// Gen/GenHelperCensus.v: for every function of the layers between a handler and the arg writers
// (func literals inside it included) the number of calls of a method named Close, SendSystemError
// and Flush.  The trace targets above cover the decision structure of six functions; the census
// covers what they cannot see: a Close() / SendSystemError() added in a closure (the f() of
// WriteJSON), in a caller (raw.Wrap, json.Register, thrift Server.Handle) or in a part of a
// function outside the translated region.  Proved equal to the table of Model/ArgHelper.v.
var helperCensusFuncs = [][2]string{
	{"tchannel", "ArgWriteHelper.write"}, {"tchannel", "ArgWriteHelper.Write"}, {"tchannel", "ArgWriteHelper.WriteJSON"},
	{"tchannel", "ArgReadHelper.read"}, {"tchannel", "ArgReadHelper.Read"}, {"tchannel", "ArgReadHelper.ReadJSON"},
	{"tchannel", "ErrorHandlerFunc.Handle"}, {"tchannel", "HandlerFunc.Handle"},
	{"tchannel", "InboundCallResponse.Arg2Writer"}, {"tchannel", "InboundCallResponse.Arg3Writer"},
	{"raw", "WriteResponse"}, {"raw", "Wrap"}, {"raw", "ReadArgs"},
	{"json", "handler.Handle"}, {"json", "Register"},
	{"thrift", "Server.handle"}, {"thrift", "Server.Handle"}, {"thrift", "WriteStruct"}, {"thrift", "WriteHeaders"},
	{"http", "tchanResponseWriter.writeHeaders"}, {"http", "tchanResponseWriter.Write"}, {"http", "tchanResponseWriter.finish"},
}

func emitHelperCensus(byName map[string]*packages.Package, repo, out string) {
	var w bytes.Buffer
	fmt.Fprintf(&w, header, repo)
	fmt.Fprintf(&w, "\n(* rows: [calls of .Close(); calls of .SendSystemError(..); calls of .Flush()] per function, in this order:\n")
	trs := map[string]*translator{}
	rows := []string{}
	for i, pf := range helperCensusFuncs {
		p := byName[pf[0]]
		if p == nil {
			fmt.Fprintf(&w, "   %2d  %s.%s: package not loaded\n", i, pf[0], pf[1])
			rows = append(rows, "[-1; -1; -1]")
			continue
		}
		if trs[pf[0]] == nil {
			trs[pf[0]] = newTranslator(p)
		}
		fd := trs[pf[0]].funcs[pf[1]]
		if fd == nil || fd.Body == nil {
			fmt.Fprintf(&w, "   %2d  %s.%s: NOT FOUND\n", i, pf[0], pf[1])
			rows = append(rows, "[-1; -1; -1]")
			continue
		}
		n := map[string]int{}
		ast.Inspect(fd.Body, func(m ast.Node) bool {
			if call, ok := m.(*ast.CallExpr); ok {
				if sel, ok := call.Fun.(*ast.SelectorExpr); ok {
					n[sel.Sel.Name]++
				}
			}
			return true
		})
		fmt.Fprintf(&w, "   %2d  %s %s\n", i, pf[0], pf[1])
		rows = append(rows, fmt.Sprintf("[%d; %d; %d]", n["Close"], n["SendSystemError"], n["Flush"]))
	}
	fmt.Fprintf(&w, "*)\nDefinition helper_census : list (list Z) :=\n  [ %s ].\n", strings.Join(rows, ";\n    "))
	writeIfChanged(filepath.Join(out, "GenHelperCensus.v"), w.Bytes())
	fmt.Printf("go2v: GenHelperCensus.v %d functions\n", len(rows))
}
