package main

// C18: the relay's LAZY frame parsers (relay_messages.go) that build what a RelayHost is
// offered: newLazyCallReq (offsets of arg2 / arg3 in the frame, the arg scheme, the routing
// headers; Arg2Iterator / arg2 / arg3 slice the frame with these offsets), newLazyCallRes
// (arg scheme, arg2 bytes) and the frame helpers they use.  Translated WHOLE by the method
// translator (loops included) into Gen/GenC18Lazy.v; Proofs/C18LazyGenP.v proves the result
// equal to the hand model (Model/RelayLazy.v lazy_callreq, Model/C18LazyRes.v) -- in
// particular every successful return is one on which rbuf.Err() was nil AFTER the last read.
//
// Hints (printed in the generated file):
//
//	the message-type guard at the top of both parsers panics for a frame of another type
//	(callers dispatch on the type first): dropped;
//	cr.arg2Appends = cr.arg2InitialBuf[:0] (an empty append buffer, not part of the parse): dropped;
//	cr.HasMoreFragments() / f.Payload of a lazyCallReq go through the embedded *Frame (promoted
//	field): written out as the field path.
func init() {
	guard := func(name string) string {
		return "if msgType := f.Header.messageType; msgType != " + name + " {..."
	}
	// bytes.Equal(a, b) on two []byte values (nil and empty are equal); the package variables
	// _xxxKeyBytes = []byte(<const>) are the generated constants of Gen/GenConsts.v
	keyHints := map[string]string{
		"call:bytes.Equal":         "c18_bytes_equal",
		"_argSchemeKeyBytes":       "(Some c_ArgScheme)",
		"_callerNameKeyBytes":      "(Some c_CallerName)",
		"_routingDelegateKeyBytes": "(Some c_RoutingDelegate)",
		"_routingKeyKeyBytes":      "(Some c_RoutingKey)",
		"_tchanThriftValueBytes":   "(Some c_Thrift)",
		// an error value that is not nil (fmt.Errorf never returns nil) and differs from the others
		`fmt.Errorf("read response frame: %v", err)`: "c18_e_readResponseFrame",
		// the right operand of `rbuf.BytesRemaining() == 0 && ...`: pure form of the translated
		// hasMoreFragments / lazyCallReq.HasMoreFragments (equal to them whenever f.Payload is
		// not empty: Proofs/C18LazyGenP.v has_more_tie; a frame's Payload is the whole array)
		"hasMoreFragments(f)":   "(c18_has_more (Frame_Payload f))",
		"cr.HasMoreFragments()": "(c18_has_more (Frame_Payload (lazyCallReq_Frame cr)))",
	}
	mfiles = append(mfiles, &MFile{
		Name:    "GenC18Lazy",
		Imports: []string{"Gen.GenConsts", "Gen.GenTypedBuf", "Gen.GenMessages", "Gen.GenCodecs", "Model.C18GoLib"},
		ErrVars: []string{"tchannel.errUnknownChecksumType", "tchannel.errArg2ThriftOnly"},
		Structs: []*StructRep{
			{Type: "tchannel.Frame", Only: []string{"Header", "Payload"}},
			{Type: "tchannel.lazyCallReq", Only: []string{"Frame", "checksumTypeOffset", "arg2StartOffset", "arg2EndOffset",
				"arg3StartOffset", "caller", "method", "delegate", "key", "as", "checksumType", "isArg2Fragmented"}},
			{Type: "tchannel.lazyCallRes", Only: []string{"Frame", "as", "arg2IsFragmented", "arg2Payload"}},
		},
		Targets: []*MTarget{
			mt("tchannel.FrameHeader.PayloadSize"),
			mt("tchannel.Frame.SizedPayload"),
			mt("tchannel.ChecksumType.ChecksumSize"),
			mt("tchannel.hasMoreFragments"),
			mt("tchannel.lazyCallReq.HasMoreFragments"),
			{Func: "tchannel.newLazyCallReq", Hints: keyHints, NilRecZero: true,
				// rbuf.BytesRead() = initialLength - len(remaining); initialLength (not represented in
				// Gen/GenTypedBuf.v) is the length of the slice NewReadBuffer was given: f.SizedPayload()
				CallHints: map[string]string{"typed.ReadBuffer.BytesRead": "(c18_BytesRead (Frame_SizedPayload f))"},
				SHints: map[string]string{
					guard("messageTypeCallReq"):              "",
					"cr.arg2Appends = cr.arg2InitialBuf[:0]": "",
				}},
			{Func: "tchannel.newLazyCallRes", Hints: keyHints,
				SHints: map[string]string{guard("messageTypeCallRes"): ""}},
			mt("tchannel.lazyCallReq.arg2"),
			mt("tchannel.lazyCallReq.arg3"),
			mt("tchannel.lazyCallReq.Arg2StartOffset"),
			mt("tchannel.lazyCallReq.Arg2EndOffset"),
			{Func: "tchannel.lazyCallReq.Arg2Iterator", Hints: map[string]string{
				"_tchanThriftValueBytes":                            "(Some c_Thrift)",
				"call:bytes.Equal":                                  "c18_bytes_equal",
				`fmt.Errorf("%v: got %s", errArg2ThriftOnly, f.as)`: "e_tchannel_errArg2ThriftOnly",
			}},
			mt("tchannel.lazyCallRes.Arg2"),
			mt("tchannel.lazyCallRes.ArgScheme"),
			mt("tchannel.lazyCallRes.Arg2IsFragmented"),
		},
	})
}
